#!/usr/bin/env python3
"""Summarise seeded/MATRIX.json and neutral/MATRIX.json per round (markdown), for DESIGN.md §0.6."""
import json, re, collections
sm = json.load(open('/verif/seeded/MATRIX.json'))
nm = json.load(open('/verif/neutral/MATRIX.json'))
def rnd_seed(k):
    n = int(re.search(r'-m(\d+)', k).group(1))
    return (n - 1) // 3 + 1 if n <= 18 else 7 if n <= 20 else 8
def rnd_neu(k):
    n = int(re.search(r'-r(\d+)', k).group(1))
    return (n - 1) // 4 + 1 if n <= 20 else 7
print("| seeded changes | confirmed | reported by own property | reported only by another property (where measured) | not reported by own property |")
print("|---|---|---|---|---|")
tot = collections.Counter()
for r in range(1, 9):
    ks = [k for k in sm if rnd_seed(k) == r and sm[k].get('applies')]
    own = [k for k in ks if k.split('-')[0] in sm[k]['properties']]
    other = [k for k in ks if k not in own and sm[k]['properties']]
    miss = [k for k in ks if not sm[k]['properties']]
    print(f"| round {r} | {len(ks)} | {len(own)} | {len(other)} {'('+', '.join(sorted(other))+')' if other else ''} | {len(miss)} {'('+', '.join(sorted(miss))+')' if miss else ''} |")
    tot['n'] += len(ks); tot['own'] += len(own); tot['other'] += len(other); tot['miss'] += len(miss)
print(f"| all | {tot['n']} | {tot['own']} | {tot['other']} | {tot['miss']} |")
na = [k for k in sm if not sm[k].get('applies')]
if na: print("\npatches that no longer apply:", ', '.join(sorted(na)))
print()
print("| refactorings | confirmed | silent | undecided | false alarm |")
print("|---|---|---|---|---|")
tot = collections.Counter()
for r in (1, 2, 3, 4, 5, 7):
    ks = [k for k in nm if rnd_neu(k) == r and nm[k] != 'patch-does-not-apply']
    c = collections.Counter(nm[k] for k in ks)
    al = sorted(k for k in ks if nm[k] == 'alarm'); un = sorted(k for k in ks if nm[k] == 'undecided')
    print(f"| round {r} | {len(ks)} | {c['silent']} | {c['undecided']} {'('+', '.join(un)+')' if un else ''} | {c['alarm']} {'('+', '.join(al)+')' if al else ''} |")
    tot['n'] += len(ks); tot['silent'] += c['silent']; tot['undecided'] += c['undecided']; tot['alarm'] += c['alarm']
print(f"| all | {tot['n']} | {tot['silent']} | {tot['undecided']} | {tot['alarm']} |")
na = [k for k in nm if nm[k] == 'patch-does-not-apply']
if na: print("\npatches that no longer apply:", ', '.join(sorted(na)))
