#!/bin/sh
# usage: dump_patched.sh <patch> <pkg> <recv> <name> [...]: SSA of a function in a scratch copy of /repo with the patch applied
P=$(readlink -f "$1"); shift
W=$(mktemp -d /tmp/dumpp.XXXXXX)
rsync -a --exclude .git /repo/ "$W/"
cd "$W" && git init -q . >/dev/null 2>&1 && git apply --whitespace=nowarn "$P" && REPO="$W" /verif/bin/verifchk dump "$@" 2>&1 | grep -v "^WARNING"
rm -rf "$W"
