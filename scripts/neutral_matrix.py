#!/usr/bin/env python3
"""Apply every confirmed behaviour-preserving refactoring (/verif/neutral/<id>/patch.diff) to a scratch copy of
/repo and list what the checker reports: every line is a false alarm (or an undecided obligation) to remove.
usage: neutral_matrix.py [ids...]   (-v prints witnesses)"""
import json, os, re, shutil, subprocess, sys, tempfile, glob
from concurrent.futures import ThreadPoolExecutor
args = [a for a in sys.argv[1:] if not a.startswith('-')]
verbose = '-v' in sys.argv
own_only = '--own' in sys.argv
dirs = sorted(d for d in glob.glob('/verif/neutral/C*') if os.path.isdir(d) and (not args or os.path.basename(d) in args))
def one(d):
    nid = os.path.basename(d)
    w = tempfile.mkdtemp(prefix='neumx.')
    try:
        subprocess.run(f"rsync -a --exclude .git /repo/ {w}/", shell=True, check=True, capture_output=True)
        p = subprocess.run(f"cd {w} && git apply --whitespace=nowarn {d}/patch.diff", shell=True, capture_output=True, text=True)
        if p.returncode != 0:
            return nid, None
        sel_props = f" --props {nid.split('-')[0]}" if own_only else ""
        p = subprocess.run(f"/verif/bin/verifchk all --repo {w}{sel_props} 2>&1", shell=True, capture_output=True, text=True)
        out = []
        lines = p.stdout.splitlines()
        for i, l in enumerate(lines):
            m = re.match(r'VIOLATION property=(C\d+)', l)
            if m:
                rule = lines[i+1].strip() if i+1 < len(lines) else ''
                wit = lines[i+2].strip() if i+2 < len(lines) else ''
                out.append((m.group(1), rule, wit))
            elif re.match(r'(BROKEN|UNDECIDED|VACUOUS)', l):
                out.append(('-', l, ''))
        return nid, out
    finally:
        shutil.rmtree(w, ignore_errors=True)
with ThreadPoolExecutor(int(os.environ.get('WORKERS', '6'))) as ex:
    res = list(ex.map(one, dirs))
clean = 0
for nid, out in res:
    if out is None:
        print(f"{nid}: patch does not apply"); continue
    if not out:
        clean += 1; continue
    seen = set()
    for prop, rule, wit in out:
        key = re.sub(r' at \S+$', '', rule)
        if key in seen: continue
        seen.add(key)
        print(f"{nid}: {prop} {rule[:230]}")
        if verbose and wit: print(f"      {wit[:400]}")
print(f"{clean}/{len(res)} silent")
# reference matrix for the thorough tier: per refactoring, "silent", "undecided" or "alarm"
if True:
    mx = json.load(open('/verif/neutral/MATRIX.json')) if args and os.path.exists('/verif/neutral/MATRIX.json') else {}
    mx = {k: v for k, v in mx.items() if os.path.isdir('/verif/neutral/' + k)}
    for nid, out in res:
        if out is None:
            mx[nid] = "patch-does-not-apply"
        elif not out:
            mx[nid] = "silent"
        elif all(p == '-' for p, _, _ in out):
            mx[nid] = "undecided"
        else:
            mx[nid] = "alarm"
    json.dump(mx, open('/verif/neutral/MATRIX.json', 'w'), indent=1, sort_keys=True)
