#!/bin/bash
# usage: rule_on_patch.sh <dir with patch.diff> RULE... : run single rules on a scratch worktree with the patch applied
set -u
d=$(mktemp -d /tmp/rop.XXXXXX)
git -C /repo worktree add --detach "$d/r" HEAD >/dev/null 2>&1
if ! git -C "$d/r" apply --whitespace=nowarn "$(realpath "$1")/patch.diff" 2>/dev/null; then
  git -C "$d/r" apply --3way --whitespace=nowarn "$(realpath "$1")/patch.diff" >/dev/null 2>&1 || echo "PATCH DOES NOT APPLY"
fi
shift
REPO="$d/r" ${VERIFCHK:-/verif/bin/verifchk} rule "$@" 2>&1 | grep -v "^WARNING"
git -C /repo worktree remove --force "$d/r"; rm -rf "$d"
