#!/usr/bin/env python3
"""Confirm a seeded mutation: demo passes on the clean tree, suite passes with the patch, demo fails with it.
usage: verify_seed.py <dir with patch.diff demo_test.go meta.json> <seed id> [base-commit]
Writes /verif/seeded/<seed id>/{patch.diff,demo_test.go,meta.json} when confirmed."""
import json, os, shutil, subprocess, sys, tempfile
src, sid = sys.argv[1], sys.argv[2]
base = sys.argv[3] if len(sys.argv) > 3 else "HEAD"
env = dict(os.environ, GOFLAGS="-mod=mod", GOPROXY="off", GOSUMDB="off", GOTOOLCHAIN="local", GOWORK="off")
def run(cmd, cwd):
    p = subprocess.run(cmd, cwd=cwd, env=env, shell=True, capture_output=True, text=True, errors="replace")
    return p.returncode, (p.stdout + p.stderr)
w = tempfile.mkdtemp(prefix="vseed.")
try:
    rc, out = run(f"git -C /repo worktree add --detach {w}/r {base}", "/")
    assert rc == 0, out
    r = f"{w}/r"
    os.makedirs(f"{r}/test/seeded")
    shutil.copy(f"{src}/demo_test.go", f"{r}/test/seeded/demo_test.go")
    rc_clean, out_clean = run("go test -vet=off -count=1 ./test/seeded/", r)
    os.remove(f"{r}/test/seeded/demo_test.go")
    rc_ap, out_ap = run(f"git apply --whitespace=nowarn {os.path.abspath(src)}/patch.diff", r)
    res = {"base": subprocess.run(f"git -C /repo rev-parse --short {base}", shell=True, capture_output=True, text=True).stdout.strip(),
           "patch_applies": rc_ap == 0, "demo_passes_without_patch": rc_clean == 0}
    if rc_ap == 0:
        os.rmdir(f"{r}/test/seeded")
        rc_suite, out_suite = run("go test -vet=off -count=1 ./...", r)
        os.makedirs(f"{r}/test/seeded", exist_ok=True)
        shutil.copy(f"{src}/demo_test.go", f"{r}/test/seeded/demo_test.go")
        rc_demo, out_demo = run("go test -vet=off -count=1 ./test/seeded/", r)
        res.update({"suite_passes_with_patch": rc_suite == 0, "demo_fails_with_patch": rc_demo != 0,
                    "demo_failure_excerpt": "\n".join([l for l in out_demo.splitlines() if "FAIL" in l or "Error" in l or "panic" in l or "---" in l][:8])})
        if rc_suite != 0:
            res["suite_output"] = out_suite[-1500:]
        # rebased patch (against the verified base) for later application
        run("git checkout go.sum 2>/dev/null; rm -rf test/seeded", r)
        rc_d, diff = run("git add -N . && git diff -- . ':(exclude)go.sum' ':(exclude)go.mod'", r)
        res["_diff"] = diff
    else:
        res["apply_error"] = out_ap[:500]
    ok = res.get("patch_applies") and res.get("demo_passes_without_patch") and res.get("suite_passes_with_patch") and res.get("demo_fails_with_patch")
    res["confirmed"] = bool(ok)
    diff = res.pop("_diff", None)
    print(sid, json.dumps({k: v for k, v in res.items() if k not in ("suite_output",)}))
    if ok:
        d = f"/verif/seeded/{sid}"
        os.makedirs(d, exist_ok=True)
        open(f"{d}/patch.diff", "w").write(diff)
        shutil.copy(f"{src}/demo_test.go", f"{d}/demo_test.go")
        meta = json.load(open(f"{src}/meta.json"))
        meta["author"] = "independent sub-agent given only the property text and a scratch worktree"
        meta["confirmed_by_main"] = {"ran": "scripts/verify_seed.py: demo on clean worktree of /repo@" + res["base"] + " (pass), `go test -vet=off -count=1 ./...` with the patch (pass), demo with the patch (fail)", **{k: v for k, v in res.items() if k != "suite_output"}}
        json.dump(meta, open(f"{d}/meta.json", "w"), indent=1)
finally:
    run(f"git -C /repo worktree remove --force {w}/r", "/")
    shutil.rmtree(w, ignore_errors=True)
