#!/usr/bin/env python3
"""Apply every confirmed seeded change (/verif/seeded/<id>/patch.diff) to a scratch copy of /repo and record
which properties' checks report a violation. Writes /verif/seeded/MATRIX.json and prints a table.
The scratch copies live under a temp dir outside /repo and /verif and are removed."""
import json, os, re, shutil, subprocess, sys, tempfile, glob
from concurrent.futures import ThreadPoolExecutor
seeds = sorted(d for d in glob.glob('/verif/seeded/C*') if os.path.isdir(d))
own_only = '--own' in sys.argv
only = [a for a in sys.argv[1:] if not a.startswith('-')]
def one(d):
    sid = os.path.basename(d)
    w = tempfile.mkdtemp(prefix='seedmx.')
    try:
        subprocess.run(f"rsync -a --exclude .git /repo/ {w}/ && cd {w} && git init -q . && git add -A", shell=True, check=True, capture_output=True)
        p = subprocess.run(f"cd {w} && git apply --whitespace=nowarn {d}/patch.diff", shell=True, capture_output=True, text=True)
        if p.returncode != 0:
            return sid, {"applies": False, "error": p.stderr[:200]}
        sel_props = f" --props {sid.split('-')[0]}" if own_only else ""
        p = subprocess.run(f"/verif/bin/verifchk all --repo {w}{sel_props} 2>&1", shell=True, capture_output=True, text=True)
        props, rules, other = set(), set(), []
        for l in p.stdout.splitlines():
            m = re.match(r'VIOLATION property=(C\d+)', l)
            if m: props.add(m.group(1))
            m = re.match(r'\s+rule=(\S+) construct=(\S+)', l)
            if m: rules.add(m.group(1))
            if re.match(r'(BROKEN|UNDECIDED|VACUOUS)', l): other.append(l[:200])
        return sid, {"applies": True, "properties": sorted(props), "rules": sorted(rules), "not_decided": other, **({"own_only": True} if own_only else {})}
    finally:
        shutil.rmtree(w, ignore_errors=True)
sel = [d for d in seeds if not only or os.path.basename(d) in only]
with ThreadPoolExecutor(int(os.environ.get('WORKERS', '6'))) as ex:
    res = dict(ex.map(one, sel))
out = '/verif/seeded/MATRIX.json'
old = json.load(open(out)) if os.path.exists(out) and only else {}
old.update(res)
json.dump(old, open(out, 'w'), indent=1, sort_keys=True)
for sid in sorted(res):
    r = res[sid]
    own = sid.split('-')[0]
    if not r.get("applies"):
        print(f"{sid}: PATCH DOES NOT APPLY {r.get('error')}")
        continue
    mark = "caught" if own in r["properties"] else ("caught-elsewhere" if r["properties"] else "MISSED")
    print(f"{sid}: {mark} props={','.join(r['properties'])} rules={','.join(r['rules'])} {('+%d undecided' % len(r['not_decided'])) if r['not_decided'] else ''}")
