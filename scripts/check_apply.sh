#!/bin/bash
# lists the seeded / neutral patches that do not apply to /repo's current working tree
for d in /verif/seeded/C* /verif/neutral/C*; do
  [ -f "$d/patch.diff" ] || continue
  git -C /repo apply --check --whitespace=nowarn "$d/patch.diff" 2>/dev/null || echo "${d#/verif/}"
done
