#!/usr/bin/env python3
"""Confirm a behaviour-preserving refactoring and run the checker on it.
usage: verify_neutral.py <dir with patch.diff demo_test.go meta.json> <id>
Confirmed = patch applies to /repo HEAD, existing suite passes, its own demo passes before and after, and every
seeded-change demonstration under /verif/seeded/*/demo_test.go (each a regression test of one property) still passes.
Writes /verif/neutral/<id>/{patch.diff,demo_test.go,meta.json} when confirmed, and prints what the checker says."""
import json, os, shutil, subprocess, sys, tempfile, glob, re
src, nid = sys.argv[1], sys.argv[2]
env = dict(os.environ, GOFLAGS="-mod=mod", GOPROXY="off", GOSUMDB="off", GOTOOLCHAIN="local", GOWORK="off")
def run(cmd, cwd):
    p = subprocess.run(cmd, cwd=cwd, env=env, shell=True, capture_output=True, text=True)
    return p.returncode, (p.stdout + p.stderr)
w = tempfile.mkdtemp(prefix="vneu.")
res = {}
try:
    rc, out = run(f"git -C /repo worktree add --detach {w}/r HEAD", "/")
    assert rc == 0, out
    r = f"{w}/r"
    os.makedirs(f"{r}/test/seeded")
    shutil.copy(f"{src}/demo_test.go", f"{r}/test/seeded/demo_test.go")
    rc_clean, out_clean = run("go test -vet=off -count=1 ./test/seeded/", r)
    rc_ap, out_ap = run(f"git apply --whitespace=nowarn {os.path.abspath(src)}/patch.diff", r)
    res = {"patch_applies": rc_ap == 0, "demo_passes_without_patch": rc_clean == 0}
    if rc_ap == 0:
        for d in sorted(glob.glob('/verif/seeded/C*')):
            if os.path.exists(f"{d}/demo_test.go"):
                t = f"{r}/test/seeded_{os.path.basename(d).replace('-','_')}"
                os.makedirs(t)
                shutil.copy(f"{d}/demo_test.go", f"{t}/demo_test.go")
        rc_all, out_all = run("go test -vet=off -count=1 ./...", r)
        res["suite_own_demo_and_all_property_demos_pass_with_patch"] = rc_all == 0
        if rc_all != 0:
            res["failures"] = [l for l in out_all.splitlines() if l.startswith("FAIL") or l.startswith("--- FAIL")][:10]
        run("git checkout go.sum 2>/dev/null; rm -rf test/seeded test/seeded_*", r)
        rc_d, diff = run("git add -N . && git diff -- . ':(exclude)go.sum' ':(exclude)go.mod'", r)
        if os.environ.get("SKIP_CHECKER"):
            p = subprocess.CompletedProcess("", 0, "", "")
        else:
            p = subprocess.run(f"/verif/bin/verifchk all --repo {r} 2>&1", shell=True, capture_output=True, text=True)
        alarms = []
        lines = p.stdout.splitlines()
        for i, l in enumerate(lines):
            m = re.match(r'VIOLATION property=(C\d+)', l)
            if m:
                rule = lines[i+1].strip() if i+1 < len(lines) else ''
                wit = lines[i+2].strip() if i+2 < len(lines) else ''
                alarms.append(f"{m.group(1)} {rule} :: {wit}"[:600])
            elif re.match(r'(BROKEN|UNDECIDED|VACUOUS)', l):
                alarms.append(l[:600])
        res["checker_alarms"] = alarms
    ok = res.get("patch_applies") and res.get("demo_passes_without_patch") and res.get("suite_own_demo_and_all_property_demos_pass_with_patch")
    res["confirmed_neutral"] = bool(ok)
    print(nid, json.dumps(res, indent=1))
    if ok:
        d = f"/verif/neutral/{nid}"
        os.makedirs(d, exist_ok=True)
        open(f"{d}/patch.diff", "w").write(diff)
        shutil.copy(f"{src}/demo_test.go", f"{d}/demo_test.go")
        meta = json.load(open(f"{src}/meta.json"))
        meta["author"] = "independent sub-agent given only the property text and a scratch worktree"
        meta["confirmed_by_main"] = {k: v for k, v in res.items() if k != "checker_alarms"}
        json.dump(meta, open(f"{d}/meta.json", "w"), indent=1)
finally:
    run(f"git -C /repo worktree remove --force {w}/r", "/")
    shutil.rmtree(w, ignore_errors=True)
