#!/bin/bash
# Rewrites /verif/evidence/<id>.json with the registered QUICK command of every property, one process per
# property (what a fresh restore runs; `all -evidence` in one process would count the functions entered by the
# runs of the other properties as well). usage: regen_evidence.sh [parallel jobs, default 3]
cd /verif || exit 2
export GOFLAGS=-mod=mod GOPROXY=off GOSUMDB=off GOTOOLCHAIN=local GOWORK=off VERIF_SEED=1 VERIF_TIER=quick
jq -r '.checks[]|.property_id+"\t"+.quick_cmd' MANIFEST.json | xargs -P ${1:-3} -d '\n' -I{} sh -c 'id=$(printf "%s" "{}" | cut -f1); cmd=$(printf "%s" "{}" | cut -f2); s=$(date +%s); out=$($cmd 2>&1); rc=$?; echo "$id exit=$rc $(( $(date +%s) - s ))s $(printf "%s" "$out" | grep -c "^VIOLATION")v"'
