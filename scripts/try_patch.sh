#!/bin/sh
# usage: try_patch.sh <patch.diff> [props]
# Applies a patch to a scratch copy of /repo's HEAD working tree and prints what the checker reports.
P=$(readlink -f "$1"); PROPS=${2:-}
W=$(mktemp -d /tmp/trypatch.XXXXXX)
rsync -a --exclude .git /repo/ "$W/"
cd "$W" && git init -q . >/dev/null 2>&1 && git add -A >/dev/null 2>&1
if ! git apply --whitespace=nowarn "$P" 2>/tmp/trypatch.err; then
  echo "PATCH-DOES-NOT-APPLY: $(head -3 /tmp/trypatch.err | tr '\n' ' ')"; rm -rf "$W"; exit 3
fi
if [ -n "$PROPS" ]; then
  /verif/bin/verifchk all --repo "$W" --props "$PROPS" 2>&1 | grep -E '^(VIOLATION|  rule=|  witness|BROKEN|UNDECIDED|VACUOUS)' 
else
  /verif/bin/verifchk all --repo "$W" 2>&1 | grep -E '^(VIOLATION|  rule=|  witness|BROKEN|UNDECIDED|VACUOUS)'
fi
rm -rf "$W"
