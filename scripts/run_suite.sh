#!/bin/sh
# Runs the repository's own test suite on DIR (default /repo) without touching its go.sum.
DIR=${1:-/repo}
d=$(mktemp -d)
cp "$DIR/go.mod" "$DIR/go.sum" "$d/"
cd "$DIR" && GOFLAGS=-mod=mod GOPROXY=off GOSUMDB=off GOWORK=off GOTOOLCHAIN=local go test -modfile="$d/go.mod" -vet=off -count=1 ./... 
rc=$?
rm -rf "$d"
exit $rc
