#!/bin/bash
# usage: rules_on_many.sh "RULE RULE..." dir1 dir2 ... : run rules on each patch dir (6 in parallel), print non-discharged obligations
rules="$1"; shift
mkdir -p /tmp/rom
printf '%s\n' "$@" | xargs -P 6 -I{} sh -c 'n=$(basename {}); /verif/scripts/rule_on_patch.sh {} '"$rules"' > /tmp/rom/$n.txt 2>&1'
for d in "$@"; do n=$(basename $d); echo "== $n"; grep -v "obligations$" /tmp/rom/$n.txt | cut -c1-420; done
rm -rf /tmp/rom
