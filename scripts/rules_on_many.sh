#!/bin/bash
# usage: rules_on_many.sh "RULE RULE..." dir1 dir2 ... : run rules on each patch dir (WORKERS in parallel, default 6), print non-discharged obligations
rules="$1"; shift
T=$(mktemp -d /tmp/rom.XXXXXX)
export T
printf '%s\n' "$@" | xargs -P ${WORKERS:-6} -I{} sh -c 'n=$(basename {}); /verif/scripts/rule_on_patch.sh {} '"$rules"' > $T/$n.txt 2>&1'
for d in "$@"; do n=$(basename $d); echo "== $n"; grep -v "obligations$" $T/$n.txt | cut -c1-420; done
rm -rf "$T"
