package main

import (
	"fmt"
	"go/token"
	"go/types"
	"sort"
	"strings"

	"golang.org/x/tools/go/ssa"
)

// ---------------------------------------------------------------------------------------------
// OWN — Variant tag/payload agreement, host-type mapping, array ownership, equality (C20)
// ---------------------------------------------------------------------------------------------

// tag → Go type of the payload
var tagPayload = map[string]string{
	"Integer": "int", "Long": "int64", "Float": "float32", "Double": "float64", "String": "string", "Boolean": "bool",
	"DateTime": "time.Time", "TimeSpan": "time.Duration", "Array": "[]*variants.Variant",
}

// host Go type → (tag, payload type) for SetAsObject / NewVariant
var hostOracle = map[string][2]string{
	"int": {"Integer", "int"}, "int32": {"Integer", "int"}, "uint": {"Long", "int64"}, "uint32": {"Long", "int64"}, "int64": {"Long", "int64"},
	"float32": {"Float", "float32"}, "float64": {"Double", "float64"}, "bool": {"Boolean", "bool"}, "string": {"String", "string"},
	"time.Time": {"DateTime", "time.Time"}, "time.Duration": {"TimeSpan", "time.Duration"}, "[]*variants.Variant": {"Array", "[]*variants.Variant"},
}

func init() {
	register(&Rule{ID: "OWN.tagtype", Floor: 18,
		Doc: "at every writer of a Variant the stored tag and the Go type of the stored payload are a pair of the table (Integer:int, Long:int64, Float:float32, Double:float64, String:string, Boolean:bool, DateTime:time.Time, TimeSpan:time.Duration, Array:[]*Variant, Null:nil), and each As<T> accessor asserts exactly the payload type of its tag — this is what makes a tag test sufficient for the accessor",
		Run: ruleOwnTagType})
	register(&Rule{ID: "OWN.hosttype", Floor: 13,
		Doc: "the host-type switch of SetAsObject maps int·int32→Integer(int), uint·uint32·int64→Long(int64), float32→Float, float64→Double, bool, string, time.Time, time.Duration, []*Variant→Array (own copy), *Variant→(its tag and payload), nil→Null, anything else→Object",
		Run: ruleOwnHostType})
	register(&Rule{ID: "OWN.array", Floor: 4,
		Doc: "a list payload stored into a Variant is always the variant's own: a slice made and filled in the same function, or derived from the variant's existing payload; a payload taken over from another variant by reference is never a list (the list is copied) — so later changes to the caller's list, to a clone or to an assignee are invisible",
		Run: ruleOwnArray})
	register(&Rule{ID: "OWN.equals", Floor: 3,
		Doc: "Equals depends on both tags and both payloads, treats nil payloads symmetrically and compares lists element-wise; Clone returns a freshly allocated variant; growth loops append Null variants until the index fits",
		Run: ruleOwnEquals})
}

func goTypeName(t types.Type) string {
	s := t.String()
	s = strings.ReplaceAll(s, "github.com/pip-services3-gox/pip-services3-expressions-gox/", "")
	return s
}

func ruleOwnTagType(c *Ctx) []*Obligation {
	o := newObl("OWN.tagtype")
	names := c.variantTypeNames()
	for _, fn := range c.AllLibFuncs() {
		n := 0
		for _, b := range fn.Blocks {
			for _, in := range b.Instrs {
				st, ok := in.(*ssa.Store)
				if !ok {
					continue
				}
				fa, ok := st.Addr.(*ssa.FieldAddr)
				if !ok || fieldName(fa.X.Type(), fa.Field) != "typ" || !strings.HasSuffix(fa.X.Type().String(), "variants.Variant") {
					continue
				}
				n++
				k, isK := constInt(st.Val)
				tag := "<copied>"
				if isK {
					tag = names[k]
				}
				key := fmt.Sprintf("%s#typ:=%s#%d", c.FuncKey(fn), tag, n)
				// payload stored to the same variant: the closest store to .value of the same base that dominates this
				// store or follows it in the same block
				var payload *ssa.Store
				for _, b2 := range fn.Blocks {
					for _, in2 := range b2.Instrs {
						s2, ok := in2.(*ssa.Store)
						if !ok {
							continue
						}
						fa2, ok := s2.Addr.(*ssa.FieldAddr)
						if !ok || fieldName(fa2.X.Type(), fa2.Field) != "value" || fa2.X != fa.X {
							continue
						}
						if b2 == b || b2.Dominates(b) {
							if payload == nil || payload.Block().Dominates(b2) {
								payload = s2
							}
						}
					}
				}
				if !isK {
					// tag copied from another variant: the payload must be copied from the same variant (or rebuilt from it)
					src := fieldBase(st.Val, "typ")
					okPair := false
					if payload != nil && src != nil {
						if fieldBase(payload.Val, "value") == src {
							okPair = true
						}
					}
					o.check(okPair, key, c.Pos(st.Pos()), "tag and payload are copied together from the same source variant", "a tag is copied from another variant without its payload: tag and payload disagree, and the accessor of the tag panics")
					continue
				}
				want, known := tagPayload[tag]
				switch {
				case tag == "Null":
					good := payload == nil || isNilConst(payload.Val) || fn.Name() == "SetAsObject"
					o.check(good, key, c.Pos(st.Pos()), "Null with a nil payload", "Null tag stored with a non-nil payload")
				case tag == "Object":
					o.ok(key, c.Pos(st.Pos()), "Object: any host value")
				case !known:
					o.bad(key, c.Pos(st.Pos()), "unknown tag "+tag)
				default:
					got := c.payloadTypesAt(fn, fa.X, payload, b)
					good := len(got) > 0
					for _, g := range got {
						if g != want {
							good = false
						}
					}
					if good {
						o.ok(key, c.Pos(st.Pos()), fmt.Sprintf("tag %s with payload %s", tag, want))
					} else {
						o.bad(key, c.Pos(st.Pos()), fmt.Sprintf("tag %s is stored with a payload of type %v, the accessor As%s asserts %s: reading the value back panics", tag, got, strings.TrimPrefix(variantAccessor[tag], "As"), want))
					}
				}
			}
		}
	}
	// accessors assert the table's type
	for tag, acc := range variantAccessor {
		want, ok := tagPayload[tag]
		if !ok || acc == "AsArray" || acc == "AsObject" {
			continue
		}
		fn := c.MustFunc(pkgVariants, "Variant", acc)
		key := c.FuncKey(fn) + "#asserts#" + want
		good := false
		for _, b := range fn.Blocks {
			for _, in := range b.Instrs {
				if ta, ok := in.(*ssa.TypeAssert); ok && goTypeName(ta.AssertedType) == want {
					good = true
				}
			}
		}
		o.check(good, key, c.Pos(fn.Pos()), acc+" asserts "+want, acc+" does not assert the payload type "+want+" that the setter of tag "+tag+" stores")
	}
	return o.list
}

// fieldBase: v is a load of <base>.field → base.
func fieldBase(v ssa.Value, field string) ssa.Value {
	ld, ok := v.(*ssa.UnOp)
	if !ok || ld.Op != token.MUL {
		return nil
	}
	fa, ok := ld.X.(*ssa.FieldAddr)
	if !ok || fieldName(fa.X.Type(), fa.Field) != field {
		return nil
	}
	return fa.X
}

// payloadTypesAt: the dynamic Go types the payload of `base` can have at block b, given the last dominating
// payload store and, when that store copies an interface parameter, the type-switch guards at b.
func (c *Ctx) payloadTypesAt(fn *ssa.Function, base ssa.Value, payload *ssa.Store, b *ssa.BasicBlock) []string {
	if payload == nil {
		return nil
	}
	if mi, ok := payload.Val.(*ssa.MakeInterface); ok {
		return []string{goTypeName(mi.X.Type())}
	}
	// the interface value itself was stored: narrow by comma-ok type assertions guarding b
	var out []string
	for d := b; d != nil; d = d.Idom() {
		all := len(d.Preds) > 0
		var ts []string
		for _, p := range d.Preds {
			ifi, ok := p.Instrs[len(p.Instrs)-1].(*ssa.If)
			if !ok || p.Succs[0] != d {
				all = false
				break
			}
			ex, ok := ifi.Cond.(*ssa.Extract)
			if !ok {
				all = false
				break
			}
			ta, ok := ex.Tuple.(*ssa.TypeAssert)
			if !ok || !ta.CommaOk || ta.X != payload.Val {
				all = false
				break
			}
			ts = append(ts, goTypeName(ta.AssertedType))
		}
		if all {
			out = ts
			break
		}
	}
	return out
}

func ruleOwnHostType(c *Ctx) []*Obligation {
	o := newObl("OWN.hosttype")
	fn := c.MustFunc(pkgVariants, "Variant", "SetAsObject")
	names := c.variantTypeNames()
	param := fn.Params[1]
	seen := map[string]bool{}
	for _, b := range fn.Blocks {
		ifi, ok := b.Instrs[len(b.Instrs)-1].(*ssa.If)
		if !ok {
			continue
		}
		ex, ok := ifi.Cond.(*ssa.Extract)
		if !ok {
			continue
		}
		ta, ok := ex.Tuple.(*ssa.TypeAssert)
		if !ok || !ta.CommaOk || ta.X != ssa.Value(param) {
			continue
		}
		host := goTypeName(ta.AssertedType)
		body := b.Succs[0]
		key := c.FuncKey(fn) + "#host#" + host
		seen[host] = true
		// tag and payload stored in the body
		tag, payloadT, copied := "", host, false
		for _, d := range dominatedBlocks(body) {
			if len(body.Preds) > 1 {
				// multi-type case body: payload type is not refined
			}
			for _, in := range d.Instrs {
				st, ok := in.(*ssa.Store)
				if !ok {
					continue
				}
				fa, ok := st.Addr.(*ssa.FieldAddr)
				if !ok || fa.X != ssa.Value(fn.Params[0]) {
					continue
				}
				switch fieldName(fa.X.Type(), fa.Field) {
				case "typ":
					if k, isK := constInt(st.Val); isK {
						tag = names[k]
					} else {
						tag = "<source tag>"
					}
				case "value":
					if mi, ok := st.Val.(*ssa.MakeInterface); ok {
						payloadT = goTypeName(mi.X.Type())
						if _, isMS := mi.X.(*ssa.MakeSlice); isMS {
							copied = true
						}
					} else {
						payloadT = "<source payload>"
					}
				}
			}
		}
		if len(body.Preds) > 1 {
			payloadT = "one of several host types (case list without conversion)"
		}
		if host == "*variants.Variant" {
			o.check(tag == "<source tag>", key, c.Pos(ifi.Pos()), "a *Variant argument hands over its own tag and payload", "a *Variant argument must hand over its tag and payload; found tag "+tag)
			continue
		}
		want, known := hostOracle[host]
		if !known {
			o.bad(key, c.Pos(ifi.Pos()), "host type "+host+" has a case of its own that the statement does not define (it must be treated as Object)")
			continue
		}
		if tag == want[0] && payloadT == want[1] && (host != "[]*variants.Variant" || copied) {
			o.ok(key, c.Pos(ifi.Pos()), fmt.Sprintf("%s → %s with payload %s", host, tag, payloadT))
		} else {
			extra := ""
			if host == "[]*variants.Variant" && !copied {
				extra = " (the list must be copied)"
			}
			o.bad(key, c.Pos(ifi.Pos()), fmt.Sprintf("host type %s is stored as tag %s with payload %s, expected tag %s with payload %s%s", host, tag, payloadT, want[0], want[1], extra))
		}
	}
	var hosts []string
	for h := range hostOracle {
		hosts = append(hosts, h)
	}
	hosts = append(hosts, "*variants.Variant")
	sort.Strings(hosts)
	for _, h := range hosts {
		if !seen[h] {
			o.bad(c.FuncKey(fn)+"#host#"+h, c.Pos(fn.Pos()), "host type "+h+" is no longer recognised: such values become Object variants")
		}
	}
	// nil → Null, default → Object
	nullOK, objOK := false, false
	for _, b := range fn.Blocks {
		for _, in := range b.Instrs {
			st, ok := in.(*ssa.Store)
			if !ok {
				continue
			}
			fa, ok := st.Addr.(*ssa.FieldAddr)
			if !ok || fieldName(fa.X.Type(), fa.Field) != "typ" {
				continue
			}
			k, isK := constInt(st.Val)
			if !isK {
				continue
			}
			if names[k] == "Null" {
				for _, g := range guardsAt(b) {
					cond, truth := g.atom()
					if bo, ok := cond.(*ssa.BinOp); ok && bo.X == ssa.Value(param) && isNilConst(bo.Y) && (bo.Op == token.EQL) == truth {
						nullOK = true
					}
				}
			}
			if names[k] == "Object" {
				objOK = true
			}
		}
	}
	o.check(nullOK, c.FuncKey(fn)+"#host#nil", c.Pos(fn.Pos()), "nil → Null", "a nil host value is not stored as Null")
	o.check(objOK, c.FuncKey(fn)+"#host#default", c.Pos(fn.Pos()), "anything else → Object", "unrecognised host values are not stored as Object")
	return o.list
}

func ruleOwnArray(c *Ctx) []*Obligation {
	o := newObl("OWN.array")
	names := c.variantTypeNames()
	isVariantSlice := func(t types.Type) bool { return goTypeName(t) == "[]*variants.Variant" }
	for _, fn := range c.methodsOfType(pkgVariants, "Variant") {
		n := 0
		for _, b := range fn.Blocks {
			for _, in := range b.Instrs {
				st, ok := in.(*ssa.Store)
				if !ok {
					continue
				}
				fa, ok := st.Addr.(*ssa.FieldAddr)
				if !ok || fieldName(fa.X.Type(), fa.Field) != "value" {
					continue
				}
				// (1) a list payload
				if mi, ok := st.Val.(*ssa.MakeInterface); ok && isVariantSlice(mi.X.Type()) {
					n++
					key := fmt.Sprintf("%s#list-payload#%d", c.FuncKey(fn), n)
					src := mi.X
					own := false
					why := ""
					switch x := src.(type) {
					case *ssa.MakeSlice:
						// filled by copy(dst, src) in this function
						for _, r := range *x.Referrers() {
							if call, ok := r.(*ssa.Call); ok {
								if bi, ok := call.Call.Value.(*ssa.Builtin); ok && bi.Name() == "copy" && call.Call.Args[0] == ssa.Value(x) {
									own, why = true, "fresh slice filled by copy"
								}
							}
						}
						if !own {
							own, why = true, "fresh slice"
						}
					case *ssa.Slice:
						if _, isAlloc := x.X.(*ssa.Alloc); isAlloc {
							own, why = true, "fresh literal"
						}
					}
					if !own {
						// derived from the variant's own payload (append / element store on the asserted payload)
						if backwardSliceHas(src, func(v ssa.Value) bool {
							ta, ok := v.(*ssa.TypeAssert)
							if !ok {
								return false
							}
							return fieldBase(ta.X, "value") == fa.X
						}) && !backwardSliceHas(src, func(v ssa.Value) bool {
							p, ok := v.(*ssa.Parameter)
							return ok && isVariantSlice(p.Type())
						}) {
							own, why = true, "grown from the variant's own payload"
						}
					}
					if own {
						o.ok(key, c.Pos(st.Pos()), why)
					} else {
						o.bad(key, c.Pos(st.Pos()), "the variant stores a list it does not own (the caller's slice or a reslice of it): later changes to the caller's list show through the variant, and writes through the variant reach the caller's list")
					}
					continue
				}
				// (2) payload taken over from another variant by reference
				if srcBase := fieldBase(st.Val, "value"); srcBase != nil && srcBase != fa.X {
					n++
					key := fmt.Sprintf("%s#payload-by-reference#%d", c.FuncKey(fn), n)
					// accepted if the Array case is handled: a later (dominated) call SetAsArray on the same receiver under typ == Array of the source,
					// or this store is under a guard excluding Array
					handled := false
					for _, ci := range allCalls(fn) {
						f := calleeObj(ci.Common())
						if f == nil || f.Name() != "SetAsArray" || callRecv(ci.Common()) != fa.X {
							continue
						}
						if !(b.Dominates(ci.Block()) || b == ci.Block()) {
							continue
						}
						for _, g := range guardsAt(ci.Block()) {
							cond, truth := g.atom()
							bo, ok := cond.(*ssa.BinOp)
							if !ok || (bo.Op == token.EQL) != truth {
								continue
							}
							k, isK := constInt(bo.Y)
							if !isK || names[k] != "Array" {
								continue
							}
							if fieldBase(bo.X, "typ") != nil {
								handled = true
							}
							if call, ok := bo.X.(*ssa.Call); ok {
								if g2 := calleeObj(call.Common()); g2 != nil && g2.Name() == "Type" {
									handled = true
								}
							}
						}
					}
					for _, g := range guardsAt(b) {
						cond, truth := g.atom()
						if bo, ok := cond.(*ssa.BinOp); ok {
							if k, isK := constInt(bo.Y); isK && names[k] == "Array" && (bo.Op == token.EQL) != truth {
								handled = true
							}
						}
					}
					if handled {
						o.ok(key, c.Pos(st.Pos()), "payload taken over by reference, lists excepted (copied through SetAsArray)")
					} else {
						o.bad(key, c.Pos(st.Pos()), "the payload of another variant is taken over by reference, lists included: the two variants share one backing array, so an indexed write through a clone or an assignee changes the original")
					}
				}
			}
		}
	}
	return o.list
}

func ruleOwnEquals(c *Ctx) []*Obligation {
	o := newObl("OWN.equals")
	eq := c.MustFunc(pkgVariants, "Variant", "Equals")
	{
		key := c.FuncKey(eq) + "#depends-on-tags-and-payloads"
		deps := map[string]bool{}
		for _, b := range eq.Blocks {
			for _, in := range b.Instrs {
				if ld, ok := in.(*ssa.UnOp); ok && ld.Op == token.MUL {
					if fa, ok := ld.X.(*ssa.FieldAddr); ok {
						who := "other"
						if fa.X == ssa.Value(eq.Params[0]) {
							who = "self"
						}
						// is this load used (transitively) by a branch or a return?
						if valueFeedsControlOrReturn(ld) {
							deps[who+"."+fieldName(fa.X.Type(), fa.Field)] = true
						}
					}
				}
			}
		}
		var miss []string
		for _, d := range []string{"self.typ", "other.typ", "self.value", "other.value"} {
			if !deps[d] {
				miss = append(miss, d)
			}
		}
		o.check(len(miss) == 0, key, c.Pos(eq.Pos()), "the result depends on both tags and both payloads", "Equals ignores "+strings.Join(miss, ", ")+": variants that differ there compare equal (or equal ones compare different)")
	}
	{
		key := c.FuncKey(eq) + "#nil-argument"
		good := false
		for _, ret := range returnsOf(eq) {
			if k, ok := ret.Results[0].(*ssa.Const); ok && k.Value != nil && k.Value.String() == "false" {
				for _, g := range guardsAt(ret.Block()) {
					cond, truth := g.atom()
					if bo, ok := cond.(*ssa.BinOp); ok && bo.X == ssa.Value(eq.Params[1]) && isNilConst(bo.Y) && (bo.Op == token.EQL) == truth {
						good = true
					}
				}
			}
		}
		o.check(good, key, c.Pos(eq.Pos()), "Equals(nil) is false", "Equals dereferences a nil argument")
	}
	// Clone returns fresh memory
	{
		clone := c.MustFunc(pkgVariants, "Variant", "Clone")
		key := c.FuncKey(clone) + "#fresh"
		e := c.newEffectEngine([]*ssa.Function{clone})
		o.check(e.allocator[clone], key, c.Pos(clone.Pos()), "Clone returns a newly allocated variant on every path", "Clone can return a variant that is not newly allocated (the receiver itself or a shared package-level object): mutating the 'clone' changes the original or every other such clone")
	}
	// growth loops
	for _, spec := range []struct {
		name string
		op   token.Token
	}{{"SetByIndex", token.LEQ}, {"SetLength", token.LSS}} {
		fn := c.MustFunc(pkgVariants, "Variant", spec.name)
		key := c.FuncKey(fn) + "#grows-with-nulls"
		loopOK, nullOK := false, false
		names := c.variantTypeNames()
		for _, b := range fn.Blocks {
			if ifi, ok := b.Instrs[len(b.Instrs)-1].(*ssa.If); ok {
				if bo, ok := ifi.Cond.(*ssa.BinOp); ok && bo.Op == spec.op {
					if call, ok := bo.X.(*ssa.Call); ok {
						if bi, ok := call.Call.Value.(*ssa.Builtin); ok && bi.Name() == "len" && paramIndex(fn, bo.Y) >= 0 {
							loopOK = true
						}
					}
				}
			}
			for _, in := range b.Instrs {
				if st, ok := in.(*ssa.Store); ok {
					if fa, ok := st.Addr.(*ssa.FieldAddr); ok && fieldName(fa.X.Type(), fa.Field) == "typ" {
						if _, isAlloc := fa.X.(*ssa.Alloc); isAlloc {
							if k, isK := constInt(st.Val); isK && names[k] == "Null" {
								nullOK = true
							}
						}
					}
				}
			}
		}
		o.check(loopOK && nullOK, key, c.Pos(fn.Pos()), "appends fresh Null variants while the index does not fit", spec.name+" does not grow the list with fresh Null variants until the requested index/length fits")
	}
	return o.list
}

// valueFeedsControlOrReturn: v reaches an If condition or a Return operand through def-use.
func valueFeedsControlOrReturn(v ssa.Value) bool {
	seen := map[ssa.Value]bool{}
	var walk func(x ssa.Value) bool
	walk = func(x ssa.Value) bool {
		if seen[x] {
			return false
		}
		seen[x] = true
		refs := x.Referrers()
		if refs == nil {
			return false
		}
		for _, r := range *refs {
			switch u := r.(type) {
			case *ssa.If, *ssa.Return:
				return true
			case ssa.Value:
				if walk(u) {
					return true
				}
			}
		}
		return false
	}
	return walk(v)
}
