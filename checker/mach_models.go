package main

import (
	"fmt"
	"go/types"
	"math"
	"strconv"
	"strings"
	"unicode"
	"unicode/utf8"

	"golang.org/x/tools/go/ssa"
)

// Meanings of the standard-library functions the library calls, for constant arguments. With a
// symbolic argument the result is a symbol (or a string with symbolic parts), never a guess.

func fnFullName(fn *ssa.Function) string {
	if r := fn.Signature.Recv(); r != nil {
		t := r.Type()
		if p, ok := t.(*types.Pointer); ok {
			t = p.Elem()
		}
		if n, ok := t.(*types.Named); ok && n.Obj().Pkg() != nil {
			return n.Obj().Pkg().Path() + "." + n.Obj().Name() + "." + fn.Name()
		}
	}
	if fn.Pkg != nil {
		return fn.Pkg.Pkg.Path() + "." + fn.Name()
	}
	if o := fn.Object(); o != nil && o.Pkg() != nil {
		return o.Pkg().Path() + "." + fn.Name()
	}
	return fn.Name()
}

func allStrings(args []mv) ([]string, bool) {
	var out []string
	for _, a := range args {
		s, ok := a.(string)
		if !ok {
			return nil, false
		}
		out = append(out, s)
	}
	return out, true
}

func (m *mach) builtinModel(fn *ssa.Function, args []mv) (mv, bool) {
	name := fnFullName(fn)
	switch {
	case strings.HasPrefix(name, "strings.Builder."):
		return m.builderModel(fn.Name(), args)
	case strings.HasPrefix(name, "strings."):
		return m.stringsModel(fn.Name(), args)
	case strings.HasPrefix(name, "unicode/utf8."):
		switch fn.Name() {
		case "RuneCountInString":
			if s, ok := args[0].(string); ok {
				return int64(utf8.RuneCountInString(s)), true
			}
		case "RuneLen":
			if r, ok := args[0].(int64); ok {
				return int64(utf8.RuneLen(rune(r))), true
			}
		case "ValidString":
			if s, ok := args[0].(string); ok {
				return utf8.ValidString(s), true
			}
		case "DecodeRuneInString":
			if s, ok := args[0].(string); ok {
				r, n := utf8.DecodeRuneInString(s)
				return mTuple{int64(r), int64(n)}, true
			}
		case "DecodeLastRuneInString":
			if s, ok := args[0].(string); ok {
				r, n := utf8.DecodeLastRuneInString(s)
				return mTuple{int64(r), int64(n)}, true
			}
		}
	case strings.HasPrefix(name, "unicode."):
		if r, ok := args[0].(int64); ok && len(args) == 1 {
			switch fn.Name() {
			case "IsDigit":
				return unicode.IsDigit(rune(r)), true
			case "IsLetter":
				return unicode.IsLetter(rune(r)), true
			case "IsSpace":
				return unicode.IsSpace(rune(r)), true
			case "IsUpper":
				return unicode.IsUpper(rune(r)), true
			case "IsLower":
				return unicode.IsLower(rune(r)), true
			case "IsControl":
				return unicode.IsControl(rune(r)), true
			case "IsPunct":
				return unicode.IsPunct(rune(r)), true
			case "ToUpper":
				return int64(unicode.ToUpper(rune(r))), true
			case "ToLower":
				return int64(unicode.ToLower(rune(r))), true
			}
		}
	case strings.HasPrefix(name, "strconv."):
		switch fn.Name() {
		case "Itoa":
			if n, ok := args[0].(int64); ok {
				return strconv.Itoa(int(n)), true
			}
		case "FormatInt":
			if n, ok := args[0].(int64); ok {
				if b, ok := args[1].(int64); ok {
					return strconv.FormatInt(n, int(b)), true
				}
			}
		case "Quote":
			if s, ok := args[0].(string); ok {
				return strconv.Quote(s), true
			}
		}
	case strings.HasPrefix(name, "math."):
		if len(args) == 1 {
			if x, ok := args[0].(float64); ok {
				switch fn.Name() {
				case "Abs":
					return math.Abs(x), true
				case "Floor":
					return math.Floor(x), true
				case "Ceil":
					return math.Ceil(x), true
				case "Sqrt":
					return math.Sqrt(x), true
				case "Trunc":
					return math.Trunc(x), true
				case "Round":
					return math.Round(x), true
				case "IsNaN":
					return math.IsNaN(x), true
				}
			}
		}
	case name == "reflect.TypeOf":
		if i, ok := args[0].(mIface); ok {
			return &mSym{name: "reflect.TypeOf(" + i.t.String() + ")", nonNil: true, rt: i.t}, true
		}
		if _, isNil := args[0].(mNilT); isNil {
			return mNil, true
		}
	case name == "errors.New" || name == "fmt.Errorf":
		return mIface{t: types.NewPointer(types.Universe.Lookup("error").Type()), v: &mSym{name: "error(" + mRender(args[0]) + ")", nonNil: true}}, true
	case name == "fmt.Sprint" || name == "fmt.Sprintf" || name == "fmt.Sprintln":
		return &mSym{name: fn.Name() + "(…)", typ: types.Typ[types.String]}, true
	}
	return nil, false
}

func (m *mach) stringsModel(name string, args []mv) (mv, bool) {
	if ss, ok := allStrings(args); ok {
		switch name {
		case "ToUpper":
			return strings.ToUpper(ss[0]), true
		case "ToLower":
			return strings.ToLower(ss[0]), true
		case "TrimSpace":
			return strings.TrimSpace(ss[0]), true
		case "HasPrefix":
			return strings.HasPrefix(ss[0], ss[1]), true
		case "HasSuffix":
			return strings.HasSuffix(ss[0], ss[1]), true
		case "Contains":
			return strings.Contains(ss[0], ss[1]), true
		case "ContainsAny":
			return strings.ContainsAny(ss[0], ss[1]), true
		case "Index":
			return int64(strings.Index(ss[0], ss[1])), true
		case "LastIndex":
			return int64(strings.LastIndex(ss[0], ss[1])), true
		case "IndexAny":
			return int64(strings.IndexAny(ss[0], ss[1])), true
		case "Count":
			return int64(strings.Count(ss[0], ss[1])), true
		case "EqualFold":
			return strings.EqualFold(ss[0], ss[1]), true
		case "Compare":
			return int64(strings.Compare(ss[0], ss[1])), true
		case "Trim":
			return strings.Trim(ss[0], ss[1]), true
		case "TrimLeft":
			return strings.TrimLeft(ss[0], ss[1]), true
		case "TrimRight":
			return strings.TrimRight(ss[0], ss[1]), true
		case "TrimPrefix":
			return strings.TrimPrefix(ss[0], ss[1]), true
		case "TrimSuffix":
			return strings.TrimSuffix(ss[0], ss[1]), true
		case "ReplaceAll":
			return strings.ReplaceAll(ss[0], ss[1], ss[2]), true
		case "Title":
			return strings.Title(ss[0]), true
		case "Split":
			var arr []mv
			for _, p := range strings.Split(ss[0], ss[1]) {
				arr = append(arr, p)
			}
			return mSlice{arr}, true
		case "Fields":
			arr := []mv{}
			for _, p := range strings.Fields(ss[0]) {
				arr = append(arr, p)
			}
			return mSlice{arr}, true
		}
	}
	switch name {
	case "IndexRune", "ContainsRune", "IndexByte":
		if s, ok := args[0].(string); ok {
			if r, ok := args[1].(int64); ok {
				switch name {
				case "IndexRune":
					return int64(strings.IndexRune(s, rune(r))), true
				case "IndexByte":
					return int64(strings.IndexByte(s, byte(r))), true
				default:
					return strings.ContainsRune(s, rune(r)), true
				}
			}
		}
	case "Repeat":
		if s, ok := args[0].(string); ok {
			if n, ok := args[1].(int64); ok && n >= 0 && n < 1000 {
				return strings.Repeat(s, int(n)), true
			}
		}
	case "Replace":
		if len(args) == 4 {
			if ss, ok := allStrings(args[:3]); ok {
				if n, ok := args[3].(int64); ok {
					return strings.Replace(ss[0], ss[1], ss[2], int(n)), true
				}
			}
		}
	case "Join":
		if sl, ok := args[0].(mSlice); ok {
			if sep, ok := args[1].(string); ok {
				var parts []mv
				for i, e := range sl.arr {
					if i > 0 {
						parts = append(parts, sep)
					}
					parts = append(parts, e)
				}
				return catStr(parts...), true
			}
		}
		if _, ok := args[0].(mNilT); ok {
			return "", true
		}
	case "ToUpper", "ToLower", "TrimSpace":
		if s, ok := args[0].(*mSym); ok {
			return &mSym{name: name + "(" + s.name + ")", typ: types.Typ[types.String]}, true
		}
	}
	return nil, false
}

// builderModel: a strings.Builder variable holds an *mBuilder in its slot once written.
func (m *mach) builderModel(name string, args []mv) (mv, bool) {
	slot, ok := args[0].(*mv)
	if !ok || slot == nil {
		return nil, false
	}
	b, isB := (*slot).(*mBuilder)
	if !isB {
		b = &mBuilder{}
		*slot = b
	}
	cur := func() mv { return catStr(b.parts...) }
	constLen := func() (int64, bool) {
		n := 0
		for _, p := range b.parts {
			s, ok := p.(string)
			if !ok {
				return 0, false
			}
			n += len(s)
		}
		return int64(n), true
	}
	switch name {
	case "WriteString":
		b.parts = appendPart(b.parts, args[1])
		if c, ok := args[1].(*mCat); ok {
			b.parts = b.parts[:len(b.parts)-1]
			for _, p := range c.parts {
				b.parts = appendPart(b.parts, p)
			}
		}
		n := m.builtinLen(args[1])
		return mTuple{n, mNil}, true
	case "WriteRune":
		if r, ok := args[1].(int64); ok {
			s := string(rune(r))
			b.parts = appendPart(b.parts, s)
			return mTuple{int64(len(s)), mNil}, true
		}
		b.parts = append(b.parts, args[1])
		return mTuple{&mSym{name: "runelen", typ: types.Typ[types.Int]}, mNil}, true
	case "WriteByte":
		if r, ok := args[1].(int64); ok {
			b.parts = appendPart(b.parts, string([]byte{byte(r)}))
			return mNil, true
		}
		b.parts = append(b.parts, args[1])
		return mNil, true
	case "String":
		return cur(), true
	case "Len":
		if n, ok := constLen(); ok {
			return n, true
		}
		return &mSym{name: "len(" + catRender(cur()) + ")", typ: types.Typ[types.Int]}, true
	case "Reset":
		b.parts = nil
		return mNil, true
	case "Grow":
		return mNil, true
	}
	return nil, false
}

func (m *mach) builtinLen(v mv) mv {
	if s, ok := v.(string); ok {
		return int64(len(s))
	}
	return &mSym{name: "len(" + mRender(v) + ")", typ: types.Typ[types.Int]}
}

var _ = fmt.Sprint
