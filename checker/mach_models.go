package main

import (
	"bytes"
	"fmt"
	"go/types"
	"math"
	"reflect"
	"regexp"
	"sort"
	"strconv"
	"strings"
	"time"
	"unicode"
	"unicode/utf8"

	"golang.org/x/tools/go/ssa"
)

// Meanings of the standard-library functions the library calls, for constant arguments. With a
// symbolic argument the result is a symbol (or a string with symbolic parts), never a guess.

func fnFullName(fn *ssa.Function) string {
	if r := fn.Signature.Recv(); r != nil {
		t := r.Type()
		if p, ok := t.(*types.Pointer); ok {
			t = p.Elem()
		}
		if n, ok := t.(*types.Named); ok && n.Obj().Pkg() != nil {
			return n.Obj().Pkg().Path() + "." + n.Obj().Name() + "." + fn.Name()
		}
	}
	if fn.Pkg != nil {
		return fn.Pkg.Pkg.Path() + "." + fn.Name()
	}
	if o := fn.Object(); o != nil && o.Pkg() != nil {
		return o.Pkg().Path() + "." + fn.Name()
	}
	return fn.Name()
}

func allStrings(args []mv) ([]string, bool) {
	var out []string
	for _, a := range args {
		s, ok := a.(string)
		if !ok {
			return nil, false
		}
		out = append(out, s)
	}
	return out, true
}

func (m *mach) builtinModel(fn *ssa.Function, args []mv) (mv, bool) {
	name := fnFullName(fn)
	switch {
	case strings.HasPrefix(name, "strings.Builder."):
		return m.builderModel(fn.Name(), args)
	case name == "regexp.MustCompile" || name == "regexp.Compile" || name == "regexp.MustCompilePOSIX" || name == "regexp.CompilePOSIX":
		// a constant pattern: the host's own regexp package decides whether it compiles (Must* panics if not)
		if pat, ok := args[0].(string); ok {
			var re *regexp.Regexp
			var err error
			if strings.HasSuffix(name, "POSIX") {
				re, err = regexp.CompilePOSIX(pat)
			} else {
				re, err = regexp.Compile(pat)
			}
			must := strings.Contains(name, "Must")
			if err != nil {
				if must {
					m.throw(m.sym("regexp: "+err.Error(), nil), "%s(%q): %s", name, pat, err.Error())
				}
				return mTuple{mNil, mIface{t: types.Universe.Lookup("error").Type(), v: &mSym{name: "regexp error", nonNil: true}}}, true
			}
			var slot mv = &mRegexp{r: re}
			if must {
				return &slot, true
			}
			return mTuple{&slot, mNil}, true
		}
	case name == "regexp.QuoteMeta":
		if s0, ok := args[0].(string); ok {
			return regexp.QuoteMeta(s0), true
		}
	case name == "regexp.MatchString":
		if ss, ok := allStrings(args); ok {
			b, err := regexp.MatchString(ss[0], ss[1])
			if err != nil {
				return mTuple{false, mIface{t: types.Universe.Lookup("error").Type(), v: &mSym{name: "regexp error", nonNil: true}}}, true
			}
			return mTuple{b, mNil}, true
		}
	case strings.HasPrefix(name, "regexp.Regexp."):
		if p, ok := args[0].(*mv); ok && p != nil {
			if rx, ok := (*p).(*mRegexp); ok {
				switch fn.Name() {
				case "MatchString":
					if s0, ok := args[1].(string); ok {
						return rx.r.MatchString(s0), true
					}
				case "FindString":
					if s0, ok := args[1].(string); ok {
						return rx.r.FindString(s0), true
					}
				case "FindStringIndex":
					if s0, ok := args[1].(string); ok {
						loc := rx.r.FindStringIndex(s0)
						if loc == nil {
							return mNil, true
						}
						return mSlice{[]mv{int64(loc[0]), int64(loc[1])}}, true
					}
				case "ReplaceAllString":
					if ss, ok := allStrings(args[1:]); ok {
						return rx.r.ReplaceAllString(ss[0], ss[1]), true
					}
				case "ReplaceAllLiteralString":
					if ss, ok := allStrings(args[1:]); ok {
						return rx.r.ReplaceAllLiteralString(ss[0], ss[1]), true
					}
				case "String":
					return rx.r.String(), true
				}
			}
		}
	case strings.HasPrefix(name, "time.Duration."):
		// a duration is its count of nanoseconds: the unit accessors on a constant
		if d, ok := args[0].(int64); ok {
			switch fn.Name() {
			case "Nanoseconds":
				return d, true
			case "Microseconds":
				return d / 1e3, true
			case "Milliseconds":
				return d / 1e6, true
			case "Seconds":
				return time.Duration(d).Seconds(), true
			case "Minutes":
				return time.Duration(d).Minutes(), true
			case "Hours":
				return time.Duration(d).Hours(), true
			case "String":
				return time.Duration(d).String(), true
			case "Abs":
				return int64(time.Duration(d).Abs()), true
			}
		}
	case name == "strings.NewReplacer":
		var pairs []string
		switch l := args[0].(type) {
		case mSlice:
			for _, e := range l.arr {
				s, ok := e.(string)
				if !ok {
					return nil, false
				}
				pairs = append(pairs, s)
			}
		case mNilT:
		default:
			return nil, false
		}
		if len(pairs)%2 != 0 {
			m.throw(m.sym("strings.NewReplacer: odd argument count", nil), "strings.NewReplacer: odd argument count")
		}
		var slot mv = &mReplacer{r: strings.NewReplacer(pairs...)}
		return &slot, true
	case strings.HasPrefix(name, "strings.Replacer."):
		if p, ok := args[0].(*mv); ok && p != nil {
			if rp, ok := (*p).(*mReplacer); ok {
				switch fn.Name() {
				case "Replace":
					if s, ok := args[1].(string); ok {
						return rp.r.Replace(s), true
					}
				case "WriteString":
					if s, ok := args[2].(string); ok {
						out := rp.r.Replace(s)
						if w, ok := args[1].(mIface); ok {
							if r, ok := m.builderModel("WriteString", []mv{w.v, out}); ok {
								return r, true
							}
						}
					}
				}
			}
		}
	case strings.HasPrefix(name, "strings."):
		return m.stringsModel(fn.Name(), args)
	case strings.HasPrefix(name, "unicode/utf8."):
		switch fn.Name() {
		case "RuneCountInString":
			if s, ok := args[0].(string); ok {
				return int64(utf8.RuneCountInString(s)), true
			}
		case "RuneLen":
			if r, ok := args[0].(int64); ok {
				return int64(utf8.RuneLen(rune(r))), true
			}
		case "RuneCount":
			if sl, ok := args[0].(mSlice); ok {
				bs := make([]byte, 0, len(sl.arr))
				for _, e := range sl.arr {
					n, ok := e.(int64)
					if !ok {
						return nil, false
					}
					bs = append(bs, byte(n))
				}
				return int64(utf8.RuneCount(bs)), true
			}
		case "ValidRune":
			if r, ok := args[0].(int64); ok {
				return utf8.ValidRune(rune(r)), true
			}
		case "ValidString":
			if s, ok := args[0].(string); ok {
				return utf8.ValidString(s), true
			}
		case "DecodeRuneInString":
			if s, ok := args[0].(string); ok {
				r, n := utf8.DecodeRuneInString(s)
				return mTuple{int64(r), int64(n)}, true
			}
		case "DecodeLastRuneInString":
			if s, ok := args[0].(string); ok {
				r, n := utf8.DecodeLastRuneInString(s)
				return mTuple{int64(r), int64(n)}, true
			}
		case "DecodeRune", "DecodeLastRune", "Valid", "FullRune":
			if bs, ok := mBytes(args[0]); ok {
				switch fn.Name() {
				case "DecodeRune":
					r, n := utf8.DecodeRune(bs)
					return mTuple{int64(r), int64(n)}, true
				case "DecodeLastRune":
					r, n := utf8.DecodeLastRune(bs)
					return mTuple{int64(r), int64(n)}, true
				case "Valid":
					return utf8.Valid(bs), true
				default:
					return utf8.FullRune(bs), true
				}
			}
		case "FullRuneInString":
			if s, ok := args[0].(string); ok {
				return utf8.FullRuneInString(s), true
			}
		case "RuneStart":
			if b, ok := args[0].(int64); ok {
				return utf8.RuneStart(byte(b)), true
			}
		case "AppendRune":
			if r, ok := args[1].(int64); ok {
				if _, ok := mBytes(args[0]); ok {
					return mAppendBytes(args[0], utf8.AppendRune(nil, rune(r))), true
				}
			}
		case "EncodeRune":
			if dst, ok := args[0].(mSlice); ok {
				if r, ok := args[1].(int64); ok {
					enc := utf8.AppendRune(nil, rune(r))
					if len(dst.arr) < len(enc) {
						m.throw(m.sym("runtime error: index out of range", nil), "utf8.EncodeRune into a slice of %d bytes", len(dst.arr))
					}
					for i, b := range enc {
						dst.arr[i] = int64(b)
					}
					return int64(len(enc)), true
				}
			}
		}
	case strings.HasPrefix(name, "unicode."):
		if r, ok := args[0].(int64); ok && len(args) == 1 {
			switch fn.Name() {
			case "IsDigit":
				return unicode.IsDigit(rune(r)), true
			case "IsLetter":
				return unicode.IsLetter(rune(r)), true
			case "IsSpace":
				return unicode.IsSpace(rune(r)), true
			case "IsUpper":
				return unicode.IsUpper(rune(r)), true
			case "IsLower":
				return unicode.IsLower(rune(r)), true
			case "IsControl":
				return unicode.IsControl(rune(r)), true
			case "IsPunct":
				return unicode.IsPunct(rune(r)), true
			case "ToUpper":
				return int64(unicode.ToUpper(rune(r))), true
			case "ToLower":
				return int64(unicode.ToLower(rune(r))), true
			case "ToTitle":
				return int64(unicode.ToTitle(rune(r))), true
			case "SimpleFold":
				return int64(unicode.SimpleFold(rune(r))), true
			case "IsNumber":
				return unicode.IsNumber(rune(r)), true
			case "IsSymbol":
				return unicode.IsSymbol(rune(r)), true
			case "IsPrint":
				return unicode.IsPrint(rune(r)), true
			case "IsGraphic":
				return unicode.IsGraphic(rune(r)), true
			case "IsMark":
				return unicode.IsMark(rune(r)), true
			case "IsTitle":
				return unicode.IsTitle(rune(r)), true
			}
		}
		// unicode.Is(table, r) / unicode.In(r, tables...) on the package's own tables (named by their symbol)
		table := func(v mv) *unicode.RangeTable {
			if p, ok := v.(*mv); ok && p != nil {
				v = *p
			}
			sy, ok := v.(*mSym)
			if !ok {
				return nil
			}
			n := strings.TrimPrefix(strings.TrimPrefix(sy.name, "*"), "unicode.")
			for _, mp := range []map[string]*unicode.RangeTable{unicode.Scripts, unicode.Categories, unicode.Properties} {
				if t := mp[n]; t != nil {
					return t
				}
			}
			switch n {
			case "Letter":
				return unicode.Letter
			case "Digit":
				return unicode.Digit
			case "Upper":
				return unicode.Upper
			case "Lower":
				return unicode.Lower
			case "Space":
				return unicode.Space
			case "Punct":
				return unicode.Punct
			case "Number":
				return unicode.Number
			case "Symbol":
				return unicode.Symbol
			case "Mark":
				return unicode.Mark
			case "Title":
				return unicode.Title
			}
			return nil
		}
		switch fn.Name() {
		case "Is":
			if r, ok := args[1].(int64); ok && len(args) == 2 {
				if t := table(args[0]); t != nil {
					return unicode.Is(t, rune(r)), true
				}
			}
		case "In", "IsOneOf":
			r, okR := args[0].(int64)
			list := args[1]
			if fn.Name() == "IsOneOf" {
				r, okR = args[1].(int64)
				list = args[0]
			}
			if sl, ok := list.(mSlice); ok && okR {
				var ts []*unicode.RangeTable
				for _, e := range sl.arr {
					t := table(e)
					if t == nil {
						ts = nil
						break
					}
					ts = append(ts, t)
				}
				if ts != nil {
					return unicode.In(rune(r), ts...), true
				}
			}
		}
	case strings.HasPrefix(name, "strconv."):
		switch fn.Name() {
		case "Itoa":
			if n, ok := args[0].(int64); ok {
				return strconv.Itoa(int(n)), true
			}
		case "FormatInt":
			if n, ok := args[0].(int64); ok {
				if b, ok := args[1].(int64); ok {
					return strconv.FormatInt(n, int(b)), true
				}
			}
		case "Quote":
			if s, ok := args[0].(string); ok {
				return strconv.Quote(s), true
			}
		case "Atoi":
			if s, ok := args[0].(string); ok {
				n, err := strconv.Atoi(s)
				if err != nil {
					return mTuple{int64(0), mIface{t: types.Universe.Lookup("error").Type(), v: &mSym{name: "strconv error", nonNil: true}}}, true
				}
				return mTuple{int64(n), mNil}, true
			}
		case "ParseInt":
			if s, ok := args[0].(string); ok {
				if b, ok := args[1].(int64); ok {
					if bs, ok := args[2].(int64); ok {
						n, err := strconv.ParseInt(s, int(b), int(bs))
						if err != nil {
							return mTuple{n, mIface{t: types.Universe.Lookup("error").Type(), v: &mSym{name: "strconv error", nonNil: true}}}, true
						}
						return mTuple{n, mNil}, true
					}
				}
			}
		case "ParseFloat":
			if s, ok := args[0].(string); ok {
				if bs, ok := args[1].(int64); ok {
					f, err := strconv.ParseFloat(s, int(bs))
					if err != nil {
						return mTuple{f, mIface{t: types.Universe.Lookup("error").Type(), v: &mSym{name: "strconv error", nonNil: true}}}, true
					}
					return mTuple{f, mNil}, true
				}
			}
		case "FormatBool":
			if b, ok := args[0].(bool); ok {
				return strconv.FormatBool(b), true
			}
		}
	case strings.HasPrefix(name, "math.") && !strings.HasPrefix(name, "math.bits"):
		if r, ok := mathHostModel(fn.Name(), args); ok {
			return r, true
		}
		if len(args) == 1 {
			if x, ok := args[0].(float64); ok {
				switch fn.Name() {
				case "Abs":
					return math.Abs(x), true
				case "Floor":
					return math.Floor(x), true
				case "Ceil":
					return math.Ceil(x), true
				case "Sqrt":
					return math.Sqrt(x), true
				case "Trunc":
					return math.Trunc(x), true
				case "Round":
					return math.Round(x), true
				case "IsNaN":
					return math.IsNaN(x), true
				}
			}
		}
	case strings.HasPrefix(name, "bytes.Buffer."):
		return m.builderModel(fn.Name(), args)
	case strings.HasPrefix(name, "sort."):
		switch fn.Name() {
		case "Strings", "Ints":
			if sl, ok := args[0].(mSlice); ok {
				allConc := true
				for _, e := range sl.arr {
					switch e.(type) {
					case string, int64:
					default:
						allConc = false
					}
				}
				if allConc {
					sort.SliceStable(sl.arr, func(i, j int) bool {
						if a, ok := sl.arr[i].(string); ok {
							return a < sl.arr[j].(string)
						}
						return sl.arr[i].(int64) < sl.arr[j].(int64)
					})
					return mNil, true
				}
			}
			if _, isNil := args[0].(mNilT); isNil {
				return mNil, true
			}
		case "Slice", "SliceStable":
			// sort.Slice(x, less): insertion sort calling back into the machine
			if i0, ok := args[0].(mIface); ok {
				if sl, ok := i0.v.(mSlice); ok {
					less := func(i, j int) bool {
						r := m.callValue(args[1], []mv{int64(i), int64(j)})
						b, ok := r.(bool)
						if !ok {
							m.abort("sort.Slice: the comparison is outside the model")
						}
						return b
					}
					for i := 1; i < len(sl.arr); i++ {
						for j := i; j > 0 && less(j, j-1); j-- {
							sl.arr[j], sl.arr[j-1] = sl.arr[j-1], sl.arr[j]
						}
					}
					return mNil, true
				}
				if _, isNil := i0.v.(mNilT); isNil {
					return mNil, true
				}
			}
		case "Search":
			if n, ok := args[0].(int64); ok {
				idx := sort.Search(int(n), func(i int) bool {
					r := m.callValue(args[1], []mv{int64(i)})
					b, ok := r.(bool)
					if !ok {
						m.abort("sort.Search: the predicate is outside the model")
					}
					return b
				})
				return int64(idx), true
			}
		case "SearchInts":
			if sl, ok := args[0].(mSlice); ok {
				if x, ok := args[1].(int64); ok {
					var xs []int
					for _, e := range sl.arr {
						n, ok := e.(int64)
						if !ok {
							return nil, false
						}
						xs = append(xs, int(n))
					}
					return int64(sort.SearchInts(xs, int(x))), true
				}
			}
		case "SearchStrings":
			if sl, ok := args[0].(mSlice); ok {
				if x, ok := args[1].(string); ok {
					var ss []string
					for _, e := range sl.arr {
						s, ok := e.(string)
						if !ok {
							return nil, false
						}
						ss = append(ss, s)
					}
					return int64(sort.SearchStrings(ss, x)), true
				}
			}
		}
	case name == "reflect.TypeOf":
		if i, ok := args[0].(mIface); ok {
			return &mSym{name: "reflect.TypeOf(" + i.t.String() + ")", nonNil: true, rt: i.t}, true
		}
		if _, isNil := args[0].(mNilT); isNil {
			return mNil, true
		}
	case name == "errors.Is" && len(args) == 2:
		if is, known := m.errorsIs(args[0], args[1], 0); known {
			return is, true
		}
	case name == "errors.As" && len(args) == 2:
		if as, known := m.errorsAs(args[0], args[1], 0); known {
			return as, true
		}
	case name == "errors.Unwrap" && len(args) == 1:
		if ei, ok := args[0].(mIface); ok && ei.t != nil {
			if _, isSym := ei.v.(*mSym); !isSym {
				if f := m.c.lookupMethod(ei.t, "Unwrap"); f != nil && f.Blocks != nil && f.Signature.Results().Len() == 1 && isErrorLike(f.Signature.Results().At(0).Type()) {
					return m.callFn(nil, f, []mv{ei.v}, nil), true
				}
				return mNil, true
			}
		}
	case name == "reflect.ValueOf" || strings.HasPrefix(name, "reflect.Value."):
		return m.reflectModel(fn.Name(), args)
	case name == "errors.New" || name == "fmt.Errorf":
		es := &mSym{name: "error(" + mRender(args[0]) + ")", nonNil: true}
		if name == "errors.New" {
			es.msg = args[0]
		}
		return mIface{t: types.NewPointer(types.Universe.Lookup("error").Type()), v: es}, true
	case name == "fmt.Sprintf" || name == "fmt.Sprint":
		// constant arguments: the host result; anything symbolic: a symbol
		var goArgs []interface{}
		conc := true
		var list mv = args[0]
		if name == "fmt.Sprintf" {
			list = args[1]
		}
		switch l := list.(type) {
		case mSlice:
			for _, e := range l.arr {
				if i, ok := e.(mIface); ok {
					e = i.v
				}
				switch x := e.(type) {
				case string:
					goArgs = append(goArgs, x)
				case int64:
					goArgs = append(goArgs, x)
				case float64:
					goArgs = append(goArgs, x)
				case bool:
					goArgs = append(goArgs, x)
				default:
					conc = false
				}
			}
		case mNilT:
		default:
			conc = false
		}
		if f, ok := args[0].(string); ok && conc && name == "fmt.Sprintf" {
			return fmt.Sprintf(f, goArgs...), true
		}
		if conc && name == "fmt.Sprint" {
			return fmt.Sprint(goArgs...), true
		}
		return &mSym{name: fn.Name() + "(…)", typ: types.Typ[types.String]}, true
	case name == "fmt.Sprintln":
		return &mSym{name: fn.Name() + "(…)", typ: types.Typ[types.String]}, true
	}
	return nil, false
}

func (m *mach) stringsModel(name string, args []mv) (mv, bool) {
	if ss, ok := allStrings(args); ok {
		switch name {
		case "ToUpper":
			return strings.ToUpper(ss[0]), true
		case "ToLower":
			return strings.ToLower(ss[0]), true
		case "TrimSpace":
			return strings.TrimSpace(ss[0]), true
		case "HasPrefix":
			return strings.HasPrefix(ss[0], ss[1]), true
		case "HasSuffix":
			return strings.HasSuffix(ss[0], ss[1]), true
		case "Contains":
			return strings.Contains(ss[0], ss[1]), true
		case "ContainsAny":
			return strings.ContainsAny(ss[0], ss[1]), true
		case "Index":
			return int64(strings.Index(ss[0], ss[1])), true
		case "LastIndex":
			return int64(strings.LastIndex(ss[0], ss[1])), true
		case "IndexAny":
			return int64(strings.IndexAny(ss[0], ss[1])), true
		case "Count":
			return int64(strings.Count(ss[0], ss[1])), true
		case "EqualFold":
			return strings.EqualFold(ss[0], ss[1]), true
		case "Compare":
			return int64(strings.Compare(ss[0], ss[1])), true
		case "Trim":
			return strings.Trim(ss[0], ss[1]), true
		case "TrimLeft":
			return strings.TrimLeft(ss[0], ss[1]), true
		case "TrimRight":
			return strings.TrimRight(ss[0], ss[1]), true
		case "TrimPrefix":
			return strings.TrimPrefix(ss[0], ss[1]), true
		case "TrimSuffix":
			return strings.TrimSuffix(ss[0], ss[1]), true
		case "ReplaceAll":
			return strings.ReplaceAll(ss[0], ss[1], ss[2]), true
		case "Title":
			return strings.Title(ss[0]), true
		case "Split":
			var arr []mv
			for _, p := range strings.Split(ss[0], ss[1]) {
				arr = append(arr, p)
			}
			return mSlice{arr}, true
		case "Fields":
			arr := []mv{}
			for _, p := range strings.Fields(ss[0]) {
				arr = append(arr, p)
			}
			return mSlice{arr}, true
		case "Cut":
			a, b, found := strings.Cut(ss[0], ss[1])
			return mTuple{a, b, found}, true
		case "CutPrefix":
			a, found := strings.CutPrefix(ss[0], ss[1])
			return mTuple{a, found}, true
		case "CutSuffix":
			a, found := strings.CutSuffix(ss[0], ss[1])
			return mTuple{a, found}, true
		case "SplitAfter":
			var arr []mv
			for _, p := range strings.SplitAfter(ss[0], ss[1]) {
				arr = append(arr, p)
			}
			return mSlice{arr}, true
		case "ToTitle":
			return strings.ToTitle(ss[0]), true
		case "Clone":
			return ss[0], true
		case "ToValidUTF8":
			return strings.ToValidUTF8(ss[0], ss[1]), true
		}
	}
	switch name {
	case "Map":
		if s0, ok := args[1].(string); ok {
			var sb strings.Builder
			for _, r := range s0 {
				v := m.callValue(args[0], []mv{int64(r)})
				n, ok := v.(int64)
				if !ok {
					return nil, false
				}
				if n >= 0 {
					sb.WriteRune(rune(n))
				}
			}
			return sb.String(), true
		}
	case "IndexFunc", "LastIndexFunc", "TrimFunc", "TrimLeftFunc", "TrimRightFunc", "FieldsFunc", "ContainsFunc":
		if s0, ok := args[0].(string); ok {
			pred := func(r rune) bool {
				v := m.callValue(args[1], []mv{int64(r)})
				b, ok := v.(bool)
				if !ok {
					m.abort("strings.%s: the predicate is outside the model", name)
				}
				return b
			}
			switch name {
			case "IndexFunc":
				return int64(strings.IndexFunc(s0, pred)), true
			case "LastIndexFunc":
				return int64(strings.LastIndexFunc(s0, pred)), true
			case "TrimFunc":
				return strings.TrimFunc(s0, pred), true
			case "TrimLeftFunc":
				return strings.TrimLeftFunc(s0, pred), true
			case "TrimRightFunc":
				return strings.TrimRightFunc(s0, pred), true
			case "ContainsFunc":
				return strings.IndexFunc(s0, pred) >= 0, true
			default:
				arr := []mv{}
				for _, f := range strings.FieldsFunc(s0, pred) {
					arr = append(arr, f)
				}
				return mSlice{arr}, true
			}
		}
	case "SplitN":
		if len(args) == 3 {
			if ss, ok := allStrings(args[:2]); ok {
				if n, ok := args[2].(int64); ok {
					arr := []mv{}
					for _, p := range strings.SplitN(ss[0], ss[1], int(n)) {
						arr = append(arr, p)
					}
					return mSlice{arr}, true
				}
			}
		}
	case "NewReplacer":
		return nil, false
	case "IndexRune", "ContainsRune", "IndexByte":
		if s, ok := args[0].(string); ok {
			if r, ok := args[1].(int64); ok {
				switch name {
				case "IndexRune":
					return int64(strings.IndexRune(s, rune(r))), true
				case "IndexByte":
					return int64(strings.IndexByte(s, byte(r))), true
				default:
					return strings.ContainsRune(s, rune(r)), true
				}
			}
		}
	case "Repeat":
		if s, ok := args[0].(string); ok {
			if n, ok := args[1].(int64); ok && n >= 0 && n < 1000 {
				return strings.Repeat(s, int(n)), true
			} else if ok && n < 0 {
				m.throw(m.sym("strings: negative Repeat count", nil), "strings.Repeat with the negative count %d", n)
			}
		}
	case "Replace":
		if len(args) == 4 {
			if ss, ok := allStrings(args[:3]); ok {
				if n, ok := args[3].(int64); ok {
					return strings.Replace(ss[0], ss[1], ss[2], int(n)), true
				}
			}
		}
	case "Join":
		if sl, ok := args[0].(mSlice); ok {
			if sep, ok := args[1].(string); ok {
				var parts []mv
				for i, e := range sl.arr {
					if i > 0 {
						parts = append(parts, sep)
					}
					parts = append(parts, e)
				}
				return catStr(parts...), true
			}
		}
		if _, ok := args[0].(mNilT); ok {
			return "", true
		}
	case "ToUpper", "ToLower", "TrimSpace":
		if s, ok := args[0].(*mSym); ok {
			return &mSym{name: name + "(" + s.name + ")", typ: types.Typ[types.String]}, true
		}
	}
	return nil, false
}

// builderModel: a strings.Builder variable holds an *mBuilder in its slot once written.
func (m *mach) builderModel(name string, args []mv) (mv, bool) {
	slot, ok := args[0].(*mv)
	if !ok || slot == nil {
		return nil, false
	}
	b, isB := (*slot).(*mBuilder)
	if !isB {
		b = &mBuilder{}
		*slot = b
	}
	cur := func() mv { return catStr(b.parts...) }
	constLen := func() (int64, bool) {
		n := 0
		for _, p := range b.parts {
			s, ok := p.(string)
			if !ok {
				return 0, false
			}
			n += len(s)
		}
		return int64(n), true
	}
	switch name {
	case "WriteString":
		b.parts = appendPart(b.parts, args[1])
		if c, ok := args[1].(*mCat); ok {
			b.parts = b.parts[:len(b.parts)-1]
			for _, p := range c.parts {
				b.parts = appendPart(b.parts, p)
			}
		}
		n := m.builtinLen(args[1])
		return mTuple{n, mNil}, true
	case "WriteRune":
		if r, ok := args[1].(int64); ok {
			s := string(rune(r))
			b.parts = appendPart(b.parts, s)
			return mTuple{int64(len(s)), mNil}, true
		}
		b.parts = append(b.parts, args[1])
		return mTuple{&mSym{name: "runelen", typ: types.Typ[types.Int]}, mNil}, true
	case "WriteByte":
		if r, ok := args[1].(int64); ok {
			b.parts = appendPart(b.parts, string([]byte{byte(r)}))
			return mNil, true
		}
		b.parts = append(b.parts, args[1])
		return mNil, true
	case "String":
		return cur(), true
	case "Len":
		if n, ok := constLen(); ok {
			return n, true
		}
		return &mSym{name: "len(" + catRender(cur()) + ")", typ: types.Typ[types.Int]}, true
	case "Reset":
		b.parts = nil
		return mNil, true
	case "Grow":
		return mNil, true
	case "Write":
		if bs, ok := mBytes(args[1]); ok {
			b.parts = appendPart(b.parts, string(bs))
			return mTuple{int64(len(bs)), mNil}, true
		}
	case "Bytes":
		if s, ok := cur().(string); ok {
			return mByteSlice([]byte(s)), true
		}
	}
	m.abort("%s on a builder/buffer is outside the model", name)
	return nil, false
}

func (m *mach) builtinLen(v mv) mv {
	if s, ok := v.(string); ok {
		return int64(len(s))
	}
	return &mSym{name: "len(" + mRender(v) + ")", typ: types.Typ[types.Int]}
}

var _ = fmt.Sprint

// callValue calls a function value (closure, function, bound method) of the program under analysis.
func (m *mach) callValue(f mv, args []mv) mv {
	switch t := f.(type) {
	case *mClosure:
		return m.callFn(nil, t.fn, args, t.env)
	case *ssa.Function:
		return m.callFn(nil, t, args, nil)
	}
	m.abort("call of the function value %s from a modelled library function", mRender(f))
	return nil
}

// mReplacer is the content of a *strings.Replacer built from constant pairs.
type mReplacer struct{ r *strings.Replacer }

// mRegexp is the content of a *regexp.Regexp compiled from a constant pattern.
type mRegexp struct{ r *regexp.Regexp }

// mBytes: a concrete byte slice value (nil included).
func mBytes(v mv) ([]byte, bool) {
	switch x := v.(type) {
	case mNilT:
		return nil, true
	case mSlice:
		bs := make([]byte, 0, len(x.arr))
		for _, e := range x.arr {
			n, ok := e.(int64)
			if !ok {
				return nil, false
			}
			bs = append(bs, byte(n))
		}
		return bs, true
	}
	return nil, false
}

// mAppendBytes: append(dst, add...) on a machine byte slice, growing as the runtime does.
func mAppendBytes(dst mv, add []byte) mv {
	var base []mv
	if sl, ok := dst.(mSlice); ok {
		base = sl.arr
	}
	if len(add) == 0 {
		if base == nil {
			return mNil
		}
		return mSlice{base}
	}
	vals := make([]mv, len(add))
	for i, b := range add {
		vals[i] = int64(b)
	}
	if len(base)+len(vals) <= cap(base) {
		return mSlice{append(base, vals...)}
	}
	nc := growCap(int64(cap(base)), int64(len(base)+len(vals)), 1)
	out := make([]mv, len(base), nc)
	copy(out, base)
	return mSlice{append(out, vals...)}
}

// pureStdPkgs: standard-library packages made of plain Go without effects outside their arguments; a
// function of these that has no model above is evaluated from its own SSA body.
var pureStdPkgs = map[string]bool{
	"bytes": true, "strings": true, "slices": true, "maps": true, "sort": true, "cmp": true,
	"unicode": true, "unicode/utf8": true, "unicode/utf16": true, "container/list": true,
	"math/bits": true, "internal/stringslite": true, "internal/bytealg": true, "iter": true,
	"sync/atomic": true, "strconv": true,
}

// concreteArgs: no symbol anywhere in the arguments (a body evaluated on a symbol would only branch on it).
func concreteArgs(args []mv) bool {
	var ok func(v mv, depth int) bool
	ok = func(v mv, depth int) bool {
		if depth > 4 {
			return true
		}
		switch x := v.(type) {
		case *mSym, *mCat:
			return false
		case mSlice:
			for _, e := range x.arr {
				if !ok(e, depth+1) {
					return false
				}
			}
		case mArray:
			for _, e := range x {
				if !ok(e, depth+1) {
					return false
				}
			}
		case mStruct:
			for _, e := range x {
				if !ok(e, depth+1) {
					return false
				}
			}
		case mTuple:
			for _, e := range x {
				if !ok(e, depth+1) {
					return false
				}
			}
		case mIface:
			return ok(x.v, depth+1)
		case *mv:
			if x != nil {
				return ok(*x, depth+1)
			}
		}
		return true
	}
	for _, a := range args {
		if !ok(a, 0) {
			return false
		}
	}
	return true
}

func mByteSlice(bs []byte) mv {
	if bs == nil {
		return mNil
	}
	arr := make([]mv, len(bs))
	for i, b := range bs {
		arr[i] = int64(b)
	}
	return mSlice{arr}
}

// bytesOrString: a concrete []byte or string argument as bytes.
func bytesOrString(v mv) ([]byte, bool) {
	if s, ok := v.(string); ok {
		return []byte(s), true
	}
	return mBytes(v)
}

// stdAsmModel: the leaves of the standard library that are written in assembly or need the runtime
// (internal/bytealg and the bodiless parts of bytes / strings), on concrete arguments.
func (m *mach) stdAsmModel(fn *ssa.Function, args []mv) (mv, bool) {
	if fn.Pkg == nil {
		return nil, false
	}
	path := fn.Pkg.Pkg.Path()
	if path == "sync/atomic" && fn.Blocks == nil {
		return m.atomicLeaf(fn, args)
	}
	if path == "sync/atomic" && fn.Signature.Recv() != nil && strings.Contains(fn.Signature.Recv().Type().String(), "atomic.Value") {
		// atomic.Value keeps an interface value: the slot of the Value variable holds it directly
		p, ok := args[0].(*mv)
		if !ok || p == nil {
			return nil, false
		}
		cur := func() mv {
			if i, ok := (*p).(mIface); ok {
				return i
			}
			return mNil
		}
		switch fn.Name() {
		case "Load":
			return cur(), true
		case "Store":
			if _, isNil := args[1].(mNilT); isNil {
				m.throw(m.sym("sync/atomic: store of nil value into Value", nil), "sync/atomic: store of nil value into Value")
			}
			*p = args[1]
			return mNil, true
		case "Swap":
			old := cur()
			*p = args[1]
			return old, true
		}
		return nil, false
	}
	if path == "sync" {
		return m.syncModel(fn, args)
	}
	if path != "internal/bytealg" && !(fn.Blocks == nil && (path == "bytes" || path == "strings")) {
		return nil, false
	}
	var bs [][]byte
	var ns []int64
	for _, a := range args {
		if n, ok := a.(int64); ok {
			ns = append(ns, n)
			continue
		}
		b, ok := bytesOrString(a)
		if !ok {
			return nil, false
		}
		bs = append(bs, b)
	}
	switch fn.Name() {
	case "IndexByte", "IndexByteString":
		if len(bs) == 1 && len(ns) == 1 {
			return int64(bytes.IndexByte(bs[0], byte(ns[0]))), true
		}
	case "LastIndexByte", "LastIndexByteString":
		if len(bs) == 1 && len(ns) == 1 {
			return int64(bytes.LastIndexByte(bs[0], byte(ns[0]))), true
		}
	case "Count", "CountString":
		if len(bs) == 1 && len(ns) == 1 {
			return int64(bytes.Count(bs[0], []byte{byte(ns[0])})), true
		}
	case "Equal":
		if len(bs) == 2 {
			return bytes.Equal(bs[0], bs[1]), true
		}
	case "Compare", "CompareString":
		if len(bs) == 2 {
			return int64(bytes.Compare(bs[0], bs[1])), true
		}
	case "Index", "IndexString":
		if len(bs) == 2 {
			return int64(bytes.Index(bs[0], bs[1])), true
		}
	case "Cutover":
		if len(ns) == 1 {
			return (ns[0] + 16) / 8, true
		}
	case "HashStr", "HashStrRev", "IndexRabinKarp", "LastIndexRabinKarp":
		return nil, false // plain Go: evaluated from the body
	case "MakeNoZero":
		if len(ns) == 1 && ns[0] >= 0 && ns[0] < 1<<20 {
			return mByteSlice(make([]byte, ns[0])), true
		}
	}
	return nil, false
}

// atomicLeaf: the bodiless functions of sync/atomic. The machine evaluates one goroutine, so an atomic
// access is the plain access (the typed wrappers atomic.Int64 etc. are evaluated from their bodies).
func (m *mach) atomicLeaf(fn *ssa.Function, args []mv) (mv, bool) {
	if len(args) == 0 {
		return nil, false
	}
	p, ok := args[0].(*mv)
	if !ok || p == nil {
		return nil, false
	}
	var elem types.Type
	if pt, ok := fn.Signature.Params().At(0).Type().Underlying().(*types.Pointer); ok {
		elem = pt.Elem()
	} else {
		return nil, false
	}
	if *p == nil {
		*p = m.zero(elem)
	}
	name := fn.Name()
	intOp := func(f func(old, x int64) int64, retNew bool) (mv, bool) {
		old, ok1 := (*p).(int64)
		x, ok2 := args[1].(int64)
		if !ok1 || !ok2 {
			return nil, false
		}
		nv := wrapInt(f(old, x), elem)
		*p = nv
		if retNew {
			return nv, true
		}
		return old, true
	}
	switch {
	case strings.HasPrefix(name, "Load") && len(args) == 1:
		return mcopy(*p), true
	case strings.HasPrefix(name, "Store") && len(args) == 2:
		*p = mcopy(args[1])
		return mNil, true
	case strings.HasPrefix(name, "Swap") && len(args) == 2:
		old := *p
		*p = mcopy(args[1])
		return old, true
	case strings.HasPrefix(name, "CompareAndSwap") && len(args) == 3:
		eq, known := m.equal(*p, args[1])
		if !known {
			return nil, false
		}
		if eq {
			*p = mcopy(args[2])
		}
		return eq, true
	case strings.HasPrefix(name, "Add") && len(args) == 2:
		return intOp(func(old, x int64) int64 { return old + x }, true)
	case strings.HasPrefix(name, "And") && len(args) == 2:
		return intOp(func(old, x int64) int64 { return old & x }, false)
	case strings.HasPrefix(name, "Or") && len(args) == 2:
		return intOp(func(old, x int64) int64 { return old | x }, false)
	}
	return nil, false
}

// deadlockPrefix starts the reason of a run that ended in a lock which can never be granted.
const deadlockPrefix = "deadlock: "

// lastModuleFn names the function entered most recently (for witnesses).
func (m *mach) lastModuleFn() string {
	if m.ringPos > 0 {
		if f := m.ring[(m.ringPos-1)&31]; f != nil {
			return f.String()
		}
	}
	return "?"
}

// syncModel: package sync under one goroutine. Mutexes record whether this goroutine holds them (locking one it holds
// ends the run as a deadlock; every top-level Call starts with none held); wait groups and condition variables do nothing;
// Once.Do runs its function the first time (the done flag is kept beside the heap, keyed by the Once's address: synchronised state, not part of an instance's observable content); a Pool hands
// out what New builds.
func (m *mach) syncModel(fn *ssa.Function, args []mv) (mv, bool) {
	recv := ""
	if r := fn.Signature.Recv(); r != nil {
		t := r.Type()
		if pt, ok := t.(*types.Pointer); ok {
			t = pt.Elem()
		}
		if n, ok := t.(*types.Named); ok {
			recv = n.Obj().Name()
		}
	}
	switch recv {
	case "Mutex", "RWMutex":
		// the one goroutine's held locks, keyed by the mutex's address (-1: held exclusively, n > 0: n read locks);
		// a lock taken on a mutex this goroutine holds can never return: the run ends as a deadlock
		p, ok := args[0].(*mv)
		if fn.Name() == "RLocker" {
			return nil, false
		}
		if !ok || p == nil {
			if strings.HasPrefix(fn.Name(), "Try") {
				return true, true
			}
			return mNil, true
		}
		if m.heldLocks == nil {
			m.heldLocks = map[*mv]int{}
		}
		held := m.heldLocks[p]
		switch fn.Name() {
		case "Lock":
			if held != 0 {
				m.abort("%ssync.%s.Lock on a mutex the same goroutine already holds (last function entered: %s): the call never returns", deadlockPrefix, recv, m.lastModuleFn())
			}
			m.heldLocks[p] = -1
		case "RLock":
			if held < 0 {
				m.abort("%ssync.%s.RLock on a mutex the same goroutine already holds exclusively (last function entered: %s): the call never returns", deadlockPrefix, recv, m.lastModuleFn())
			}
			m.heldLocks[p] = held + 1
		case "TryLock":
			if held != 0 {
				return false, true
			}
			m.heldLocks[p] = -1
			return true, true
		case "TryRLock":
			if held < 0 {
				return false, true
			}
			m.heldLocks[p] = held + 1
			return true, true
		case "Unlock":
			delete(m.heldLocks, p)
		case "RUnlock":
			if held > 1 {
				m.heldLocks[p] = held - 1
			} else {
				delete(m.heldLocks, p)
			}
		}
		return mNil, true
	case "WaitGroup", "Cond":
		return mNil, true
	case "Once":
		if fn.Name() != "Do" || len(args) != 2 {
			return nil, false
		}
		p, ok := args[0].(*mv)
		if !ok || p == nil {
			return nil, false
		}
		if m.onceDone[p] {
			return mNil, true
		}
		if m.onceDone == nil {
			m.onceDone = map[*mv]bool{}
		}
		m.onceDone[p] = true
		m.callValue(args[1], nil)
		return mNil, true
	case "Pool":
		switch fn.Name() {
		case "Put":
			return mNil, true
		case "Get":
			p, ok := args[0].(*mv)
			if !ok || p == nil {
				return nil, false
			}
			if st, ok := (*p).(mStruct); ok {
				// the exported field New is the last one
				if f := st[len(st)-1]; f != nil {
					if _, isNil := f.(mNilT); !isNil {
						return m.callValue(f, nil), true
					}
				}
			}
			return mIface{}, true
		}
	}
	return nil, false
}

// errorsIs: errors.Is over the machine's error values. Errors made by errors.New are distinct objects
// (a symbol each); an error made by fmt.Errorf with %w wraps something the model does not keep: unknown.
func (m *mach) errorsIs(err, target mv, depth int) (is bool, known bool) {
	if depth > 16 {
		return false, false
	}
	if _, isNil := err.(mNilT); isNil {
		_, tNil := target.(mNilT)
		return tNil, true
	}
	ei, ok := err.(mIface)
	if !ok || ei.t == nil {
		return false, false
	}
	if ti, ok := target.(mIface); ok {
		es, eSym := ei.v.(*mSym)
		ts, tSym := ti.v.(*mSym)
		switch {
		case eSym && tSym:
			if es == ts {
				return true, true
			}
			if !strings.HasPrefix(es.name, "error(") || !strings.HasPrefix(ts.name, "error(") {
				return false, false
			}
		case eSym || tSym:
			// an errors.New value against a value of a concrete error type: different dynamic types
		default:
			if types.Comparable(ei.t) {
				eq, k := m.equal(err, target)
				if !k {
					return false, false
				}
				if eq {
					return true, true
				}
			}
		}
	}
	if es, eSym := ei.v.(*mSym); eSym {
		if strings.Contains(es.name, "%w") || !strings.HasPrefix(es.name, "error(") {
			return false, false
		}
		return false, true
	}
	if f := m.c.lookupMethod(ei.t, "Is"); f != nil && f.Blocks != nil && f.Signature.Params().Len() == 1 && f.Signature.Results().Len() == 1 {
		if r, ok := m.callFn(nil, f, []mv{ei.v, target}, nil).(bool); ok {
			if r {
				return true, true
			}
		} else {
			return false, false
		}
	}
	if f := m.c.lookupMethod(ei.t, "Unwrap"); f != nil && f.Blocks != nil && f.Signature.Results().Len() == 1 {
		switch r := m.callFn(nil, f, []mv{ei.v}, nil).(type) {
		case mNilT:
			return false, true
		case mIface:
			return m.errorsIs(r, target, depth+1)
		case mSlice:
			for _, e := range r.arr {
				is, k := m.errorsIs(e, target, depth+1)
				if !k {
					return false, false
				}
				if is {
					return true, true
				}
			}
			return false, true
		default:
			return false, false
		}
	}
	return false, true
}

// mathHostModel: package math on concrete arguments is the host's own math (not repository code).
func mathHostModel(name string, args []mv) (mv, bool) {
	fl := func(i int) (float64, bool) {
		if i >= len(args) {
			return 0, false
		}
		switch x := args[i].(type) {
		case float64:
			return x, true
		}
		return 0, false
	}
	in := func(i int) (int64, bool) {
		if i >= len(args) {
			return 0, false
		}
		n, ok := args[i].(int64)
		return n, ok
	}
	one := map[string]func(float64) float64{
		"Abs": math.Abs, "Floor": math.Floor, "Ceil": math.Ceil, "Sqrt": math.Sqrt, "Trunc": math.Trunc, "Round": math.Round,
		"RoundToEven": math.RoundToEven, "Sin": math.Sin, "Cos": math.Cos, "Tan": math.Tan, "Asin": math.Asin, "Acos": math.Acos,
		"Atan": math.Atan, "Sinh": math.Sinh, "Cosh": math.Cosh, "Tanh": math.Tanh, "Exp": math.Exp, "Exp2": math.Exp2,
		"Log": math.Log, "Log2": math.Log2, "Log10": math.Log10, "Log1p": math.Log1p, "Cbrt": math.Cbrt, "Expm1": math.Expm1,
		"Asinh": math.Asinh, "Acosh": math.Acosh, "Atanh": math.Atanh, "Gamma": math.Gamma, "Erf": math.Erf,
	}
	two := map[string]func(float64, float64) float64{
		"Pow": math.Pow, "Mod": math.Mod, "Max": math.Max, "Min": math.Min, "Hypot": math.Hypot, "Atan2": math.Atan2,
		"Copysign": math.Copysign, "Remainder": math.Remainder, "Dim": math.Dim, "Nextafter": math.Nextafter,
	}
	if f := one[name]; f != nil && len(args) == 1 {
		if x, ok := fl(0); ok {
			return f(x), true
		}
		return nil, false
	}
	if f := two[name]; f != nil && len(args) == 2 {
		x, ok1 := fl(0)
		y, ok2 := fl(1)
		if ok1 && ok2 {
			return f(x, y), true
		}
		return nil, false
	}
	switch name {
	case "IsNaN":
		if x, ok := fl(0); ok {
			return math.IsNaN(x), true
		}
	case "Signbit":
		if x, ok := fl(0); ok {
			return math.Signbit(x), true
		}
	case "IsInf":
		x, ok1 := fl(0)
		n, ok2 := in(1)
		if ok1 && ok2 {
			return math.IsInf(x, int(n)), true
		}
	case "NaN":
		if len(args) == 0 {
			return math.NaN(), true
		}
	case "Inf":
		if n, ok := in(0); ok {
			return math.Inf(int(n)), true
		}
	case "Float64bits":
		if x, ok := fl(0); ok {
			return int64(math.Float64bits(x)), true
		}
	case "Float64frombits":
		if n, ok := in(0); ok {
			return math.Float64frombits(uint64(n)), true
		}
	case "Float32bits":
		if x, ok := fl(0); ok {
			return int64(math.Float32bits(float32(x))), true
		}
	case "Float32frombits":
		if n, ok := in(0); ok {
			return float64(math.Float32frombits(uint32(n))), true
		}
	case "Modf":
		if x, ok := fl(0); ok {
			a, b := math.Modf(x)
			return mTuple{a, b}, true
		}
	case "Frexp":
		if x, ok := fl(0); ok {
			a, b := math.Frexp(x)
			return mTuple{a, int64(b)}, true
		}
	case "Ldexp":
		x, ok1 := fl(0)
		n, ok2 := in(1)
		if ok1 && ok2 {
			return math.Ldexp(x, int(n)), true
		}
	}
	return nil, false
}

// errorsAs: errors.As over the machine's error values: the first error in the chain whose dynamic type
// can be assigned to what target points to is stored there.
func (m *mach) errorsAs(err, target mv, depth int) (as bool, known bool) {
	if depth > 16 {
		return false, false
	}
	ti, ok := target.(mIface)
	if !ok || ti.t == nil {
		return false, false
	}
	pt, ok := ti.t.Underlying().(*types.Pointer)
	slot, ok2 := ti.v.(*mv)
	if !ok || !ok2 || slot == nil {
		return false, false
	}
	if _, isNil := err.(mNilT); isNil {
		return false, true
	}
	ei, ok := err.(mIface)
	if !ok || ei.t == nil {
		return false, false
	}
	want := pt.Elem()
	if it, isIface := want.Underlying().(*types.Interface); isIface {
		if types.Implements(ei.t, it) {
			*slot = ei
			return true, true
		}
	} else if types.Identical(ei.t, want) {
		*slot = ei.v
		return true, true
	}
	if _, isSym := ei.v.(*mSym); isSym {
		if es := ei.v.(*mSym); strings.Contains(es.name, "%w") || !strings.HasPrefix(es.name, "error(") {
			return false, false
		}
		return false, true
	}
	if f := m.c.lookupMethod(ei.t, "As"); f != nil && f.Blocks != nil {
		return false, false
	}
	if f := m.c.lookupMethod(ei.t, "Unwrap"); f != nil && f.Blocks != nil && f.Signature.Results().Len() == 1 {
		switch r := m.callFn(nil, f, []mv{ei.v}, nil).(type) {
		case mNilT:
			return false, true
		case mIface:
			return m.errorsAs(r, target, depth+1)
		case mSlice:
			for _, e := range r.arr {
				as, k := m.errorsAs(e, target, depth+1)
				if !k {
					return false, false
				}
				if as {
					return true, true
				}
			}
			return false, true
		default:
			return false, false
		}
	}
	return false, true
}

// ---- reflect: the read-only view of a value of the model -----------------------------------------------
// reflect.ValueOf(x) is a symbol that remembers the interface value it describes (dynamic type and payload);
// Kind / IsValid / IsNil / Interface / Type / Len / Index / Elem / Int / Uint / Float / Bool / String read it (reflect.Type:
// Kind / String / Elem / Comparable, in mach.go). Anything else on a reflect.Value ends the run as undecided.

func reflectKind(t types.Type) (int64, bool) {
	switch u := t.Underlying().(type) {
	case *types.Basic:
		if k, ok := map[types.BasicKind]reflect.Kind{types.Bool: reflect.Bool, types.Int: reflect.Int, types.Int8: reflect.Int8, types.Int16: reflect.Int16, types.Int32: reflect.Int32, types.Int64: reflect.Int64,
			types.Uint: reflect.Uint, types.Uint8: reflect.Uint8, types.Uint16: reflect.Uint16, types.Uint32: reflect.Uint32, types.Uint64: reflect.Uint64, types.Uintptr: reflect.Uintptr,
			types.Float32: reflect.Float32, types.Float64: reflect.Float64, types.Complex64: reflect.Complex64, types.Complex128: reflect.Complex128, types.String: reflect.String,
			types.UnsafePointer: reflect.UnsafePointer}[u.Kind()]; ok {
			return int64(k), true
		}
	case *types.Array:
		return int64(reflect.Array), true
	case *types.Chan:
		return int64(reflect.Chan), true
	case *types.Signature:
		return int64(reflect.Func), true
	case *types.Interface:
		return int64(reflect.Interface), true
	case *types.Map:
		return int64(reflect.Map), true
	case *types.Pointer:
		return int64(reflect.Pointer), true
	case *types.Slice:
		return int64(reflect.Slice), true
	case *types.Struct:
		return int64(reflect.Struct), true
	}
	return 0, false
}

// reflectElem: the element type of an array, channel, map, pointer or slice type (nil for other types).
func reflectElem(t types.Type) types.Type {
	switch u := t.Underlying().(type) {
	case *types.Array:
		return u.Elem()
	case *types.Chan:
		return u.Elem()
	case *types.Map:
		return u.Elem()
	case *types.Pointer:
		return u.Elem()
	case *types.Slice:
		return u.Elem()
	}
	return nil
}

// reflectValue: the reflect.Value of v seen at static type t (an interface-typed slot keeps its interface value).
func reflectValue(t types.Type, v mv) *mSym {
	return &mSym{name: "reflect.ValueOf(" + mRender(v) + ")", nonNil: true, rt: t, rv: v}
}

func (m *mach) reflectModel(method string, args []mv) (mv, bool) {
	if method == "ValueOf" {
		switch a := args[0].(type) {
		case mIface:
			return &mSym{name: "reflect.ValueOf(" + mRender(a.v) + ")", nonNil: true, rt: a.t, rv: a.v}, true
		case mNilT:
			return &mSym{name: "reflect.ValueOf(nil)", nonNil: true, rv: mNil}, true
		}
		return nil, false
	}
	v, ok := args[0].(*mSym)
	if !ok || v.rv == nil {
		m.abort("reflect.Value.%s on a value that did not come from reflect.ValueOf is outside the machine's model of package reflect", method)
	}
	kind := int64(reflect.Invalid)
	if v.rt != nil {
		if kind, ok = reflectKind(v.rt); !ok {
			m.abort("reflect.Value.%s on a value of type %s is outside the machine's model of package reflect", method, v.rt)
		}
	}
	switch method {
	case "Kind":
		return kind, true
	case "IsValid":
		return v.rt != nil, true
	case "Interface":
		if v.rt != nil {
			if _, isIface := v.rt.Underlying().(*types.Interface); isIface {
				return v.rv, true // an interface-typed slot: the interface value it holds (or nil)
			}
			return mIface{t: v.rt, v: v.rv}, true
		}
	case "Index":
		// element i of a slice, array or string of the model
		if i, ok := args[1].(int64); ok && v.rt != nil {
			var elems []mv
			switch x := v.rv.(type) {
			case mSlice:
				elems = x.arr
			case mArray:
				elems = x
			case mNilT:
			case string:
				if i >= 0 && i < int64(len(x)) {
					return reflectValue(types.Typ[types.Uint8], int64(x[i])), true
				}
			default:
				m.abort("reflect.Value.Index of %s is outside the model", mRender(v.rv))
			}
			if i < 0 || i >= int64(len(elems)) {
				m.throw(m.sym("reflect: slice index out of range", nil), "reflect: slice index out of range")
			}
			if et := reflectElem(v.rt); et != nil {
				return reflectValue(et, elems[i]), true
			}
		}
	case "Elem":
		// what an interface value holds, what a pointer points to
		switch reflect.Kind(kind) {
		case reflect.Interface:
			switch x := v.rv.(type) {
			case mIface:
				return reflectValue(x.t, x.v), true
			case mNilT:
				return &mSym{name: "reflect.ValueOf(nil)", nonNil: true, rv: mNil}, true
			}
		case reflect.Pointer:
			switch x := v.rv.(type) {
			case *mv:
				if x != nil {
					return reflectValue(reflectElem(v.rt), *x), true
				}
				return &mSym{name: "reflect.ValueOf(nil)", nonNil: true, rv: mNil}, true
			case mNilT:
				return &mSym{name: "reflect.ValueOf(nil)", nonNil: true, rv: mNil}, true
			}
		}
	case "Type":
		if v.rt != nil {
			return &mSym{name: "reflect.TypeOf(" + v.rt.String() + ")", nonNil: true, rt: v.rt}, true
		}
	case "Int", "Uint", "Float", "Bool", "String":
		// the payload itself, for the kinds the accessor is defined on (a constant or a symbol of the model)
		k := reflect.Kind(kind)
		okKind := map[string]bool{"Int": k >= reflect.Int && k <= reflect.Int64, "Uint": k >= reflect.Uint && k <= reflect.Uintptr, "Float": k == reflect.Float32 || k == reflect.Float64, "Bool": k == reflect.Bool, "String": k == reflect.String}[method]
		if okKind {
			switch v.rv.(type) {
			case int64, float64, bool, string, *mSym:
				return v.rv, true
			}
		}
	case "Len":
		switch x := v.rv.(type) {
		case string:
			return int64(len(x)), true
		case mSlice:
			return int64(len(x.arr)), true
		case mArray:
			return int64(len(x)), true
		case *mMap:
			if x == nil {
				return int64(0), true
			}
			return int64(len(x.keys)), true
		case mNilT:
			if reflect.Kind(kind) == reflect.Slice || reflect.Kind(kind) == reflect.Map {
				return int64(0), true
			}
		}
	case "IsNil":
		switch reflect.Kind(kind) {
		case reflect.Chan, reflect.Func, reflect.Interface, reflect.Map, reflect.Pointer, reflect.Slice, reflect.UnsafePointer:
			switch x := v.rv.(type) {
			case mNilT:
				return true, true
			case *mv:
				return x == nil, true
			case mSlice:
				return x.arr == nil, true
			case *mMap:
				return x == nil, true
			case *mClosure:
				return x == nil, true
			case *ssa.Function:
				return x == nil, true
			case *mSym:
				if x.nonNil {
					return false, true
				}
			case mIface:
				return false, true
			}
		default:
			// as the reflect package does
			m.throw(m.sym("reflect: call of reflect.Value.IsNil on "+reflect.Kind(kind).String()+" Value", nil), "reflect: call of reflect.Value.IsNil on %s Value", reflect.Kind(kind))
		}
	}
	// outside the model: the run ends undecided - an invented result could be taken for the component's answer
	m.abort("reflect.Value.%s on %s (kind %s) is outside the machine's model of package reflect", method, mRender(v.rv), reflect.Kind(kind))
	return nil, false
}

// slicesModel: slices.Insert(s, i, v...) as the library defines it - in place when the capacity suffices (the
// tail moves up, aliases see it), into grown storage otherwise; an index out of range panics.
func (m *mach) slicesModel(fn *ssa.Function, name string, args []mv) (mv, bool) {
	if name != "Insert" || len(args) != 3 {
		return nil, false
	}
	var base []mv
	switch x := args[0].(type) {
	case mSlice:
		base = x.arr
	case mNilT:
	default:
		return nil, false
	}
	i, ok := args[1].(int64)
	if !ok {
		return nil, false
	}
	var add []mv
	switch y := args[2].(type) {
	case mSlice:
		for _, e := range y.arr {
			add = append(add, mcopy(e))
		}
	case mNilT:
	default:
		return nil, false
	}
	n := int64(len(base))
	if i < 0 || i > n {
		m.throw(m.sym("runtime error: slice bounds out of range", nil), "slices.Insert: index %d out of range [0:%d]", i, n)
	}
	if len(add) == 0 {
		return args[0], true
	}
	total := len(base) + len(add)
	if total <= cap(base) {
		out := base[:total]
		copy(out[int(i)+len(add):], base[i:])
		copy(out[i:], add)
		return mSlice{out}, true
	}
	var esize int64 = 8
	if st, ok := fn.Signature.Results().At(0).Type().Underlying().(*types.Slice); ok {
		esize = mSizes.Sizeof(st.Elem())
	}
	out := make([]mv, 0, growCap(int64(cap(base)), int64(total), esize))
	out = append(out, base[:i]...)
	out = append(out, add...)
	out = append(out, base[i:]...)
	return mSlice{out}, true
}
