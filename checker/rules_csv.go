package main

import (
	"fmt"
	"go/token"
	"sort"
	"strings"

	"golang.org/x/tools/go/ssa"
)

// ---------------------------------------------------------------------------------------------
// CSV — state routing of the CSV tokenizer (C09)
// ---------------------------------------------------------------------------------------------

type rangeReg struct {
	call   ssa.CallInstruction
	from   string // rendered argument
	to     string
	target string // state accessor name / bool
	inLoop string // "", or the ranged collection
}

// registrations collects calls of `method` in fn in block order, rendering the range arguments.
func (c *Ctx) rangeRegistrations(fn *ssa.Function, method string) []rangeReg {
	ex := c.newExpr(fn)
	var out []rangeReg
	for _, ci := range allCalls(fn) {
		f := calleeObj(ci.Common())
		if f == nil || f.Name() != method {
			continue
		}
		args := callArgs(ci.Common())
		if len(args) < 3 {
			continue
		}
		r := rangeReg{call: ci, from: ex.str(args[0]), to: ex.str(args[1])}
		switch t := stripConv(args[2]).(type) {
		case *ssa.Call:
			if g := calleeObj(t.Common()); g != nil {
				r.target = g.Name()
			}
		case *ssa.Const:
			r.target = t.Value.String()
		default:
			r.target = ex.str(args[2])
		}
		// ranged element?
		if ld, ok := stripConv(args[0]).(*ssa.UnOp); ok {
			if ia, ok := ld.X.(*ssa.IndexAddr); ok {
				r.inLoop = ex.str(ia.X)
				r.from, r.to = "elem", ex.str(args[1])
				if stripConv(args[1]) == stripConv(args[0]) || c.sameValue(args[0], args[1]) {
					r.to = "elem"
				}
			}
		}
		out = append(out, r)
	}
	return out
}

func init() {
	register(&Rule{ID: "CSV.route", Floor: 6,
		Doc: "CSV state table: everything is routed to the word state by a default registration that precedes the specific ones; CR, LF and every field separator go to the symbol state and every quote symbol to the quote state; the word state disables exactly those characters; the setters reject CR/LF/NUL and overlaps, rebuild the word state from the new configuration and re-assign the states; the four end-of-line spellings are Eol symbols; the symbol state's single-character fast path excludes CR and LF",
		Run: ruleCsvRoute})
}

func ruleCsvRoute(c *Ctx) []*Obligation {
	o := newObl("CSV.route")
	assign := c.MustFunc("csv", "CsvTokenizer", "AssignStates")
	// (a) AssignStates
	{
		regs := c.rangeRegistrations(assign, "SetCharacterState")
		key := c.FuncKey(assign) + "#routing"
		var desc []string
		for _, r := range regs {
			loop := ""
			if r.inLoop != "" {
				loop = " for each of " + r.inLoop
			}
			desc = append(desc, fmt.Sprintf("[%s..%s]→%s%s", r.from, r.to, r.target, loop))
		}
		got := strings.Join(desc, "; ")
		want := "[0..65535]→WordState; [13..13]→SymbolState; [10..10]→SymbolState; [elem..elem]→SymbolState for each of $0.fieldSeparators; [elem..elem]→QuoteState for each of $0.quoteSymbols"
		wantAlt := strings.Replace(want, "[13..13]→SymbolState; [10..10]→SymbolState", "[10..10]→SymbolState; [13..13]→SymbolState", 1)
		clearFirst := false
		if calls := allCalls(assign); len(calls) > 0 {
			if f := calleeObj(calls[0].Common()); f != nil && f.Name() == "ClearCharacterStates" {
				clearFirst = true
			}
		}
		if (got == want || got == wantAlt) && clearFirst {
			o.ok(key, c.Pos(assign.Pos()), got)
		} else {
			o.bad(key, c.Pos(assign.Pos()), "AssignStates registers {"+got+"} (clear first: "+fmt.Sprint(clearFirst)+"); expected the default word registration first, then CR, LF and each separator to the symbol state and each quote to the quote state — otherwise a separator, quote or line break inside/outside a field is classified wrongly")
		}
	}
	// (b) word state disables exactly the routed-away characters
	{
		ctor := c.MustFunc("csv", "", "NewCsvWordState")
		regs := c.rangeRegistrations(ctor, "SetWordChars")
		key := c.FuncKey(ctor) + "#disabled-set"
		var desc []string
		for _, r := range regs {
			loop := ""
			if r.inLoop != "" {
				loop = " for each of " + r.inLoop
			}
			desc = append(desc, fmt.Sprintf("[%s..%s]=%s%s", r.from, r.to, r.target, loop))
		}
		got := strings.Join(desc, "; ")
		want1 := "[0..65535]=true; [13..13]=false; [10..10]=false; [elem..elem]=false for each of $1; [elem..elem]=false for each of $2"
		want2 := strings.Replace(want1, "[13..13]=false; [10..10]=false", "[10..10]=false; [13..13]=false", 1)
		clearFirst := false
		for _, ci := range allCalls(ctor) {
			if f := calleeObj(ci.Common()); f != nil && f.Name() == "ClearWordChars" {
				clearFirst = len(regs) > 0 && instrDominates(ci, regs[0].call)
			}
		}
		if (got == want1 || got == want2) && clearFirst {
			o.ok(key, c.Pos(ctor.Pos()), got)
		} else {
			o.bad(key, c.Pos(ctor.Pos()), "the CSV word state enables/disables {"+got+"}; it must enable everything and then disable exactly CR, LF, the separators and the quotes — the same set AssignStates routes away from the word state")
		}
	}
	// (c) setters
	for _, spec := range []struct{ name, field, other, a1, a2 string }{
		{"SetFieldSeparators", "fieldSeparators", "quoteSymbols", "$1", "$0.quoteSymbols"},
		{"SetQuoteSymbols", "quoteSymbols", "fieldSeparators", "$0.fieldSeparators", "$1"},
	} {
		fn := c.MustFunc("csv", "CsvTokenizer", spec.name)
		ex := c.newExpr(fn)
		key := c.FuncKey(fn) + "#rebuilds"
		var bad []string
		// validation: compares each element with CR, LF, Nil and with the other set, panicking
		consts := map[int64]bool{}
		otherCmp := false
		for _, b := range fn.Blocks {
			ifi, ok := b.Instrs[len(b.Instrs)-1].(*ssa.If)
			if !ok {
				continue
			}
			bo, ok := ifi.Cond.(*ssa.BinOp)
			if !ok || bo.Op != token.EQL {
				continue
			}
			leadsToPanic := false
			if _, isP := b.Succs[0].Instrs[len(b.Succs[0].Instrs)-1].(*ssa.Panic); isP {
				leadsToPanic = true
			}
			if !leadsToPanic {
				continue
			}
			if k, isK := constInt(bo.Y); isK {
				consts[k] = true
			} else {
				otherCmp = true
			}
		}
		if !(consts[13] && consts[10] && consts[0]) {
			bad = append(bad, "does not reject CR, LF and NUL")
		}
		if !otherCmp {
			bad = append(bad, "does not reject a character that is already a "+spec.other+" entry")
		}
		// stores the field, installs a freshly built word state from (new separators, quotes), re-assigns
		stored, rebuilt, reassigned := false, false, false
		for _, b := range fn.Blocks {
			for _, in := range b.Instrs {
				if st, ok := in.(*ssa.Store); ok {
					if fa, ok := st.Addr.(*ssa.FieldAddr); ok && fieldName(fa.X.Type(), fa.Field) == spec.field && st.Val == ssa.Value(fn.Params[1]) {
						stored = true
					}
				}
			}
		}
		for _, ci := range allCalls(fn) {
			f := calleeObj(ci.Common())
			if f == nil {
				continue
			}
			if f.Name() == "SetWordState" {
				a := callArgs(ci.Common())[0]
				if s := ex.str(a); s == "NewCsvWordState("+spec.a1+", "+spec.a2+")" {
					rebuilt = true
				} else {
					bad = append(bad, "installs word state "+s)
				}
			}
			if f.Name() == "AssignStates" {
				reassigned = true
			}
		}
		if !stored {
			bad = append(bad, "does not store the new "+spec.field)
		}
		if !rebuilt {
			bad = append(bad, "does not install a word state rebuilt from the new configuration (characters of the previous configuration would stay disabled)")
		}
		if !reassigned {
			bad = append(bad, "does not re-assign the character states")
		}
		o.check(len(bad) == 0, key, c.Pos(fn.Pos()), "validates, stores, rebuilds the word state from (separators, quotes) and re-assigns the states", spec.name+" "+strings.Join(bad, "; "))
	}
	// (d) end-of-line symbols
	{
		ctor := c.MustFunc("csv", "", "NewCsvSymbolState")
		eol, _ := c.constByName("tokenizers", "Eol")
		got := map[string]bool{}
		for _, ci := range allCalls(ctor) {
			f := calleeObj(ci.Common())
			if f == nil || f.Name() != "Add" {
				continue
			}
			args := callArgs(ci.Common())
			s, isS := constString(args[0])
			k, isK := constInt(args[1])
			if isS && isK && k == eol {
				got[s] = true
			} else if isS {
				got[s+"(wrong type)"] = true
			}
		}
		var miss []string
		for _, w := range []string{"\n", "\r", "\r\n", "\n\r"} {
			if !got[w] {
				miss = append(miss, fmt.Sprintf("%q", w))
			}
		}
		sort.Strings(miss)
		o.check(len(miss) == 0, c.FuncKey(ctor)+"#eol-symbols", c.Pos(ctor.Pos()), "LF, CR, CRLF and LFCR are registered as Eol symbols", "end-of-line spelling(s) "+strings.Join(miss, ", ")+" not registered with type Eol: that line ending is not one end-of-line token")
	}
	// (e) symbol state fast path
	{
		fn := c.MustFunc("csv", "CsvSymbolState", "NextToken")
		key := c.FuncKey(fn) + "#fast-path-excludes-line-breaks"
		good := false
		for _, ci := range allCalls(fn) {
			if _, ok := c.callTo(ci, "tokenizers", "", "NewToken"); !ok {
				continue
			}
			notLF, notCR := false, false
			for _, g := range guardsAt(ci.Block()) {
				cond, truth := g.atom()
				if bo, ok := cond.(*ssa.BinOp); ok {
					k, isK := constInt(bo.Y)
					if isK && (bo.Op == token.NEQ) == truth {
						if k == 10 {
							notLF = true
						}
						if k == 13 {
							notCR = true
						}
					}
				}
			}
			good = notLF && notCR
		}
		o.check(good, key, c.Pos(fn.Pos()), "a plain Symbol token is built only for a character that is neither CR nor LF; line breaks go through the symbol tree", "the single-character fast path can return a CR or LF as a plain Symbol token: the line ending is not recognised as (one) Eol token")
	}
	return o.list
}
