package main

import (
	"fmt"
	"go/token"
	"go/types"
	"sort"
	"strings"

	"golang.org/x/tools/go/ssa"
)

// ---------------------------------------------------------------------------------------------
// CSV — state routing of the CSV tokenizer (C09)
// ---------------------------------------------------------------------------------------------

type rangeReg struct {
	call   ssa.CallInstruction
	from   string // rendered argument
	to     string
	target string // state accessor name / bool
	inLoop string // "", or the ranged collection
}

// registrations collects calls of `method` in fn in block order, rendering the range arguments.
func (c *Ctx) rangeRegistrations(fn *ssa.Function, method string) []rangeReg {
	ex := c.newExpr(fn)
	var out []rangeReg
	for _, ci := range allCalls(fn) {
		f := calleeObj(ci.Common())
		if f == nil || f.Name() != method {
			continue
		}
		args := callArgs(ci.Common())
		if len(args) < 3 {
			continue
		}
		r := rangeReg{call: ci, from: ex.str(args[0]), to: ex.str(args[1])}
		switch t := stripConv(args[2]).(type) {
		case *ssa.Call:
			if g := calleeObj(t.Common()); g != nil {
				r.target = g.Name()
			}
		case *ssa.Const:
			r.target = t.Value.String()
		default:
			r.target = ex.str(args[2])
		}
		// ranged element?
		if ld, ok := stripConv(args[0]).(*ssa.UnOp); ok {
			if ia, ok := ld.X.(*ssa.IndexAddr); ok {
				r.inLoop = ex.str(ia.X)
				r.from, r.to = "elem", ex.str(args[1])
				if stripConv(args[1]) == stripConv(args[0]) || c.sameValue(args[0], args[1]) {
					r.to = "elem"
				}
			}
		}
		out = append(out, r)
	}
	return out
}

// regEvent is one registration call, in program order; calls made inside helper functions of the
// module are included with the substitution of the helper's parameters by the caller's arguments.
type regEvent struct {
	call ssa.CallInstruction
	args []ssa.Value
	sub  []map[ssa.Value]ssa.Value // innermost first
}

func (e regEvent) resolve(v ssa.Value) ssa.Value {
	for _, m := range e.sub {
		if r, ok := m[v]; ok {
			v = r
		}
	}
	return v
}

// regEvents collects calls of the named methods in fn in block order, descending into statically
// bound module helpers (assignEach(chars, state)) up to two levels.
func (c *Ctx) regEvents(fn *ssa.Function, methods map[string]bool, depth int, sub []map[ssa.Value]ssa.Value) []regEvent {
	var out []regEvent
	for _, ci := range allCalls(fn) {
		f := calleeObj(ci.Common())
		if f != nil && methods[f.Name()] {
			out = append(out, regEvent{call: ci, args: callArgs(ci.Common()), sub: sub})
			continue
		}
		if g := ci.Common().StaticCallee(); g != nil && c.InModule(g) && g.Blocks != nil && depth > 0 && g != fn {
			m := map[ssa.Value]ssa.Value{}
			for i, p := range g.Params {
				if i < len(ci.Common().Args) {
					m[p] = ci.Common().Args[i]
				}
			}
			inner := c.regEvents(g, methods, depth-1, append([]map[ssa.Value]ssa.Value{m}, sub...))
			out = append(out, inner...)
		}
	}
	return out
}

// csvClasses: the character classes a rune-valued argument of a registration can stand for:
// "CR", "LF", "sep" (an element of the field separators), "quote" (an element of the quote symbols),
// "#<k>" for another constant, "?" for anything else. Collections are followed through slice
// literals, nested literals and range loops.
func (c *Ctx) csvClasses(e regEvent, v ssa.Value, sepOf, quoteOf func(ssa.Value) bool, depth int) map[string]bool {
	out := map[string]bool{}
	if depth == 0 {
		out["?"] = true
		return out
	}
	v = e.resolve(stripConv(v))
	add := func(m map[string]bool) {
		for k := range m {
			out[k] = true
		}
	}
	if k, ok := constInt(v); ok {
		switch k {
		case 13:
			out["CR"] = true
		case 10:
			out["LF"] = true
		default:
			out[fmt.Sprintf("#%d", k)] = true
		}
		return out
	}
	switch x := v.(type) {
	case *ssa.Phi:
		for _, ed := range x.Edges {
			add(c.csvClasses(e, ed, sepOf, quoteOf, depth-1))
		}
		return out
	case *ssa.UnOp:
		if ia, ok := x.X.(*ssa.IndexAddr); ok && x.Op == token.MUL {
			add(c.csvCollection(e, ia.X, sepOf, quoteOf, depth-1))
			return out
		}
	}
	out["?"] = true
	return out
}

// csvCollection: classes of the elements of a collection of runes (or of a collection of such collections).
func (c *Ctx) csvCollection(e regEvent, coll ssa.Value, sepOf, quoteOf func(ssa.Value) bool, depth int) map[string]bool {
	out := map[string]bool{}
	if depth == 0 {
		out["?"] = true
		return out
	}
	coll = e.resolve(coll)
	switch {
	case sepOf(coll):
		out["sep"] = true
		return out
	case quoteOf(coll):
		out["quote"] = true
		return out
	}
	add := func(m map[string]bool) {
		for k := range m {
			out[k] = true
		}
	}
	switch x := coll.(type) {
	case *ssa.Slice:
		if al, ok := x.X.(*ssa.Alloc); ok {
			// a slice literal: the values stored into its backing array
			n := 0
			for _, r := range *al.Referrers() {
				ia, ok := r.(*ssa.IndexAddr)
				if !ok {
					continue
				}
				for _, r2 := range *ia.Referrers() {
					if st, ok := r2.(*ssa.Store); ok {
						n++
						if _, isSlice := st.Val.Type().Underlying().(*types.Slice); isSlice {
							add(c.csvCollection(e, st.Val, sepOf, quoteOf, depth-1))
						} else {
							add(c.csvClasses(e, st.Val, sepOf, quoteOf, depth-1))
						}
					}
				}
			}
			if n > 0 {
				return out
			}
		}
		add(c.csvCollection(e, x.X, sepOf, quoteOf, depth-1))
		return out
	case *ssa.UnOp:
		// an element of a collection of collections (nested range loop)
		if ia, ok := x.X.(*ssa.IndexAddr); ok && x.Op == token.MUL {
			add(c.csvCollection(e, ia.X, sepOf, quoteOf, depth-1))
			return out
		}
	case *ssa.Phi:
		for _, ed := range x.Edges {
			add(c.csvCollection(e, ed, sepOf, quoteOf, depth-1))
		}
		return out
	}
	out["?"] = true
	return out
}

// foldCsvRegs folds range registrations (from, to, target) in program order under "the latest covering
// registration wins" over the classes {CR, LF, sep, quote, other}.
func (c *Ctx) foldCsvRegs(evs []regEvent, sepOf, quoteOf func(ssa.Value) bool, target func(regEvent) string) (map[string]string, string) {
	final := map[string]string{}
	pending := "" // a registration the fold cannot classify (forgotten again by a later Clear)
	for _, ev := range evs {
		if f := calleeObj(ev.call.Common()); f != nil && strings.HasPrefix(f.Name(), "Clear") {
			final = map[string]string{} // the table is emptied: earlier registrations are gone
			pending = ""
			continue
		}
		if len(ev.args) < 3 {
			continue
		}
		from := c.csvClasses(ev, ev.args[0], sepOf, quoteOf, 5)
		to := c.csvClasses(ev, ev.args[1], sepOf, quoteOf, 5)
		tg := target(ev)
		lo, loK := constInt(ev.resolve(stripConv(ev.args[0])))
		hi, hiK := constInt(ev.resolve(stripConv(ev.args[1])))
		switch {
		case loK && hiK && lo <= 10 && hi >= 0xfffe:
			for _, cl := range []string{"CR", "LF", "sep", "quote", "other"} {
				final[cl] = tg
			}
		case loK && hiK && lo == hi:
			switch lo {
			case 13:
				final["CR"] = tg
			case 10:
				final["LF"] = tg
			default:
				pending = fmt.Sprintf("a registration for the single character %d", lo)
			}
		case loK && hiK && lo <= hi:
			// a constant range that is not the full one: CR / LF inside it take the target; any other
			// character inside it is an ordinary character that would be treated like them
			if lo <= 13 && 13 <= hi {
				final["CR"] = tg
			}
			if lo <= 10 && 10 <= hi {
				final["LF"] = tg
			}
			others := hi - lo + 1
			if lo <= 13 && 13 <= hi {
				others--
			}
			if lo <= 10 && 10 <= hi {
				others--
			}
			if others > 0 && tg != final["other"] {
				final["other"] = fmt.Sprintf("%s for U+%04X..U+%04X", tg, lo, hi)
			}
		case loK && hiK:
			pending = fmt.Sprintf("a registration for the range %d..%d", lo, hi)
		default:
			// element registrations: from and to must be the same element
			if !c.sameValue(ev.resolve(stripConv(ev.args[0])), ev.resolve(stripConv(ev.args[1]))) || from["?"] || to["?"] {
				pending = "a registration whose range the analysis cannot classify"
				continue
			}
			for cl := range from {
				if strings.HasPrefix(cl, "#") {
					pending = "a registration for the constant character " + cl[1:]
					continue
				}
				final[cl] = tg
			}
		}
	}
	if pending != "" {
		return nil, pending
	}
	return final, ""
}

func init() {
	register(&Rule{ID: "CSV.route", Floor: 6,
		Doc: "CSV state table: everything is routed to the word state by a default registration that precedes the specific ones; CR, LF and every field separator go to the symbol state and every quote symbol to the quote state; the word state disables exactly those characters; the setters reject CR/LF/NUL and overlaps, rebuild the word state from the new configuration and re-assign the states; the four end-of-line spellings are Eol symbols; the symbol state's single-character fast path excludes CR and LF",
		Run: ruleCsvRoute})
}

func ruleCsvRoute(c *Ctx) []*Obligation {
	o := newObl("CSV.route")
	assign := c.MustFunc("csv", "CsvTokenizer", "AssignStates")
	// (a) AssignStates
	{
		key := c.FuncKey(assign) + "#routing"
		evs := c.regEvents(assign, map[string]bool{"SetCharacterState": true, "ClearCharacterStates": true}, 2, nil)
		isField := func(name string) func(ssa.Value) bool {
			return func(v ssa.Value) bool { return isFieldLoad(v, name) }
		}
		target := func(ev regEvent) string {
			v := ev.resolve(stripConv(ev.args[2]))
			for i := 0; i < 4; i++ {
				switch x := v.(type) {
				case *ssa.MakeInterface:
					v = ev.resolve(x.X)
				case *ssa.ChangeInterface:
					v = ev.resolve(x.X)
				}
			}
			if call, ok := v.(*ssa.Call); ok {
				if g := calleeObj(call.Common()); g != nil {
					return g.Name()
				}
			}
			return "?"
		}
		final, why := c.foldCsvRegs(evs, isField("fieldSeparators"), isField("quoteSymbols"), target)
		clearFirst := true // a Clear call resets the folded table; without one, the leading full-range registration overrides everything older
		want := map[string]string{"CR": "SymbolState", "LF": "SymbolState", "sep": "SymbolState", "quote": "QuoteState", "other": "WordState"}
		var diffs []string
		for _, cl := range []string{"CR", "LF", "sep", "quote", "other"} {
			if final != nil && final[cl] != want[cl] {
				diffs = append(diffs, fmt.Sprintf("%s → %s (expected %s)", cl, final[cl], want[cl]))
			}
		}
		switch {
		case why != "":
			o.undecided(key, c.Pos(assign.Pos()), "AssignStates contains "+why)
		case len(diffs) > 0 || !clearFirst:
			o.bad(key, c.Pos(assign.Pos()), "folding AssignStates' registrations (latest covering one wins; table cleared first: "+fmt.Sprint(clearFirst)+") gives "+strings.Join(diffs, ", ")+": a separator, quote or line break inside/outside a field is classified wrongly")
		default:
			o.ok(key, c.Pos(assign.Pos()), fmt.Sprintf("%d registration(s) fold to CR,LF,separators → symbol state; quotes → quote state; everything else → word state", len(evs)))
		}
	}
	// (b) word state disables exactly the routed-away characters
	{
		ctor := c.MustFunc("csv", "", "NewCsvWordState")
		key := c.FuncKey(ctor) + "#disabled-set"
		evs := c.regEvents(ctor, map[string]bool{"SetWordChars": true, "ClearWordChars": true}, 2, nil)
		isParam := func(i int) func(ssa.Value) bool {
			return func(v ssa.Value) bool { return i < len(ctor.Params) && v == ssa.Value(ctor.Params[i]) }
		}
		target := func(ev regEvent) string {
			if k, ok := ev.resolve(stripConv(ev.args[2])).(*ssa.Const); ok && k.Value != nil {
				return k.Value.String()
			}
			return "?"
		}
		final, why := c.foldCsvRegs(evs, isParam(0), isParam(1), target)
		clearFirst := true
		want := map[string]string{"CR": "false", "LF": "false", "sep": "false", "quote": "false", "other": "true"}
		var diffs []string
		for _, cl := range []string{"CR", "LF", "sep", "quote", "other"} {
			if final != nil && final[cl] != want[cl] {
				diffs = append(diffs, fmt.Sprintf("%s word character: %s (expected %s)", cl, final[cl], want[cl]))
			}
		}
		switch {
		case why != "":
			o.undecided(key, c.Pos(ctor.Pos()), "NewCsvWordState contains "+why)
		case len(diffs) > 0 || !clearFirst:
			o.bad(key, c.Pos(ctor.Pos()), "folding the CSV word state's registrations (cleared first: "+fmt.Sprint(clearFirst)+") gives "+strings.Join(diffs, ", ")+"; it must enable everything and then disable exactly CR, LF, the separators and the quotes — the same set AssignStates routes away from the word state")
		default:
			o.ok(key, c.Pos(ctor.Pos()), fmt.Sprintf("%d registration(s) fold to: everything is a word character except CR, LF, the separators and the quotes", len(evs)))
		}
	}
	// (c) setters
	for _, spec := range []struct{ name, field, other, a1, a2 string }{
		{"SetFieldSeparators", "fieldSeparators", "quoteSymbols", "$1", "$0.quoteSymbols"},
		{"SetQuoteSymbols", "quoteSymbols", "fieldSeparators", "$0.fieldSeparators", "$1"},
	} {
		fn := c.MustFunc("csv", "CsvTokenizer", spec.name)
		ex := c.newExpr(fn)
		key := c.FuncKey(fn) + "#rebuilds"
		var bad []string
		// validation: compares each element with CR, LF, Nil and with the other set, panicking
		consts := map[int64]bool{}
		otherCmp := false
		for _, b := range fn.Blocks {
			ifi, ok := b.Instrs[len(b.Instrs)-1].(*ssa.If)
			if !ok {
				continue
			}
			bo, ok := ifi.Cond.(*ssa.BinOp)
			if !ok || bo.Op != token.EQL {
				continue
			}
			leadsToPanic := false
			if _, isP := b.Succs[0].Instrs[len(b.Succs[0].Instrs)-1].(*ssa.Panic); isP {
				leadsToPanic = true
			}
			if !leadsToPanic {
				continue
			}
			if k, isK := constInt(bo.Y); isK {
				consts[k] = true
			} else {
				otherCmp = true
			}
		}
		if !(consts[13] && consts[10] && consts[0]) {
			bad = append(bad, "does not reject CR, LF and NUL")
		}
		if !otherCmp {
			bad = append(bad, "does not reject a character that is already a "+spec.other+" entry")
		}
		// stores the field, installs a freshly built word state from (new separators, quotes), re-assigns
		stored, rebuilt, reassigned := false, false, false
		for _, b := range fn.Blocks {
			for _, in := range b.Instrs {
				if st, ok := in.(*ssa.Store); ok {
					if fa, ok := st.Addr.(*ssa.FieldAddr); ok && fieldName(fa.X.Type(), fa.Field) == spec.field && st.Val == ssa.Value(fn.Params[1]) {
						stored = true
					}
				}
			}
		}
		for _, ci := range allCalls(fn) {
			f := calleeObj(ci.Common())
			if f == nil {
				continue
			}
			if f.Name() == "SetWordState" {
				a := callArgs(ci.Common())[0]
				if s := ex.str(a); s == "NewCsvWordState("+spec.a1+", "+spec.a2+")" {
					rebuilt = true
				} else {
					bad = append(bad, "installs word state "+s)
				}
			}
			if f.Name() == "AssignStates" {
				reassigned = true
			}
		}
		if !stored {
			bad = append(bad, "does not store the new "+spec.field)
		}
		if !rebuilt {
			bad = append(bad, "does not install a word state rebuilt from the new configuration (characters of the previous configuration would stay disabled)")
		}
		if !reassigned {
			bad = append(bad, "does not re-assign the character states")
		}
		o.check(len(bad) == 0, key, c.Pos(fn.Pos()), "validates, stores, rebuilds the word state from (separators, quotes) and re-assigns the states", spec.name+" "+strings.Join(bad, "; "))
	}
	// (d) end-of-line symbols
	{
		ctor := c.MustFunc("csv", "", "NewCsvSymbolState")
		eol, _ := c.constByName("tokenizers", "Eol")
		got := map[string]bool{}
		for _, ev := range c.regEvents(ctor, map[string]bool{"Add": true}, 2, nil) {
			if len(ev.args) < 2 {
				continue
			}
			k, isK := constInt(ev.resolve(ev.args[1]))
			for _, s := range c.stringsOf(ev, ev.args[0], 4) {
				if isK && k == eol {
					got[s] = true
				} else {
					got[s+"(wrong type)"] = true
				}
			}
		}
		var miss []string
		for _, w := range []string{"\n", "\r", "\r\n", "\n\r"} {
			if !got[w] {
				miss = append(miss, fmt.Sprintf("%q", w))
			}
		}
		sort.Strings(miss)
		o.check(len(miss) == 0, c.FuncKey(ctor)+"#eol-symbols", c.Pos(ctor.Pos()), "LF, CR, CRLF and LFCR are registered as Eol symbols", "end-of-line spelling(s) "+strings.Join(miss, ", ")+" not registered with type Eol: that line ending is not one end-of-line token")
	}
	// (e) symbol state fast path
	{
		fn := c.MustFunc("csv", "CsvSymbolState", "NextToken")
		key := c.FuncKey(fn) + "#fast-path-excludes-line-breaks"
		good := false
		for _, ci := range allCalls(fn) {
			if _, ok := c.callTo(ci, "tokenizers", "", "NewToken"); !ok {
				continue
			}
			notLF, notCR := false, false
			for _, g := range guardsAt(ci.Block()) {
				cond, truth := g.atom()
				if bo, ok := cond.(*ssa.BinOp); ok {
					k, isK := constInt(bo.Y)
					if isK && (bo.Op == token.NEQ) == truth {
						if k == 10 {
							notLF = true
						}
						if k == 13 {
							notCR = true
						}
					}
				}
			}
			good = notLF && notCR
		}
		o.check(good, key, c.Pos(fn.Pos()), "a plain Symbol token is built only for a character that is neither CR nor LF; line breaks go through the symbol tree", "the single-character fast path can return a CR or LF as a plain Symbol token: the line ending is not recognised as (one) Eol token")
	}
	return o.list
}

// stringsOf: the string constants a string-valued registration argument can stand for (a constant, an
// element of a slice literal of constants, a phi of those); nil when unknown.
func (c *Ctx) stringsOf(e regEvent, v ssa.Value, depth int) []string {
	if depth == 0 {
		return nil
	}
	v = e.resolve(v)
	if s, ok := constString(v); ok {
		return []string{s}
	}
	switch x := v.(type) {
	case *ssa.Phi:
		var out []string
		for _, ed := range x.Edges {
			out = append(out, c.stringsOf(e, ed, depth-1)...)
		}
		return out
	case *ssa.UnOp:
		ia, ok := x.X.(*ssa.IndexAddr)
		if !ok || x.Op != token.MUL {
			return nil
		}
		coll := e.resolve(ia.X)
		sl, ok := coll.(*ssa.Slice)
		if !ok {
			return nil
		}
		al, ok := sl.X.(*ssa.Alloc)
		if !ok {
			return nil
		}
		var out []string
		for _, r := range *al.Referrers() {
			if ia2, ok := r.(*ssa.IndexAddr); ok {
				for _, r2 := range *ia2.Referrers() {
					if st, ok := r2.(*ssa.Store); ok {
						out = append(out, c.stringsOf(e, st.Val, depth-1)...)
					}
				}
			}
		}
		return out
	}
	return nil
}
