package main

import (
	"go/constant"
	"go/token"
	"go/types"
	"strings"

	"golang.org/x/tools/go/ssa"
)

// calleeObj returns the called *types.Func for static calls and interface invokes, else nil.
func calleeObj(cc *ssa.CallCommon) *types.Func {
	if cc.IsInvoke() {
		return cc.Method
	}
	if f := cc.StaticCallee(); f != nil {
		if o, ok := f.Object().(*types.Func); ok {
			return o
		}
		if f.Origin() != nil {
			if o, ok := f.Origin().Object().(*types.Func); ok {
				return o
			}
		}
	}
	return nil
}

// recvNamed returns the name of the receiver's named type (pointer stripped), "" for functions.
func recvNamed(f *types.Func) string {
	sig, ok := f.Type().(*types.Signature)
	if !ok || sig.Recv() == nil {
		return ""
	}
	t := sig.Recv().Type()
	if p, ok := t.(*types.Pointer); ok {
		t = p.Elem()
	}
	if n, ok := t.(*types.Named); ok {
		return n.Obj().Name()
	}
	return ""
}

// funcIs reports whether f is pkg(.recv).name where pkg is matched as a module-relative suffix
// ("variants", "calculator/parsers") or a full import path ("strings", "math").
func (c *Ctx) funcIs(f *types.Func, pkg, recv, name string) bool {
	if f == nil || f.Name() != name || f.Pkg() == nil {
		return false
	}
	if recvNamed(f) != recv {
		return false
	}
	return c.pkgIs(f.Pkg(), pkg)
}

func (c *Ctx) pkgIs(p *types.Package, pkg string) bool {
	if p == nil {
		return false
	}
	if p.Path() == pkg {
		return true
	}
	return p.Path() == c.Module+"/"+pkg
}

// callTo reports whether instr is a call (or invoke) of pkg(.recv).name; recv "*" matches any receiver.
func (c *Ctx) callTo(instr ssa.Instruction, pkg, recv, name string) (*ssa.CallCommon, bool) {
	ci, ok := instr.(ssa.CallInstruction)
	if !ok {
		return nil, false
	}
	f := calleeObj(ci.Common())
	if f == nil || f.Name() != name {
		return nil, false
	}
	if recv == "*" {
		if !c.pkgIs(f.Pkg(), pkg) {
			return nil, false
		}
		return ci.Common(), true
	}
	if !c.funcIs(f, pkg, recv, name) {
		return nil, false
	}
	return ci.Common(), true
}

// callArgs returns the explicit arguments of a call, without the receiver.
func callArgs(cc *ssa.CallCommon) []ssa.Value {
	if cc.IsInvoke() {
		return cc.Args
	}
	if f := cc.StaticCallee(); f != nil && f.Signature.Recv() != nil && len(cc.Args) > 0 {
		return cc.Args[1:]
	}
	return cc.Args
}

// callRecv returns the receiver value of a method call / invoke (nil for plain functions).
func callRecv(cc *ssa.CallCommon) ssa.Value {
	if cc.IsInvoke() {
		return cc.Value
	}
	if f := cc.StaticCallee(); f != nil && f.Signature.Recv() != nil && len(cc.Args) > 0 {
		return cc.Args[0]
	}
	return nil
}

func constInt(v ssa.Value) (int64, bool) {
	k, ok := v.(*ssa.Const)
	if !ok || k.Value == nil {
		return 0, false
	}
	if k.Value.Kind() != constant.Int {
		return 0, false
	}
	n, exact := constant.Int64Val(k.Value)
	return n, exact
}

func constString(v ssa.Value) (string, bool) {
	k, ok := v.(*ssa.Const)
	if !ok || k.Value == nil || k.Value.Kind() != constant.String {
		return "", false
	}
	return constant.StringVal(k.Value), true
}

func isNilConst(v ssa.Value) bool {
	k, ok := v.(*ssa.Const)
	return ok && k.Value == nil
}

// stripConv removes value-preserving wrappers (ChangeType, Convert between ints, MakeInterface).
func stripConv(v ssa.Value) ssa.Value {
	for {
		switch x := v.(type) {
		case *ssa.ChangeType:
			v = x.X
		case *ssa.Convert:
			// only numeric-to-numeric conversions are transparent; string <-> []rune/[]byte change the dimension
			bf, okf := x.X.Type().Underlying().(*types.Basic)
			bt, okt := x.Type().Underlying().(*types.Basic)
			if okf && okt && bf.Info()&types.IsNumeric != 0 && bt.Info()&types.IsNumeric != 0 {
				v = x.X
				continue
			}
			return v
		case *ssa.MakeInterface:
			v = x.X
		case *ssa.ChangeInterface:
			v = x.X
		default:
			return v
		}
	}
}

// ---- dominance and guards ---------------------------------------------------------------------

func dominates(a, b *ssa.BasicBlock) bool { return a.Dominates(b) }

// instrDominates reports whether instruction a executes before b on every path to b.
func instrDominates(a, b ssa.Instruction) bool {
	ba, bb := a.Block(), b.Block()
	if ba == bb {
		for _, in := range ba.Instrs {
			if in == a {
				return true
			}
			if in == b {
				return false
			}
		}
		return false
	}
	return ba.Dominates(bb)
}

type guard struct {
	Cond  ssa.Value
	Truth bool
	If    *ssa.If
	// Sub is set for a condition that holds inside a predicate helper the guard calls
	// (`if isValid(x, n)`): it maps the helper's parameters to the arguments of that call, so that
	// the operands of Cond can be read in the caller's terms with operand().
	Sub map[ssa.Value]ssa.Value
}

// operand translates an operand of g.Cond into the guarded function's own values.
func (g guard) operand(v ssa.Value) ssa.Value {
	if g.Sub != nil {
		if r, ok := g.Sub[v]; ok {
			return r
		}
	}
	return v
}

// guardsAt returns the branch conditions known on entry to block b: for each dominating If whose
// taken successor has that If block as its only predecessor and dominates b.
func guardsAt(b *ssa.BasicBlock) []guard {
	var out []guard
	for d := b; d != nil; d = d.Idom() {
		if len(d.Preds) != 1 {
			continue
		}
		p := d.Preds[0]
		if len(p.Instrs) == 0 {
			continue
		}
		ifi, ok := p.Instrs[len(p.Instrs)-1].(*ssa.If)
		if !ok {
			continue
		}
		if p.Succs[0] == d && p.Succs[1] != d {
			out = append(out, guard{Cond: ifi.Cond, Truth: true, If: ifi})
		} else if p.Succs[1] == d && p.Succs[0] != d {
			out = append(out, guard{Cond: ifi.Cond, Truth: false, If: ifi})
		}
	}
	return expandHelperGuards(expandBoolPhis(out, 3))
}

// ModuleFilter tells guard expansion which callees belong to the analysed module.
var moduleFilter func(*ssa.Function) bool

// expandHelperGuards: a guard that calls a small predicate helper of the module (`if isValid(x, n)`)
// implies every condition that holds on all paths of the helper returning the guarded truth value.
// Those conditions are appended with a parameter → argument substitution (guard.Sub).
func expandHelperGuards(gs []guard) []guard {
	var extra []guard
	for _, g := range gs {
		if g.Sub != nil {
			continue
		}
		cond, truth := g.atom()
		call, ok := cond.(*ssa.Call)
		if !ok {
			continue
		}
		h := call.Call.StaticCallee()
		if h == nil || h.Blocks == nil || len(h.Blocks) > 12 || moduleFilter == nil || !moduleFilter(h) {
			continue
		}
		if h.Signature.Results().Len() != 1 || !isBoolType(h.Signature.Results().At(0).Type()) {
			continue
		}
		sub := map[ssa.Value]ssa.Value{}
		for i, p := range h.Params {
			if i < len(call.Call.Args) {
				sub[p] = call.Call.Args[i]
			}
		}
		// conditions per return that can yield `truth`, then their intersection
		var common []guard
		first := true
		for _, b := range h.Blocks {
			ret, ok := b.Instrs[len(b.Instrs)-1].(*ssa.Return)
			if !ok {
				continue
			}
			rv := ret.Results[0]
			if k, isK := rv.(*ssa.Const); isK && k.Value != nil && constant.BoolVal(k.Value) != truth {
				continue
			}
			var here []guard
			for d := b; d != nil; d = d.Idom() {
				if len(d.Preds) != 1 {
					continue
				}
				p := d.Preds[0]
				ifi, ok := p.Instrs[len(p.Instrs)-1].(*ssa.If)
				if !ok {
					continue
				}
				if p.Succs[0] == d && p.Succs[1] != d {
					here = append(here, guard{Cond: ifi.Cond, Truth: true, If: ifi})
				} else if p.Succs[1] == d && p.Succs[0] != d {
					here = append(here, guard{Cond: ifi.Cond, Truth: false, If: ifi})
				}
			}
			if _, isK := rv.(*ssa.Const); !isK {
				here = append(here, guard{Cond: rv, Truth: truth})
			}
			here = expandBoolPhis(here, 3)
			if first {
				common, first = here, false
				continue
			}
			var keep []guard
			for _, a := range common {
				for _, bb := range here {
					if a.Cond == bb.Cond && a.Truth == bb.Truth {
						keep = append(keep, a)
						break
					}
				}
			}
			common = keep
		}
		for _, a := range common {
			extra = append(extra, guard{Cond: a.Cond, Truth: a.Truth, If: g.If, Sub: sub})
		}
	}
	return append(gs, extra...)
}

// expandBoolPhis: a guard on a boolean that was built by short-circuit code (`x := a && b; if x`, which
// go/ssa renders as a phi of constants and the last operand) implies the conditions of the only edge
// on which the phi can have the guarded truth value.
func expandBoolPhis(gs []guard, depth int) []guard {
	if depth == 0 {
		return gs
	}
	var extra []guard
	for _, g := range gs {
		cond, truth := g.atom()
		phi, ok := cond.(*ssa.Phi)
		if !ok || !isBoolType(phi.Type()) {
			continue
		}
		cand := -1
		n := 0
		for i, e := range phi.Edges {
			if k, isK := e.(*ssa.Const); isK && k.Value != nil {
				if constant.BoolVal(k.Value) != truth {
					continue // this edge cannot produce the guarded value
				}
			}
			n++
			cand = i
		}
		if n != 1 {
			continue
		}
		pred := phi.Block().Preds[cand]
		var add []guard
		// conditions of the edge itself (computed without recursion into guardsAt's expansion of this phi)
		for d := pred; d != nil; d = d.Idom() {
			if len(d.Preds) != 1 {
				continue
			}
			p := d.Preds[0]
			ifi, ok := p.Instrs[len(p.Instrs)-1].(*ssa.If)
			if !ok {
				continue
			}
			if p.Succs[0] == d && p.Succs[1] != d {
				add = append(add, guard{Cond: ifi.Cond, Truth: true, If: ifi})
			} else if p.Succs[1] == d && p.Succs[0] != d {
				add = append(add, guard{Cond: ifi.Cond, Truth: false, If: ifi})
			}
		}
		if ifi, ok := pred.Instrs[len(pred.Instrs)-1].(*ssa.If); ok {
			if pred.Succs[0] == phi.Block() && pred.Succs[1] != phi.Block() {
				add = append(add, guard{Cond: ifi.Cond, Truth: true, If: ifi})
			} else if pred.Succs[1] == phi.Block() && pred.Succs[0] != phi.Block() {
				add = append(add, guard{Cond: ifi.Cond, Truth: false, If: ifi})
			}
		}
		if _, isK := phi.Edges[cand].(*ssa.Const); !isK {
			add = append(add, guard{Cond: phi.Edges[cand], Truth: truth, If: g.If})
		}
		// keep only facts not already known
		for _, a := range add {
			dup := false
			for _, h := range gs {
				if h.Cond == a.Cond && h.Truth == a.Truth {
					dup = true
				}
			}
			for _, h := range extra {
				if h.Cond == a.Cond && h.Truth == a.Truth {
					dup = true
				}
			}
			if !dup {
				extra = append(extra, a)
			}
		}
	}
	if len(extra) == 0 {
		return gs
	}
	return append(gs, expandBoolPhis(extra, depth-1)...)
}

// atoms expands a guard through boolean negation (UnOp NOT): returns (cond, truth) pairs.
func (g guard) atom() (ssa.Value, bool) {
	v, t := g.Cond, g.Truth
	for {
		if u, ok := v.(*ssa.UnOp); ok && u.Op == token.NOT {
			v = u.X
			t = !t
			continue
		}
		return v, t
	}
}

// sameValue is value identity modulo pure-call congruence: two calls to the same side-effect-free
// accessor on congruent receivers are the same value (go/ssa performs no CSE), as are two loads of
// the same field of congruent bases, and equal constants.
func (c *Ctx) sameValue(a, b ssa.Value) bool {
	return c.sameValueDepth(a, b, 6)
}

func (c *Ctx) sameValueDepth(a, b ssa.Value, depth int) bool {
	a, b = stripConv(a), stripConv(b)
	if a == b {
		return true
	}
	if depth == 0 {
		return false
	}
	switch x := a.(type) {
	case *ssa.Const:
		y, ok := b.(*ssa.Const)
		if !ok {
			return false
		}
		if x.Value == nil || y.Value == nil {
			return x.Value == nil && y.Value == nil
		}
		return constant.Compare(x.Value, token.EQL, y.Value)
	case *ssa.Call:
		y, ok := b.(*ssa.Call)
		if !ok {
			return false
		}
		fx, fy := calleeObj(x.Common()), calleeObj(y.Common())
		if fx == nil || fx != fy || !c.isPureAccessor(fx) {
			if bx, ok := x.Call.Value.(*ssa.Builtin); ok {
				if by, ok := y.Call.Value.(*ssa.Builtin); ok && bx.Name() == by.Name() && bx.Name() == "len" {
					return c.sameValueDepth(x.Call.Args[0], y.Call.Args[0], depth-1)
				}
			}
			return false
		}
		if len(x.Call.Args) != len(y.Call.Args) {
			return false
		}
		if x.Call.IsInvoke() != y.Call.IsInvoke() {
			return false
		}
		if x.Call.IsInvoke() && !c.sameValueDepth(x.Call.Value, y.Call.Value, depth-1) {
			return false
		}
		for i := range x.Call.Args {
			if !c.sameValueDepth(x.Call.Args[i], y.Call.Args[i], depth-1) {
				return false
			}
		}
		return true
	case *ssa.UnOp:
		y, ok := b.(*ssa.UnOp)
		if !ok || x.Op != y.Op {
			return false
		}
		if x.Op == token.MUL { // load
			return c.sameAddr(x.X, y.X, depth-1)
		}
		return c.sameValueDepth(x.X, y.X, depth-1)
	case *ssa.BinOp:
		y, ok := b.(*ssa.BinOp)
		if !ok || x.Op != y.Op {
			return false
		}
		return c.sameValueDepth(x.X, y.X, depth-1) && c.sameValueDepth(x.Y, y.Y, depth-1)
	case *ssa.Extract:
		y, ok := b.(*ssa.Extract)
		return ok && x.Index == y.Index && x.Tuple == y.Tuple
	}
	return false
}

func (c *Ctx) sameAddr(a, b ssa.Value, depth int) bool {
	if a == b {
		return true
	}
	if depth == 0 {
		return false
	}
	switch x := a.(type) {
	case *ssa.FieldAddr:
		y, ok := b.(*ssa.FieldAddr)
		return ok && x.Field == y.Field && c.sameValueDepth(x.X, y.X, depth-1)
	case *ssa.Global:
		return a == b
	}
	return false
}

// isPureAccessor: a module method whose body only reads (no stores, no calls except other pure
// accessors and len). Computed structurally and memoised.
var pureMemo = map[*types.Func]int{} // 0 unknown, 1 pure, 2 impure, 3 in progress

func (c *Ctx) isPureAccessor(f *types.Func) bool {
	switch pureMemo[f] {
	case 1:
		return true
	case 2:
		return false
	case 3:
		return false
	}
	pureMemo[f] = 3
	res := c.computePure(f)
	if res {
		pureMemo[f] = 1
	} else {
		pureMemo[f] = 2
	}
	return res
}

func (c *Ctx) computePure(f *types.Func) bool {
	fn := c.Prog.FuncValue(f)
	if fn == nil || fn.Blocks == nil {
		// interface method: pure iff every module implementation is pure
		impls := c.implsOfMethod(f)
		if len(impls) == 0 {
			return false
		}
		for _, m := range impls {
			if !c.isPureAccessor(m) {
				return false
			}
		}
		return true
	}
	if !c.InModule(fn) {
		return false
	}
	for _, b := range fn.Blocks {
		for _, in := range b.Instrs {
			switch x := in.(type) {
			case *ssa.Store, *ssa.MapUpdate, *ssa.Send, *ssa.Go, *ssa.Defer, *ssa.Panic:
				return false
			case ssa.CallInstruction:
				cc := x.Common()
				if bi, ok := cc.Value.(*ssa.Builtin); ok {
					if bi.Name() == "len" || bi.Name() == "cap" {
						continue
					}
					return false
				}
				g := calleeObj(cc)
				if g == nil || !c.isPureAccessor(g) {
					return false
				}
			}
		}
	}
	return true
}

// implsOfMethod returns the concrete module methods implementing interface method m.
func (c *Ctx) implsOfMethod(m *types.Func) []*types.Func {
	sig, ok := m.Type().(*types.Signature)
	if !ok || sig.Recv() == nil {
		return nil
	}
	iface, ok := sig.Recv().Type().Underlying().(*types.Interface)
	if !ok {
		return nil
	}
	var out []*types.Func
	for _, p := range c.Lib {
		scope := p.Types.Scope()
		for _, n := range scope.Names() {
			tn, ok := scope.Lookup(n).(*types.TypeName)
			if !ok {
				continue
			}
			if _, isIface := tn.Type().Underlying().(*types.Interface); isIface {
				continue
			}
			for _, t := range []types.Type{tn.Type(), types.NewPointer(tn.Type())} {
				if !types.Implements(t, iface) {
					continue
				}
				ms := c.Prog.MethodSets.MethodSet(t)
				if sel := ms.Lookup(m.Pkg(), m.Name()); sel != nil {
					if fo, ok := sel.Obj().(*types.Func); ok {
						out = append(out, fo)
					}
				}
				break
			}
		}
	}
	return out
}

// implsOf returns module named types (as pointer types when needed) implementing the interface
// pkgRel.name.
func (c *Ctx) implsOf(pkgRel, ifaceName string) []*types.Named {
	p := c.Lib[pkgRel]
	if p == nil {
		return nil
	}
	obj := p.Types.Scope().Lookup(ifaceName)
	if obj == nil {
		return nil
	}
	iface, ok := obj.Type().Underlying().(*types.Interface)
	if !ok {
		return nil
	}
	var out []*types.Named
	for _, lp := range c.Lib {
		scope := lp.Types.Scope()
		for _, n := range scope.Names() {
			tn, ok := scope.Lookup(n).(*types.TypeName)
			if !ok {
				continue
			}
			nt, ok := tn.Type().(*types.Named)
			if !ok {
				continue
			}
			if _, isIface := nt.Underlying().(*types.Interface); isIface {
				continue
			}
			if types.Implements(nt, iface) || types.Implements(types.NewPointer(nt), iface) {
				out = append(out, nt)
			}
		}
	}
	return out
}

// methodOf returns the SSA function that implements method name for *T (following embedding).
// declaredOnly: return nil if the method is promoted from an embedded field.
func (c *Ctx) methodOf(nt *types.Named, name string, declaredOnly bool) *ssa.Function {
	ms := c.Prog.MethodSets.MethodSet(types.NewPointer(nt))
	for i := 0; i < ms.Len(); i++ {
		sel := ms.At(i)
		if sel.Obj().Name() != name {
			continue
		}
		if declaredOnly && len(sel.Index()) != 1 {
			return nil
		}
		return c.Prog.MethodValue(sel)
	}
	return nil
}

// constByName returns the value of an integer constant declared in a library package.
func (c *Ctx) constByName(pkgRel, name string) (int64, bool) {
	p := c.Lib[pkgRel]
	if p == nil {
		return 0, false
	}
	k, ok := p.Types.Scope().Lookup(name).(*types.Const)
	if !ok {
		return 0, false
	}
	n, exact := constant.Int64Val(constant.ToInt(k.Val()))
	return n, exact
}

// constNames returns value → name for all integer constants of the named type (or untyped ints
// when typeName == "") in pkgRel.
func (c *Ctx) constNames(pkgRel, typeName string) map[int64]string {
	out := map[int64]string{}
	p := c.Lib[pkgRel]
	if p == nil {
		return out
	}
	scope := p.Types.Scope()
	for _, n := range scope.Names() {
		k, ok := scope.Lookup(n).(*types.Const)
		if !ok || k.Val().Kind() != constant.Int {
			continue
		}
		if typeName != "" {
			nt, ok := k.Type().(*types.Named)
			if !ok || nt.Obj().Name() != typeName {
				continue
			}
		} else if _, named := k.Type().(*types.Named); named {
			continue
		}
		v, _ := constant.Int64Val(k.Val())
		if _, dup := out[v]; !dup {
			out[v] = n
		}
	}
	return out
}

// reachableBlocks returns blocks reachable from start (inclusive) without passing through stop.
func reachableBlocks(start *ssa.BasicBlock, stop map[*ssa.BasicBlock]bool) map[*ssa.BasicBlock]bool {
	seen := map[*ssa.BasicBlock]bool{}
	var walk func(b *ssa.BasicBlock)
	walk = func(b *ssa.BasicBlock) {
		if seen[b] || stop[b] {
			return
		}
		seen[b] = true
		for _, s := range b.Succs {
			walk(s)
		}
	}
	walk(start)
	return seen
}

// dominatedBlocks returns all blocks dominated by b (inclusive).
func dominatedBlocks(b *ssa.BasicBlock) []*ssa.BasicBlock {
	var out []*ssa.BasicBlock
	var walk func(x *ssa.BasicBlock)
	walk = func(x *ssa.BasicBlock) {
		out = append(out, x)
		for _, d := range x.Dominees() {
			walk(d)
		}
	}
	walk(b)
	return out
}

// allCalls lists call instructions of fn in block order.
func allCalls(fn *ssa.Function) []ssa.CallInstruction {
	var out []ssa.CallInstruction
	for _, b := range fn.Blocks {
		for _, in := range b.Instrs {
			if ci, ok := in.(ssa.CallInstruction); ok {
				out = append(out, ci)
			}
		}
	}
	return out
}

func shortType(t types.Type) string {
	s := t.String()
	if i := strings.LastIndex(s, "/"); i >= 0 {
		s = s[i+1:]
	}
	return s
}

// returnsOf lists the Return instructions of fn.
func returnsOf(fn *ssa.Function) []*ssa.Return {
	var out []*ssa.Return
	for _, b := range fn.Blocks {
		if len(b.Instrs) == 0 {
			continue
		}
		if r, ok := b.Instrs[len(b.Instrs)-1].(*ssa.Return); ok {
			out = append(out, r)
		}
	}
	return out
}

// phiLeaves expands a value through Phi nodes into its non-phi sources.
func phiLeaves(v ssa.Value) []ssa.Value {
	var out []ssa.Value
	seen := map[ssa.Value]bool{}
	var walk func(x ssa.Value)
	walk = func(x ssa.Value) {
		if seen[x] {
			return
		}
		seen[x] = true
		if p, ok := x.(*ssa.Phi); ok {
			for _, e := range p.Edges {
				walk(e)
			}
			return
		}
		out = append(out, x)
	}
	walk(v)
	return out
}
