package main

import (
	"fmt"
	"strings"
	"sync"
)

// ---------------------------------------------------------------------------------------------
// CSV.roundtrip (C09): tables written as the statement says (raw or quote-encoded fields, joined by
// a separator, rows by a line ending) and read by the CSV tokenizer, evaluated abstractly through
// NewCsvTokenizer / SetFieldSeparators / SetQuoteSymbols / SetDecodeStrings / TokenizeBuffer, give
// the table back - for every configuration of separators × quote symbols × line ending of a finite
// family and every pair of fields over {letter, separator, quote, LF, CR, non-Latin}.
// ---------------------------------------------------------------------------------------------

type csvConfig struct {
	seps, quotes []rune
	eol          string
}

func csvWrite(table [][]string, cfg csvConfig, q rune, sep rune, quoteAll bool) string {
	var rows []string
	for _, row := range table {
		var fs []string
		for _, f := range row {
			needs := strings.ContainsAny(f, "\r\n")
			for _, s := range cfg.seps {
				if strings.ContainsRune(f, s) {
					needs = true
				}
			}
			for _, qq := range cfg.quotes {
				if strings.ContainsRune(f, qq) {
					needs = true
				}
			}
			// a field may always be written quote-encoded (the empty field as two quotes), except the
			// single field of a one-field row, which written as two quotes is still one empty field
			if needs || (quoteAll && len(row) > 1) {
				f = string(q) + strings.ReplaceAll(f, string(q), string(q)+string(q)) + string(q)
			}
			fs = append(fs, f)
		}
		rows = append(rows, strings.Join(fs, string(sep)))
	}
	return strings.Join(rows, cfg.eol)
}

// csvRead rebuilds the table from the token stream: field tokens, separator symbols, Eol tokens.
func csvRead(toks []tkTok, cfg csvConfig) [][]string {
	var table [][]string
	var row []string
	field, has := "", false
	for _, t := range toks {
		isSep := false
		if t.typ == "Symbol" && len([]rune(t.val)) == 1 {
			for _, s := range cfg.seps {
				if []rune(t.val)[0] == s {
					isSep = true
				}
			}
		}
		switch {
		case isSep:
			row = append(row, field)
			field, has = "", false
		case t.typ == "Eol":
			row = append(row, field)
			table = append(table, row)
			row, field, has = nil, "", false
		case t.typ == "Eof":
			row = append(row, field)
			table = append(table, row)
		default:
			if has {
				field += "⟂" + t.val // two field tokens without a separator between them
			} else {
				field, has = t.val, true
			}
		}
	}
	return table
}

var csvxMemo *simpleVerdict
var csvxMu sync.Mutex

func (c *Ctx) csvxRun() *simpleVerdict {
	csvxMu.Lock()
	defer csvxMu.Unlock()
	if csvxMemo != nil {
		return csvxMemo
	}
	var cfgs []csvConfig
	for _, seps := range [][]rune{{','}, {';'}, {',', ';'}, {'\t'}, {'、'}} {
		for _, qs := range [][]rune{{'"'}, {'\''}, {'"', '\''}, {'«'}, {'「'}} {
			for _, eol := range []string{"\n", "\r", "\r\n", "\n\r"} {
				cfgs = append(cfgs, csvConfig{seps, qs, eol})
			}
		}
	}
	nw := 12
	parts := make([]*simpleVerdict, nw)
	var wg sync.WaitGroup
	for w := 0; w < nw; w++ {
		wg.Add(1)
		go func(w int) {
			defer wg.Done()
			v := &simpleVerdict{}
			parts[w] = v
			h := c.newTkHarness("csv")
			if h.fault != "" {
				v.undec = h.fault
				return
			}
			runes := func(rs []rune) mv {
				arr := make([]mv, len(rs))
				for i, r := range rs {
					arr[i] = int64(r)
				}
				return mSlice{arr}
			}
			for ci := w; ci < len(cfgs); ci += nw {
				cfg := cfgs[ci]
				// a fresh tokenizer per configuration: setters must be called in an order that never makes
				// a separator equal to a configured quote
				h = c.newTkHarness("csv")
				if why := h.setOptions(1 << 6); why != "" { // DecodeStrings
					v.undec = why
					return
				}
				if _, out := h.call("SetQuoteSymbols", runes([]rune{'\x01'})); out.kind != "ok" {
					v.undec = "SetQuoteSymbols: " + out.why
					return
				}
				if _, out := h.call("SetFieldSeparators", runes(cfg.seps)); out.kind == "panic" {
					v.bad = fmt.Sprintf("SetFieldSeparators(%q) on a tokenizer whose only quote symbol is U+0001 panics: %s - a valid choice of separators is refused", string(cfg.seps), out.why)
					return
				} else if out.kind != "ok" {
					v.undec = "SetFieldSeparators: " + out.why
					return
				}
				if _, out := h.call("SetQuoteSymbols", runes(cfg.quotes)); out.kind == "panic" {
					v.bad = fmt.Sprintf("SetQuoteSymbols(%q) with separators %q panics: %s - a valid choice of quote symbols is refused", string(cfg.quotes), string(cfg.seps), out.why)
					return
				} else if out.kind != "ok" {
					v.undec = "SetQuoteSymbols: " + out.why
					return
				}
				// re-configuring with the same valid choice, and extending it, is valid too
				if _, out := h.call("SetFieldSeparators", runes(cfg.seps)); out.kind == "panic" {
					v.bad = fmt.Sprintf("SetFieldSeparators(%q) a second time panics: %s - keeping a separator already in effect is refused", string(cfg.seps), out.why)
					return
				}
				if _, out := h.call("SetQuoteSymbols", runes(cfg.quotes)); out.kind == "panic" {
					v.bad = fmt.Sprintf("SetQuoteSymbols(%q) a second time panics: %s - keeping a quote symbol already in effect is refused", string(cfg.quotes), out.why)
					return
				}
				alpha := []string{"a", string(cfg.seps[0]), string(cfg.quotes[0]), "\n", "\r", "ж", "\v", "\f"}
				// the default separator and quote are plain data once they are configured away
				for _, dflt := range []rune{',', '"'} {
					used := false
					for _, r := range append(append([]rune{}, cfg.seps...), cfg.quotes...) {
						if r == dflt {
							used = true
						}
					}
					if !used {
						alpha = append(alpha, string(dflt))
					}
				}
				if len(cfg.seps) > 1 {
					alpha = append(alpha, string(cfg.seps[1]))
				}
				if len(cfg.quotes) > 1 {
					alpha = append(alpha, string(cfg.quotes[1]))
				}
				fields := []string{""}
				for _, a := range alpha {
					fields = append(fields, a)
					for _, b := range alpha {
						fields = append(fields, a+b)
					}
				}
				fields = append(fields, "é€\ufffe", "a b", string(cfg.quotes[0])+string(cfg.quotes[0])+string(cfg.quotes[0]))
				// Latin-1 signs and the edges of the Latin-1 blocks are ordinary field text
				fields = append(fields, "£5", "10°C", "\u0080", "a\u00a0b", "\u00bf\u00c0", "×÷", "\u007f\u0081", "§ 4")
				// a tokenizer created afterwards with the default configuration is not affected by this one's
				{
					d := c.newTkHarnessOn(h.m, "csv")
					dcfg := csvConfig{[]rune{','}, []rune{'"'}, "\n"}
					table := [][]string{{"a", "b;c'd"}, {"e\tf", "g"}}
					if d.fault == "" && d.setOptions(1<<6) == "" {
						text := csvWrite(table, dcfg, '"', ',', false)
						if r := d.tokenize(text); r.kind == "ok" {
							if got := csvRead(r.toks, dcfg); fmt.Sprintf("%q", got) != fmt.Sprintf("%q", table) && v.bad == "" {
								v.bad = fmt.Sprintf("a tokenizer with the default configuration, created after another one was configured with separators %q and quotes %q, reads %q back as %q [%s]: the instances share their separator or quote lists", string(cfg.seps), string(cfg.quotes), text, got, renderToks(r.toks))
							}
						} else if r.kind == "panic" && v.bad == "" {
							v.bad = fmt.Sprintf("a default tokenizer created after one configured with separators %q and quotes %q panics on %q: %s", string(cfg.seps), string(cfg.quotes), text, r.why)
						}
						v.runs++
					}
				}
				k := 0
				seconds := append([]string{"", "é€"}, alpha...)
				for _, f1 := range fields {
					for _, f2 := range seconds {
						k++
						table := [][]string{{f1, f2}, {"x", ""}}
						switch k % 4 {
						case 1:
							table = [][]string{{"", "y"}, {f1, f2}}
						case 2:
							table = [][]string{{f1, "", f2}}
						case 3:
							table = [][]string{{f1}, {""}, {f2}} // a row that is one empty field
							if f1 == "" || f2 == "" {
								table = [][]string{{"p"}, {""}, {""}, {f1 + "q" + f2}}
							}
						}
						q := cfg.quotes[k%len(cfg.quotes)]
						sep := cfg.seps[k%len(cfg.seps)]
						text := csvWrite(table, cfg, q, sep, k%5 == 0)
						v.runs++
						if k%701 == 0 {
							noteSample("CSV.roundtrip/tables", fmt.Sprintf("separators %q quotes %q eol %q: %q", string(cfg.seps), string(cfg.quotes), cfg.eol, text))
						}
						r := h.tokenize(text)
						show := fmt.Sprintf("separators %q quotes %q line ending %q: table %q written as %q", string(cfg.seps), string(cfg.quotes), cfg.eol, table, text)
						if r.kind == "panic" {
							v.bad = show + " panics: " + r.why
							continue
						}
						if r.kind != "ok" {
							v.undec = show + ": " + r.why
							continue
						}
						got := csvRead(r.toks, cfg)
						if fmt.Sprintf("%q", got) != fmt.Sprintf("%q", table) && (v.bad == "" || len(show) < 60) {
							if v.bad == "" {
								v.bad = fmt.Sprintf("%s is read back as %q [%s]", show, got, renderToks(r.toks))
							}
						}
					}
				}
			}
		}(w)
	}
	wg.Wait()
	total := &simpleVerdict{}
	for _, p := range parts {
		total.runs += p.runs
		if p.bad != "" && (total.bad == "" || len(p.bad) < len(total.bad)) {
			total.bad = p.bad
		}
		if p.undec != "" && total.undec == "" {
			total.undec = p.undec
		}
	}
	csvxMemo = total
	return total
}

func init() {
	register(&Rule{ID: "CSV.roundtrip", Floor: 1,
		Doc: "the CSV tokenizer evaluated abstractly (NewCsvTokenizer, SetFieldSeparators, SetQuoteSymbols, SetDecodeStrings, TokenizeBuffer) on tables written per the statement: 100 configurations (separator sets × quote sets × LF/CR/CRLF/LFCR) × every field over {letter, separators, quotes, LF, CR, non-Latin} up to length 2 paired with every single-character field, in three table shapes: the rows and fields come back exactly",
		Run: func(c *Ctx) []*Obligation {
			return emitSimple(c, "CSV.roundtrip", "csv.CsvTokenizer#table-roundtrip", c.Pos(c.MustFunc("csv", "", "NewCsvTokenizer").Pos()), c.csvxRun(), "tables round-trip")
		}})
}
