package main

import (
	"fmt"
	"strings"
	"sync"
)

// ---------------------------------------------------------------------------------------------
// CSV.roundtrip (C09): tables written as the statement says (raw or quote-encoded fields, joined by
// a separator, rows by a line ending) and read by the CSV tokenizer, evaluated abstractly through
// NewCsvTokenizer / SetFieldSeparators / SetQuoteSymbols / SetDecodeStrings / TokenizeBuffer, give
// the table back - for every configuration of separators × quote symbols × line ending of a finite
// family and every pair of fields over {letter, separator, quote, LF, CR, non-Latin}.
// ---------------------------------------------------------------------------------------------

type csvConfig struct {
	seps, quotes []rune
	eol          string
}

func csvWrite(table [][]string, cfg csvConfig, q rune, sep rune, quoteAll bool) string {
	text, _ := csvWriteMixed(table, cfg, q, func(int) rune { return sep }, quoteAll)
	return text
}

// csvWriteMixed writes the table with the j-th separator of the text chosen by sepAt (any configured
// separator may join any two fields) and also returns the values a reader sees in order: a raw field
// as written (nothing for an empty one), a quote-encoded field as its original text, every separator,
// every line ending, and the empty end marker.
func csvWriteMixed(table [][]string, cfg csvConfig, q rune, sepAt func(j int) rune, quoteAll bool) (string, []string) {
	var sb strings.Builder
	vals := []string{}
	j := 0
	for ri, row := range table {
		if ri > 0 {
			sb.WriteString(cfg.eol)
			vals = append(vals, cfg.eol)
		}
		for fi, f := range row {
			if fi > 0 {
				sep := string(sepAt(j))
				j++
				sb.WriteString(sep)
				vals = append(vals, sep)
			}
			needs := strings.ContainsAny(f, "\r\n")
			for _, s := range cfg.seps {
				if strings.ContainsRune(f, s) {
					needs = true
				}
			}
			for _, qq := range cfg.quotes {
				if strings.ContainsRune(f, qq) {
					needs = true
				}
			}
			// a field may always be written quote-encoded (the empty field as two quotes), except the
			// single field of a one-field row, which written as two quotes is still one empty field
			if needs || (quoteAll && len(row) > 1) {
				sb.WriteString(string(q) + strings.ReplaceAll(f, string(q), string(q)+string(q)) + string(q))
				vals = append(vals, f)
			} else {
				sb.WriteString(f)
				if f != "" {
					vals = append(vals, f)
				}
			}
		}
	}
	return sb.String(), append(vals, "")
}

// csvRead rebuilds the table from the token stream: field tokens, separator symbols, Eol tokens.
func csvRead(toks []tkTok, cfg csvConfig) [][]string {
	var table [][]string
	var row []string
	field, has := "", false
	for _, t := range toks {
		isSep := false
		if t.typ == "Symbol" && len([]rune(t.val)) == 1 {
			for _, s := range cfg.seps {
				if []rune(t.val)[0] == s {
					isSep = true
				}
			}
		}
		switch {
		case isSep:
			row = append(row, field)
			field, has = "", false
		case t.typ == "Eol":
			row = append(row, field)
			table = append(table, row)
			row, field, has = nil, "", false
		case t.typ == "Eof":
			row = append(row, field)
			table = append(table, row)
		default:
			if has {
				field += "⟂" + t.val // two field tokens without a separator between them
			} else {
				field, has = t.val, true
			}
		}
	}
	return table
}

// csvConfigured: r is one of the configuration's separators or quote symbols
func csvConfigured(cfg csvConfig, r rune) bool {
	for _, x := range append(append([]rune{}, cfg.seps...), cfg.quotes...) {
		if x == r {
			return true
		}
	}
	return false
}

// a token list kept by the caller while the instance goes on reading other texts
type csvKept struct {
	raw   mv
	table [][]string
	text  string
	later []string
}

var csvxMemo *simpleVerdict
var csvxMu sync.Mutex

func (c *Ctx) csvxRun() *simpleVerdict {
	csvxMu.Lock()
	defer csvxMu.Unlock()
	if csvxMemo != nil {
		return csvxMemo
	}
	var cfgs []csvConfig
	for _, seps := range [][]rune{{','}, {';'}, {',', ';'}, {'\t'}, {'、'}} {
		for _, qs := range [][]rune{{'"'}, {'\''}, {'"', '\''}, {'«'}, {'「'}} {
			for _, eol := range []string{"\n", "\r", "\r\n", "\n\r"} {
				cfgs = append(cfgs, csvConfig{seps, qs, eol})
			}
		}
	}
	// three separators, all of them used in one text
	for i, eol := range []string{"\n", "\r", "\r\n", "\n\r"} {
		cfgs = append(cfgs, csvConfig{[]rune{',', ';', '\t'}, [][]rune{{'"'}, {'"', '\''}}[i%2], eol})
	}
	// the blank as a field separator, alone and next to the tab and the comma: a run of blanks is as many
	// separators as it has blanks
	for i, seps := range [][]rune{{' '}, {' ', '\t'}, {',', ' '}, {'\t', ' ', ';'}} {
		cfgs = append(cfgs, csvConfig{seps, [][]rune{{'"'}, {'"', '\''}}[i%2], []string{"\n", "\r", "\r\n", "\n\r"}[i]})
	}
	// how often a table also goes through another entry point / the reconfigured instance / is kept and read again
	mEntry, mTravel, mKept := 23, 16, 16
	if c.Tier == "thorough" {
		mEntry, mTravel, mKept = 5, 4, 4
	}
	nw := 12
	parts := make([]*simpleVerdict, nw)
	var wg sync.WaitGroup
	for w := 0; w < nw; w++ {
		wg.Add(1)
		go func(w int) {
			defer wg.Done()
			v := &simpleVerdict{}
			parts[w] = v
			h := c.newTkHarness("csv")
			if h.fault != "" {
				v.undec = h.fault
				return
			}
			runes := func(rs []rune) mv {
				arr := make([]mv, len(rs))
				for i, r := range rs {
					arr[i] = int64(r)
				}
				return mSlice{arr}
			}
			// configure: setters are called in an order that never makes a separator equal to a configured quote
			configure := func(x *tkHarness, cfg csvConfig, who string) bool {
				if _, out := x.call("SetQuoteSymbols", runes([]rune{'\x01'})); out.kind != "ok" {
					v.undec = "SetQuoteSymbols: " + out.why
					return false
				}
				if _, out := x.call("SetFieldSeparators", runes(cfg.seps)); out.kind == "panic" {
					v.bad = fmt.Sprintf("SetFieldSeparators(%q) on %s whose only quote symbol is U+0001 panics: %s - a valid choice of separators is refused", string(cfg.seps), who, out.why)
					return false
				} else if out.kind != "ok" {
					v.undec = "SetFieldSeparators: " + out.why
					return false
				}
				if _, out := x.call("SetQuoteSymbols", runes(cfg.quotes)); out.kind == "panic" {
					v.bad = fmt.Sprintf("SetQuoteSymbols(%q) with separators %q on %s panics: %s - a valid choice of quote symbols is refused", string(cfg.quotes), string(cfg.seps), who, out.why)
					return false
				} else if out.kind != "ok" {
					v.undec = "SetQuoteSymbols: " + out.why
					return false
				}
				// re-configuring with the same valid choice, and extending it, is valid too
				if _, out := x.call("SetFieldSeparators", runes(cfg.seps)); out.kind == "panic" {
					v.bad = fmt.Sprintf("SetFieldSeparators(%q) a second time panics: %s - keeping a separator already in effect is refused", string(cfg.seps), out.why)
					return false
				}
				if _, out := x.call("SetQuoteSymbols", runes(cfg.quotes)); out.kind == "panic" {
					v.bad = fmt.Sprintf("SetQuoteSymbols(%q) a second time panics: %s - keeping a quote symbol already in effect is refused", string(cfg.quotes), out.why)
					return false
				}
				return true
			}
			// one instance that lives through all configurations of this worker, reconfigured between tables
			hr := c.newTkHarness("csv")
			if why := hr.setOptions(1 << 6); why != "" {
				v.undec = why
				return
			}
			hrPast := "the default configuration"
			for ci := w; ci < len(cfgs); ci += nw {
				cfg := cfgs[ci]
				// a fresh tokenizer per configuration
				h = c.newTkHarness("csv")
				if why := h.setOptions(1 << 6); why != "" { // DecodeStrings
					v.undec = why
					return
				}
				if !configure(h, cfg, "a tokenizer") || !configure(hr, cfg, "a tokenizer that was configured with "+hrPast+" and used before") {
					return
				}
				// readBack: the text through one entry point of one instance against the table (token lists) or
				// against the values the writer put down (string lists); returns the token list value
				readBack := func(x *tkHarness, who, entry string, table [][]string, text string, wantVals []string) mv {
					v.runs++
					show := fmt.Sprintf("separators %q quotes %q line ending %q: table %q written as %q", string(cfg.seps), string(cfg.quotes), cfg.eol, table, text)
					if entry != "TokenizeBuffer" || who != "" {
						show += " and read through " + entry + who
					}
					if entry == "TokenizeBufferToStrings" || entry == "TokenizeStreamToStrings" {
						vals, kind, why := x.stringsVia(entry, text)
						switch {
						case kind == "panic":
							v.bad = show + " panics: " + why
						case kind != "ok":
							v.undec = show + ": " + why
						case fmt.Sprintf("%q", vals) != fmt.Sprintf("%q", wantVals) && v.bad == "":
							v.bad = fmt.Sprintf("%s gives the values %q; the fields, separators and line endings written are %q", show, vals, wantVals)
						}
						return nil
					}
					raw, r := x.tokenizeVia(entry, text)
					if r.kind == "panic" {
						v.bad = show + " panics: " + r.why
						return nil
					}
					if r.kind != "ok" {
						v.undec = show + ": " + r.why
						return nil
					}
					if got := csvRead(r.toks, cfg); fmt.Sprintf("%q", got) != fmt.Sprintf("%q", table) && v.bad == "" {
						v.bad = fmt.Sprintf("%s is read back as %q [%s]", show, got, renderToks(r.toks))
					}
					return raw
				}
				otherEntries := []string{"TokenizeStream", "SetReader+NextToken", "TokenizeBufferToStrings", "TokenizeStreamToStrings"}
				travelled := fmt.Sprintf(" by an instance that was configured with %s and used before", hrPast)
				alpha := []string{"a", string(cfg.seps[0]), string(cfg.quotes[0]), "\n", "\r", "ж", "\v", "\f"}
				// the default separator and quote are plain data once they are configured away
				for _, dflt := range []rune{',', '"'} {
					used := false
					for _, r := range append(append([]rune{}, cfg.seps...), cfg.quotes...) {
						if r == dflt {
							used = true
						}
					}
					if !used {
						alpha = append(alpha, string(dflt))
					}
				}
				for _, r := range cfg.seps[1:] {
					alpha = append(alpha, string(r))
				}
				if len(cfg.quotes) > 1 {
					alpha = append(alpha, string(cfg.quotes[1]))
				}
				fields := []string{""}
				for _, a := range alpha {
					fields = append(fields, a)
					for _, b := range alpha {
						fields = append(fields, a+b)
					}
				}
				fields = append(fields, "é€\ufffe", "a b", string(cfg.quotes[0])+string(cfg.quotes[0])+string(cfg.quotes[0]))
				// Latin-1 signs and the edges of the Latin-1 blocks are ordinary field text
				fields = append(fields, "£5", "10°C", "\u0080", "a\u00a0b", "\u00bf\u00c0", "×÷", "\u007f\u0081", "§ 4")
				// a tokenizer created afterwards with the default configuration is not affected by this one's
				{
					d := c.newTkHarnessOn(h.m, "csv")
					dcfg := csvConfig{[]rune{','}, []rune{'"'}, "\n"}
					table := [][]string{{"a", "b;c'd"}, {"e\tf", "g"}}
					if d.fault == "" && d.setOptions(1<<6) == "" {
						text := csvWrite(table, dcfg, '"', ',', false)
						if r := d.tokenize(text); r.kind == "ok" {
							if got := csvRead(r.toks, dcfg); fmt.Sprintf("%q", got) != fmt.Sprintf("%q", table) && v.bad == "" {
								v.bad = fmt.Sprintf("a tokenizer with the default configuration, created after another one was configured with separators %q and quotes %q, reads %q back as %q [%s]: the instances share their separator or quote lists", string(cfg.seps), string(cfg.quotes), text, got, renderToks(r.toks))
							}
						} else if r.kind == "panic" && v.bad == "" {
							v.bad = fmt.Sprintf("a default tokenizer created after one configured with separators %q and quotes %q panics on %q: %s", string(cfg.seps), string(cfg.quotes), text, r.why)
						}
						v.runs++
					}
				}
				entries := append(append([]string{}, tkListEntries...), tkStringEntries...)
				k := 0
				var kept *csvKept
				seconds := append([]string{"", "é€"}, alpha...)
				for _, f1 := range fields {
					for _, f2 := range seconds {
						k++
						table := [][]string{{f1, f2}, {"x", ""}}
						switch k % 4 {
						case 1:
							table = [][]string{{"", "y"}, {f1, f2}}
						case 2:
							table = [][]string{{f1, "", f2}}
						case 3:
							table = [][]string{{f1}, {""}, {f2}} // a row that is one empty field
							if f1 == "" || f2 == "" {
								table = [][]string{{"p"}, {""}, {""}, {f1 + "q" + f2}}
							}
						}
						q := cfg.quotes[k%len(cfg.quotes)]
						// any configured separator may join any two fields of one text
						text, vals := csvWriteMixed(table, cfg, q, func(j int) rune { return cfg.seps[(k+j)%len(cfg.seps)] }, k%5 == 0)
						if k%701 == 0 {
							noteSample("CSV.roundtrip/tables", fmt.Sprintf("separators %q quotes %q eol %q: %q", string(cfg.seps), string(cfg.quotes), cfg.eol, text))
						}
						raw := readBack(h, "", "TokenizeBuffer", table, text, vals)
						// the other entry points; the instance that was configured differently before
						if k%mEntry == 0 {
							readBack(h, "", otherEntries[(k/mEntry)%len(otherEntries)], table, text, vals)
						}
						if k%mTravel == 0 {
							readBack(hr, travelled, tkListEntries[(k/mTravel)%len(tkListEntries)], table, text, vals)
						}
						// a token list handed out earlier still holds its table after the same instance read two more
						if kept != nil {
							kept.later = append(kept.later, text)
							if len(kept.later) == 2 {
								v.runs++
								toks, why := h.readTokens(kept.raw)
								if why != "" {
									v.undec = "reading a kept token list again: " + why
								} else if got := csvRead(toks, cfg); fmt.Sprintf("%q", got) != fmt.Sprintf("%q", kept.table) && v.bad == "" {
									v.bad = fmt.Sprintf("separators %q quotes %q line ending %q: the token list returned for table %q (written as %q) reads as %q [%s] after the same instance tokenized %q and %q: the rows and fields recovered for the first table did not survive the later calls", string(cfg.seps), string(cfg.quotes), cfg.eol, kept.table, kept.text, got, renderToks(toks), kept.later[0], kept.later[1])
								}
								kept = nil
							}
						} else if k%mKept == 0 && raw != nil {
							kept = &csvKept{raw: raw, table: table, text: text}
						}
					}
				}
				// empty fields stay empty: raw empty fields first, inner and last in a row, several in a row and whole
				// rows of them, next to every configured separator, beside raw and quote-encoded neighbours
				for si, sep := range cfg.seps {
					for ti, table := range [][][]string{
						{{"", "", "a"}, {"b", "", "", "c"}},
						{{"a", "", ""}, {"", "", ""}},
						{{"", "a", "", "", "", "b", ""}},
						{{"a", "b"}, {"", ""}, {"", "", "", "c"}},
						{{"", string(cfg.quotes[0]), "", ""}, {"", "", string(sep) + "a", ""}},
					} {
						text, vals := csvWriteMixed(table, cfg, cfg.quotes[(si+ti)%len(cfg.quotes)], func(int) rune { return sep }, false)
						for ei, entry := range entries {
							if c.Tier == "thorough" || ei == 0 || (si+ti+ei+ci)%len(entries) == 0 {
								readBack(h, "", entry, table, text, vals)
							}
						}
						// and with every configured separator in turn
						if len(cfg.seps) > 1 {
							text, vals = csvWriteMixed(table, cfg, cfg.quotes[0], func(j int) rune { return cfg.seps[(si+j)%len(cfg.seps)] }, false)
							readBack(h, "", "TokenizeBuffer", table, text, vals)
						}
					}
				}
				// format and zero-width characters, the last configurable characters and the characters around
				// them are field text like any other: first, inner and last in the first field of the first row,
				// through every entry point that reads a text
				// - and so are the first characters of the range (U+0000, the other control characters that are neither
				// a line break nor configured), raw and quote-encoded
				zs := []rune{0xFEFF, 0xFFFE, 0xFFFD, 0xFFFC, 0x200B, 0x2028, 0x2029, 0x00AD, 0x2060, 0x0085, 0x200E, 0x0000, 0x0001, 0x0002, 0x0008, 0x001F, 0x007F}
				for zi, z := range zs {
					for pi, f := range []string{string(z), string(z) + "id", "i" + string(z) + "d", "id" + string(z)} {
						table := [][]string{{f, "x"}, {"y", f}}
						if (zi+pi)%3 == 2 {
							table = [][]string{{f}, {"x", ""}}
						}
						if csvConfigured(cfg, z) {
							continue
						}
						for qi, quoteAll := range []bool{false, true} {
							if quoteAll && len(table[0]) < 2 {
								continue
							}
							text, vals := csvWriteMixed(table, cfg, cfg.quotes[0], func(j int) rune { return cfg.seps[j%len(cfg.seps)] }, quoteAll)
							for ei, entry := range entries {
								if c.Tier == "thorough" || (zi+pi+ei+ci+qi)%len(entries) == 0 {
									readBack(h, "", entry, table, text, vals)
								}
							}
						}
					}
				}
				hrPast = fmt.Sprintf("separators %q and quotes %q", string(cfg.seps), string(cfg.quotes))
			}
		}(w)
	}
	wg.Wait()
	total := &simpleVerdict{}
	for _, p := range parts {
		total.runs += p.runs
		if p.bad != "" && (total.bad == "" || len(p.bad) < len(total.bad)) {
			total.bad = p.bad
		}
		if p.undec != "" && total.undec == "" {
			total.undec = p.undec
		}
	}
	csvxMemo = total
	return total
}

func init() {
	register(&Rule{ID: "CSV.roundtrip", Floor: 1,
		Doc: "the CSV tokenizer evaluated abstractly (NewCsvTokenizer, SetFieldSeparators, SetQuoteSymbols, SetDecodeStrings, TokenizeBuffer) on tables written per the statement: 104 configurations (separator sets × quote sets × LF/CR/CRLF/LFCR) × every field over {letter, separators, quotes, LF, CR, non-Latin} up to length 2 paired with every single-character field, in four table shapes, any configured separator between any two fields, format / zero-width characters at the edges of the first field, through every token-list and string-list entry point, on a fresh and on a reconfigured instance: the rows and fields come back exactly, and a kept token list still holds its table after later calls",
		Run: func(c *Ctx) []*Obligation {
			return emitSimple(c, "CSV.roundtrip", "csv.CsvTokenizer#table-roundtrip", c.Pos(c.MustFunc("csv", "", "NewCsvTokenizer").Pos()), c.csvxRun(), "tables round-trip")
		}})
}
