package main

import (
	"fmt"
	"go/constant"
	"go/token"
	"sort"
	"strings"

	"golang.org/x/tools/go/ssa"
)

// ---------------------------------------------------------------------------------------------
// MUS — mustache tag automaton, section parser, renderer (C10)
//
// The lexical pass of MustacheParser is a loop whose body compares its locals and the token's type
// and text only with constants. Its one-step transition relation is extracted by abstract
// interpretation over the finite partition those constants induce (a string is one of the constants
// or "some other text"); tag spellings from the property statement are then walked through the
// extracted automaton. No template is tokenized or parsed.
// ---------------------------------------------------------------------------------------------

const pkgMParsers = "mustache/parsers"

type absStr struct {
	known bool
	s     string // constant value if known; a label otherwise
}

func kstr(s string) absStr { return absStr{true, s} }

type musCfg struct {
	state                       int64
	closing, op1, op2, variable absStr
}

type musTok struct {
	typ int64
	val absStr
}

type musOut struct {
	kind    string // "next", "error", "opaque", "done"
	cfg     musCfg
	errCode string
	emitted bool
	emTyp   int64
	emVal   absStr
	why     string
}

type mval struct {
	kind string // "int","bool","str","tok","err","unknown","nil"
	n    int64
	b    bool
	s    absStr
	code string
}

// musStep evaluates one iteration of completeLexicalAnalysis abstractly.
func (c *Ctx) musStep(fn *ssa.Function, cfg musCfg, tok musTok) musOut {
	// locate loop header and the header phis by comment
	var header, body *ssa.BasicBlock
	for _, b := range fn.Blocks {
		for _, in := range b.Instrs {
			if phi, ok := in.(*ssa.Phi); ok && phi.Comment == "rangeindex" {
				header = b
			}
		}
	}
	if header == nil {
		return musOut{kind: "opaque", why: "token loop not found"}
	}
	if ifi, ok := header.Instrs[len(header.Instrs)-1].(*ssa.If); ok {
		_ = ifi
		body = header.Succs[0]
	}
	env := map[ssa.Value]mval{}
	for _, in := range header.Instrs {
		phi, ok := in.(*ssa.Phi)
		if !ok {
			continue
		}
		switch phi.Comment {
		case "state":
			env[phi] = mval{kind: "int", n: cfg.state}
		case "closingBracket":
			env[phi] = mval{kind: "str", s: cfg.closing}
		case "operator1":
			env[phi] = mval{kind: "str", s: cfg.op1}
		case "operator2":
			env[phi] = mval{kind: "str", s: cfg.op2}
		case "variable":
			env[phi] = mval{kind: "str", s: cfg.variable}
		default:
			env[phi] = mval{kind: "unknown"}
		}
	}
	out := musOut{}
	get := func(v ssa.Value) mval {
		if m, ok := env[v]; ok {
			return m
		}
		if k, ok := v.(*ssa.Const); ok {
			if k.Value == nil {
				return mval{kind: "nil"}
			}
			switch k.Value.Kind() {
			case constant.Int:
				n, _ := constant.Int64Val(k.Value)
				return mval{kind: "int", n: n}
			case constant.Bool:
				return mval{kind: "bool", b: constant.BoolVal(k.Value)}
			case constant.String:
				return mval{kind: "str", s: kstr(constant.StringVal(k.Value))}
			}
		}
		return mval{kind: "unknown"}
	}
	cur, pred := body, header
	for steps := 0; steps < 300; steps++ {
		var next *ssa.BasicBlock
		for _, in := range cur.Instrs {
			switch t := in.(type) {
			case *ssa.Phi:
				for i, p := range cur.Preds {
					if p == pred {
						env[t] = get(t.Edges[i])
					}
				}
			case *ssa.UnOp:
				if t.Op == token.MUL {
					// the current token (element of originalTokens) or a field load
					if strings.HasSuffix(t.Type().String(), "tokenizers.Token") {
						env[t] = mval{kind: "tok"}
					} else {
						env[t] = mval{kind: "unknown"}
					}
				} else if t.Op == token.NOT {
					x := get(t.X)
					if x.kind == "bool" {
						env[t] = mval{kind: "bool", b: !x.b}
					} else {
						env[t] = mval{kind: "unknown"}
					}
				}
			case *ssa.BinOp:
				l, r := get(t.X), get(t.Y)
				switch {
				case (t.Op == token.EQL || t.Op == token.NEQ) && l.kind == "int" && r.kind == "int":
					env[t] = mval{kind: "bool", b: (l.n == r.n) == (t.Op == token.EQL)}
				case (t.Op == token.EQL || t.Op == token.NEQ) && l.kind == "str" && r.kind == "str":
					switch {
					case l.s.known && r.s.known:
						env[t] = mval{kind: "bool", b: (l.s.s == r.s.s) == (t.Op == token.EQL)}
					case l.s.known != r.s.known:
						// "other text" differs from every constant of the partition
						env[t] = mval{kind: "bool", b: t.Op == token.NEQ}
					default:
						env[t] = mval{kind: "unknown"}
					}
				case (t.Op == token.LSS || t.Op == token.GTR || t.Op == token.LEQ || t.Op == token.GEQ) && l.kind == "int" && r.kind == "int":
					var b bool
					switch t.Op {
					case token.LSS:
						b = l.n < r.n
					case token.GTR:
						b = l.n > r.n
					case token.LEQ:
						b = l.n <= r.n
					case token.GEQ:
						b = l.n >= r.n
					}
					env[t] = mval{kind: "bool", b: b}
				case t.Op == token.ADD && l.kind == "int" && r.kind == "int":
					env[t] = mval{kind: "int", n: l.n + r.n}
				default:
					env[t] = mval{kind: "unknown"}
				}
			case *ssa.Call:
				cc := t.Common()
				if bi, ok := cc.Value.(*ssa.Builtin); ok {
					if bi.Name() == "len" {
						a := get(cc.Args[0])
						if a.kind == "str" && a.s.known {
							env[t] = mval{kind: "int", n: int64(len(a.s.s))}
							continue
						}
					}
					env[t] = mval{kind: "unknown"}
					continue
				}
				f := calleeObj(cc)
				switch {
				case f != nil && recvNamed(f) == "Token" && f.Name() == "Value":
					env[t] = mval{kind: "str", s: tok.val}
				case f != nil && recvNamed(f) == "Token" && f.Name() == "Type":
					env[t] = mval{kind: "int", n: tok.typ}
				case f != nil && f.Name() == "NewMustacheError":
					code := "?"
					if s, ok := constString(cc.Args[1]); ok {
						code = s
					}
					env[t] = mval{kind: "err", code: code}
				case f != nil && f.Name() == "NewMustacheToken":
					ty, va := get(cc.Args[0]), get(cc.Args[1])
					if ty.kind != "int" || va.kind != "str" {
						return musOut{kind: "opaque", why: "a mustache token is built from values outside the model"}
					}
					out.emitted, out.emTyp, out.emVal = true, ty.n, va.s
					env[t] = mval{kind: "unknown"}
				default:
					env[t] = mval{kind: "unknown"}
				}
			case *ssa.MakeInterface:
				env[t] = get(t.X)
			case *ssa.If:
				cv := get(t.Cond)
				if cv.kind != "bool" {
					return musOut{kind: "opaque", why: "a branch of the tag state machine depends on something other than the state, the operators, the bracket and the token's type/text class"}
				}
				if cv.b {
					next = cur.Succs[0]
				} else {
					next = cur.Succs[1]
				}
			case *ssa.Jump:
				next = cur.Succs[0]
			case *ssa.Return:
				rv := get(t.Results[0])
				if rv.kind == "err" {
					out.kind, out.errCode = "error", rv.code
					return out
				}
				out.kind = "done"
				return out
			}
		}
		if next == nil {
			return musOut{kind: "opaque", why: "control flow left the model"}
		}
		if next == header {
			// read the loop-carried values along this back edge
			for _, in := range header.Instrs {
				phi, ok := in.(*ssa.Phi)
				if !ok {
					continue
				}
				for i, p := range header.Preds {
					if p != cur {
						continue
					}
					v := get(phi.Edges[i])
					switch phi.Comment {
					case "state":
						if v.kind != "int" {
							return musOut{kind: "opaque", why: "next state not a constant"}
						}
						out.cfg.state = v.n
					case "closingBracket":
						out.cfg.closing = v.s
					case "operator1":
						out.cfg.op1 = v.s
					case "operator2":
						out.cfg.op2 = v.s
					case "variable":
						out.cfg.variable = v.s
					}
				}
			}
			out.kind = "next"
			return out
		}
		pred, cur = cur, next
	}
	return musOut{kind: "opaque", why: "simulation did not terminate"}
}

type tagCase struct {
	name    string
	toks    []string // token spellings: "{{" "}}" "#" "w:name" "w:if" "t:text" "ws"
	wantErr string   // expected error code, "" = none
	emit    string   // expected emission "Type(value)" at the end, "" = none expected
}

func init() {
	register(&Rule{ID: "MUS.lexer", Floor: 20,
		Doc: "tag automaton extracted from the lexical pass by abstract interpretation over the finite partition of its constants; every tag spelling of the statement ('#', '#if', '^', '#unless', '/name', '/if', '/unless', plain and escaped variables, comments, double and triple braces) yields its token type and name, mismatched braces / stray symbols / an unfinished tag yield their error, and no reachable step depends on anything outside the partition",
		Run: ruleMusLexer})
	register(&Rule{ID: "MUS.section", Floor: 6,
		Doc: "section nesting: a nested section is parsed with its own name, a section ends at an end tag with its name or an anonymous one, any other end tag and a missing end tag are errors, a stray end tag at top level is an error",
		Run: ruleMusSection})
	register(&Rule{ID: "MUS.render", Floor: 8,
		Doc: "renderer: every token type the parser can produce has a case; text is written verbatim, a variable's value as is, an escaped variable through escapeString, a section's body iff its variable is defined and non-empty, an inverted section's body iff it is not; escapeString applies the JSON-style replacement table with the backslash first",
		Run: ruleMusRender})
	register(&Rule{ID: "MUS.verbatim", Floor: 2,
		Doc: "the template text reaches the tokenizer unchanged (no trimming, case folding or replacement between the caller's string and TokenizeBuffer), so literal text is rendered verbatim",
		Run: ruleMusVerbatim})
}

func ruleMusLexer(c *Ctx) []*Obligation {
	o := newObl("MUS.lexer")
	fn := c.MustFunc(pkgMParsers, "MustacheParser", "completeLexicalAnalysis")
	tt := c.constNames("tokenizers", "")
	ttBy := map[string]int64{}
	for v, n := range tt {
		ttBy[n] = v
	}
	mt := c.constNames(pkgMParsers, "")
	// names of mustache token types (Token*) and states (State*) share the untyped-int namespace: resolve by name
	mtBy := map[string]int64{}
	for _, n := range []string{"TokenUnknown", "TokenValue", "TokenVariable", "TokenEscapedVariable", "TokenSection", "TokenInvertedSection", "TokenSectionEnd", "TokenPartial", "TokenComment", "StateValue"} {
		if v, ok := c.constByName(pkgMParsers, n); ok {
			mtBy[n] = v
		} else {
			panic(anchorError("constant " + n + " not found"))
		}
	}
	_ = mt
	typeName := func(v int64) string {
		for _, n := range []string{"TokenUnknown", "TokenValue", "TokenVariable", "TokenEscapedVariable", "TokenSection", "TokenInvertedSection", "TokenSectionEnd", "TokenPartial", "TokenComment"} {
			if mtBy[n] == v {
				return strings.TrimPrefix(n, "Token")
			}
		}
		return fmt.Sprint(v)
	}
	mk := func(sp string) musTok {
		switch {
		case sp == "ws":
			return musTok{ttBy["Whitespace"], kstr(" ")}
		case strings.HasPrefix(sp, "w:"):
			v := sp[2:]
			if v == "if" || v == "unless" {
				return musTok{ttBy["Word"], kstr(v)}
			}
			return musTok{ttBy["Word"], absStr{false, v}}
		case strings.HasPrefix(sp, "t:"):
			return musTok{ttBy["Special"], absStr{false, sp[2:]}}
		case strings.HasPrefix(sp, "q:"):
			return musTok{ttBy["Quoted"], absStr{false, sp[2:]}}
		case sp == "&":
			return musTok{ttBy["Symbol"], absStr{false, "&"}}
		default:
			return musTok{ttBy["Symbol"], kstr(sp)}
		}
	}
	var cases []tagCase
	for _, br := range [][2]string{{"{{", "}}"}, {"{{{", "}}}"}} {
		o2, c2 := br[0], br[1]
		v := "Variable"
		if o2 == "{{{" {
			v = "EscapedVariable"
		}
		cases = append(cases,
			tagCase{o2 + "name" + c2, []string{o2, "w:name", c2}, "", v + "(name)"},
			tagCase{o2 + " name " + c2, []string{o2, "ws", "w:name", "ws", c2}, "", v + "(name)"},
			tagCase{o2 + "#name" + c2, []string{o2, "#", "w:name", c2}, "", "Section(name)"},
			tagCase{o2 + "#if name" + c2, []string{o2, "#", "w:if", "ws", "w:name", c2}, "", "Section(name)"},
			tagCase{o2 + "^name" + c2, []string{o2, "^", "w:name", c2}, "", "InvertedSection(name)"},
			tagCase{o2 + "#unless name" + c2, []string{o2, "#", "w:unless", "ws", "w:name", c2}, "", "InvertedSection(name)"},
			tagCase{o2 + "/name" + c2, []string{o2, "/", "w:name", c2}, "", "SectionEnd(name)"},
			tagCase{o2 + "/if" + c2, []string{o2, "/", "w:if", c2}, "", "SectionEnd()"},
			tagCase{o2 + "/unless" + c2, []string{o2, "/", "w:unless", c2}, "", "SectionEnd()"},
			tagCase{o2 + "! some words" + c2, []string{o2, "!", "ws", "w:some", "ws", "w:words", c2}, "", "comment"},
			tagCase{o2 + "&" + c2, []string{o2, "&"}, "UNEXPECTED_SYMBOL", ""},
		)
	}
	cases = append(cases,
		tagCase{"{{name}}}", []string{"{{", "w:name", "}}}"}, "MISTMATCHED_BRACKETS", ""},
		tagCase{"{{{name}}", []string{"{{{", "w:name", "}}"}, "MISTMATCHED_BRACKETS", ""},
		tagCase{"{{#name}}}", []string{"{{", "#", "w:name", "}}}"}, "MISTMATCHED_BRACKETS", ""},
		tagCase{"text", []string{"t:some text"}, "", "Value(some text)"},
		tagCase{"{{name name}}", []string{"{{", "w:name", "ws", "w:other"}, "UNEXPECTED_SYMBOL", ""},
		tagCase{"}} outside a tag", []string{"}}"}, "UNEXPECTED_SYMBOL", ""},
	)
	initial := musCfg{state: mtBy["StateValue"], closing: kstr(""), op1: kstr(""), op2: kstr(""), variable: kstr("")}
	for _, tc := range cases {
		key := c.FuncKey(fn) + "#tag#" + tc.name
		cfg := initial
		var last musOut
		var emissions []string
		bad := ""
		for i, sp := range tc.toks {
			last = c.musStep(fn, cfg, mk(sp))
			if last.kind == "opaque" {
				bad = "step " + fmt.Sprint(i+1) + " (" + sp + "): " + last.why
				break
			}
			if last.emitted {
				val := last.emVal.s
				emissions = append(emissions, typeName(last.emTyp)+"("+val+")")
			}
			if last.kind == "error" {
				break
			}
			cfg = last.cfg
		}
		if bad == "" {
			switch {
			case tc.wantErr != "":
				if last.kind != "error" || last.errCode != tc.wantErr {
					got := "no error"
					if last.kind == "error" {
						got = last.errCode
					}
					bad = fmt.Sprintf("must be rejected with %s, the automaton gives %s", tc.wantErr, got)
				}
			case last.kind == "error":
				bad = "a well-formed tag is rejected with " + last.errCode
			case cfg.state != initial.state || cfg.op1 != initial.op1 || cfg.op2 != initial.op2 || cfg.variable != initial.variable:
				bad = fmt.Sprintf("after the tag the automaton is not back in its text state (state %d, operators %q %q, variable %q): the next tag inherits stale data", cfg.state, cfg.op1.s, cfg.op2.s, cfg.variable.s)
			case tc.emit == "comment":
				ok := len(emissions) == 0 || (len(emissions) == 1 && strings.HasPrefix(emissions[0], "Comment("))
				if !ok {
					bad = fmt.Sprintf("a comment must produce no output token (or a Comment token), the automaton emits %v", emissions)
				}
			default:
				if len(emissions) != 1 || emissions[0] != tc.emit {
					bad = fmt.Sprintf("must produce exactly %s, the automaton emits %v", tc.emit, emissions)
				}
			}
		}
		if bad != "" {
			o.bad(key, c.Pos(fn.Pos()), "tag "+tc.name+": "+bad)
		} else {
			what := tc.emit
			if tc.wantErr != "" {
				what = "error " + tc.wantErr
			}
			o.ok(key, c.Pos(fn.Pos()), fmt.Sprintf("%d abstract step(s) → %s", len(tc.toks), what))
		}
	}
	// exhaustive exploration of the extracted automaton: every configuration reachable from the
	// text state under every token class
	{
		norm := func(a absStr) absStr {
			if !a.known {
				return absStr{false, "name"}
			}
			return a
		}
		normCfg := func(k musCfg) musCfg {
			return musCfg{k.state, norm(k.closing), norm(k.op1), norm(k.op2), norm(k.variable)}
		}
		var alphabet []musTok
		vals := []absStr{kstr("{{"), kstr("{{{"), kstr("}}"), kstr("}}}"), kstr("!"), kstr("/"), kstr("#"), kstr("^"), kstr("if"), kstr("unless"), kstr(""), {false, "name"}}
		for _, ty := range []string{"Special", "Symbol", "Word", "Whitespace", "Quoted", "Integer", "Eof"} {
			for _, v := range vals {
				// texts a token of this type cannot have are left out
				if (ty == "Word" && !(v == kstr("if") || v == kstr("unless") || !v.known)) || ((ty == "Whitespace" || ty == "Integer") && v.known) || (ty == "Eof" && v != kstr("")) {
					continue
				}
				alphabet = append(alphabet, musTok{ttBy[ty], v})
			}
		}
		seen := map[musCfg]bool{initial: true}
		work := []musCfg{initial}
		steps, emits, errsN := 0, 0, 0
		var problems []string
		problem := func(f string, a ...interface{}) {
			if len(problems) < 6 {
				problems = append(problems, fmt.Sprintf(f, a...))
			}
		}
		desc := func(k musCfg, t musTok) string {
			return fmt.Sprintf("state %d, brackets %q, operators %q %q, name %q, token type %s text %q", k.state, k.closing.s, k.op1.s, k.op2.s, k.variable.s, tt[t.typ], t.val.s)
		}
		for len(work) > 0 {
			cfg := work[0]
			work = work[1:]
			for _, tk := range alphabet {
				steps++
				out := c.musStep(fn, cfg, tk)
				switch out.kind {
				case "opaque":
					problem("%s: %s", desc(cfg, tk), out.why)
					continue
				case "error":
					errsN++
					if out.errCode == "INTERNAL" && !(cfg.op1 == kstr("^") && cfg.op2 != kstr("")) {
						problem("%s: a tag in one of the statement's spellings ends in an INTERNAL error", desc(cfg, tk))
					}
					continue
				}
				nc := normCfg(out.cfg)
				if tk.typ == ttBy["Whitespace"] && (nc != cfg || out.emitted) {
					problem("%s: white space inside a tag changes the automaton's configuration", desc(cfg, tk))
				}
				if out.emitted {
					emits++
					ty := typeName(out.emTyp)
					if ty == "Value" {
						if !(cfg.state == initial.state && tk.typ == ttBy["Special"] && out.emVal == tk.val) {
							problem("%s: a text token is produced from something other than the text between tags", desc(cfg, tk))
						}
					} else {
						want := "?"
						op1, op2 := cfg.op1, cfg.op2
						if cfg.state != mtBy["StateValue"] && op2.known && op2.s != "" && cfg.variable == kstr("") && op1 != kstr("/") {
							// '{{#if}}': the keyword is the name
							op2 = kstr("")
						}
						switch {
						case op1 == kstr("#") && (op2 == kstr("") || op2 == kstr("if")):
							want = "Section"
						case op1 == kstr("#") && op2 == kstr("unless"):
							want = "InvertedSection"
						case op1 == kstr("^") && op2 == kstr(""):
							want = "InvertedSection"
						case op1 == kstr("/"):
							want = "SectionEnd"
						case op1 == kstr("!"):
							want = "Comment"
						case op1 == kstr("") && tk.val == kstr("}}"):
							want = "Variable"
						case op1 == kstr("") && tk.val == kstr("}}}"):
							want = "EscapedVariable"
						}
						if ty != want {
							problem("%s: produces a %s token where the tag spells a %s", desc(cfg, tk), ty, want)
						}
						if !(tk.typ == ttBy["Symbol"] && tk.val == cfg.closing) {
							problem("%s: a tag token is produced by something other than the matching closing brackets", desc(cfg, tk))
						}
						if nc.closing = initial.closing; nc != initial {
							problem("%s: after the tag the automaton keeps state %d, operators %q %q, name %q", desc(cfg, tk), nc.state, nc.op1.s, nc.op2.s, nc.variable.s)
						}
						if out.emVal == kstr("") && !(ty == "Comment" || (ty == "SectionEnd" && cfg.op2 != kstr(""))) {
							problem("%s: a %s token without a name is produced", desc(cfg, tk), ty)
						}
					}
				}
				if !seen[nc] {
					seen[nc] = true
					work = append(work, nc)
				}
			}
		}
		key := c.FuncKey(fn) + "#reachable-automaton"
		if len(problems) > 0 {
			o.bad(key, c.Pos(fn.Pos()), strings.Join(problems, "; "))
		} else {
			o.ok(key, c.Pos(fn.Pos()), fmt.Sprintf("%d reachable configurations × %d token classes = %d abstract steps (%d emissions, %d rejections), every one inside the partition and consistent with the spelling table", len(seen), len(alphabet), steps, emits, errsN))
		}
	}
	// unfinished tag at the end of the token list → UNEXPECTED_END
	{
		key := c.FuncKey(fn) + "#unfinished-tag"
		good := false
		for _, s := range c.errorCtorSites() {
			if s.fn == fn && s.code == "UNEXPECTED_END" && s.live {
				for _, g := range guardsAt(s.call.Block()) {
					cond, truth := g.atom()
					if bo, ok := cond.(*ssa.BinOp); ok {
						if k, isK := constInt(bo.Y); isK && k == mtBy["StateValue"] && (bo.Op == token.NEQ) == truth {
							good = true
						}
					}
				}
			}
		}
		o.check(good, key, c.Pos(fn.Pos()), "ending in any state but the text state returns UNEXPECTED_END", "a template that ends inside a tag is not rejected with UNEXPECTED_END")
	}
	return o.list
}

func ruleMusSection(c *Ctx) []*Obligation {
	o := newObl("MUS.section")
	sec := c.MustFunc(pkgMParsers, "MustacheParser", "performSyntaxAnalysisForSection")
	top := c.MustFunc(pkgMParsers, "MustacheParser", "performSyntaxAnalysis")
	endK, _ := c.constByName(pkgMParsers, "TokenSectionEnd")
	secK, _ := c.constByName(pkgMParsers, "TokenSection")
	invK, _ := c.constByName(pkgMParsers, "TokenInvertedSection")
	ex := c.newExpr(sec)
	// (1) recursive calls pass the name of the section token just read, under Type ∈ {Section, InvertedSection}
	for _, fn := range []*ssa.Function{top, sec} {
		key := c.FuncKey(fn) + "#nested-section-gets-own-name"
		n, bad := 0, ""
		for _, ci := range allCalls(fn) {
			if ci.Common().StaticCallee() != sec {
				continue
			}
			n++
			arg := callArgs(ci.Common())[0]
			call, ok := arg.(*ssa.Call)
			okArg := false
			var tokV ssa.Value
			if ok {
				if f := calleeObj(call.Common()); f != nil && f.Name() == "Value" && recvNamed(f) == "MustacheToken" {
					okArg = true
					tokV = callRecv(call.Common())
				}
			}
			if !okArg {
				bad = "a nested section is parsed with " + c.newExpr(fn).str(arg) + " instead of the name of the section token just read: its end tag is matched against the wrong name"
				continue
			}
			ks, recvs, isOr := c.orEntry(ci.Block(), pkgMParsers, "MustacheToken")
			if !isOr {
				bad = "the recursive section parse is not guarded by the token being a section opener"
				continue
			}
			set := map[int64]bool{}
			for i, k := range ks {
				set[k] = true
				if !c.sameValue(recvs[i], tokV) {
					bad = "the section test and the section name come from different tokens"
				}
			}
			if !(set[secK] && set[invK] && len(set) == 2) {
				bad = "sections are opened for token types other than exactly Section and InvertedSection"
			}
		}
		if n == 0 {
			bad = "sections are never parsed recursively"
		}
		o.check(bad == "", key, c.Pos(fn.Pos()), "nested sections are parsed with their own token's name, for Section/InvertedSection only", bad)
	}
	// (2) section end matching
	{
		key := c.FuncKey(sec) + "#end-tag-matching"
		// success return (result, nil) guarded by Type==SectionEnd and (Value==variable || Value=="")
		good := false
		for _, ret := range returnsOf(sec) {
			if !isNilConst(ret.Results[1]) {
				continue
			}
			// predecessors: OR of (Value == variable), (Value == "")
			var conds []string
			for _, p := range ret.Block().Preds {
				if ifi, ok := p.Instrs[len(p.Instrs)-1].(*ssa.If); ok && p.Succs[0] == ret.Block() {
					conds = append(conds, ex.str(ifi.Cond))
				}
			}
			sort.Strings(conds)
			joined := strings.Join(conds, " || ")
			typeOK := false
			for _, p := range ret.Block().Preds {
				for _, g := range guardsAt(p) {
					cond, truth := g.atom()
					if _, k, op, ok := c.typeTestConst(cond, pkgMParsers, "MustacheToken"); ok && k == endK && (op == token.EQL) == truth {
						typeOK = true
					}
				}
				if ifi, ok := p.Instrs[len(p.Instrs)-1].(*ssa.If); ok {
					_ = ifi
				}
			}
			if typeOK && strings.Contains(joined, `("" == Value(`) && strings.Contains(joined, `($1 == Value(`) {
				good = true
			}
		}
		o.check(good, key, c.Pos(sec.Pos()), "a section returns its body exactly at a SectionEnd token whose name is the section's or empty", "a section is not closed exactly by an end tag with its own name or an anonymous end tag ({{/if}}, {{/unless}})")
	}
	// (3) rejections
	for _, spec := range []struct {
		fn   *ssa.Function
		code string
		what string
	}{
		{sec, "UNEXPECTED_SECTION_END", "an end tag with another name inside a section"},
		{sec, "NOT_CLOSED_SECTION", "a section without an end tag"},
		{top, "UNEXPECTED_SECTION_END", "an end tag at the top level"},
	} {
		key := c.FuncKey(spec.fn) + "#rejects#" + spec.code
		good := false
		for _, s := range c.errorCtorSites() {
			if s.fn == spec.fn && s.code == spec.code && s.live {
				good = true
			}
		}
		o.check(good, key, c.Pos(spec.fn.Pos()), spec.what+" is rejected with "+spec.code, spec.what+" is no longer rejected with "+spec.code)
	}
	// (4) the not-closed error is reached exactly when the tokens run out inside the section
	{
		key := c.FuncKey(sec) + "#unclosed-after-loop"
		good := false
		for _, s := range c.errorCtorSites() {
			if s.fn == sec && s.code == "NOT_CLOSED_SECTION" {
				for _, g := range guardsAt(s.call.Block()) {
					cond, truth := g.atom()
					if call, ok := cond.(*ssa.Call); ok && !truth {
						if f := calleeObj(call.Common()); f != nil && f.Name() == "hasMoreTokens" {
							good = true
						}
					}
				}
			}
		}
		o.check(good, key, c.Pos(sec.Pos()), "NOT_CLOSED_SECTION is returned when hasMoreTokens() becomes false inside a section", "the unclosed-section error is not tied to running out of tokens inside the section")
	}
	return o.list
}

func ruleMusRender(c *Ctx) []*Obligation {
	o := newObl("MUS.render")
	fn := c.MustFunc("mustache", "MustacheTemplate", "evaluateTokens")
	ex := c.newExpr(fn)
	names := map[int64]string{}
	for _, n := range []string{"TokenValue", "TokenVariable", "TokenEscapedVariable", "TokenSection", "TokenInvertedSection", "TokenSectionEnd", "TokenPartial", "TokenComment"} {
		if v, ok := c.constByName(pkgMParsers, n); ok {
			names[v] = strings.TrimPrefix(n, "Token")
		}
	}
	// case bodies
	type body struct {
		writes []string
		guards []string
		block  *ssa.BasicBlock
		errs   []string
	}
	cases := map[string]*body{}
	for _, b := range fn.Blocks {
		ifi, ok := b.Instrs[len(b.Instrs)-1].(*ssa.If)
		if !ok {
			continue
		}
		_, k, op, ok := c.typeTestConst(ifi.Cond, pkgMParsers, "MustacheToken")
		if !ok || op != token.EQL {
			continue
		}
		bd := &body{block: b.Succs[0]}
		caseBlocks := dominatedBlocks(b.Succs[0])
		if len(b.Succs[0].Preds) != 1 {
			caseBlocks = nil // empty case body: the true edge goes straight to the loop latch
			bd.block = b
		}
		for _, d := range caseBlocks {
			for _, in := range d.Instrs {
				call, ok := in.(*ssa.Call)
				if !ok {
					continue
				}
				f := calleeObj(call.Common())
				if f != nil && f.Pkg() != nil && f.Pkg().Path() == "strings" && f.Name() == "WriteString" {
					var gs []string
					for _, g := range guardsAt(d) {
						if g.If.Block() == b || !b.Succs[0].Dominates(g.If.Block()) && g.If.Block() != b.Succs[0] {
							continue
						}
						s := ex.str(g.Cond)
						if !g.Truth {
							s = "!" + s
						}
						gs = append(gs, s)
					}
					sort.Strings(gs)
					bd.writes = append(bd.writes, ex.str(call.Call.Args[1])+" if ["+strings.Join(gs, " && ")+"]")
				}
				if f != nil && f.Name() == "NewMustacheError" {
					if s, ok := constString(call.Call.Args[1]); ok {
						bd.errs = append(bd.errs, s)
					}
				}
			}
		}
		cases[names[k]] = bd
	}
	check := func(name string, good bool, okMsg, badMsg string) {
		key := c.FuncKey(fn) + "#case#" + name
		bd := cases[name]
		pos := c.Pos(fn.Pos())
		if bd == nil {
			o.bad(key, pos, "the renderer has no case for "+name+" tokens: a template containing one fails with INTERNAL")
			return
		}
		for _, in := range bd.block.Instrs {
			if in.Pos().IsValid() {
				pos = c.Pos(in.Pos())
				break
			}
		}
		if good {
			o.ok(key, pos, okMsg)
		} else {
			o.bad(key, pos, badMsg+" (writes: "+strings.Join(bd.writes, "; ")+")")
		}
	}
	has := func(name, sub string) bool {
		bd := cases[name]
		if bd == nil {
			return false
		}
		for _, w := range bd.writes {
			if strings.Contains(w, sub) {
				return true
			}
		}
		return false
	}
	one := func(name string) bool { return cases[name] != nil && len(cases[name].writes) == 1 }
	check("Value", one("Value") && has("Value", "Value($1[") && has("Value", "if []"), "text is written verbatim", "text tokens are not written verbatim and unconditionally")
	check("Variable", one("Variable") && has("Variable", "*GetVariable($0, $2, Value(") && !has("Variable", "escapeString"), "writes the variable's value when present", "a variable is not rendered as its value (when present)")
	check("EscapedVariable", one("EscapedVariable") && has("EscapedVariable", "escapeString($0, *GetVariable($0, $2, Value("), "writes the escaped value when present", "an escaped variable is not rendered through escapeString")
	check("Section", one("Section") && has("Section", "evaluateTokens($0, Tokens(") && has("Section", "isDefinedVariable($0, $2, Value(") && !has("Section", "!isDefinedVariable"), "body rendered iff the variable is defined and non-empty", "a section's body is not rendered exactly when its variable is defined and non-empty")
	check("InvertedSection", one("InvertedSection") && has("InvertedSection", "evaluateTokens($0, Tokens(") && has("InvertedSection", "!isDefinedVariable($0, $2, Value("), "body rendered iff the variable is not defined/non-empty", "an inverted section's body is not rendered exactly when its variable is absent or empty")
	check("Comment", cases["Comment"] != nil && len(cases["Comment"].writes) == 0 && len(cases["Comment"].errs) == 0, "comments render nothing", "a comment token writes output or raises an error")
	// isDefinedVariable: present and non-empty
	{
		idv := c.MustFunc("mustache", "MustacheTemplate", "isDefinedVariable")
		e2 := c.newExpr(idv)
		var rets []string
		for _, ret := range returnsOf(idv) {
			rets = append(rets, e2.str(ret.Results[0]))
		}
		sort.Strings(rets)
		want := `("" != *GetVariable($0, $1, $2))`
		good := false
		for _, r := range rets {
			if r == want {
				good = true
			}
		}
		o.check(good && len(rets) == 2, c.FuncKey(idv)+"#defined-and-non-empty", c.Pos(idv.Pos()), "false when absent, otherwise value != \"\"", fmt.Sprintf("isDefinedVariable returns %v: 'present and non-empty' is required", rets))
	}
	// escapeString: replacement table, backslash first
	{
		es := c.MustFunc("mustache", "MustacheTemplate", "escapeString")
		key := c.FuncKey(es) + "#replacements"
		var seq [][2]string
		// follow the ReplaceAll chain from the parameter outwards
		cur := ssa.Value(es.Params[1])
		for steps := 0; steps < 20; steps++ {
			var nextCall *ssa.Call
			for _, ci := range allCalls(es) {
				call := ci.(*ssa.Call)
				f := calleeObj(call.Common())
				if f == nil || f.Name() != "ReplaceAll" {
					continue
				}
				if call.Call.Args[0] == cur {
					nextCall = call
				}
			}
			if nextCall == nil {
				break
			}
			a, _ := constString(nextCall.Call.Args[1])
			b, _ := constString(nextCall.Call.Args[2])
			seq = append(seq, [2]string{a, b})
			cur = nextCall
		}
		want := map[string]string{"\\": "\\\\", "\"": "\\\"", "/": "\\/", "\b": "\\b", "\f": "\\f", "\n": "\\n", "\r": "\\r", "\t": "\\t"}
		bad := ""
		if len(seq) == 0 || seq[0][0] != "\\" {
			bad = "the backslash is not escaped first: the backslashes introduced by the other replacements are doubled afterwards"
		}
		got := map[string]string{}
		for _, p := range seq {
			got[p[0]] = p[1]
		}
		for k, v := range want {
			if got[k] != v {
				bad = fmt.Sprintf("replacement for %q is %q, expected %q", k, got[k], v)
			}
		}
		if len(seq) != len(want) {
			bad = fmt.Sprintf("%d chained replacements, expected %d", len(seq), len(want))
		}
		o.check(bad == "", key, c.Pos(es.Pos()), "8 JSON-style replacements chained on the value, backslash first", bad)
	}
	return o.list
}

func ruleMusVerbatim(c *Ctx) []*Obligation {
	o := newObl("MUS.verbatim")
	// every TokenizeBuffer call of the mustache parser receives the caller's string by identity
	for _, name := range []string{"ParseString", "tokenizeMustache"} {
		fn := c.MustFunc(pkgMParsers, "MustacheParser", name)
		ex := c.newExpr(fn)
		key := c.FuncKey(fn) + "#template-unchanged"
		bad := ""
		for _, ci := range allCalls(fn) {
			cc := ci.Common()
			var arg ssa.Value
			if cc.IsInvoke() && cc.Method.Name() == "TokenizeBuffer" {
				arg = cc.Args[0]
			} else if g := cc.StaticCallee(); g != nil && g.Name() == "tokenizeMustache" {
				arg = callArgs(cc)[0]
			}
			if arg == nil {
				continue
			}
			// follow field store/load of c.template
			src := arg
			if isFieldLoad(src, "template") {
				for _, b := range fn.Blocks {
					for _, in := range b.Instrs {
						if st, ok := in.(*ssa.Store); ok {
							if fa, ok := st.Addr.(*ssa.FieldAddr); ok && fieldName(fa.X.Type(), fa.Field) == "template" && instrDominates(st, ci) {
								src = st.Val
							}
						}
					}
				}
			}
			if src != ssa.Value(fn.Params[1]) {
				bad = "the text handed on is " + ex.str(src) + ", not the caller's template itself: literal text (e.g. leading/trailing whitespace) is altered before it is rendered"
			}
		}
		o.check(bad == "", key, c.Pos(fn.Pos()), "the template string is passed on unchanged", bad)
	}
	return o.list
}
