package main

import (
	"fmt"
	"go/constant"
	"go/token"
	"sort"
	"strings"

	"golang.org/x/tools/go/ssa"
)

// ---------------------------------------------------------------------------------------------
// MUS — mustache tag automaton, section parser, renderer (C10)
//
// The lexical pass of MustacheParser is a loop whose body compares its locals and the token's type
// and text only with constants. Its one-step transition relation is extracted by abstract
// interpretation over the finite partition those constants induce (a string is one of the constants
// or "some other text"); tag spellings from the property statement are then walked through the
// extracted automaton. No template is tokenized or parsed.
// ---------------------------------------------------------------------------------------------

const pkgMParsers = "mustache/parsers"

type absStr struct {
	known bool
	s     string // constant value if known; a label otherwise
}

func kstr(s string) absStr { return absStr{true, s} }

type musCfg struct {
	state                       int64
	closing, op1, op2, variable absStr
}

type musTok struct {
	typ int64
	val absStr
}

type musOut struct {
	kind    string // "next", "error", "opaque", "done"
	cfg     musCfg
	errCode string
	emitted bool
	emTyp   int64
	emVal   absStr
	why     string
}

type mval struct {
	kind string // "int","bool","str","tok","err","unknown","nil"
	n    int64
	b    bool
	s    absStr
	code string
}

// musStep evaluates one iteration of completeLexicalAnalysis abstractly.
func (c *Ctx) musStep(fn *ssa.Function, cfg musCfg, tok musTok) musOut {
	// locate loop header and the header phis by comment
	var header, body *ssa.BasicBlock
	for _, b := range fn.Blocks {
		for _, in := range b.Instrs {
			if phi, ok := in.(*ssa.Phi); ok && phi.Comment == "rangeindex" {
				header = b
			}
		}
	}
	if header == nil {
		return musOut{kind: "opaque", why: "token loop not found"}
	}
	if ifi, ok := header.Instrs[len(header.Instrs)-1].(*ssa.If); ok {
		_ = ifi
		body = header.Succs[0]
	}
	env := map[ssa.Value]mval{}
	for _, in := range header.Instrs {
		phi, ok := in.(*ssa.Phi)
		if !ok {
			continue
		}
		switch phi.Comment {
		case "state":
			env[phi] = mval{kind: "int", n: cfg.state}
		case "closingBracket":
			env[phi] = mval{kind: "str", s: cfg.closing}
		case "operator1":
			env[phi] = mval{kind: "str", s: cfg.op1}
		case "operator2":
			env[phi] = mval{kind: "str", s: cfg.op2}
		case "variable":
			env[phi] = mval{kind: "str", s: cfg.variable}
		default:
			env[phi] = mval{kind: "unknown"}
		}
	}
	out := musOut{}
	get := func(v ssa.Value) mval {
		if m, ok := env[v]; ok {
			return m
		}
		if k, ok := v.(*ssa.Const); ok {
			if k.Value == nil {
				return mval{kind: "nil"}
			}
			switch k.Value.Kind() {
			case constant.Int:
				n, _ := constant.Int64Val(k.Value)
				return mval{kind: "int", n: n}
			case constant.Bool:
				return mval{kind: "bool", b: constant.BoolVal(k.Value)}
			case constant.String:
				return mval{kind: "str", s: kstr(constant.StringVal(k.Value))}
			}
		}
		return mval{kind: "unknown"}
	}
	cur, pred := body, header
	type mframe struct {
		call *ssa.Call
		blk  *ssa.BasicBlock
		idx  int
		pred *ssa.BasicBlock
	}
	var frames []mframe
	startIdx := 0
	for steps := 0; steps < 600; steps++ {
		var next *ssa.BasicBlock
		jumped := false
		for ii := startIdx; ii < len(cur.Instrs) && !jumped; ii++ {
			in := cur.Instrs[ii]
			switch t := in.(type) {
			case *ssa.Phi:
				for i, p := range cur.Preds {
					if p == pred {
						env[t] = get(t.Edges[i])
					}
				}
			case *ssa.UnOp:
				if t.Op == token.MUL {
					// the current token (element of originalTokens) or a field load
					if strings.HasSuffix(t.Type().String(), "tokenizers.Token") {
						env[t] = mval{kind: "tok"}
					} else {
						env[t] = mval{kind: "unknown"}
					}
				} else if t.Op == token.NOT {
					x := get(t.X)
					if x.kind == "bool" {
						env[t] = mval{kind: "bool", b: !x.b}
					} else {
						env[t] = mval{kind: "unknown"}
					}
				}
			case *ssa.BinOp:
				l, r := get(t.X), get(t.Y)
				switch {
				case (t.Op == token.EQL || t.Op == token.NEQ) && l.kind == "int" && r.kind == "int":
					env[t] = mval{kind: "bool", b: (l.n == r.n) == (t.Op == token.EQL)}
				case (t.Op == token.EQL || t.Op == token.NEQ) && l.kind == "str" && r.kind == "str":
					switch {
					case l.s.known && r.s.known:
						env[t] = mval{kind: "bool", b: (l.s.s == r.s.s) == (t.Op == token.EQL)}
					case l.s.known != r.s.known:
						// "other text" differs from every constant of the partition
						env[t] = mval{kind: "bool", b: t.Op == token.NEQ}
					default:
						env[t] = mval{kind: "unknown"}
					}
				case (t.Op == token.LSS || t.Op == token.GTR || t.Op == token.LEQ || t.Op == token.GEQ) && l.kind == "int" && r.kind == "int":
					var b bool
					switch t.Op {
					case token.LSS:
						b = l.n < r.n
					case token.GTR:
						b = l.n > r.n
					case token.LEQ:
						b = l.n <= r.n
					case token.GEQ:
						b = l.n >= r.n
					}
					env[t] = mval{kind: "bool", b: b}
				case t.Op == token.ADD && l.kind == "int" && r.kind == "int":
					env[t] = mval{kind: "int", n: l.n + r.n}
				default:
					env[t] = mval{kind: "unknown"}
				}
			case *ssa.Call:
				cc := t.Common()
				if bi, ok := cc.Value.(*ssa.Builtin); ok {
					if bi.Name() == "len" {
						a := get(cc.Args[0])
						if a.kind == "str" && a.s.known {
							env[t] = mval{kind: "int", n: int64(len(a.s.s))}
							continue
						}
					}
					env[t] = mval{kind: "unknown"}
					continue
				}
				f := calleeObj(cc)
				if g := cc.StaticCallee(); g != nil && f != nil && c.InModule(g) && g.Blocks != nil && g != fn && len(frames) < 3 &&
					recvNamed(f) != "Token" && f.Name() != "NewMustacheError" && f.Name() != "NewMustacheToken" {
					// a helper of the parser (classifyTag(operator1, operator2, bracket)): executed as part of the step
					for k, prm := range g.Params {
						if k < len(cc.Args) {
							env[prm] = get(cc.Args[k])
						}
					}
					frames = append(frames, mframe{t, cur, ii + 1, pred})
					cur, pred, startIdx = g.Blocks[0], nil, 0
					jumped = true
					continue
				}
				switch {
				case f != nil && recvNamed(f) == "Token" && f.Name() == "Value":
					env[t] = mval{kind: "str", s: tok.val}
				case f != nil && recvNamed(f) == "Token" && f.Name() == "Type":
					env[t] = mval{kind: "int", n: tok.typ}
				case f != nil && f.Name() == "NewMustacheError":
					code := "?"
					if s, ok := constString(cc.Args[1]); ok {
						code = s
					}
					env[t] = mval{kind: "err", code: code}
				case f != nil && f.Name() == "NewMustacheToken":
					ty, va := get(cc.Args[0]), get(cc.Args[1])
					if ty.kind != "int" || va.kind != "str" {
						return musOut{kind: "opaque", why: "a mustache token is built from values outside the model"}
					}
					out.emitted, out.emTyp, out.emVal = true, ty.n, va.s
					env[t] = mval{kind: "unknown"}
				default:
					env[t] = mval{kind: "unknown"}
				}
			case *ssa.MakeInterface:
				env[t] = get(t.X)
			case *ssa.If:
				cv := get(t.Cond)
				if cv.kind != "bool" {
					return musOut{kind: "opaque", why: "a branch of the tag state machine depends on something other than the state, the operators, the bracket and the token's type/text class"}
				}
				if cv.b {
					next = cur.Succs[0]
				} else {
					next = cur.Succs[1]
				}
			case *ssa.Jump:
				next = cur.Succs[0]
			case *ssa.Return:
				if n := len(frames); n > 0 {
					fr := frames[n-1]
					frames = frames[:n-1]
					if len(t.Results) == 1 {
						env[fr.call] = get(t.Results[0])
					} else {
						env[fr.call] = mval{kind: "unknown"}
					}
					cur, pred, startIdx = fr.blk, fr.pred, fr.idx
					jumped = true
					continue
				}
				rv := get(t.Results[0])
				if rv.kind == "err" {
					out.kind, out.errCode = "error", rv.code
					return out
				}
				out.kind = "done"
				return out
			}
		}
		if jumped {
			continue
		}
		if next == nil {
			return musOut{kind: "opaque", why: "control flow left the model"}
		}
		if next == header {
			// read the loop-carried values along this back edge
			for _, in := range header.Instrs {
				phi, ok := in.(*ssa.Phi)
				if !ok {
					continue
				}
				for i, p := range header.Preds {
					if p != cur {
						continue
					}
					v := get(phi.Edges[i])
					switch phi.Comment {
					case "state":
						if v.kind != "int" {
							return musOut{kind: "opaque", why: "next state not a constant"}
						}
						out.cfg.state = v.n
					case "closingBracket":
						out.cfg.closing = v.s
					case "operator1":
						out.cfg.op1 = v.s
					case "operator2":
						out.cfg.op2 = v.s
					case "variable":
						out.cfg.variable = v.s
					}
				}
			}
			out.kind = "next"
			return out
		}
		pred, cur, startIdx = cur, next, 0
	}
	return musOut{kind: "opaque", why: "simulation did not terminate"}
}

type tagCase struct {
	name    string
	toks    []string // token spellings: "{{" "}}" "#" "w:name" "w:if" "t:text" "ws"
	wantErr string   // expected error code, "" = none
	emit    string   // expected emission "Type(value)" at the end, "" = none expected
}

func init() {
	register(&Rule{ID: "MUS.lexer", Floor: 20,
		Doc: "tag automaton extracted from the lexical pass by abstract interpretation over the finite partition of its constants; every tag spelling of the statement ('#', '#if', '^', '#unless', '/name', '/if', '/unless', plain and escaped variables, comments, double and triple braces) yields its token type and name, mismatched braces / stray symbols / an unfinished tag yield their error, and no reachable step depends on anything outside the partition",
		Run: ruleMusLexer})
	register(&Rule{ID: "MUS.section", Floor: 6,
		Doc: "section nesting: a nested section is parsed with its own name, a section ends at an end tag with its name or an anonymous one, any other end tag and a missing end tag are errors, a stray end tag at top level is an error",
		Run: ruleMusSection})
	register(&Rule{ID: "MUS.render", Floor: 8,
		Doc: "renderer: every token type the parser can produce has a case; text is written verbatim, a variable's value as is, an escaped variable through escapeString, a section's body iff its variable is defined and non-empty, an inverted section's body iff it is not; escapeString applies the JSON-style replacement table with the backslash first",
		Run: ruleMusRender})
	register(&Rule{ID: "MUS.verbatim", Floor: 2,
		Doc: "the template text reaches the tokenizer unchanged (no trimming, case folding or replacement between the caller's string and TokenizeBuffer), so literal text is rendered verbatim",
		Run: ruleMusVerbatim})
}

func ruleMusLexer(c *Ctx) []*Obligation {
	o := newObl("MUS.lexer")
	fn := c.MustFunc(pkgMParsers, "MustacheParser", "completeLexicalAnalysis")
	tt := c.constNames("tokenizers", "")
	ttBy := map[string]int64{}
	for v, n := range tt {
		ttBy[n] = v
	}
	mt := c.constNames(pkgMParsers, "")
	// names of mustache token types (Token*) and states (State*) share the untyped-int namespace: resolve by name
	mtBy := map[string]int64{}
	for _, n := range []string{"TokenUnknown", "TokenValue", "TokenVariable", "TokenEscapedVariable", "TokenSection", "TokenInvertedSection", "TokenSectionEnd", "TokenPartial", "TokenComment", "StateValue"} {
		if v, ok := c.constByName(pkgMParsers, n); ok {
			mtBy[n] = v
		} else {
			panic(anchorError("constant " + n + " not found"))
		}
	}
	_ = mt
	typeName := func(v int64) string {
		for _, n := range []string{"TokenUnknown", "TokenValue", "TokenVariable", "TokenEscapedVariable", "TokenSection", "TokenInvertedSection", "TokenSectionEnd", "TokenPartial", "TokenComment"} {
			if mtBy[n] == v {
				return strings.TrimPrefix(n, "Token")
			}
		}
		return fmt.Sprint(v)
	}
	mk := func(sp string) musTok {
		switch {
		case sp == "ws":
			return musTok{ttBy["Whitespace"], kstr(" ")}
		case strings.HasPrefix(sp, "w:"):
			v := sp[2:]
			if v == "if" || v == "unless" {
				return musTok{ttBy["Word"], kstr(v)}
			}
			return musTok{ttBy["Word"], absStr{false, v}}
		case strings.HasPrefix(sp, "t:"):
			return musTok{ttBy["Special"], absStr{false, sp[2:]}}
		case strings.HasPrefix(sp, "q:"):
			return musTok{ttBy["Quoted"], absStr{false, sp[2:]}}
		case sp == "&":
			return musTok{ttBy["Symbol"], absStr{false, "&"}}
		default:
			return musTok{ttBy["Symbol"], kstr(sp)}
		}
	}
	var cases []tagCase
	for _, br := range [][2]string{{"{{", "}}"}, {"{{{", "}}}"}} {
		o2, c2 := br[0], br[1]
		v := "Variable"
		if o2 == "{{{" {
			v = "EscapedVariable"
		}
		cases = append(cases,
			tagCase{o2 + "name" + c2, []string{o2, "w:name", c2}, "", v + "(name)"},
			tagCase{o2 + " name " + c2, []string{o2, "ws", "w:name", "ws", c2}, "", v + "(name)"},
			tagCase{o2 + "#name" + c2, []string{o2, "#", "w:name", c2}, "", "Section(name)"},
			tagCase{o2 + "#if name" + c2, []string{o2, "#", "w:if", "ws", "w:name", c2}, "", "Section(name)"},
			tagCase{o2 + "^name" + c2, []string{o2, "^", "w:name", c2}, "", "InvertedSection(name)"},
			tagCase{o2 + "#unless name" + c2, []string{o2, "#", "w:unless", "ws", "w:name", c2}, "", "InvertedSection(name)"},
			tagCase{o2 + "/name" + c2, []string{o2, "/", "w:name", c2}, "", "SectionEnd(name)"},
			tagCase{o2 + "/if" + c2, []string{o2, "/", "w:if", c2}, "", "SectionEnd()"},
			tagCase{o2 + "/unless" + c2, []string{o2, "/", "w:unless", c2}, "", "SectionEnd()"},
			tagCase{o2 + "! some words" + c2, []string{o2, "!", "ws", "w:some", "ws", "w:words", c2}, "", "comment"},
			tagCase{o2 + "&" + c2, []string{o2, "&"}, "UNEXPECTED_SYMBOL", ""},
		)
	}
	cases = append(cases,
		tagCase{"{{name}}}", []string{"{{", "w:name", "}}}"}, "MISTMATCHED_BRACKETS", ""},
		tagCase{"{{{name}}", []string{"{{{", "w:name", "}}"}, "MISTMATCHED_BRACKETS", ""},
		tagCase{"{{#name}}}", []string{"{{", "#", "w:name", "}}}"}, "MISTMATCHED_BRACKETS", ""},
		tagCase{"{{! note }}}", []string{"{{", "!", "ws", "w:note", "ws", "}}}"}, "MISTMATCHED_BRACKETS", ""},
		tagCase{"{{{! note }}", []string{"{{{", "!", "ws", "w:note", "ws", "}}"}, "MISTMATCHED_BRACKETS", ""},
		tagCase{"text", []string{"t:some text"}, "", "Value(some text)"},
		tagCase{"{{name name}}", []string{"{{", "w:name", "ws", "w:other"}, "UNEXPECTED_SYMBOL", ""},
		tagCase{"}} outside a tag", []string{"}}"}, "UNEXPECTED_SYMBOL", ""},
	)
	initial := musCfg{state: mtBy["StateValue"], closing: kstr(""), op1: kstr(""), op2: kstr(""), variable: kstr("")}
	for _, tc := range cases {
		key := c.FuncKey(fn) + "#tag#" + tc.name
		cfg := initial
		var last musOut
		var emissions []string
		bad := ""
		for i, sp := range tc.toks {
			last = c.musStep(fn, cfg, mk(sp))
			if last.kind == "opaque" {
				bad = "step " + fmt.Sprint(i+1) + " (" + sp + "): " + last.why
				break
			}
			if last.emitted {
				val := last.emVal.s
				emissions = append(emissions, typeName(last.emTyp)+"("+val+")")
			}
			if last.kind == "error" {
				break
			}
			cfg = last.cfg
		}
		if bad == "" {
			switch {
			case tc.wantErr != "":
				if last.kind != "error" || last.errCode != tc.wantErr {
					got := "no error"
					if last.kind == "error" {
						got = last.errCode
					}
					bad = fmt.Sprintf("must be rejected with %s, the automaton gives %s", tc.wantErr, got)
				}
			case last.kind == "error":
				bad = "a well-formed tag is rejected with " + last.errCode
			case cfg.state != initial.state || cfg.op1 != initial.op1 || cfg.op2 != initial.op2 || cfg.variable != initial.variable:
				bad = fmt.Sprintf("after the tag the automaton is not back in its text state (state %d, operators %q %q, variable %q): the next tag inherits stale data", cfg.state, cfg.op1.s, cfg.op2.s, cfg.variable.s)
			case tc.emit == "comment":
				ok := len(emissions) == 0 || (len(emissions) == 1 && strings.HasPrefix(emissions[0], "Comment("))
				if !ok {
					bad = fmt.Sprintf("a comment must produce no output token (or a Comment token), the automaton emits %v", emissions)
				}
			default:
				if len(emissions) != 1 || emissions[0] != tc.emit {
					bad = fmt.Sprintf("must produce exactly %s, the automaton emits %v", tc.emit, emissions)
				}
			}
		}
		if bad != "" {
			o.bad(key, c.Pos(fn.Pos()), "tag "+tc.name+": "+bad)
		} else {
			what := tc.emit
			if tc.wantErr != "" {
				what = "error " + tc.wantErr
			}
			o.ok(key, c.Pos(fn.Pos()), fmt.Sprintf("%d abstract step(s) → %s", len(tc.toks), what))
		}
	}
	// exhaustive exploration of the extracted automaton: every configuration reachable from the
	// text state under every token class
	{
		norm := func(a absStr) absStr {
			if !a.known {
				return absStr{false, "name"}
			}
			return a
		}
		normCfg := func(k musCfg) musCfg {
			return musCfg{k.state, norm(k.closing), norm(k.op1), norm(k.op2), norm(k.variable)}
		}
		var alphabet []musTok
		vals := []absStr{kstr("{{"), kstr("{{{"), kstr("}}"), kstr("}}}"), kstr("!"), kstr("/"), kstr("#"), kstr("^"), kstr("if"), kstr("unless"), kstr(""), {false, "name"}}
		for _, ty := range []string{"Special", "Symbol", "Word", "Whitespace", "Quoted", "Integer", "Eof"} {
			for _, v := range vals {
				// texts a token of this type cannot have are left out
				if (ty == "Word" && !(v == kstr("if") || v == kstr("unless") || !v.known)) || ((ty == "Whitespace" || ty == "Integer") && v.known) || (ty == "Eof" && v != kstr("")) {
					continue
				}
				alphabet = append(alphabet, musTok{ttBy[ty], v})
			}
		}
		seen := map[musCfg]bool{initial: true}
		work := []musCfg{initial}
		steps, emits, errsN := 0, 0, 0
		var problems []string
		problem := func(f string, a ...interface{}) {
			if len(problems) < 6 {
				problems = append(problems, fmt.Sprintf(f, a...))
			}
		}
		desc := func(k musCfg, t musTok) string {
			return fmt.Sprintf("state %d, brackets %q, operators %q %q, name %q, token type %s text %q", k.state, k.closing.s, k.op1.s, k.op2.s, k.variable.s, tt[t.typ], t.val.s)
		}
		for len(work) > 0 {
			cfg := work[0]
			work = work[1:]
			for _, tk := range alphabet {
				steps++
				out := c.musStep(fn, cfg, tk)
				switch out.kind {
				case "opaque":
					problem("%s: %s", desc(cfg, tk), out.why)
					continue
				case "next", "done":
					// closing brackets of the wrong length inside a tag must be an error, whatever the tag
					if cfg.state != initial.state && tk.typ == ttBy["Symbol"] && (tk.val == kstr("}}") || tk.val == kstr("}}}")) && tk.val != cfg.closing {
						problem("%s: closing brackets that do not match the opening ones are accepted (or skipped) instead of rejected", desc(cfg, tk))
					}
				}
				switch out.kind {
				case "error":
					errsN++
					if out.errCode == "INTERNAL" && !(cfg.op1 == kstr("^") && cfg.op2 != kstr("")) {
						problem("%s: a tag in one of the statement's spellings ends in an INTERNAL error", desc(cfg, tk))
					}
					continue
				}
				nc := normCfg(out.cfg)
				if tk.typ == ttBy["Whitespace"] && (nc != cfg || out.emitted) {
					problem("%s: white space inside a tag changes the automaton's configuration", desc(cfg, tk))
				}
				if out.emitted {
					emits++
					ty := typeName(out.emTyp)
					if ty == "Value" {
						if !(cfg.state == initial.state && tk.typ == ttBy["Special"] && out.emVal == tk.val) {
							problem("%s: a text token is produced from something other than the text between tags", desc(cfg, tk))
						}
					} else {
						want := "?"
						op1, op2 := cfg.op1, cfg.op2
						if cfg.state != mtBy["StateValue"] && op2.known && op2.s != "" && cfg.variable == kstr("") && op1 != kstr("/") {
							// '{{#if}}': the keyword is the name
							op2 = kstr("")
						}
						switch {
						case op1 == kstr("#") && (op2 == kstr("") || op2 == kstr("if")):
							want = "Section"
						case op1 == kstr("#") && op2 == kstr("unless"):
							want = "InvertedSection"
						case op1 == kstr("^") && op2 == kstr(""):
							want = "InvertedSection"
						case op1 == kstr("/"):
							want = "SectionEnd"
						case op1 == kstr("!"):
							want = "Comment"
						case op1 == kstr("") && tk.val == kstr("}}"):
							want = "Variable"
						case op1 == kstr("") && tk.val == kstr("}}}"):
							want = "EscapedVariable"
						}
						if ty != want {
							problem("%s: produces a %s token where the tag spells a %s", desc(cfg, tk), ty, want)
						}
						if !(tk.typ == ttBy["Symbol"] && tk.val == cfg.closing) {
							problem("%s: a tag token is produced by something other than the matching closing brackets", desc(cfg, tk))
						}
						if nc.closing = initial.closing; nc != initial {
							problem("%s: after the tag the automaton keeps state %d, operators %q %q, name %q", desc(cfg, tk), nc.state, nc.op1.s, nc.op2.s, nc.variable.s)
						}
						if out.emVal == kstr("") && !(ty == "Comment" || (ty == "SectionEnd" && cfg.op2 != kstr(""))) {
							problem("%s: a %s token without a name is produced", desc(cfg, tk), ty)
						}
					}
				}
				if !seen[nc] {
					seen[nc] = true
					work = append(work, nc)
				}
			}
		}
		key := c.FuncKey(fn) + "#reachable-automaton"
		if len(problems) > 0 {
			o.bad(key, c.Pos(fn.Pos()), strings.Join(problems, "; "))
		} else {
			o.ok(key, c.Pos(fn.Pos()), fmt.Sprintf("%d reachable configurations × %d token classes = %d abstract steps (%d emissions, %d rejections), every one inside the partition and consistent with the spelling table", len(seen), len(alphabet), steps, emits, errsN))
		}
	}
	// unfinished tag at the end of the token list → UNEXPECTED_END
	{
		key := c.FuncKey(fn) + "#unfinished-tag"
		good := false
		for _, s := range c.errorCtorSites() {
			if s.fn == fn && s.code == "UNEXPECTED_END" && s.live {
				for _, g := range guardsAt(s.call.Block()) {
					cond, truth := g.atom()
					if bo, ok := cond.(*ssa.BinOp); ok {
						if k, isK := constInt(bo.Y); isK && k == mtBy["StateValue"] && (bo.Op == token.NEQ) == truth {
							good = true
						}
					}
				}
			}
		}
		o.check(good, key, c.Pos(fn.Pos()), "ending in any state but the text state returns UNEXPECTED_END", "a template that ends inside a tag is not rejected with UNEXPECTED_END")
	}
	return o.list
}

// musSectionRun evaluates a section-parsing function abstractly: `remaining` tokens are left at entry, the
// first one has type typ and a name that is the section's own ("same"), empty ("empty") or another
// ("other"). The cursor and the token count are concrete integers, so every spelling of the cursor
// tests (helper methods or direct index arithmetic) evaluates the same way.
type musSectionOutcome struct {
	errCode    string   // error code returned, "" for success
	recursions []string // names the nested-section parser was called with
	opaque     string
}

func (c *Ctx) musSectionRun(fn, sec *ssa.Function, remaining int64, typ int64, rel string) musSectionOutcome {
	res := musSectionOutcome{}
	cursor := int64(0)
	nameVal := func() aiVal {
		switch rel {
		case "same":
			return aiSym("variable")
		case "empty":
			return aiStr("")
		}
		return aiSym("another-name")
	}
	ai := &absInterp{c: c, fn: fn, env: map[ssa.Value]aiVal{}}
	if fn == sec && len(fn.Params) > 1 {
		ai.env[fn.Params[1]] = aiSym("variable")
	}
	ai.cmp = func(a, b aiVal) (bool, bool) {
		if a.kind == "sym" && b.kind == "sym" {
			return a.s == b.s, true
		}
		if (a.kind == "sym" && b.kind == "str") || (a.kind == "str" && b.kind == "sym") {
			return false, true // a symbolic name stands for some non-empty text different from every constant
		}
		return false, false
	}
	ai.inline = func(g *ssa.Function) bool { return recvNamedFn(g) == "MustacheParser" && g != sec }
	ai.load = func(ai *absInterp, addr ssa.Value) (aiVal, bool) {
		switch a := addr.(type) {
		case *ssa.FieldAddr:
			switch fieldName(a.X.Type(), a.Field) {
			case "currentTokenIndex":
				return aiInt(cursor), true
			case "initialTokens":
				return aiSym("tokens"), true
			case "resultTokens":
				return aiSym("results"), true
			}
		case *ssa.IndexAddr:
			if v := ai.get(a.X); v.kind == "sym" && v.s == "tokens" {
				return aiSym("token"), true
			}
		}
		return aiVal{}, false
	}
	ai.store = func(ai *absInterp, addr ssa.Value, val aiVal) {
		if fa, ok := addr.(*ssa.FieldAddr); ok && fieldName(fa.X.Type(), fa.Field) == "currentTokenIndex" && val.kind == "int" {
			cursor = val.n
		}
	}
	ai.call = func(ai *absInterp, call *ssa.Call) (aiVal, bool) {
		cc := call.Common()
		if bi, ok := cc.Value.(*ssa.Builtin); ok {
			switch bi.Name() {
			case "len":
				if v := ai.get(cc.Args[0]); v.kind == "sym" && v.s == "tokens" {
					return aiInt(remaining), true
				}
			case "append":
				return aiSym("list"), true
			}
			return aiVal{}, false
		}
		f := calleeObj(cc)
		if f == nil {
			return aiVal{}, false
		}
		switch {
		case cc.StaticCallee() == sec:
			a := ai.get(callArgs(cc)[0])
			n := "?"
			if a.kind == "sym" {
				n = a.s
			} else if a.kind == "str" {
				n = fmt.Sprintf("%q", a.s)
			}
			res.recursions = append(res.recursions, n)
			return aiVal{kind: "tuple", tup: []aiVal{aiSym("children"), aiNil()}}, true
		case recvNamed(f) == "MustacheToken":
			switch f.Name() {
			case "Type":
				return aiInt(typ), true
			case "Value":
				return nameVal(), true
			case "Tokens":
				return aiSym("children-so-far"), true
			case "SetTokens":
				return aiUnknown(), true
			}
			return aiSym("pos"), true
		case f.Name() == "NewMustacheToken":
			return aiSym("new-token"), true
		case f.Name() == "NewMustacheError":
			code := "?"
			if sv := ai.get(cc.Args[1]); sv.kind == "str" {
				code = sv.s
			}
			return aiSym("err:" + code), true
		}
		return aiVal{}, false
	}
	out := ai.run(fn.Blocks[0], nil, 0)
	switch out.kind {
	case "opaque":
		res.opaque = out.why
	case "return":
		last := out.ret[len(out.ret)-1]
		if last.kind == "sym" && strings.HasPrefix(last.s, "err:") {
			res.errCode = strings.TrimPrefix(last.s, "err:")
		} else if last.kind != "nil" {
			res.opaque = "the error result is outside the model"
		}
	default:
		res.opaque = "the run did not return"
	}
	return res
}

func ruleMusSection(c *Ctx) []*Obligation {
	o := newObl("MUS.section")
	sec := c.MustFunc(pkgMParsers, "MustacheParser", "performSyntaxAnalysisForSection")
	top := c.MustFunc(pkgMParsers, "MustacheParser", "performSyntaxAnalysis")
	k := func(n string) int64 {
		v, ok := c.constByName(pkgMParsers, n)
		if !ok {
			panic(anchorError("constant " + n + " not found"))
		}
		return v
	}
	endK, secK, invK, varK := k("TokenSectionEnd"), k("TokenSection"), k("TokenInvertedSection"), k("TokenVariable")
	type expect struct {
		key        string
		fn         *ssa.Function
		remaining  int64
		typ        int64
		rel        string
		errCode    string
		recursions string
		ok, bad    string
	}
	cases := []expect{
		{"closed-by-own-name", sec, 1, endK, "same", "", "", "an end tag with the section's name closes it", "an end tag with the section's own name does not close the section"},
		{"closed-by-anonymous-end", sec, 1, endK, "empty", "", "", "an anonymous end tag ({{/if}}, {{/unless}}) closes it", "an anonymous end tag does not close the section"},
		{"rejects-other-end-tag", sec, 1, endK, "other", "UNEXPECTED_SECTION_END", "", "an end tag with another name is rejected", "an end tag with another name inside a section is not rejected with UNEXPECTED_SECTION_END"},
		{"nested-section-gets-own-name", sec, 1, secK, "other", "NOT_CLOSED_SECTION", "another-name", "a nested section is parsed with its own name", "a nested section is not parsed with the name of the section token just read: its end tag is matched against the wrong name"},
		{"nested-inverted-section-gets-own-name", sec, 1, invK, "other", "NOT_CLOSED_SECTION", "another-name", "a nested inverted section is parsed with its own name", "a nested inverted section is not parsed with the name of its own token"},
		{"plain-token-continues", sec, 1, varK, "other", "NOT_CLOSED_SECTION", "", "other tokens are collected and the loop goes on; running out of tokens is NOT_CLOSED_SECTION", "a token inside a section is not simply collected, or a section without an end tag is not rejected with NOT_CLOSED_SECTION"},
		{"empty-section-at-end-of-input", sec, 0, varK, "other", "UNEXPECTED_END", "", "a section opener as the last token is UNEXPECTED_END", "a section with nothing after its opener is not rejected with UNEXPECTED_END"},
		{"top-level-end-tag-rejected", top, 1, endK, "other", "UNEXPECTED_SECTION_END", "", "an end tag at the top level is rejected", "an end tag at the top level is not rejected with UNEXPECTED_SECTION_END"},
		{"top-level-section-gets-own-name", top, 1, secK, "other", "", "another-name", "a top-level section is parsed with its own name", "a top-level section is not parsed with the name of its own token"},
		{"top-level-inverted-section-gets-own-name", top, 1, invK, "other", "", "another-name", "a top-level inverted section is parsed with its own name", "a top-level inverted section is not parsed with the name of its own token"},
		{"top-level-plain-token", top, 1, varK, "other", "", "", "other tokens are collected; the end of the tokens ends the parse", "a plain token at the top level is not simply collected"},
	}
	for _, e := range cases {
		key := c.FuncKey(e.fn) + "#" + e.key
		r := c.musSectionRun(e.fn, sec, e.remaining, e.typ, e.rel)
		switch {
		case r.opaque != "":
			o.undecided(key, c.Pos(e.fn.Pos()), r.opaque)
		case r.errCode != e.errCode || strings.Join(r.recursions, ",") != e.recursions:
			got := "success"
			if r.errCode != "" {
				got = "error " + r.errCode
			}
			o.bad(key, c.Pos(e.fn.Pos()), fmt.Sprintf("%s (abstract run: %s, nested parses for [%s])", e.bad, got, strings.Join(r.recursions, ",")))
		default:
			o.ok(key, c.Pos(e.fn.Pos()), e.ok)
		}
	}
	return o.list
}

// musRenderRun evaluates one iteration of the renderer's token loop abstractly for a token of type typ,
// a variable that is present/absent and defined/undefined, and a child list that is nil or not.
// It returns what is written to the output builder (symbolic), or the error code returned.
func (c *Ctx) musRenderRun(fn *ssa.Function, typ int64, present, defined, tokensNil bool) (writes []string, errCode string, opaque string) {
	header, body := loopWithPhi(fn, "rangeindex")
	if header == nil {
		return nil, "", "token loop not found"
	}
	name := func(v aiVal) string {
		switch v.kind {
		case "sym":
			return v.s
		case "str":
			return fmt.Sprintf("%q", v.s)
		case "nil":
			return "nil"
		}
		return "?"
	}
	modelled := map[string]bool{"GetVariable": true, "isDefinedVariable": true, "escapeString": true, "evaluateTokens": true}
	ai := &absInterp{c: c, fn: fn, env: map[ssa.Value]aiVal{}}
	ai.inline = func(g *ssa.Function) bool {
		return recvNamedFn(g) == "MustacheTemplate" && !modelled[g.Name()]
	}
	ai.load = func(ai *absInterp, addr ssa.Value) (aiVal, bool) {
		if ia, ok := addr.(*ssa.IndexAddr); ok && ia.X == ssa.Value(fn.Params[1]) {
			return aiSym("token"), true
		}
		if v := ai.get(addr); v.kind == "sym" && v.s == "varptr" {
			return aiSym("*var"), true
		}
		return aiVal{}, false
	}
	ai.call = func(ai *absInterp, call *ssa.Call) (aiVal, bool) {
		cc := call.Common()
		if bi, ok := cc.Value.(*ssa.Builtin); ok {
			if bi.Name() == "len" && cc.Args[0] == ssa.Value(fn.Params[1]) {
				return aiSym("len(tokens)"), true
			}
			return aiVal{}, false
		}
		f := calleeObj(cc)
		if f == nil {
			return aiVal{}, false
		}
		switch {
		case recvNamed(f) == "MustacheToken":
			switch f.Name() {
			case "Type":
				return aiInt(typ), true
			case "Value":
				return aiSym("name"), true
			case "Tokens":
				if tokensNil {
					return aiNil(), true
				}
				return aiSym("children"), true
			}
			return aiSym("pos"), true
		case f.Name() == "GetVariable":
			if present {
				return aiSym("varptr"), true
			}
			return aiNil(), true
		case f.Name() == "isDefinedVariable":
			return aiBool(defined), true
		case f.Name() == "escapeString":
			return aiSym("escape(" + name(ai.get(callArgs(cc)[0])) + ")"), true
		case f.Name() == "evaluateTokens":
			return aiVal{kind: "tuple", tup: []aiVal{aiSym("render(" + name(ai.get(callArgs(cc)[0])) + ")"), aiNil()}}, true
		case f.Name() == "NewMustacheError":
			code := "?"
			if sv := ai.get(cc.Args[1]); sv.kind == "str" {
				code = sv.s
			}
			return aiSym("err:" + code), true
		case f.Pkg() != nil && f.Pkg().Path() == "strings" && recvNamed(f) == "Builder" && f.Name() == "WriteString":
			writes = append(writes, name(ai.get(cc.Args[1])))
			return aiUnknown(), true
		case f.Pkg() != nil && f.Pkg().Path() == "strings" && recvNamed(f) == "Builder":
			return aiSym("built"), true
		}
		return aiVal{}, false
	}
	ai.stop = func(from, to *ssa.BasicBlock) bool { return to == header }
	out := ai.run(body, header, 0)
	switch out.kind {
	case "opaque":
		return nil, "", out.why
	case "return":
		if len(out.ret) == 2 && out.ret[1].kind == "sym" && strings.HasPrefix(out.ret[1].s, "err:") {
			return writes, strings.TrimPrefix(out.ret[1].s, "err:"), ""
		}
		return writes, "returns", ""
	}
	return writes, "", ""
}

func ruleMusRender(c *Ctx) []*Obligation {
	o := newObl("MUS.render")
	fn := c.MustFunc("mustache", "MustacheTemplate", "evaluateTokens")
	types := map[string]int64{}
	for _, n := range []string{"TokenValue", "TokenVariable", "TokenEscapedVariable", "TokenSection", "TokenInvertedSection", "TokenComment"} {
		v, ok := c.constByName(pkgMParsers, n)
		if !ok {
			panic(anchorError("constant " + n + " not found"))
		}
		types[strings.TrimPrefix(n, "Token")] = v
	}
	// the renderer's loop body evaluated for every cell of (token type × variable present × defined × children nil)
	want := func(tn string, present, defined, tokensNil bool) []string {
		switch tn {
		case "Value":
			return []string{"name"}
		case "Variable":
			if present {
				return []string{"*var"}
			}
		case "EscapedVariable":
			if present {
				return []string{"escape(*var)"}
			}
		case "Section":
			if defined && !tokensNil {
				return []string{"render(children)"}
			}
		case "InvertedSection":
			if !defined && !tokensNil {
				return []string{"render(children)"}
			}
		}
		return nil
	}
	what := map[string]string{
		"Value": "text is written verbatim", "Variable": "the variable's value is written when present, nothing otherwise",
		"EscapedVariable": "the escaped value is written when present, nothing otherwise",
		"Section":         "the body is rendered iff the variable is defined and non-empty",
		"InvertedSection": "the body is rendered iff the variable is not defined/non-empty", "Comment": "comments render nothing",
	}
	for _, tn := range []string{"Value", "Variable", "EscapedVariable", "Section", "InvertedSection", "Comment"} {
		key := c.FuncKey(fn) + "#case#" + tn
		bad, undec, n := "", "", 0
		for _, pd := range [][2]bool{{false, false}, {true, false}, {true, true}} {
			for _, tokensNil := range []bool{false, true} {
				n++
				writes, errCode, opaque := c.musRenderRun(fn, types[tn], pd[0], pd[1], tokensNil)
				ctx := fmt.Sprintf("[variable present %v, defined %v, children nil %v]", pd[0], pd[1], tokensNil)
				w := want(tn, pd[0], pd[1], tokensNil)
				switch {
				case opaque != "":
					undec = opaque + " " + ctx
				case errCode != "":
					if bad == "" {
						bad = "a " + tn + " token ends the rendering (" + errCode + ") " + ctx
					}
				case strings.Join(writes, " ") != strings.Join(w, " "):
					if bad == "" {
						bad = fmt.Sprintf("a %s token writes [%s], expected [%s] %s", tn, strings.Join(writes, " "), strings.Join(w, " "), ctx)
					}
				}
			}
		}
		switch {
		case bad != "":
			o.bad(key, c.Pos(fn.Pos()), bad)
		case undec != "":
			o.undecided(key, c.Pos(fn.Pos()), undec)
		default:
			o.ok(key, c.Pos(fn.Pos()), fmt.Sprintf("%d abstract run(s): %s", n, what[tn]))
		}
	}
	// isDefinedVariable: present and non-empty
	{
		idv := c.MustFunc("mustache", "MustacheTemplate", "isDefinedVariable")
		e2 := c.newExpr(idv)
		var rets []string
		for _, ret := range returnsOf(idv) {
			rets = append(rets, e2.str(ret.Results[0]))
		}
		sort.Strings(rets)
		want := `("" != *GetVariable($0, $1, $2))`
		good := false
		for _, r := range rets {
			if r == want {
				good = true
			}
		}
		o.check(good && len(rets) == 2, c.FuncKey(idv)+"#defined-and-non-empty", c.Pos(idv.Pos()), "false when absent, otherwise value != \"\"", fmt.Sprintf("isDefinedVariable returns %v: 'present and non-empty' is required", rets))
	}
	// escapeString: replacement table, backslash first
	{
		es := c.MustFunc("mustache", "MustacheTemplate", "escapeString")
		key := c.FuncKey(es) + "#replacements"
		var seq [][2]string
		// follow the ReplaceAll chain from the parameter outwards
		cur := ssa.Value(es.Params[1])
		for steps := 0; steps < 20; steps++ {
			var nextCall *ssa.Call
			for _, ci := range allCalls(es) {
				call := ci.(*ssa.Call)
				f := calleeObj(call.Common())
				if f == nil || f.Name() != "ReplaceAll" {
					continue
				}
				if call.Call.Args[0] == cur {
					nextCall = call
				}
			}
			if nextCall == nil {
				break
			}
			a, _ := constString(nextCall.Call.Args[1])
			b, _ := constString(nextCall.Call.Args[2])
			seq = append(seq, [2]string{a, b})
			cur = nextCall
		}
		want := map[string]string{"\\": "\\\\", "\"": "\\\"", "/": "\\/", "\b": "\\b", "\f": "\\f", "\n": "\\n", "\r": "\\r", "\t": "\\t"}
		bad := ""
		if len(seq) == 0 || seq[0][0] != "\\" {
			bad = "the backslash is not escaped first: the backslashes introduced by the other replacements are doubled afterwards"
		}
		got := map[string]string{}
		for _, p := range seq {
			got[p[0]] = p[1]
		}
		for k, v := range want {
			if got[k] != v {
				bad = fmt.Sprintf("replacement for %q is %q, expected %q", k, got[k], v)
			}
		}
		if len(seq) != len(want) {
			bad = fmt.Sprintf("%d chained replacements, expected %d", len(seq), len(want))
		}
		o.check(bad == "", key, c.Pos(es.Pos()), "8 JSON-style replacements chained on the value, backslash first", bad)
	}
	return o.list
}

func ruleMusVerbatim(c *Ctx) []*Obligation {
	o := newObl("MUS.verbatim")
	// every TokenizeBuffer call of the mustache parser receives the caller's string by identity
	for _, name := range []string{"ParseString", "tokenizeMustache"} {
		fn := c.MustFunc(pkgMParsers, "MustacheParser", name)
		ex := c.newExpr(fn)
		key := c.FuncKey(fn) + "#template-unchanged"
		bad := ""
		for _, ci := range allCalls(fn) {
			cc := ci.Common()
			var arg ssa.Value
			if cc.IsInvoke() && cc.Method.Name() == "TokenizeBuffer" {
				arg = cc.Args[0]
			} else if g := cc.StaticCallee(); g != nil && g.Name() == "tokenizeMustache" {
				arg = callArgs(cc)[0]
			}
			if arg == nil {
				continue
			}
			// follow field store/load of c.template
			src := arg
			if isFieldLoad(src, "template") {
				for _, b := range fn.Blocks {
					for _, in := range b.Instrs {
						if st, ok := in.(*ssa.Store); ok {
							if fa, ok := st.Addr.(*ssa.FieldAddr); ok && fieldName(fa.X.Type(), fa.Field) == "template" && instrDominates(st, ci) {
								src = st.Val
							}
						}
					}
				}
			}
			if src != ssa.Value(fn.Params[1]) {
				bad = "the text handed on is " + ex.str(src) + ", not the caller's template itself: literal text (e.g. leading/trailing whitespace) is altered before it is rendered"
			}
		}
		o.check(bad == "", key, c.Pos(fn.Pos()), "the template string is passed on unchanged", bad)
	}
	return o.list
}
