package main

import (
	"fmt"
	"go/types"
	"math"
	"regexp"
	"sort"
	"strings"
	"sync"
)

// ---------------------------------------------------------------------------------------------
// FUNC.model (C08): the default function table evaluated abstractly through
// NewDefaultFunctionCollection / FindByName / Calculate with the type-unsafe operations: every name
// of the statement resolves in any letter case and nothing else is registered; for every function
// and every argument count 0..9 a result exists exactly for the counts of the statement; functions
// that denote a host function or constant return it applied to the converted argument (symbolic
// payloads); selection, folding and construction functions are run on constants against their
// meaning (Min/Max/Sum over all arguments in every position, If, Choose with both bounds, Contains,
// Abs per numeric type, TimeSpan and Date components with their defaults).
// ---------------------------------------------------------------------------------------------

var reFuncParam = regexp.MustCompile(`As[A-Za-z]+\(Convert\(getParameter\(\$1, ([0-9])\), [A-Za-z]+\)\)`)

type fxHarness struct {
	*vxHarness
	coll  mv
	collT mIface
}

func (c *Ctx) newFxHarness() *fxHarness { return c.newFxHarnessFor("TypeUnsafeVariantOperations") }

func (c *Ctx) newFxHarnessFor(manager string) *fxHarness {
	h := &fxHarness{vxHarness: c.newVxHarness(manager)}
	if h.fault != "" {
		return h
	}
	ctor := c.MustFunc(pkgFunctions, "", "NewDefaultFunctionCollection")
	coll, out := h.m.Call(ctor)
	if out.kind != "ok" {
		h.fault = "NewDefaultFunctionCollection: " + out.why
		return h
	}
	h.coll = coll
	h.collT = mIface{t: resultType(ctor), v: coll}
	return h
}

type fnOutcome struct {
	kind, tag, expr, code, why string
	conds                      []string
	ret                        mv
}

// calc explores name(params...) ; params are built by mk on every run.
func (h *fxHarness) calc(name string, intercept bool, mk func() []mv) []fnOutcome {
	var outs []fnOutcome
	paths := h.m.explore(12, func() (ret mv, out mOutcome) {
		defer func() {
			if r := recover(); r != nil {
				if a, ok := r.(mAbort); ok {
					ret, out = nil, mOutcome{kind: "opaque", why: a.why}
					return
				}
				panic(r)
			}
		}()
		h.names = map[*mv]string{}
		fnv, o := callM(h.c, h.m, h.collT.t, "FindByName", h.coll, name)
		if o.kind != "ok" {
			return nil, o
		}
		fi, ok := fnv.(mIface)
		if !ok {
			return nil, mOutcome{kind: "opaque", why: "function " + name + " not found"}
		}
		params := mk()
		for i, p := range params {
			if pp, ok := p.(*mv); ok {
				h.names[pp] = fmt.Sprintf("v%d", i)
			}
		}
		h.convOn = intercept
		defer func() { h.convOn = false }()
		arr := params
		if arr == nil {
			arr = []mv{}
		}
		return callM(h.c, h.m, fi.t, "Calculate", fi.v, mSlice{arr}, mIface{t: h.mgrT, v: h.mgr})
	})
	for _, p := range paths {
		oc := fnOutcome{conds: p.conds}
		switch p.out.kind {
		case "panic", "opaque":
			oc.kind, oc.why = p.out.kind, p.out.why
		default:
			tp, ok := p.ret.(mTuple)
			if !ok || len(tp) != 2 {
				oc.kind, oc.why = "opaque", "unexpected result shape"
				break
			}
			if _, isNil := tp[1].(mNilT); !isNil {
				oc.kind, oc.code = "error", errorCode(tp[1])
				if _, alsoVal := tp[0].(mNilT); !alsoVal {
					if pp, ok := tp[0].(*mv); !ok || pp != nil {
						oc.kind = "both"
					}
				}
				break
			}
			if _, isNil := tp[0].(mNilT); isNil {
				oc.kind = "neither"
				break
			}
			if pp, ok := tp[0].(*mv); ok && pp == nil {
				oc.kind = "neither"
				break
			}
			oc.kind = "value"
			oc.ret = tp[0]
			oc.tag = h.typeOf(tp[0])
			oc.expr = h.payloadOf(tp[0])
		}
		outs = append(outs, oc)
	}
	return outs
}

var funcxMemo map[string]*simpleVerdict
var funcxMu sync.Mutex

func (c *Ctx) funcxRun() map[string]*simpleVerdict {
	funcxMu.Lock()
	defer funcxMu.Unlock()
	if funcxMemo != nil {
		return funcxMemo
	}
	res := map[string]*simpleVerdict{}
	var mu sync.Mutex
	note := func(k, bad, undec string) {
		mu.Lock()
		defer mu.Unlock()
		v := res[k]
		if v == nil {
			v = &simpleVerdict{}
			res[k] = v
		}
		v.runs++
		if bad != "" && (v.bad == "" || bad < v.bad) {
			v.bad = bad
		}
		if undec != "" && v.undec == "" {
			v.undec = undec
		}
	}
	funcxMemo = res
	var names []string
	for n := range funcArityOracle {
		names = append(names, n)
	}
	sort.Strings(names)
	// ---- table -----------------------------------------------------------------------------------
	{
		h := c.newFxHarness()
		if h.fault != "" {
			note("table", "", h.fault)
		} else {
			// looking functions up, and evaluating expressions that call them, leaves the table as it is
			orderBefore, _, _ := collectionEntries(c, h.m, h.collT)
			printBefore := mFingerprint(h.coll)
			defer func() {
				orderAfter, _, _ := collectionEntries(c, h.m, h.collT)
				switch {
				case fmt.Sprint(orderAfter) != fmt.Sprint(orderBefore):
					note("table-unchanged", fmt.Sprintf("after looking every function up by name the table lists %q; before it listed %q: a lookup reorders the function table (evaluations modify it, concurrent ones race on it)", orderAfter, orderBefore), "")
				case mFingerprint(h.coll) != printBefore:
					note("table-unchanged", "looking functions up by name changes the state of the function table: evaluations modify it, concurrent ones race on it", "")
				default:
					note("table-unchanged", "", "")
				}
			}()
			for _, n := range names {
				for _, spelled := range []string{n, strings.ToLower(n), strings.ToUpper(n)} {
					f, out := callM(c, h.m, h.collT.t, "FindByName", h.coll, spelled)
					_, isNil := f.(mNilT)
					switch {
					case out.kind != "ok":
						note("table", "", "FindByName("+spelled+"): "+out.why)
					case isNil:
						note("table", fmt.Sprintf("the default function %s is not found under the name %q", n, spelled), "")
					default:
						note("table", "", "")
					}
				}
			}
			regd, _, why := collectionEntries(c, h.m, h.collT)
			if why != "" {
				note("table", "", why)
			} else {
				seen := map[string]int{}
				for _, r := range regd {
					seen[strings.ToLower(r)]++
					if _, ok := funcArityOracle[r]; !ok {
						note("table", "a function named "+r+" is registered; it is not one of the default functions of the statement", "")
					}
				}
				for k, n := range seen {
					if n > 1 {
						note("table", fmt.Sprintf("the name %s is registered %d times: the first registration shadows the others", k, n), "")
					}
				}
			}
		}
	}
	// ---- arity and host meaning, per function (parallel) ---------------------------------------------
	var wg sync.WaitGroup
	sem := make(chan bool, 12)
	for _, n := range names {
		n := n
		wg.Add(1)
		go func() {
			defer wg.Done()
			sem <- true
			defer func() { <-sem }()
			h := c.newFxHarness()
			if h.fault != "" {
				note("arity", "", h.fault)
				return
			}
			accepted := map[int]bool{}
			for _, k := range funcArityOracle[n] {
				accepted[k] = true
			}
			for cnt := 0; cnt <= 9; cnt++ {
				outs := h.calc(strings.ToUpper(n), true, func() []mv {
					var ps []mv
					for i := 0; i < cnt; i++ {
						if n == "Choose" && i == 0 {
							ps = append(ps, h.variant("Integer", int64(1))) // a valid selector
							continue
						}
						ps = append(ps, h.variant("String", fmt.Sprintf("p%d", i)))
					}
					return ps
				})
				where := fmt.Sprintf("%s with %d argument(s)", n, cnt)
				if cnt == 1 {
					noteSample("FUNC.model/arity", where)
				}
				values, errs := 0, 0
				for _, oc := range outs {
					switch oc.kind {
					case "opaque":
						note("arity", "", where+": "+oc.why)
					case "panic":
						note("arity", where+" panics: "+oc.why, "")
					case "neither":
						note("arity", where+" returns a nil result without an error", "")
					case "both":
						note("arity", where+" returns both a result and an error", "")
					case "value":
						values++
					case "error":
						errs++
					}
				}
				want := accepted[cnt] || (cnt >= 9 && accepted[9])
				switch {
				case want && values == 0 && errs > 0:
					note("arity", fmt.Sprintf("%s is a valid call but yields only errors", where), "")
				case !want && values > 0:
					note("arity", fmt.Sprintf("%s is accepted; the statement allows %v argument(s) (9 = nine or more)", where, funcArityOracle[n]), "")
				default:
					note("arity", "", "")
				}
			}
			// host meaning
			if spec, ok := funcChainOracle[n]; ok && !strings.HasPrefix(spec, "const:") && n != "Empty" && n != "Array" {
				i := strings.IndexByte(spec, '(')
				wantTag := strings.TrimPrefix(spec[:i], "VariantFrom")
				if spec == "EmptyVariant()" {
					wantTag = "Null"
				}
				inner := spec[i+1 : len(spec)-1]
				inner = reFuncParam.ReplaceAllString(inner, "c$1")
				inner = strings.ReplaceAll(inner, "time.Time.", "time.")
				want := normExpr(inner)
				if wantTag == "Null" {
					want = "nil"
				}
				cnt := funcArityOracle[n][0]
				outs := h.calc(n, true, func() []mv {
					var ps []mv
					for i := 0; i < cnt; i++ {
						ps = append(ps, h.variant("String", fmt.Sprintf("p%d", i)))
					}
					return ps
				})
				for _, oc := range outs {
					if oc.kind != "value" {
						continue
					}
					if oc.tag != wantTag || normConv(oc.expr) != normConv(want) {
						note("meaning", fmt.Sprintf("%s(p0…) returns %s %s; the name denotes %s %s of the converted argument", n, oc.tag, oc.expr, wantTag, want), "")
					} else {
						note("meaning", "", "")
					}
				}
			}
			if spec, ok := funcChainOracle[n]; ok && strings.HasPrefix(spec, "const:") {
				want := map[string]float64{"E": math.E, "Pi": math.Pi}[n]
				for _, oc := range h.calc(n, false, func() []mv { return nil }) {
					okConst := (oc.tag == "Double" && oc.expr == fmt.Sprint(want)) || (oc.tag == "Float" && oc.expr == fmt.Sprint(float64(float32(want))))
					if oc.kind == "value" && !okConst {
						note("meaning", fmt.Sprintf("%s() returns %s %s; the constant is Double %v", n, oc.tag, oc.expr, want), "")
					} else {
						note("meaning", "", "")
					}
				}
			}
		}()
	}
	wg.Wait()
	// ---- selection, folding, construction on constants, under both managers -----------------------------
	for _, manager := range managers {
		h := c.newFxHarnessFor(manager)
		mgrTag := " [" + manager + "]"
		ints := func(ns ...int64) func() []mv {
			return func() []mv {
				var ps []mv
				for _, n := range ns {
					ps = append(ps, h.variant("Integer", n))
				}
				return ps
			}
		}
		expect := func(name string, mk0 func() []mv, wantTag, wantExpr, what string) {
			what += mgrTag
			// the arguments are the caller's: a function must not change them
			var before []string
			var held []mv
			mk := func() []mv {
				held = mk0()
				before = before[:0]
				for _, p := range held {
					before = append(before, h.typeOf(p)+":"+h.payloadOf(p))
				}
				return held
			}
			defer func() {
				note("arguments-unchanged", "", "")
				for i, p := range held {
					if now := h.typeOf(p) + ":" + h.payloadOf(p); i < len(before) && now != before[i] {
						note("arguments-unchanged", fmt.Sprintf("%s changes its argument %d from %s to %s: arguments belong to the caller (constants and variables of the compiled expression)", what, i+1, before[i], now), "")
					}
				}
			}()
			for _, oc := range h.calc(name, false, mk) {
				switch {
				case oc.kind == "opaque":
					note("semantics", "", what+": "+oc.why)
				case oc.kind == "panic":
					note("semantics", what+" panics: "+oc.why, "")
				case wantTag == "error":
					if oc.kind != "error" {
						note("semantics", fmt.Sprintf("%s returns %s %s; it is not applicable and must yield an error", what, oc.tag, oc.expr), "")
					} else {
						note("semantics", "", "")
					}
				case oc.kind != "value":
					note("semantics", fmt.Sprintf("%s yields %s %s; expected %s %s", what, oc.kind, oc.code, wantTag, wantExpr), "")
				case oc.tag != wantTag || oc.expr != wantExpr:
					note("semantics", fmt.Sprintf("%s returns %s %s; expected %s %s", what, oc.tag, oc.expr, wantTag, wantExpr), "")
				default:
					note("semantics", "", "")
				}
			}
		}
		for _, perm := range [][]int64{{1, 2, 3}, {1, 3, 2}, {2, 1, 3}, {2, 3, 1}, {3, 1, 2}, {3, 2, 1}, {5, 5, 4}, {-1, -2, 0}} {
			mn, mx, sum := perm[0], perm[0], int64(0)
			for _, x := range perm {
				if x < mn {
					mn = x
				}
				if x > mx {
					mx = x
				}
				sum += x
			}
			expect("Min", ints(perm...), "Integer", fmt.Sprint(mn), fmt.Sprintf("Min%v", perm))
			expect("Max", ints(perm...), "Integer", fmt.Sprint(mx), fmt.Sprintf("Max%v", perm))
			expect("Sum", ints(perm...), "Integer", fmt.Sprint(sum), fmt.Sprintf("Sum%v", perm))
		}
		expect("Min", ints(4, 7), "Integer", "4", "Min(4,7)")
		expect("Max", ints(4, 7, 1, 9, 3), "Integer", "9", "Max(4,7,1,9,3)")
		expect("Sum", ints(1, 2, 3, 4, 5, 6, 7, 8, 9, 10), "Integer", "55", "Sum(1..10)")
		// extremes over mixed numeric types (cases on which comparing in either operand's type agrees)
		mixed := func(t1 string, v1 interface{}, t2 string, v2 interface{}) func() []mv {
			return func() []mv { return []mv{h.variant(t1, v1), h.variant(t2, v2)} }
		}
		if manager == "TypeUnsafeVariantOperations" {
			expect("Min", mixed("Double", float64(1.4), "Integer", int64(1)), "Integer", "1", "Min(1.4, 1)")
			expect("Min", mixed("Double", float64(2.5), "Long", int64(1)), "Long", "1", "Min(2.5, 1L)")
			expect("Min", mixed("Integer", int64(2), "Double", float64(0.5)), "Double", "0.5", "Min(2, 0.5)")
			expect("Min", mixed("Double", float64(0.5), "Integer", int64(2)), "Double", "0.5", "Min(0.5, 2)")
			expect("Max", mixed("Double", float64(1.4), "Integer", int64(2)), "Integer", "2", "Max(1.4, 2)")
			expect("Max", mixed("Double", float64(-1.5), "Integer", int64(-1)), "Integer", "-1", "Max(-1.5, -1)")
			expect("Max", mixed("Integer", int64(2), "Double", float64(0.5)), "Integer", "2", "Max(2, 0.5)")
			expect("Max", mixed("Double", float64(2.5), "Long", int64(1)), "Double", "2.5", "Max(2.5, 1L)")
		}
		strs := func(ss ...string) func() []mv {
			return func() []mv {
				var ps []mv
				for _, s := range ss {
					ps = append(ps, h.variant("String", lit(s)))
				}
				return ps
			}
		}
		expect("Sum", strs("a", "b", "c"), "String", `"abc"`, `Sum("a","b","c")`)
		expect("Contains", strs("abc", "b"), "Boolean", "true", `Contains("abc","b")`)
		expect("Contains", strs("abc", "x"), "Boolean", "false", `Contains("abc","x")`)
		expect("Contains", strs("b", "abc"), "Boolean", "false", `Contains("b","abc")`)
		expect("Contains", strs("abc", ""), "Boolean", "true", `Contains("abc","")`)
		ifArgs := func(cond bool) func() []mv {
			return func() []mv {
				return []mv{h.variant("Boolean", cond), h.variant("Integer", int64(10)), h.variant("Integer", int64(20))}
			}
		}
		expect("If", ifArgs(true), "Integer", "10", "If(true,10,20)")
		expect("If", ifArgs(false), "Integer", "20", "If(false,10,20)")
		expect("Choose", ints(1, 10, 20, 30), "Integer", "10", "Choose(1,10,20,30)")
		expect("Choose", ints(2, 10, 20, 30), "Integer", "20", "Choose(2,10,20,30)")
		expect("Choose", ints(3, 10, 20, 30), "Integer", "30", "Choose(3,10,20,30)")
		expect("Choose", ints(4, 10, 20, 30), "error", "", "Choose(4,10,20,30)")
		expect("Choose", ints(-1, 10, 20, 30), "error", "", "Choose(-1,10,20,30)")
		expect("Abs", ints(-3), "Integer", "3", "Abs(Integer -3)")
		expect("Abs", ints(3), "Integer", "3", "Abs(Integer 3)")
		expect("Abs", func() []mv { return []mv{h.variant("Long", int64(-4))} }, "Long", "4", "Abs(Long -4)")
		expect("Abs", func() []mv { return []mv{h.variant("Float", float64(-1.5))} }, "Float", "1.5", "Abs(Float -1.5)")
		expect("Abs", func() []mv { return []mv{h.variant("Double", float64(-2.5))} }, "Double", "2.5", "Abs(Double -2.5)")
		expect("Empty", func() []mv { return []mv{h.variant("Null", nil)} }, "Boolean", "true", "Empty(null)")
		expect("Empty", ints(0), "Boolean", "false", "Empty(0)")
		expect("Null", func() []mv { return nil }, "Null", "nil", "Null()")
		// Array keeps its arguments in order
		for _, oc := range h.calc("Array", false, ints(7, 8, 9)) {
			got := ""
			if oc.kind == "value" {
				r, _ := h.m.Call(c.MustFunc(pkgVariants, "Variant", "AsArray"), oc.ret)
				if sl, ok := r.(mSlice); ok {
					for _, e := range sl.arr {
						got += h.payloadOf(e) + " "
					}
				}
			}
			if oc.tag != "Array" || got != "7 8 9 " {
				note("semantics", fmt.Sprintf("Array(7,8,9) returns %s [%s]; expected the array [7 8 9]", oc.tag, strings.TrimSpace(got)), "")
			} else {
				note("semantics", "", "")
			}
		}
		// TimeSpan: milliseconds, or days/hours/minutes[/seconds[/milliseconds]]
		ms := int64(1000000)
		expect("TimeSpan", func() []mv { return []mv{h.variant("Long", int64(1500))} }, "TimeSpan", fmt.Sprint(1500*ms), "TimeSpan(1500)")
		longs := func(ns ...int64) func() []mv {
			return func() []mv {
				var ps []mv
				for _, n := range ns {
					ps = append(ps, h.variant("Long", n))
				}
				return ps
			}
		}
		expect("TimeSpan", longs(1, 2, 3), "TimeSpan", fmt.Sprint(((1*24+2)*60+3)*60*1000*ms), "TimeSpan(1,2,3)")
		expect("TimeSpan", longs(1, 2, 3, 4), "TimeSpan", fmt.Sprint((((1*24+2)*60+3)*60+4)*1000*ms), "TimeSpan(1,2,3,4)")
		expect("TimeSpan", longs(1, 2, 3, 4, 5), "TimeSpan", fmt.Sprint(((((1*24+2)*60+3)*60+4)*1000+5)*ms), "TimeSpan(1,2,3,4,5)")
		// Date: missing components default to the first month / first day / zero
		dateWant := func(parts ...int64) string {
			def := []int64{0, 1, 1, 0, 0, 0, 0}
			copy(def, parts)
			var ss []string
			for _, d := range def {
				ss = append(ss, fmt.Sprint(d))
			}
			return "time.Date(" + strings.Join(ss, ",") + ","
		}
		for _, parts := range [][]int64{{2020, 5}, {2020, 5, 17}, {2020, 5, 17, 13}, {2020, 5, 17, 13, 45}, {2020, 5, 17, 13, 45, 59}, {2020, 5, 17, 13, 45, 59, 250}} {
			for _, oc := range h.calc("Date", false, ints(parts...)) {
				if oc.kind == "value" && (oc.tag != "DateTime" || !strings.HasPrefix(oc.expr, dateWant(parts...))) {
					note("semantics", fmt.Sprintf("Date%v returns %s %s; the components with their defaults give %s…)", parts, oc.tag, oc.expr, dateWant(parts...)), "")
				} else if oc.kind == "value" {
					note("semantics", "", "")
				} else if oc.kind != "opaque" {
					note("semantics", fmt.Sprintf("Date%v yields %s %s%s", parts, oc.kind, oc.code, oc.why), "")
				}
			}
		}
		// parameterless functions are evaluated on every call (the clock and the random source move on)
		for _, n := range names {
			if len(funcArityOracle[n]) == 0 || funcArityOracle[n][0] != 0 {
				continue
			}
			o1 := h.calc(n, false, func() []mv { return nil })
			o2 := h.calc(n, false, func() []mv { return nil })
			if len(o1) == 1 && len(o2) == 1 && o1[0].kind == "value" && o2[0].kind == "value" {
				if eq, known := h.m.equal(o1[0].ret, o2[0].ret); known && eq {
					note("semantics", fmt.Sprintf("two calls of %s() return the very same variant: the first result is reused instead of evaluating the function again", n), "")
				} else {
					note("semantics", "", "")
				}
			}
		}
		// a calculator that panics is reported as an error, never as (nil, nil)
		{
			h.m.symFunc = func(m *mach, f *mSym, args []mv) (mv, bool) {
				if f.name == "panicking-calculator" {
					m.throw(mIface{t: types.Typ[types.String], v: "boom"}, "the calculator panics")
				}
				return nil, false
			}
			df, out := h.m.Call(c.MustFunc(pkgFunctions, "", "NewDelegatedFunction"), "Boom", &mSym{name: "panicking-calculator", nonNil: true})
			if out.kind == "ok" {
				r, out := callM(c, h.m, resultType(c.MustFunc(pkgFunctions, "", "NewDelegatedFunction")), "Calculate", df, mSlice{[]mv{}}, mIface{t: h.mgrT, v: h.mgr})
				tp, ok := r.(mTuple)
				switch {
				case out.kind == "panic":
					note("semantics", "a function whose calculator panics lets the panic escape from Calculate: "+out.why, "")
				case out.kind != "ok" || !ok:
					note("semantics", "", "Calculate of a panicking calculator: "+out.why)
				default:
					_, errNil := tp[1].(mNilT)
					if errNil {
						note("semantics", "a function whose calculator panics returns no error (and no result) from Calculate: the failure is swallowed", "")
					} else {
						note("semantics", "", "")
					}
				}
			} else {
				note("semantics", "", "NewDelegatedFunction: "+out.why)
			}
			h.m.symFunc = nil
		}
		expect("Date", longs(86400), "DateTime", "time.Unix(86400,0)", "Date(86400L) (a single argument is a Unix time)")
	}
	c.funcxInapplicable(names, note)
	c.funcxExtremes(note)
	c.funcxResultTypes(names, note)
	c.funcxHistories(names, note)
	return res
}

// ---- the table after entries were removed and added ------------------------------------------------------------
//
// "Every default function, looked up by name in any letter case … returns the value its name denotes": a host
// removes functions it does not want (the random source, the clock) and adds its own; the functions that remain
// are still the default functions. Histories of RemoveByName (first, inner, last-but-one, last, unknown name; any
// letter case), Remove(index) and Add on the default collection and on a plain collection of four functions are
// followed on an ordered list of names; after every step Length/Get list the model, every name of the model in
// three letter cases is located at its position and resolves to the function of that name, removed names are
// not found, and a sample of the remaining default functions is called and compared with its meaning.
func (c *Ctx) funcxHistories(names []string, note func(k, bad, undec string)) {
	type step struct {
		op   string // "removeByName", "remove", "add"
		name string
		idx  int // remove: position (negative: from the end)
	}
	histories := [][]step{
		{{op: "removeByName", name: "Rnd"}},
		{{op: "removeByName", name: "random"}, {op: "removeByName", name: "NOW"}, {op: "removeByName", name: "Ticks"}},
		{{op: "removeByName", name: "@first"}, {op: "removeByName", name: "@first"}},
		{{op: "removeByName", name: "@last"}, {op: "removeByName", name: "@last"}},
		{{op: "removeByName", name: "@lastButOne"}},
		{{op: "removeByName", name: "NoSuchFunction"}, {op: "removeByName", name: "abs"}},
		{{op: "remove", idx: 0}, {op: "remove", idx: 5}, {op: "remove", idx: -1}},
		{{op: "remove", idx: -2}, {op: "removeByName", name: "MIN"}},
		{{op: "add", name: "Twice"}, {op: "removeByName", name: "Sum"}, {op: "add", name: "Thrice"}, {op: "removeByName", name: "twice"}},
		{{op: "removeByName", name: "Sqrt"}, {op: "add", name: "Sqrt"}, {op: "remove", idx: 1}, {op: "removeByName", name: "Pi"}},
	}
	// the meaning of some default functions on constants (statement: Abs, Sqrt, Floor, Max, Sum, Contains, If, Choose, Empty)
	type probe struct {
		args          []evxVal
		tag, expr, as string
	}
	probes := map[string]probe{
		"Abs":      {[]evxVal{{"Integer", int64(-5)}}, "Integer", "5", "Abs(-5)"},
		"Sqrt":     {[]evxVal{{"Double", float64(16)}}, "Double", "4", "Sqrt(16.0)"},
		"Sqr":      {[]evxVal{{"Double", float64(16)}}, "Double", "4", "Sqr(16.0)"},
		"Floor":    {[]evxVal{{"Double", float64(2.5)}}, "Double", "2", "Floor(2.5)"},
		"Ceil":     {[]evxVal{{"Double", float64(2.5)}}, "Double", "3", "Ceil(2.5)"},
		"Round":    {[]evxVal{{"Double", float64(2.25)}}, "Double", "2", "Round(2.25)"},
		"Acos":     {[]evxVal{{"Double", float64(1)}}, "Double", "0", "Acos(1.0)"},
		"Exp":      {[]evxVal{{"Double", float64(0)}}, "Double", "1", "Exp(0.0)"},
		"Max":      {[]evxVal{{"Integer", int64(1)}, {"Integer", int64(2)}}, "Integer", "2", "Max(1,2)"},
		"Min":      {[]evxVal{{"Integer", int64(1)}, {"Integer", int64(2)}}, "Integer", "1", "Min(1,2)"},
		"Sum":      {[]evxVal{{"Integer", int64(1)}, {"Integer", int64(2)}}, "Integer", "3", "Sum(1,2)"},
		"Contains": {[]evxVal{{"String", lit("abc")}, {"String", lit("b")}}, "Boolean", "true", `Contains("abc","b")`},
		"If":       {[]evxVal{{"Boolean", false}, {"Integer", int64(10)}, {"Integer", int64(20)}}, "Integer", "20", "If(false,10,20)"},
		"Choose":   {[]evxVal{{"Integer", int64(2)}, {"Integer", int64(10)}, {"Integer", int64(20)}}, "Integer", "20", "Choose(2,10,20)"},
		"Empty":    {[]evxVal{{"Null", nil}}, "Boolean", "true", "Empty(null)"},
		"Null":     {nil, "Null", "nil", "Null()"},
	}
	newFn := c.MustFunc(pkgFunctions, "", "NewDelegatedFunction")
	plainCtor := c.MustFunc(pkgFunctions, "", "NewFunctionCollection")
	var wg sync.WaitGroup
	sem := make(chan bool, 4)
	for _, kind := range []string{"default collection", "plain collection"} {
		for hi, hist := range histories {
			kind, hi, hist := kind, hi, hist
			wg.Add(1)
			go func() {
				defer wg.Done()
				sem <- true
				defer func() { <-sem }()
				h := c.newFxHarnessFor(managers[hi%len(managers)])
				if h.fault != "" {
					note("histories", "", h.fault)
					return
				}
				add := func(name string) string {
					df, out := h.m.Call(newFn, name, &mSym{name: "calculator-of-" + name, nonNil: true})
					if out.kind != "ok" {
						return "NewDelegatedFunction: " + out.why
					}
					if _, out := callM(c, h.m, h.collT.t, "Add", h.coll, mIface{t: resultType(newFn), v: df}); out.kind != "ok" {
						return "Add(" + name + "): " + out.kind + " " + out.why
					}
					return ""
				}
				var model []string
				if kind == "plain collection" {
					coll, out := h.m.Call(plainCtor)
					if out.kind != "ok" {
						note("histories", "", "NewFunctionCollection: "+out.why)
						return
					}
					h.coll, h.collT = coll, mIface{t: resultType(plainCtor), v: coll}
					// the names the history speaks of, and others around them
					for _, n := range []string{"Abs", "Rnd", "Random", "Now", "Min", "Sqrt", "Ticks", "Pi", "Sum"} {
						if why := add(n); why != "" {
							note("histories", "", why)
							return
						}
						model = append(model, n)
					}
				} else {
					var why string
					if model, _, why = collectionEntries(c, h.m, h.collT); why != "" {
						note("histories", "", why)
						return
					}
					// the default collection is a list of its functions from the start: what Length / Get show
					// before any name was looked up is what a lookup finds
					if len(model) < 3 {
						note("histories", fmt.Sprintf("a freshly constructed default collection lists %q through Length / Get before any function was looked up by name, yet resolves its functions through FindByName: the entries are not those of an ordered list (a lookup changes what the table holds)", model), "")
						return
					}
				}
				told := "on the " + kind + " " + fmt.Sprintf("%q", model) + ": "
				if kind == "default collection" {
					told = "on the default collection: "
				}
				find := func(list []string, name string) int {
					for i, e := range list {
						if strings.EqualFold(e, name) {
							return i
						}
					}
					return -1
				}
				var removed []string
				added := map[string]bool{} // the host's own functions: their calculators are not the default ones
				for si, st := range hist {
					name := st.name
					switch name {
					case "@first":
						name = model[0]
					case "@last":
						name = model[len(model)-1]
					case "@lastButOne":
						name = model[len(model)-2]
					}
					var out mOutcome
					switch st.op {
					case "removeByName":
						told += fmt.Sprintf("RemoveByName(%q); ", name)
						_, out = callM(c, h.m, h.collT.t, "RemoveByName", h.coll, name)
						if i := find(model, name); i >= 0 {
							removed = append(removed, model[i])
							model = append(append([]string{}, model[:i]...), model[i+1:]...)
						}
					case "remove":
						i := st.idx
						if i < 0 {
							i += len(model)
						}
						told += fmt.Sprintf("Remove(%d); ", i)
						_, out = callM(c, h.m, h.collT.t, "Remove", h.coll, int64(i))
						removed = append(removed, model[i])
						model = append(append([]string{}, model[:i]...), model[i+1:]...)
					case "add":
						told += fmt.Sprintf("Add(a function named %q); ", name)
						if why := add(name); why != "" {
							out = mOutcome{kind: "opaque", why: why}
						} else {
							out = mOutcome{kind: "ok"}
						}
						model = append(model, name)
						added[name] = true
					}
					if si == 0 && hi == 0 {
						noteSample("FUNC.model/histories", told)
					}
					if out.kind == "panic" {
						note("histories", told+"the last call panics: "+out.why, "")
						return
					}
					if out.kind != "ok" {
						note("histories", "", told+out.why)
						return
					}
					// the list
					listed, _, why := collectionEntries(c, h.m, h.collT)
					if why != "" {
						note("histories", told+"listing the collection through Length/Get fails: "+why, "")
						return
					}
					if fmt.Sprint(listed) != fmt.Sprint(model) {
						note("histories", fmt.Sprintf("%sLength/Get list %q; an ordered list holds %q", told, listed, model), "")
						return
					}
					// every entry, in three letter cases, is located where it is and resolves to itself
					for _, n := range model {
						for _, spelled := range []string{n, strings.ToLower(n), strings.ToUpper(n)} {
							want := find(model, n)
							iv, out := callM(c, h.m, h.collT.t, "FindIndexByName", h.coll, spelled)
							if out.kind == "panic" {
								note("histories", fmt.Sprintf("%sFindIndexByName(%q) panics: %s", told, spelled, out.why), "")
								continue
							}
							if got, ok := iv.(int64); out.kind != "ok" || !ok {
								note("histories", "", told+"FindIndexByName("+spelled+"): "+out.why)
							} else if int(got) != want {
								note("histories", fmt.Sprintf("%sFindIndexByName(%q) answers %d; the list %q holds the name at position %d", told, spelled, got, model, want), "")
							} else {
								note("histories", "", "")
							}
							f, out := callM(c, h.m, h.collT.t, "FindByName", h.coll, spelled)
							if out.kind == "panic" {
								note("histories", fmt.Sprintf("%sFindByName(%q) panics: %s", told, spelled, out.why), "")
								continue
							}
							fi, ok := f.(mIface)
							if out.kind == "ok" && !ok {
								note("histories", fmt.Sprintf("%sFindByName(%q) finds nothing; the function is still in the collection", told, spelled), "")
								continue
							}
							if out.kind != "ok" {
								note("histories", "", told+"FindByName("+spelled+"): "+out.why)
								continue
							}
							nm, out := callM(c, h.m, fi.t, "Name", fi.v)
							if s, ok := nm.(string); out.kind == "ok" && ok && !strings.EqualFold(s, n) {
								note("histories", fmt.Sprintf("%sFindByName(%q) answers the function %s: every remaining function is looked up by its own name", told, spelled, s), "")
							} else {
								note("histories", "", "")
							}
						}
					}
					// what was removed is gone (unless another entry of that name remains)
					for _, r := range removed {
						if find(model, r) >= 0 {
							continue
						}
						f, out := callM(c, h.m, h.collT.t, "FindByName", h.coll, r)
						if _, isNil := f.(mNilT); out.kind == "ok" && !isNil {
							note("histories", fmt.Sprintf("%sFindByName(%q) still finds a function; it was removed", told, r), "")
						} else if out.kind == "panic" {
							note("histories", fmt.Sprintf("%sFindByName(%q) panics: %s", told, r, out.why), "")
						} else {
							note("histories", "", "")
						}
					}
					// the remaining default functions compute what their names denote
					if kind != "default collection" {
						continue
					}
					for _, n := range model {
						p, ok := probes[n]
						if !ok || added[n] {
							continue
						}
						for _, oc := range h.calc(strings.ToLower(n), false, func() []mv {
							var ps []mv
							for _, a := range p.args {
								ps = append(ps, h.variant(a.typ, a.payload))
							}
							return ps
						}) {
							switch {
							case oc.kind == "opaque":
								note("histories", "", told+p.as+": "+oc.why)
							case oc.kind == "panic":
								note("histories", told+p.as+" panics: "+oc.why, "")
							case oc.kind != "value":
								note("histories", fmt.Sprintf("%s%s yields %s %s; the name denotes %s %s", told, p.as, oc.kind, oc.code, p.tag, p.expr), "")
							case oc.tag != p.tag || oc.expr != p.expr:
								note("histories", fmt.Sprintf("%s%s returns %s %s; the name denotes %s %s", told, p.as, oc.tag, oc.expr, p.tag, p.expr), "")
							default:
								note("histories", "", "")
							}
						}
					}
				}
			}()
		}
	}
	wg.Wait()
}

// ---- one result type per function, whatever the type of the argument ---------------------------------------
//
// The statement: every default function "returns the value its name denotes with a fixed result type". For
// every function of one argument, the argument runs over constants of every numeric type (whole and
// fractional, either sign), a Boolean and a TimeSpan, under both managers, called directly and through an
// expression ‹Name ( x )› of a calculator. Where the statement names the type (the host functions work "per
// IEEE double arithmetic": a Double; Trunc: the whole part, a Long - the table of funcChainOracle), every
// result has that type and, for the rounding functions, the value of the host function on the argument as a
// double; elsewhere the results have one type over all argument types. Abs is "type-preserving" by the
// statement and keeps the type of its argument.
func (c *Ctx) funcxResultTypes(names []string, note func(k, bad, undec string)) {
	args := []evxVal{{"Integer", int64(5)}, {"Integer", int64(-3)}, {"Integer", int64(0)}, {"Long", int64(7)}, {"Long", int64(-9000000000)},
		{"Float", float64(1.5)}, {"Float", float64(-2)}, {"Double", float64(2.5)}, {"Double", float64(-0.25)}, {"Double", float64(4)}, {"Boolean", true}, {"TimeSpan", int64(3000000)}}
	rounding := map[string]func(float64) float64{"Ceil": math.Ceil, "Ceiling": math.Ceil, "Floor": math.Floor, "Round": math.Round, "Trunc": math.Trunc, "Truncate": math.Trunc}
	num := func(a evxVal) float64 {
		switch p := a.payload.(type) {
		case int64:
			return float64(p)
		case float64:
			return p
		}
		return math.NaN()
	}
	var wg sync.WaitGroup
	for _, manager := range managers {
		for _, through := range []string{"Calculate", "expression"} {
			manager, through := manager, through
			wg.Add(1)
			go func() {
				defer wg.Done()
				h := c.newFxHarnessFor(manager)
				if h.fault != "" {
					note("result-type", "", h.fault)
					return
				}
				var k *evxCalc
				if through == "expression" {
					var why string
					if k, why = h.newEvxCalc(manager); k == nil {
						note("result-type", "", why)
						return
					}
				}
				for _, n := range names {
					if len(funcArityOracle[n]) == 0 || funcArityOracle[n][0] > 1 || n == "Array" && through == "expression" {
						continue
					}
					hasOne := false
					for _, cnt := range funcArityOracle[n] {
						hasOne = hasOne || cnt == 1
					}
					if !hasOne {
						continue
					}
					wantTag := ""
					if spec, ok := funcChainOracle[n]; ok && strings.HasPrefix(spec, "VariantFrom") {
						wantTag = strings.TrimPrefix(spec[:strings.IndexByte(spec, '(')], "VariantFrom")
					}
					if k != nil {
						if out := k.setTokens(n + " ( x )"); out.kind != "ok" {
							note("result-type", "", "‹"+n+" ( x )›: "+out.why)
							continue
						}
					}
					firstTag, firstWhere := "", ""
					for _, a := range args {
						where := fmt.Sprintf("%s(%s) [%s, %s]", n, a, manager, through)
						if a.typ == "Integer" && a.payload == int64(5) {
							noteSample("FUNC.model/result-type", where)
						}
						tag, expr := "", ""
						if k != nil {
							vars, _ := h.evxVariables([]string{"x"}, map[string]evxVal{"x": a})
							got, _ := k.evaluate(vars)
							if got == "" || strings.HasPrefix(got, "error ") || got == "Null" {
								note("result-type", "", "")
								continue
							}
							if i := strings.IndexByte(got, ' '); i > 0 && !strings.HasPrefix(got, "panic") && !strings.HasPrefix(got, "neither") {
								tag, expr = got[:i], got[i+1:]
							} else {
								note("result-type", fmt.Sprintf("%s: %s", where, got), "")
								continue
							}
						} else {
							outs := h.calc(n, false, func() []mv { return []mv{h.variant(a.typ, a.payload)} })
							if len(outs) != 1 || outs[0].kind != "value" {
								note("result-type", "", "") // an error, or a decision on a value outside the model: no result, no type
								continue
							}
							tag, expr = outs[0].tag, outs[0].expr
						}
						bad := ""
						switch {
						case n == "Abs":
							if tag != a.typ && a.typ != "Boolean" && a.typ != "TimeSpan" {
								bad = fmt.Sprintf("%s returns %s %s; Abs keeps the type of a numeric argument", where, tag, expr)
							}
						case wantTag != "" && tag != wantTag:
							bad = fmt.Sprintf("%s returns %s %s; the result type of %s is %s for every argument (\"a fixed result type\"; here it follows the type of the argument)", where, tag, expr, n, wantTag)
						case wantTag == "" && firstTag != "" && tag != firstTag:
							bad = fmt.Sprintf("%s returns %s %s but %s returns a %s: the result type of a function is fixed, it does not follow the type of the argument", where, tag, expr, firstWhere, firstTag)
						}
						if f := rounding[n]; bad == "" && f != nil && !math.IsNaN(num(a)) {
							want := fmt.Sprint(f(num(a)))
							if wantTag == "Long" {
								want = fmt.Sprint(int64(f(num(a))))
							}
							if expr != want {
								bad = fmt.Sprintf("%s returns %s %s; the name denotes %s %s", where, tag, expr, wantTag, want)
							}
						}
						if firstTag == "" {
							firstTag, firstWhere = tag, where
						}
						note("result-type", bad, "")
					}
				}
			}()
		}
	}
	wg.Wait()
}

// ---- arguments of every type in every position ---------------------------------------------------------
//
// The statement: "a wrong argument count or an inapplicable argument yields an error - never a nil result
// without error and never a silently substituted value". For every default function, every valid argument
// count (up to four; all in the thorough tier) and every position, the argument is replaced by a value of
// every variant type while the others hold a value of the type the function works on; under both
// operations managers. The outcome must be exactly one of result / error. Where the statement names the
// type the argument is converted to (the condition of If is a Boolean, the selector of Choose an Integer,
// the host functions work "on the converted argument" - a Double -, Contains on Strings, DayOfWeek on a
// DateTime), the manager itself is asked to convert the argument: what it refuses is inapplicable and the
// function must answer with an error.

// funcNeeds: the type the statement has the argument converted to ("" = any value will do).
func funcNeeds(name string, pos int) string {
	switch name {
	case "If", "Choose":
		if pos == 0 {
			return map[string]string{"If": "Boolean", "Choose": "Integer"}[name]
		}
		return ""
	case "Contains":
		return "String"
	case "DayOfWeek":
		return "DateTime"
	}
	if spec, ok := funcChainOracle[name]; ok && strings.Contains(spec, "getParameter($1, 0), Double)") {
		return "Double"
	}
	return ""
}

func (c *Ctx) funcxInapplicable(names []string, note func(k, bad, undec string)) {
	type argKind struct {
		typ     string
		payload interface{}
		text    string
	}
	pool := []argKind{{"Null", nil, "null"}, {"String", lit("abc"), `"abc"`}, {"Boolean", true, "true"}, {"Integer", int64(7), "7"}, {"Long", int64(7), "7L"},
		{"Float", float64(1.5), "1.5f"}, {"Double", float64(2.5), "2.5"}, {"Array", "a", "Array(a0,a1)"}, {"TimeSpan", int64(5000000), "TimeSpan(5ms)"},
		{"DateTime", "t", "DateTime(t)"}, {"Object", "o", "Object(o)"}}
	base := map[string]argKind{"": {"Integer", int64(1), "1"}, "Boolean": {"Boolean", true, "true"}, "Integer": {"Integer", int64(1), "1"},
		"String": {"String", lit("abc"), `"abc"`}, "DateTime": {"DateTime", "t0", "DateTime(t0)"}, "Double": {"Double", float64(0.5), "0.5"}}
	maxCount := 4
	if c.Tier == "thorough" {
		maxCount = 9
	}
	var wg sync.WaitGroup
	const chunks = 4
	for _, manager := range managers {
		for chunk := 0; chunk < chunks; chunk++ {
			manager, chunk := manager, chunk
			wg.Add(1)
			go func() {
				defer wg.Done()
				h := c.newFxHarnessFor(manager)
				if h.fault != "" {
					note("inapplicable-arguments", "", h.fault)
					return
				}
				// does the manager convert a value of this kind to the type? (all paths refuse → no)
				refuses := map[string]string{}
				refused := func(a argKind, to string) string {
					k := a.typ + ">" + to
					if r, ok := refuses[k]; ok {
						return r
					}
					verdict := "no"
					paths := h.m.explore(12, func() (ret mv, out mOutcome) {
						defer func() {
							if r := recover(); r != nil {
								if ab, ok := r.(mAbort); ok {
									ret, out = nil, mOutcome{kind: "opaque", why: ab.why}
									return
								}
								panic(r)
							}
						}()
						return callM(c, h.m, h.mgrT, "Convert", h.mgr, h.variant(a.typ, a.payload), h.vtByNm[to])
					})
					errs := 0
					for _, p := range paths {
						if tp, ok := p.ret.(mTuple); ok && p.out.kind == "ok" && len(tp) == 2 {
							if _, isNil := tp[1].(mNilT); !isNil {
								errs++
							}
						}
					}
					if len(paths) > 0 && errs == len(paths) {
						verdict = "yes"
					}
					refuses[k] = verdict
					return verdict
				}
				for fi, n := range names {
					if fi%chunks != chunk {
						continue
					}
					for _, cnt := range funcArityOracle[n] {
						if cnt == 0 || cnt > maxCount {
							continue
						}
						for pos := 0; pos < cnt; pos++ {
							for _, a := range pool {
								var texts []string
								for i := 0; i < cnt; i++ {
									if i == pos {
										texts = append(texts, a.text)
									} else {
										texts = append(texts, base[funcNeeds(n, i)].text)
									}
								}
								where := fmt.Sprintf("%s(%s) [%s]", n, strings.Join(texts, ", "), manager)
								if pos == 0 && a.typ == "String" {
									noteSample("FUNC.model/inapplicable", where)
								}
								mustFail := ""
								if to := funcNeeds(n, pos); to != "" && to != a.typ && refused(a, to) == "yes" {
									mustFail = to
								}
								var held []mv
								var before []string
								outs := h.calc(n, false, func() []mv {
									var ps []mv
									before = before[:0]
									for i := 0; i < cnt; i++ {
										k := a
										if i != pos {
											k = base[funcNeeds(n, i)]
										}
										v := h.variant(k.typ, k.payload)
										ps = append(ps, v)
										before = append(before, h.typeOf(v)+":"+h.payloadOf(v))
									}
									held = ps
									return ps
								})
								// whatever the answer, the arguments are the caller's
								for i, v := range held {
									if now := h.typeOf(v) + ":" + h.payloadOf(v); i < len(before) && now != before[i] {
										note("arguments-unchanged", fmt.Sprintf("%s changes its argument %d from %s to %s: arguments belong to the caller (constants and variables of the compiled expression)", where, i+1, before[i], now), "")
									}
								}
								for _, oc := range outs {
									switch {
									case oc.kind == "opaque":
										// a decision on a value of another module (the text of a date …): outside the finite model
										note("inapplicable-arguments", "", "")
									case oc.kind == "panic":
										note("inapplicable-arguments", where+" panics: "+oc.why, "")
									case oc.kind == "neither":
										note("inapplicable-arguments", where+" returns a nil result without an error; an argument is applicable (a result) or not (an error)", "")
									case oc.kind == "both":
										note("inapplicable-arguments", where+" returns both a result and an error", "")
									case oc.kind == "value" && mustFail != "":
										note("inapplicable-arguments", fmt.Sprintf("%s returns %s %s although the operations manager refuses to convert argument %d (%s) to %s, the type the function works on: an inapplicable argument must yield an error, not a substituted value", where, oc.tag, oc.expr, pos+1, a.text, mustFail), "")
									default:
										note("inapplicable-arguments", "", "")
									}
								}
							}
						}
					}
				}
			}()
		}
	}
	wg.Wait()
}

// ---- Min and Max as mirror images, null arguments in every position ---------------------------------------
//
// The statement defines Min and Max "over all arguments": the smallest and the largest under one order,
// that is, one function under an order and its reverse. It gives a Null argument no role of its own, so
// there are two readings - a Null takes part (the call answers with one of its arguments) or it is
// inapplicable (the call answers with an error) - and whichever holds must hold for both: for every list
// of two to four arguments drawn from Null and the members of a totally ordered set (Integers, Doubles,
// Strings), Min fails exactly if Max fails; a result is one of the arguments; over Integers and Doubles
// Max of a list is the negated Min of the negated list; and a list without Null has its largest / smallest
// member as the answer.
func (c *Ctx) funcxExtremes(note func(k, bad, undec string)) {
	type member struct {
		typ  string
		val  interface{}
		text string
		num  float64
	}
	null := member{"Null", nil, "null", 0}
	pools := map[string][]member{
		"Integer": {null, {"Integer", int64(3), "3", 3}, {"Integer", int64(-5), "-5", -5}},
		"Double":  {null, {"Double", float64(2.5), "2.5", 2.5}, {"Double", float64(-0.5), "-0.5", -0.5}},
		"String":  {null, {"String", lit("a"), `"a"`, 1}, {"String", lit("b"), `"b"`, 2}},
	}
	maxLen := map[string]int{"Integer": 4, "Double": 3, "String": 3}
	if c.Tier == "thorough" {
		pools["Integer"] = append(pools["Integer"], member{"Integer", int64(7), "7", 7})
		maxLen = map[string]int{"Integer": 4, "Double": 4, "String": 4}
	}
	negate := func(m member) member {
		switch v := m.val.(type) {
		case int64:
			return member{m.typ, -v, fmt.Sprint(-v), -m.num}
		case float64:
			return member{m.typ, -v, fmt.Sprint(-v), -m.num}
		}
		return m
	}
	var wg sync.WaitGroup
	for _, manager := range managers {
		for _, typ := range []string{"Integer", "Double", "String"} {
			manager, typ := manager, typ
			wg.Add(1)
			go func() {
				defer wg.Done()
				h := c.newFxHarnessFor(manager)
				if h.fault != "" {
					note("extremes", "", h.fault)
					return
				}
				pool := pools[typ]
				run := func(fn string, list []member) (string, string) { // (kind, rendering)
					outs := h.calc(fn, false, func() []mv {
						var ps []mv
						for _, e := range list {
							ps = append(ps, h.variant(e.typ, e.val))
						}
						return ps
					})
					if len(outs) != 1 {
						return "opaque", fmt.Sprintf("%d paths", len(outs))
					}
					oc := outs[0]
					switch oc.kind {
					case "value":
						return "value", oc.tag + " " + oc.expr
					case "error":
						return "error", "the error " + oc.code
					}
					return oc.kind, oc.kind + " " + oc.why
				}
				render := func(e member) string {
					if e.typ == "Null" {
						return "Null nil"
					}
					if s, ok := e.val.(lit); ok {
						return fmt.Sprintf("String %q", string(s))
					}
					return e.typ + " " + fmt.Sprint(e.val)
				}
				var lists [][]member
				var gen func(cur []member)
				gen = func(cur []member) {
					if len(cur) >= 2 {
						lists = append(lists, append([]member{}, cur...))
					}
					if len(cur) == maxLen[typ] {
						return
					}
					for _, e := range pool {
						gen(append(cur, e))
					}
				}
				gen(nil)
				for _, list := range lists {
					var texts, mtexts []string
					var mirror []member
					nulls := 0
					for _, e := range list {
						texts = append(texts, e.text)
						mirror = append(mirror, negate(e))
						mtexts = append(mtexts, negate(e).text)
						if e.typ == "Null" {
							nulls++
						}
					}
					args := "(" + strings.Join(texts, ", ") + ") [" + manager + "]"
					if nulls == 1 && len(list) == 3 {
						noteSample("FUNC.model/extremes", "Min / Max "+args)
					}
					kmin, rmin := run("Min", list)
					kmax, rmax := run("Max", list)
					bad, undec := "", ""
					for _, k := range []struct{ fn, kind, r string }{{"Min", kmin, rmin}, {"Max", kmax, rmax}} {
						switch k.kind {
						case "opaque":
							undec = k.fn + args + ": " + k.r
						case "value":
							found := false
							for _, e := range list {
								found = found || render(e) == k.r
							}
							if !found && bad == "" {
								bad = fmt.Sprintf("%s%s returns %s, which is none of its arguments", k.fn, args, k.r)
							}
						case "error":
						default:
							if bad == "" {
								bad = fmt.Sprintf("%s%s: %s", k.fn, args, k.r)
							}
						}
					}
					if bad == "" && undec == "" && kmin != kmax {
						bad = fmt.Sprintf("Min%s yields %s and Max%s yields %s: Min and Max are one function under an order and its reverse (\"Min/Max … over all arguments\"); a Null argument takes part in both or is inapplicable to both", args, rmin, args, rmax)
					}
					if bad == "" && undec == "" && nulls == 0 && kmin == "value" {
						lo, hi := list[0], list[0]
						for _, e := range list {
							if e.num < lo.num {
								lo = e
							}
							if e.num > hi.num {
								hi = e
							}
						}
						if rmin != render(lo) || rmax != render(hi) {
							bad = fmt.Sprintf("Min%s returns %s and Max%s returns %s; the smallest argument is %s, the largest %s", args, rmin, args, rmax, lo.text, hi.text)
						}
					}
					if bad == "" && undec == "" && typ != "String" {
						// Max(L) = -Min(-L), Min(L) = -Max(-L)
						margs := "(" + strings.Join(mtexts, ", ") + ") [" + manager + "]"
						_, mmin := run("Min", mirror)
						_, mmax := run("Max", mirror)
						neg := func(r string) string {
							for i, e := range list {
								if render(e) == r {
									return render(mirror[i])
								}
							}
							return r
						}
						if kmax == "value" && mmin != neg(rmax) {
							bad = fmt.Sprintf("Max%s returns %s but Min%s of the negated arguments yields %s; the largest of a list is the negated smallest of the negated list, whatever role a Null argument plays", args, rmax, margs, mmin)
						}
						if kmin == "value" && mmax != neg(rmin) && bad == "" {
							bad = fmt.Sprintf("Min%s returns %s but Max%s of the negated arguments yields %s; the smallest of a list is the negated largest of the negated list, whatever role a Null argument plays", args, rmin, margs, mmax)
						}
					}
					note("extremes", bad, undec)
				}
			}()
		}
	}
	wg.Wait()
}

func init() {
	register(&Rule{ID: "FUNC.model", Floor: 5,
		Doc: "the default function table evaluated abstractly (NewDefaultFunctionCollection, FindByName in three letter cases, Calculate with the type-unsafe operations): the 37 names and nothing else; per function and argument count 0..9 a result exactly for the statement's counts, never nil-without-error or both; host functions and constants as symbolic expressions of the converted argument; Min/Max/Sum/If/Choose/Contains/Abs/Empty/Null/Array/TimeSpan/Date on constants against their meaning; every function with an argument of every variant type in every position under both managers (result xor error; what the manager refuses to convert is an error); Min and Max as mirror images over lists with Null arguments in every position; one result type per function over arguments of every numeric type, called directly and through expressions; histories of RemoveByName / Remove / Add on the default and a plain collection followed on an ordered list of names, every remaining function located in three letter cases and called",
		Run: func(c *Ctx) []*Obligation {
			o := newObl("FUNC.model")
			res := c.funcxRun()
			pos := c.Pos(c.MustFunc(pkgFunctions, "", "NewDefaultFunctionCollection").Pos())
			for _, k := range []string{"table", "arity", "meaning", "semantics", "arguments-unchanged", "table-unchanged", "inapplicable-arguments", "extremes", "result-type", "histories"} {
				v := res[k]
				if v == nil {
					v = &simpleVerdict{}
				}
				o.list = append(o.list, emitSimple(c, "FUNC.model", "functions.DefaultFunctionCollection#"+k, pos, v, "agree with the statement")...)
			}
			return o.list
		}})
}
