package main

import (
	"fmt"
	"go/types"
	"os"
	"runtime/pprof"
	"strings"
)

// ---------------------------------------------------------------------------------------------
// The tokenizers under the abstract machine: constructor, option setters, TokenizeBuffer and the
// Token accessors are the only names used; everything behind them is followed by the evaluator.
// ---------------------------------------------------------------------------------------------

type tkTok struct {
	typ       string
	val       string
	line, col int64
}

type tkHarness struct {
	c        *Ctx
	m        *mach
	tok      mv
	tokT     types.Type // static type of the tokenizer value
	fault    string
	ttNames  map[int64]string
	lastPath string
	maxOK    int // the most steps a token-list run that ended has taken on this instance
}

var tokenizerCtors = map[string][2]string{
	"expression": {"calculator/tokenizers", "NewExpressionTokenizer"},
	"generic":    {"tokenizers/generic", "NewGenericTokenizer"},
	"csv":        {"csv", "NewCsvTokenizer"},
	"mustache":   {"mustache/tokenizers", "NewMustacheTokenizer"},
}

func (c *Ctx) newTkHarness(kind string) *tkHarness { return c.newTkHarnessOn(newMach(c), kind) }

// newTkHarnessOn builds a tokenizer on an existing machine (instances on one machine share the
// package-level state of the program under evaluation, as instances in one process do).
func (c *Ctx) newTkHarnessOn(m *mach, kind string) *tkHarness {
	h := &tkHarness{c: c, m: m}
	h.m.maxSteps = 3000000
	spec, ok := tokenizerCtors[kind]
	if !ok {
		panic(anchorError("unknown tokenizer " + kind))
	}
	ctor := c.MustFunc(spec[0], "", spec[1])
	h.ttNames = c.constNames("tokenizers", "")
	t, out := h.m.Call(ctor)
	if os.Getenv("MACHDEBUG") != "" {
		fmt.Fprintf(os.Stderr, "constructor %s: %d steps\n", spec[1], h.m.steps)
	}
	if out.kind != "ok" {
		h.fault = spec[1] + ": " + out.why
		return h
	}
	h.tok = t
	h.tokT = ctor.Signature.Results().At(0).Type()
	return h
}

// call invokes an exported method of the tokenizer (promoted methods included).
func (h *tkHarness) call(name string, args ...mv) (mv, mOutcome) {
	f := h.c.lookupMethod(h.tokT, name)
	if f == nil {
		return nil, mOutcome{kind: "opaque", why: "method " + name + " not found on " + h.tokT.String()}
	}
	return h.m.Call(f, append([]mv{h.tok}, args...)...)
}

// stateCall invokes a method of one of the tokenizer's states (the value its accessor - WordState,
// WhitespaceState, SymbolState, ... - returns). "" or why it could not be done.
func (h *tkHarness) stateCall(state, method string, args ...mv) string {
	sv, out := h.call(state)
	if _, isNil := sv.(mNilT); isNil && out.kind == "ok" {
		return fmt.Sprintf("%s() has no state", state)
	}
	si, ok := sv.(mIface)
	if out.kind != "ok" || !ok {
		return fmt.Sprintf("%s(): %s %s", state, out.kind, out.why)
	}
	f := h.c.lookupMethod(si.t, method)
	if f == nil {
		return fmt.Sprintf("%s() has no %s", state, method)
	}
	if _, out := h.m.Call(f, append([]mv{si.v}, args...)...); out.kind != "ok" {
		return fmt.Sprintf("%s().%s: %s %s", state, method, out.kind, out.why)
	}
	return ""
}

// setCharState hands the characters from..to to the state the named accessor returns.
func (h *tkHarness) setCharState(from, to rune, state string) string {
	sv, out := h.call(state)
	if out.kind != "ok" {
		return fmt.Sprintf("%s(): %s %s", state, out.kind, out.why)
	}
	if _, isNil := sv.(mNilT); isNil {
		return fmt.Sprintf("%s() has no state", state)
	}
	if _, out := h.call("SetCharacterState", int64(from), int64(to), sv); out.kind != "ok" {
		return fmt.Sprintf("SetCharacterState(%#x, %#x, %s()): %s %s", from, to, state, out.kind, out.why)
	}
	return ""
}

func (h *tkHarness) readTokens(v mv) ([]tkTok, string) {
	var out []tkTok
	sl, ok := v.(mSlice)
	if !ok {
		if _, isNil := v.(mNilT); isNil {
			return nil, ""
		}
		return nil, "the token list is " + mRender(v)
	}
	tokT := types.NewPointer(h.c.SSA["tokenizers"].Type("Token").Type())
	for _, t := range sl.arr {
		var tk tkTok
		for _, acc := range []string{"Type", "Value", "Line", "Column"} {
			f := h.c.lookupMethod(tokT, acc)
			r, o := h.m.Call(f, t)
			if o.kind != "ok" {
				return nil, "Token." + acc + ": " + o.why
			}
			switch acc {
			case "Type":
				n, ok := r.(int64)
				if !ok {
					return nil, "a token has an undetermined type"
				}
				tk.typ = h.ttNames[n]
				if tk.typ == "" {
					tk.typ = fmt.Sprintf("#%d", n)
				}
			case "Value":
				s, ok := r.(string)
				if !ok {
					return nil, "a token has an undetermined value " + catRender(r)
				}
				tk.val = s
			case "Line":
				tk.line, _ = r.(int64)
			case "Column":
				tk.col, _ = r.(int64)
			}
		}
		out = append(out, tk)
	}
	return out, ""
}

type tkResult struct {
	kind string // "ok","panic","opaque"
	toks []tkTok
	why  string
}

func (h *tkHarness) tokenize(s string) tkResult {
	_, r := h.tokenizeVia("TokenizeBuffer", s)
	return r
}

// the entry points that hand out a token list, and those that hand out the list of token values
var tkListEntries = []string{"TokenizeBuffer", "TokenizeStream", "SetReader+NextToken"}
var tkStringEntries = []string{"TokenizeBufferToStrings", "TokenizeStreamToStrings"}

// tokenizeVia reads s through one of the token-list entry points and also returns the list value itself
// (the caller may keep it and read it again later).
func (h *tkHarness) tokenizeVia(entry, s string) (mv, tkResult) {
	if h.fault != "" {
		return nil, tkResult{kind: "opaque", why: h.fault}
	}
	h.m.steps = 0
	var r mv
	var out mOutcome
	switch entry {
	case "TokenizeBuffer":
		r, out = h.call(entry, s)
	default:
		newScanner := h.c.MustFunc("io", "", "NewStringScanner")
		sc, o := h.m.Call(newScanner, s)
		if o.kind != "ok" {
			return nil, tkResult{kind: o.kind, why: "NewStringScanner: " + o.why}
		}
		if entry == "SetReader+NextToken" {
			toks, bad, why := h.pullToks(sc, 1, 1<<30)
			switch {
			case bad != "":
				return nil, tkResult{kind: "panic", why: bad}
			case why != "":
				return nil, tkResult{kind: "opaque", why: why}
			}
			return nil, tkResult{kind: "ok", toks: toks}
		}
		r, out = h.call(entry, mIface{t: newScanner.Signature.Results().At(0).Type(), v: sc})
	}
	h.lastPath = h.m.recentPath()
	if out.kind == "ok" && h.m.steps > h.maxOK {
		h.maxOK = h.m.steps
	}
	if out.kind != "ok" {
		return nil, tkResult{kind: out.kind, why: out.why}
	}
	toks, why := h.readTokens(r)
	if why != "" {
		return nil, tkResult{kind: "opaque", why: why}
	}
	return r, tkResult{kind: "ok", toks: toks}
}

// stringsVia reads s through one of the string-list entry points.
func (h *tkHarness) stringsVia(entry, s string) (vals []string, kind, why string) {
	h.m.steps = 0
	var r mv
	var out mOutcome
	if entry == "TokenizeBufferToStrings" {
		r, out = h.call(entry, s)
	} else {
		newScanner := h.c.MustFunc("io", "", "NewStringScanner")
		sc, o := h.m.Call(newScanner, s)
		if o.kind != "ok" {
			return nil, o.kind, "NewStringScanner: " + o.why
		}
		r, out = h.call(entry, mIface{t: newScanner.Signature.Results().At(0).Type(), v: sc})
	}
	if out.kind != "ok" {
		return nil, out.kind, out.why
	}
	vals = []string{}
	if sl, isSl := r.(mSlice); isSl {
		for _, e := range sl.arr {
			str, isStr := e.(string)
			if !isStr {
				return nil, "opaque", "a value of the string list is " + mRender(e)
			}
			vals = append(vals, str)
		}
	} else if _, isNil := r.(mNilT); !isNil {
		return nil, "opaque", "the string list is " + mRender(r)
	}
	return vals, "ok", ""
}

func renderToks(ts []tkTok) string {
	var ps []string
	for _, t := range ts {
		ps = append(ps, fmt.Sprintf("%s(%q)@%d:%d", t.typ, t.val, t.line, t.col))
	}
	return strings.Join(ps, " ")
}

func init() {
	extraCmds["machtok"] = func(args []string) int {
		repo := "/repo"
		if v := os.Getenv("REPO"); v != "" {
			repo = v
		}
		c, err := Load(repo, "quick")
		if err != nil {
			fmt.Fprintln(os.Stderr, err)
			return 2
		}
		h := c.newTkHarness(args[0])
		if pf := os.Getenv("PROF"); pf != "" {
			f, _ := os.Create(pf)
			pprof.StartCPUProfile(f)
			defer pprof.StopCPUProfile()
			for rep := 0; rep < 2000; rep++ {
				h.tokenize("a + 1.5e3 <> 'x' /* c */ <= b1")
			}
			return 0
		}
		for _, s := range args[1:] {
			r := h.tokenize(s)
			fmt.Printf("%q -> %s %s %s (steps %d)\n", s, r.kind, r.why, renderToks(r.toks), h.m.steps)
		}
		return 0
	}
}
