package main

const naPending = "check not built yet in this round (planned: DESIGN.md §4); not claimed until its rules run silent on the repaired tree and fire on their mutants"

var commonAssumptions = []string{
	"the Go type checker and go/ssa builder are correct; the module uses no reflection, unsafe or cgo (asserted by LOAD.build)",
	"callers do not hand nil *Variant / nil tokens to the library and do not supply their own implementations of the library interfaces (the properties speak of the built-in ones)",
	"semantics of the host operators and of the standard library / pip-services3-commons converters are as documented",
}

// properties lists, per property id, the rules whose obligations decide its structural clauses.
var properties = []Property{
	{ID: "C01", Title: "Expression value follows precedence, associativity and operand order",
		Rules:     []string{"GRAM.chain", "GRAM.table", "GRAM.postorder", "GRAM.operands", "GRAM.exhaustive", "GRAM.arity", "GRAM.lex", "GRAM.emptycase", "PURE.calc"},
		Technique: "SSA model extraction of the recursive-descent parser and the stack evaluator, compared with the precedence/arity table of the statement",
		Explanation: "The parser's level functions, the operator constants each level tests and emits, the call order between an operator match and its emission, and the evaluator's per-token handlers (pops, invoked variant operation, argument order) are extracted from go/ssa and compared with the precedence table, associativity and operand order stated in the property; the lexeme and token-type tables are checked pairwise through a closed loop ending in each operation's own error message.",
		NotDecided: "the computed values themselves (C06), equality with a reference evaluator over all trees, tokenisation of whitespace/comments (C04/C13)",
		LevelText:  "Necessary structural conditions of C01 decided on every run over all paths of the parser/evaluator code: precedence chain, per-level operator table, post-order emission, left-associative looping, operand order, stack-effect agreement, lexeme/type table agreement. A violated condition is a concrete construct that mis-parses or mis-evaluates some expression; silence does not prove the value equation.",
		LevelNote:  "Trusted: go/types+go/ssa; the precedence table is taken from the property statement. Not decided: numeric results, reference-evaluator equality.",
	},
	{ID: "C02", Title: "The parser accepts exactly the expression grammar and rejects everything else",
		Rules:     []string{"GRAM.deaderr", "GRAM.allmatch", "GRAM.consume", "GRAM.leftover", "GRAM.errprop", "GRAM.errcode", "GRAM.unknown", "GRAM.rejects", "GRAM.chain", "GRAM.table"},
		Technique: "cursor typestate dataflow, error-value def-use, dominator/guard analysis on the parser's SSA",
		Explanation: "Rejection discipline of the recursive-descent parser decided on all paths: every constructed error reaches a return, every stage error is tested and returned at once, the multi-token matcher cannot be overwritten after a mismatch, every consumed token was type-tested since the previous cursor movement (forward must-dataflow), success requires an exhausted cursor, Unknown classifications are rejected, and each rejection code the grammar needs is still constructed under a guard.",
		NotDecided: "completeness of acceptance (that every sentence of the grammar is accepted) beyond the operator table; the language equation itself",
		LevelText:  "Necessary conditions for 'rejects everything else' and 'no token silently skipped', checked over every path of the parser code; each violated obligation names the construct that makes some malformed token sequence pass or be reinterpreted.",
		LevelNote:  "Trusted: go/types+go/ssa. The typestate treats any type test of the current token as 'seen'. Acceptance completeness is only covered through GRAM.table/chain.",
	}, 
	{ID: "C03", Title: "Untrusted input never crashes the library: a result or an error, always",
		Rules:     []string{"TAG.access", "TAG.exprtoken", "PANIC.assert", "PANIC.div", "PANIC.shift", "PANIC.recover", "PANIC.result", "PANIC.explicit", "PANIC.ifacecmp", "PANIC.progress", "PANIC.nilres", "PANIC.index", "DIM.runes", "CONV.tag", "CONV.identity"},
		Technique: "panic-site inventory with dominating-guard / typestate discharge over go/ssa",
		Explanation: "Inside the region reachable from the untrusted-input entry points (call graph) every instruction class that can panic is inventoried and must be discharged: asserting accessors by the variant-tag typestate (Type() guards, Convert post-condition, constructor tags, token invariant, all-callers for helpers), integer division/shift by dominating range tests, index and slice expressions by a bounds prover (guards with pure-load congruence, len-k, range idiom, verified field invariants, result ranges), nil-able results by nil tests or the parser-cursor typestate (remaining-token lower bound, invalidated by cursor writers), explicit panics by call-site falsification or named structural invariants, interface comparisons by tag restriction, the recover wrapper by named-result binding, (value,error) tuples by nilness, the main loop by freshness of the tested token.",
		NotDecided: "termination beyond the main loop's per-cycle progress, stack depth on deeply nested input, panics inside dependencies for exotic arguments, caller-supplied nil pointers or foreign interface implementations",
		LevelText:  "A sound-by-construction inventory for the listed panic classes under the stated assumptions: every site in the region is an obligation; silence means each was discharged by an argument the checker re-derives on every run. It is not a termination proof and does not look inside dependencies.",
		LevelNote:  "Trusted: go/ssa, CHA (quick) / VTA (thorough) call graph for the region, the guard algebra (dominating branch conditions, pure-accessor congruence, no intervening store check limited to the enumerated idioms), reviewed instances listed with re-verified fingerprints.",
	},
	 
	{ID: "C04", Title: "Tokenization is lossless: token values concatenate to the input",
		Rules:     []string{"SCAN.balance", "SCAN.fallback", "PANIC.progress", "SCAN.symbol", "SYM.ancestry", "STATE.tokenize", "STATE.lookahead"},
		Technique: "path-sensitive abstract interpretation of every tokenizer state over a symbolic scanner (consumed-character stack vs. builder contents)",
	},
	 
	{ID: "C05", Title: "Reused instances give history-independent results",
		Rules:     []string{"STATE.tokenize", "STATE.parse", "STATE.template", "STATE.lookahead", "SYM.ancestry", "PURE.calc", "PURE.tmpl", "PURE.global"},
		Technique: "write-set of each reusable operation (effect analysis) versus the unconditional store set of its reset routine; typestate of the one-token look-ahead",
	},
	 
	{ID: "C06", Title: "Variant operators implement the arithmetic of the first operand's type",
		Rules:     []string{"OPS.cell", "OPS.null", "OPS.convert", "OPS.override", "OPS.in", "PANIC.div", "PANIC.shift", "GRAM.emptycase", "CONV.cell", "CONV.tag"},
		Technique: "normalised SSA expression trees per (operator × first-operand type) cell compared with the operator matrix of the statement; boolean cells and the Null policy folded into truth tables; dominating-guard check for division and shifts",
		Explanation: "For the 21 operator methods (resolved through IVariantOperations, shared by both managers — checked) the checker extracts every cell as a normalised expression tree from go/ssa (temporaries, parentheses, if/switch spelling and commutative operand order disappear; short-circuit boolean code becomes a truth table) and compares it with host-operator(As<T>(value1), As<T>(Convert(value2, type of value1))); the Null policy is read off as a decision table; conversions and their error propagation, In's element test and GetElement's index conversion are checked; every integer division and signed shift must be dominated by a zero / range test.",
		NotDecided: "numeric results of the host operators (Go semantics trusted), NaN/overflow behaviour, string collation",
		LevelText:  "Table agreement between the code's operator cells and the matrix the statement prescribes, on every run, for all 92 required cells and all null-policy rows; plus a sound dominating-guard argument for the two crash classes (division by zero, negative shift). A deviating cell is a concrete wrong result for some operand pair.",
		LevelNote:  "Trusted: go/ssa, Go operator semantics. The expected matrix is written from the statement and confirmed by reading. Extra cells beyond the matrix are only type-checked.",
	},
	 
	{ID: "C07", Title: "Variant conversions deliver the requested type and round-trip losslessly",
		Rules:     []string{"CONV.tag", "CONV.identity", "CONV.whitelist", "CONV.agree", "CONV.cell"},
		Technique: "extraction of both managers' conversion matrices from SSA (source dispatch × target switch) and table agreement with the statement's conventions and whitelist",
		Explanation: "Both managers' Convert dispatch and convertFrom* helpers are extracted into source×target matrices of normalised payload expressions. Checked: the setter equals the requested type in every cell; the unchanged argument is returned exactly under 'own type or Object requested' and before any dispatch; the type-safe success cells are exactly the whitelist and agree expression-for-expression with the type-unsafe cells; the unsafe numeric/temporal cells follow the unit conventions (time.Millisecond, Unix seconds), direct widening, truncation and (x != 0).",
		NotDecided: "value-level exactness of round trips ('within exact range'), string↔number/date round trips implemented by the commons converters, overflow",
		LevelText:  "Table agreement over the full 11×11 matrices of both managers on every run. A deviating cell is a conversion that returns the wrong type, a wrong unit or an un-whitelisted success for every value of that source type.",
		LevelNote:  "Trusted: go/ssa; Go conversion semantics; the commons converters for string targets. The round-trip equations are decided only through unit/shape agreement of the two directions.",
	},
	 
	{ID: "C08", Title: "Built-in functions compute what their names denote",
		Rules:     []string{"FUNC.table", "FUNC.chain", "FUNC.arity", "FUNC.fold", "PANIC.recover", "PANIC.result", "TAG.access", "PANIC.index", "PURE.calc"},
		Technique: "registration-table resolution, normalised SSA result expressions per registered name, abstract interpretation over the argument count",
		Explanation: "The 37 registrations are resolved from NewDefaultFunctionCollection (name → calculator function value). For names that denote a host function or constant the calculator's success result must be exactly that host function on the converted first argument; every calculator is abstractly interpreted over n = len(parameters) ∈ {0..8, 9+} (branches on n and on checkParamCount folded, all others explored) to derive the accepted counts and compare them with the statement's, and to show parameter k is read only when n > k; Min/Max/Sum/If/Choose/Contains/Abs have structural checks; the panic-to-error wrapper must bind named results; asserting accessors and result tuples are discharged as in C03.",
		NotDecided: "numeric values, Date/TimeSpan calendar arithmetic, clock interval bounds beyond 'derives from time.Now()', Rnd range beyond 'is rand.Float32() unmodified'",
		LevelText:  "Table agreement (name → denoted host function, name → accepted argument counts) plus exhaustive abstract interpretation over the argument count for all registered calculators: a deviation is a function that computes something else than its name, accepts a wrong count, or reads a missing argument.",
		LevelNote:  "Trusted: go/ssa; math/time/rand semantics. The denotation table is written from the statement and confirmed by reading.",
	},
	 
	{ID: "C09", Title: "CSV text round-trips through the tokenizer for any table and configuration",
		Rules:     []string{"CSV.route", "CODEC.pair", "CODEC.reader", "DIM.runes", "OPT.chain", "OPT.nointerference", "SCAN.balance", "SCAN.symbol", "MAP.flow", "MAP.order", "MAP.split", "MAP.disable"},
		Technique: "registration-sequence extraction of the CSV state table and its mirror in the word state, codec pair agreement, main-loop model, abstract interpretation of the CSV states",
	},
	{ID: "C10", Title: "Mustache rendering equals the reference semantics; malformed input is rejected",
		Rules:     []string{"MUS.lexer", "MUS.section", "MUS.render", "MUS.verbatim", "GRAM.deaderr", "GRAM.errprop", "PANIC.nilres", "NAME.fold", "PURE.tmpl", "STATE.template", "SCAN.balance", "SCAN.fallback", "LEX.dispatch"},
		Technique: "transition-relation extraction of the tag state machine by abstract interpretation over the finite partition of its constants, walked with every tag spelling; guard/dataflow shape rules on the section parser and the renderer's cases; replacement-chain extraction of the escaper",
	},
	
	{ID: "C11", Title: "The string scanner is a faithful cursor with position-only line/column",
		Rules:     []string{"CUR.linerule", "CUR.range", "CUR.pure", "CUR.siblings", "CUR.unread", "PANIC.index"},
		Technique: "truth-table extraction by constant folding over the finite character partition; who-may-write and dominating-guard analysis of the cursor field; path classification of Unread; sibling agreement of the classification window",
	},
	 
	{ID: "C12", Title: "Every token reports the line and column of its first character",
		Rules:     []string{"POS.capture", "POS.stale", "CUR.siblings", "CUR.unread", "CUR.linerule"},
		Technique: "same abstract interpretation: where, relative to the first Read, each state samples Line/Column/PeekLine/PeekColumn",
	},
	 
	{ID: "C13", Title: "Lexeme sequences tokenize back to themselves with the right classes",
		Rules:     []string{"LEX.tables", "LEX.dispatch", "LEX.charsets", "LEX.classes", "SCAN.balance", "SCAN.symbol", "SYM.valid", "SYM.ancestry", "MAP.flow", "MAP.order", "STATE.tokenize"},
		Technique: "cross-table agreement, constant folding of the constructors' registration sequences under the map semantics, terminal-character alternative sets per state, abstract interpretation of the states",
	},
	 
	{ID: "C14", Title: "Quote encoding and decoding are inverse and total for all Unicode text",
		Rules:     []string{"CODEC.pair", "CODEC.reader", "DIM.runes", "PANIC.index", "SCAN.balance"},
		Technique: "normalised SSA expressions of the encode/decode pair (mirror-image check), guard extraction, byte/rune dimension rule, bounds prover, abstract interpretation of the quote readers",
	},
	 
	{ID: "C15", Title: "Tokenizer options only drop or rewrite whole tokens, never re-segment",
		Rules:     []string{"OPT.chain", "OPT.nointerference", "PANIC.progress", "POS.stale"},
		Technique: "exhaustive abstract evaluation of one loop iteration over the finite partition (token class × state kind × last type × 2^7 option sets); information-flow check from options to scanner movement",
	},
	 
	{ID: "C16", Title: "Symbol tables return the longest registered symbol with its own type",
		Rules:     []string{"SYM.valid", "SYM.ancestry", "SCAN.symbol", "MAP.flow", "MAP.order", "SCAN.balance"},
		Technique: "who-may-write rule for the validity/type marks, slice-ownership rule for the memoised text, per-level read/unread path counting",
	},
	 
	{ID: "C17", Title: "Character-class maps answer with the latest covering registration",
		Rules:     []string{"MAP.flow", "MAP.order", "MAP.split", "MAP.disable", "MAP.callers", "MAP.dispatch", "PANIC.index"},
		Technique: "value-flow of Lookup's results, insertion/search order agreement, boundary-constant agreement, dominating-guard bounds proof",
	},
	 
	{ID: "C18", Title: "Variables are discovered exactly and names resolve case-insensitively",
		Rules:     []string{"NAME.fold", "NAME.list", "NAME.discover", "STATE.parse", "STATE.template", "GRAM.deaderr"},
		Technique: "def-use of the folded comparison operands, normalised splice expressions, guard analysis of the recording and auto-creation sites",
	},
	 
	{ID: "C19", Title: "Evaluation is pure and repeatable, also under concurrent use",
		Rules:     []string{"PURE.eval", "PURE.global", "PURE.nogo"},
		Technique: "interprocedural effect analysis with a freshness (ownership) fixpoint over the call graph",
	},
	 
	{ID: "C20", Title: "Variants hold what they were given: typed access, copies and equality",
		Rules:     []string{"OWN.tagtype", "OWN.hosttype", "OWN.array", "OWN.equals", "PANIC.ifacecmp", "PANIC.assert", "PURE.global"},
		Technique: "writer/reader table agreement (tag ↔ payload Go type ↔ accessor assertion), host-type switch extraction, slice-ownership dataflow",
	},
	
}

func init() {
	for i := range properties {
		p := &properties[i]
		if len(p.Rules) == 0 && p.NAReason == "" {
			p.NAReason = naPending
		}
		if p.Assumptions == nil {
			p.Assumptions = commonAssumptions
		}
	}
}
