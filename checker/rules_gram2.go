package main

import (
	"fmt"
	"go/ast"
	"go/constant"
	"go/token"
	"go/types"
	"regexp"
	"sort"
	"strings"

	"golang.org/x/tools/go/ssa"
)

// ---- evaluator model ----------------------------------------------------------------------------

type handler struct {
	k       int64
	fn      *ssa.Function
	body    *ssa.BasicBlock
	pops    []*ssa.Call
	invoke  *ssa.Call // call on IVariantOperations
	method  string
	argPops []int // for each invoke argument: 1-based index of the Pop it is, 0 if none
	pushes  []*ssa.Call
	region  map[*ssa.BasicBlock]bool
}

type evalModel struct {
	funcs    []*ssa.Function
	handlers map[int64][]*handler
}

var evalModelMemo *evalModel

func (c *Ctx) buildEvalModel() *evalModel {
	if evalModelMemo != nil {
		return evalModelMemo
	}
	em := &evalModel{handlers: map[int64][]*handler{}}
	for _, f := range c.methodsOfType(pkgCalc, "ExpressionCalculator") {
		var tokParam *ssa.Parameter
		hasStack := false
		for _, p := range f.Params {
			ts := p.Type().String()
			if strings.HasSuffix(ts, "parsers.ExpressionToken") {
				tokParam = p
			}
			if strings.HasSuffix(ts, "CalculationStack") {
				hasStack = true
			}
		}
		if tokParam == nil || !hasStack {
			continue
		}
		em.funcs = append(em.funcs, f)
		// which token types can reach each block (forward dataflow: the spelling of the dispatch - switch,
		// if-chain, inverted test with early return - does not matter); the handler of type K is the
		// region of blocks reached only for K
		names := c.constNames(pkgParsers, "")
		sets := c.typeSets(f, tokParam, pkgParsers, "ExpressionToken", names)
		for k := range names {
			if k < 0 || k >= 63 {
				continue
			}
			region := map[*ssa.BasicBlock]bool{}
			var entry *ssa.BasicBlock
			for _, b := range f.Blocks {
				if sets[b]&^(1<<63) == 1<<uint(k) {
					region[b] = true
				}
			}
			for _, b := range f.Blocks {
				if !region[b] {
					continue
				}
				for _, p := range b.Preds {
					if !region[p] && (entry == nil || b.Index < entry.Index) {
						entry = b
					}
				}
			}
			if entry == nil {
				continue
			}
			h := &handler{k: k, fn: f, body: entry, region: region}
			c.fillHandler(h)
			em.handlers[k] = append(em.handlers[k], h)
		}
	}
	evalModelMemo = em
	return em
}

func (c *Ctx) fillHandler(h *handler) {
	var blocks []*ssa.BasicBlock
	for b := range h.region {
		blocks = append(blocks, b)
	}
	sort.Slice(blocks, func(i, j int) bool { return blocks[i].Index < blocks[j].Index })
	var calls []*ssa.Call
	for _, b := range blocks {
		for _, in := range b.Instrs {
			if call, ok := in.(*ssa.Call); ok {
				calls = append(calls, call)
			}
		}
	}
	// order by dominance where possible (stable: index order already approximates source order)
	sort.SliceStable(calls, func(i, j int) bool {
		return calls[i] != calls[j] && instrDominates(calls[i], calls[j]) && !instrDominates(calls[j], calls[i])
	})
	// a helper that is handed the stack (applyBinaryOperation(stack, op)) is part of the handler: its
	// calls are spliced in at the call site (one level), and a call through one of its function-typed
	// parameters is resolved to the bound method passed at the call site
	boundMethod := map[*ssa.Parameter]string{}
	var spliced []*ssa.Call
	for _, call := range calls {
		g := call.Call.StaticCallee()
		takesStack := false
		for _, a := range call.Call.Args {
			if strings.HasSuffix(a.Type().String(), "CalculationStack") {
				takesStack = true
			}
		}
		if g == nil || !c.InModule(g) || g.Blocks == nil || !takesStack || recvNamedFn(g) == "CalculationStack" {
			spliced = append(spliced, call)
			continue
		}
		for i, a := range call.Call.Args {
			if mc, ok := a.(*ssa.MakeClosure); ok && i < len(g.Params) {
				if f, ok := mc.Fn.(*ssa.Function); ok && strings.HasSuffix(f.Name(), "$bound") && len(mc.Bindings) == 1 {
					if nt, ok := mc.Bindings[0].Type().(*types.Named); ok && nt.Obj().Name() == "IVariantOperations" {
						boundMethod[g.Params[i]] = strings.TrimSuffix(f.Name(), "$bound")
					}
				}
			}
		}
		var inner []*ssa.Call
		for _, gb := range g.Blocks {
			for _, in := range gb.Instrs {
				if ic, ok := in.(*ssa.Call); ok {
					inner = append(inner, ic)
				}
			}
		}
		sort.SliceStable(inner, func(i, j int) bool {
			return inner[i] != inner[j] && instrDominates(inner[i], inner[j]) && !instrDominates(inner[j], inner[i])
		})
		spliced = append(spliced, inner...)
	}
	calls = spliced
	for _, call := range calls {
		if _, ok := c.callTo(call, pkgCalc, "CalculationStack", "Pop"); ok {
			h.pops = append(h.pops, call)
		}
		if _, ok := c.callTo(call, pkgCalc, "CalculationStack", "Push"); ok {
			h.pushes = append(h.pushes, call)
		}
		if prm, ok := call.Call.Value.(*ssa.Parameter); ok && boundMethod[prm] != "" && h.invoke == nil {
			h.invoke = call
			h.method = boundMethod[prm]
			for _, a := range call.Call.Args {
				idx := 0
				for i, p := range h.pops {
					if ssa.Value(p) == a {
						idx = i + 1
					}
				}
				h.argPops = append(h.argPops, idx)
			}
		}
		if call.Call.IsInvoke() && call.Call.Method != nil && h.invoke == nil {
			if nt, ok := call.Call.Value.Type().(*types.Named); ok && nt.Obj().Name() == "IVariantOperations" {
				h.invoke = call
				h.method = call.Call.Method.Name()
				for _, a := range call.Call.Args {
					idx := 0
					for i, p := range h.pops {
						if ssa.Value(p) == a {
							idx = i + 1
						}
					}
					h.argPops = append(h.argPops, idx)
				}
			}
		}
	}
}

// backwardSliceHas reports whether pred holds for some value in the backward def-use slice of v
// (within one function, through phis, calls' arguments, unary/binary ops, extracts).
func backwardSliceHas(v ssa.Value, pred func(ssa.Value) bool) bool {
	seen := map[ssa.Value]bool{}
	var walk func(x ssa.Value) bool
	walk = func(x ssa.Value) bool {
		if x == nil || seen[x] {
			return false
		}
		seen[x] = true
		if pred(x) {
			return true
		}
		in, ok := x.(ssa.Instruction)
		if !ok {
			return false
		}
		for _, op := range in.Operands(nil) {
			if *op != nil && walk(*op) {
				return true
			}
		}
		return false
	}
	return walk(v)
}

type evalSpec struct {
	method string
	pops   int
	args   []int // pop index per argument (1 = first pop = right operand)
	negate bool
}

// oracle: which variant operation implements each token type, with operands in written order
// (value1 = left operand = second pop).
func evalOracle(containerParam int) map[string]evalSpec {
	bin := func(m string) evalSpec { return evalSpec{m, 2, []int{2, 1}, false} }
	in := []int{2, 1}
	if containerParam == 0 {
		in = []int{1, 2} // the container (right operand, first pop) goes to parameter 0
	}
	return map[string]evalSpec{
		"And": bin("And"), "Or": bin("Or"), "Xor": bin("Xor"),
		"Plus": bin("Add"), "Minus": bin("Sub"), "Star": bin("Mul"), "Slash": bin("Div"), "Procent": bin("Mod"),
		"Power": bin("Pow"), "ShiftLeft": bin("Lsh"), "ShiftRight": bin("Rsh"),
		"Equal": bin("Equal"), "NotEqual": bin("NotEqual"), "More": bin("More"), "Less": bin("Less"),
		"EqualMore": bin("MoreEqual"), "EqualLess": bin("LessEqual"), "Element": bin("GetElement"),
		"Not": {"Not", 1, []int{1}, false}, "Unary": {"Negative", 1, []int{1}, false},
		"In": {"In", 2, in, false}, "NotIn": {"In", 2, in, true},
		"IsNull": {"", 1, nil, false}, "IsNotNull": {"", 1, nil, true},
	}
}

// inContainerParam finds which parameter of AbstractVariantOperations.In is iterated as the array.
func (c *Ctx) inContainerParam() int {
	fn := c.MustFunc(pkgVariants, "AbstractVariantOperations", "In")
	for _, ci := range allCalls(fn) {
		if cc, ok := c.callTo(ci, pkgVariants, "Variant", "AsArray"); ok {
			r := callRecv(cc)
			for i, p := range fn.Params {
				if ssa.Value(p) == r {
					return i - 1 // minus receiver
				}
			}
		}
	}
	return -1
}

func init() {
	register(&Rule{ID: "GRAM.operands", Floor: 24,
		Doc: "each evaluator handler pops the right operand first and calls the variant operation that the token denotes with operands in written order (value1 = left); In/NotIn pass the container to the parameter the implementation iterates; negated forms negate",
		Run: ruleGramOperands})
	register(&Rule{ID: "GRAM.exhaustive", Floor: 20,
		Doc: "every token type the parser can emit has a handler in the evaluator",
		Run: ruleGramExhaustive})
	register(&Rule{ID: "GRAM.arity", Floor: 22,
		Doc: "stack-effect agreement: operands the parser compiles before emitting an operator = values its handler pops; call compilation pushes arguments in order, then the count, then the function, and the handler rebuilds the list in order",
		Run: ruleGramArity})
	register(&Rule{ID: "GRAM.lex", Floor: 28,
		Doc: "the lexeme table and the token-type table agree pairwise with the language (closed loop: lexeme → token type → evaluator handler → variant operation → operator symbol quoted in that operation's own error message)",
		Run: ruleGramLex})
	register(&Rule{ID: "GRAM.emptycase", Floor: 40,
		Doc: "no empty case clause is followed by a non-empty one in a switch over token or variant types (Go has no implicit fall-through: the empty clause silently does nothing)",
		Run: ruleGramEmptyCase})
}

func ruleGramOperands(c *Ctx) []*Obligation {
	pm := c.buildParserModel()
	em := c.buildEvalModel()
	o := newObl("GRAM.operands")
	oracle := evalOracle(c.inContainerParam())
	var names []string
	for n := range oracle {
		names = append(names, n)
	}
	sort.Strings(names)
	for _, n := range names {
		spec := oracle[n]
		k, ok := pm.byName[n]
		key := "calculator.ExpressionCalculator#handler#" + n
		if !ok {
			o.bad(key, "-", "token type constant "+n+" not found")
			continue
		}
		hs := em.handlers[k]
		if len(hs) == 0 {
			o.bad(key, c.Pos(em.funcs[0].Pos()), "no evaluator handler for token type "+n)
			continue
		}
		if len(hs) > 1 {
			o.bad(key, c.Pos(hs[1].body.Instrs[0].Pos()), "token type "+n+" is handled in more than one place; only the first can run")
			continue
		}
		h := hs[0]
		pos := c.Pos(h.body.Instrs[0].Pos())
		var bad []string
		if len(h.pops) != spec.pops {
			bad = append(bad, fmt.Sprintf("pops %d values, expected %d", len(h.pops), spec.pops))
		}
		if spec.method != "" {
			if h.invoke == nil {
				bad = append(bad, "no variant operation is invoked")
			} else {
				if h.method != spec.method {
					bad = append(bad, fmt.Sprintf("invokes %s, expected %s", h.method, spec.method))
				}
				if fmt.Sprint(h.argPops) != fmt.Sprint(spec.args) {
					bad = append(bad, fmt.Sprintf("passes pops %v as arguments, expected %v (1 = first pop = right operand)", h.argPops, spec.args))
				}
			}
		} else {
			// IsNull / IsNotNull: IsNull() called on the popped value
			found := false
			for _, b := range dominatedBlocks(h.body) {
				for _, in := range b.Instrs {
					if cc, ok := c.callTo(in, pkgVariants, "Variant", "IsNull"); ok && len(h.pops) > 0 && callRecv(cc) == ssa.Value(h.pops[0]) {
						found = true
					}
				}
			}
			if !found {
				bad = append(bad, "IsNull() is not applied to the popped value")
			}
		}
		// pushed result derives from the operation result (or the IsNull test) and carries the negation iff required
		if len(h.pushes) == 0 {
			bad = append(bad, "handler pushes no result")
		}
		for _, p := range h.pushes {
			arg := callArgs(p.Common())[0]
			neg := backwardSliceHas(arg, func(v ssa.Value) bool {
				u, ok := v.(*ssa.UnOp)
				return ok && u.Op == token.NOT
			})
			if neg != spec.negate {
				bad = append(bad, fmt.Sprintf("result negation is %v, expected %v", neg, spec.negate))
			}
			if h.invoke != nil {
				if !backwardSliceHas(arg, func(v ssa.Value) bool { return v == ssa.Value(h.invoke) }) {
					bad = append(bad, "pushed value does not derive from the operation result")
				}
			}
		}
		if len(bad) > 0 {
			o.bad(key, pos, strings.Join(bad, "; "))
		} else {
			o.ok(key, pos, fmt.Sprintf("%s: pops=%d op=%s args=%v negate=%v", n, len(h.pops), h.method, h.argPops, spec.negate))
		}
	}
	return o.list
}

func ruleGramExhaustive(c *Ctx) []*Obligation {
	pm := c.buildParserModel()
	em := c.buildEvalModel()
	o := newObl("GRAM.exhaustive")
	seen := map[int64]*emission{}
	for _, e := range pm.ems {
		for _, k := range e.emitted {
			if seen[k] == nil {
				seen[k] = e
			}
		}
	}
	var ks []int64
	for k := range seen {
		ks = append(ks, k)
	}
	sort.Slice(ks, func(i, j int) bool { return ks[i] < ks[j] })
	for _, k := range ks {
		n := c.tokName(pm, k)
		key := "calculator.ExpressionCalculator#handles#" + n
		if len(em.handlers[k]) > 0 {
			o.ok(key, c.Pos(em.handlers[k][0].body.Instrs[0].Pos()), "emitted by the parser and tested in "+em.handlers[k][0].fn.Name())
		} else {
			o.bad(key, c.Pos(seen[k].call.Pos()), "the parser emits token type "+n+" but no evaluator handler tests for it: evaluation ends in an INTERNAL error")
		}
	}
	return o.list
}

func ruleGramArity(c *Ctx) []*Obligation {
	pm := c.buildParserModel()
	em := c.buildEvalModel()
	o := newObl("GRAM.arity")
	for _, e := range pm.ems {
		if e.dblock == nil || e.level >= 6 {
			continue
		}
		operands := strings.Count(e.seq, "L")
		if e.leftOperand {
			operands++
		}
		for _, k := range e.emitted {
			n := c.tokName(pm, k)
			key := "parser/evaluator#arity#" + n
			hs := em.handlers[k]
			if len(hs) == 0 {
				continue // reported by GRAM.exhaustive
			}
			if len(hs[0].pops) == operands {
				o.ok(key, c.Pos(e.call.Pos()), fmt.Sprintf("parser compiles %d operand(s) before %s, handler pops %d", operands, n, len(hs[0].pops)))
			} else {
				o.bad(key, c.Pos(e.call.Pos()), fmt.Sprintf("parser compiles %d operand(s) before emitting %s but the handler pops %d", operands, n, len(hs[0].pops)))
			}
		}
	}
	// unary and element
	if k, ok := pm.byName["Unary"]; ok && len(em.handlers[k]) > 0 {
		o.check(len(em.handlers[k][0].pops) == 1, "parser/evaluator#arity#Unary", c.Pos(em.handlers[k][0].body.Instrs[0].Pos()), "unary minus pops one value", "unary minus must pop exactly one value")
	}
	// call compilation (parser side)
	if len(pm.levels) == 7 {
		f := pm.levels[6]
		var constEm, funcEm *emission
		for _, e := range pm.ems {
			if e.level != 6 {
				continue
			}
			for _, k := range e.emitted {
				if c.tokName(pm, k) == "Function" {
					funcEm = e
				}
			}
		}
		if funcEm != nil {
			for _, e := range pm.ems {
				if e.level == 6 && e.call.Block() == funcEm.call.Block() && e != funcEm && c.tokNames(pm, e.emitted) == "Constant" {
					constEm = e
				}
			}
		}
		key := "parsers.(*ExpressionParser)." + f.Name() + "#call#count-then-function"
		switch {
		case funcEm == nil:
			o.bad(key, c.Pos(f.Pos()), "no Function emission found")
		case constEm == nil || !instrDominates(constEm.call, funcEm.call):
			o.bad(key, c.Pos(funcEm.call.Pos()), "the argument-count constant is not emitted immediately before the function token")
		default:
			o.ok(key, c.Pos(funcEm.call.Pos()), "count constant emitted, then the function token, after all argument code")
			// the count value: VariantFromInteger(phi{0, phi+1}) incremented once per argument parse
			cntKey := "parsers.(*ExpressionParser)." + f.Name() + "#call#count-increments"
			val := callArgs(constEm.call.Common())[1]
			okCount := false
			why := "count constant is not VariantFromInteger(<counter>)"
			if vc, isCall := val.(*ssa.Call); isCall {
				if cc, isV := c.callTo(vc, pkgVariants, "", "VariantFromInteger"); isV {
					okCount, why = c.counterShape(cc.Args[0], pm.levels[0])
				}
			}
			o.check(okCount, cntKey, c.Pos(constEm.call.Pos()), why, why)
		}
	}
	// call evaluation (handler side)
	if k, ok := pm.byName["Function"]; ok && len(em.handlers[k]) > 0 {
		h := em.handlers[k][0]
		base := "calculator.(*ExpressionCalculator)." + h.fn.Name()
		cnt, ord := c.functionHandlerShape(h)
		pos := c.Pos(h.body.Instrs[0].Pos())
		o.verdict(cnt, base+"#call#pops-count-values", pos)
		o.verdict(ord, base+"#call#rebuild-in-order", pos)
	}
	return o.list
}

// counterShape: v is a loop-carried counter starting at 0 and incremented by exactly 1 in a block
// that also (dominates-)precedes one top-level parse call per iteration.
func (c *Ctx) counterShape(v ssa.Value, parseFn *ssa.Function) (bool, string) {
	leaves := map[string]int{}
	var incs []*ssa.BinOp
	seen := map[ssa.Value]bool{}
	var walk func(x ssa.Value)
	walk = func(x ssa.Value) {
		if seen[x] {
			return
		}
		seen[x] = true
		switch y := x.(type) {
		case *ssa.Phi:
			for _, e := range y.Edges {
				walk(e)
			}
		case *ssa.Const:
			if n, ok := constInt(y); ok && n == 0 {
				leaves["zero"]++
			} else {
				leaves["otherconst"]++
			}
		case *ssa.BinOp:
			if n, ok := constInt(y.Y); ok && n == 1 && y.Op == token.ADD {
				incs = append(incs, y)
				walk(y.X)
			} else {
				leaves["other"]++
			}
		default:
			leaves["other"]++
		}
	}
	walk(v)
	if leaves["zero"] == 0 || leaves["other"] > 0 || leaves["otherconst"] > 0 {
		return false, "argument counter does not start at 0 and grow by +1 only"
	}
	if len(incs) != 1 {
		return false, fmt.Sprintf("argument counter has %d increment sites, expected 1", len(incs))
	}
	// the increment must be paired with exactly one argument parse in the same iteration
	inc := incs[0]
	paired := 0
	for _, ci := range allCalls(inc.Parent()) {
		if ci.Common().StaticCallee() == parseFn && (ci.Block() == inc.Block() || inc.Block().Dominates(ci.Block())) {
			// and the parse must be inside the loop of the counter: the increment's block reaches itself through the parse
			r := reachableBlocks(ci.Block(), nil)
			if r[inc.Block()] {
				paired++
			}
		}
	}
	if paired != 1 {
		return false, fmt.Sprintf("the +1 on the argument counter is paired with %d argument parses per iteration, expected 1", paired)
	}
	return true, "counter starts at 0, +1 once per parsed argument"
}

// shapeVerdict: a recognised-good shape, a recognised-wrong shape (a counter-witness), or a shape
// the rule does not know (undecided - never reported as a violation).
type shapeVerdict struct {
	status Status
	why    string
}

func (o *obl) verdict(v shapeVerdict, key, pos string) {
	switch v.status {
	case Discharged:
		o.ok(key, pos, v.why)
	case Violated:
		o.bad(key, pos, v.why)
	default:
		o.undecided(key, pos, v.why)
	}
}

// affine is a*n0 + b*j + c over the argument count n0 and the 0-based iteration number j.
type affine struct {
	a, b, c int64
	ok      bool
}

// functionHandlerShape analyses the call handler: the first Pop is the argument count n0; the other
// Pop sits in a loop that runs exactly n0 times (counting obligation); the value popped in
// iteration j (the (n0-j)-th written argument) must end up at position n0-1-j of the list handed
// to Calculate (ordering obligation).
func (c *Ctx) functionHandlerShape(h *handler) (count, order shapeVerdict) {
	und := func(s string) shapeVerdict { return shapeVerdict{Undecided, s} }
	if len(h.pops) < 2 {
		v := shapeVerdict{Violated, "the call handler must pop the argument count and then the arguments"}
		return v, v
	}
	first := h.pops[0]
	var n0 ssa.Value
	for _, r := range *first.Referrers() {
		if _, ok := c.callTo(r, pkgVariants, "Variant", "AsInteger"); ok {
			n0 = r.(ssa.Value)
		}
	}
	if n0 == nil {
		v := shapeVerdict{Violated, "the first popped value is not used as the argument count"}
		return v, v
	}
	if len(h.pops) != 2 {
		v := und("more than one argument Pop site: shape not recognised")
		return v, v
	}
	pop := h.pops[1]
	// the loop the Pop sits in: a header phi that is tested in the header's If
	var loopVar *ssa.Phi
	var shape string // "down" : phi(n0, p-1) tested > 0 ; "up": phi(0, i+1) tested < n0 ; "rev": phi(n0-1, i-1) tested >= 0
	// the count itself, or the count clamped at zero (phi of the count and the constant 0)
	isN0 := func(v ssa.Value) bool {
		v = stripConv(v)
		if v == n0 {
			return true
		}
		if phi, ok := v.(*ssa.Phi); ok && phi.Block().Dominates(pop.Block()) {
			sawN := false
			for _, e := range phi.Edges {
				if stripConv(e) == n0 {
					sawN = true
				} else if k, isK := constInt(e); !isK || k != 0 {
					return false
				}
			}
			return sawN
		}
		return false
	}
	stepOf := func(phi *ssa.Phi, v ssa.Value) (int64, bool) {
		bo, ok := v.(*ssa.BinOp)
		if !ok || bo.X != ssa.Value(phi) {
			return 0, false
		}
		k, isK := constInt(bo.Y)
		if !isK {
			return 0, false
		}
		switch bo.Op {
		case token.ADD:
			return k, true
		case token.SUB:
			return -k, true
		}
		return 0, false
	}
	for hb := pop.Block(); hb != nil && loopVar == nil; hb = hb.Idom() {
		ifi, ok := hb.Instrs[len(hb.Instrs)-1].(*ssa.If)
		if !ok {
			continue
		}
		cmp, ok := ifi.Cond.(*ssa.BinOp)
		if !ok {
			continue
		}
		phi, ok := cmp.X.(*ssa.Phi)
		if !ok || phi.Block() != hb || len(phi.Edges) != 2 {
			continue
		}
		if !hb.Succs[0].Dominates(pop.Block()) {
			continue
		}
		var init ssa.Value
		var step int64
		found := false
		for i, e := range phi.Edges {
			if st, ok := stepOf(phi, e); ok {
				step, found = st, true
				init = phi.Edges[1-i]
			}
		}
		if !found {
			continue
		}
		zero := func(v ssa.Value) bool { k, ok := constInt(v); return ok && k == 0 }
		switch {
		case step == -1 && isN0(init) && cmp.Op == token.GTR && zero(cmp.Y):
			loopVar, shape = phi, "down"
		case step == 1 && zero(init) && cmp.Op == token.LSS && isN0(cmp.Y):
			loopVar, shape = phi, "up"
		case step == -1 && cmp.Op == token.GEQ && zero(cmp.Y):
			if bo, ok := init.(*ssa.BinOp); ok && bo.Op == token.SUB && isN0(bo.X) {
				if k, isK := constInt(bo.Y); isK && k == 1 {
					loopVar, shape = phi, "rev"
				}
			}
		}
	}
	if loopVar == nil {
		v := und("the loop around the argument Pop is not one of the recognised counting loops (for n > 0 {…n--}, for i := 0; i < n; i++, for i := n-1; i >= 0; i--)")
		return v, v
	}
	// exactly one Pop per iteration: the Pop's block is executed once per iteration (it dominates the latch)
	latchOK := false
	for _, p := range loopVar.Block().Preds {
		if loopVar.Block().Dominates(p) && (pop.Block() == p || pop.Block().Dominates(p)) {
			latchOK = true
		}
	}
	if !latchOK {
		count = und("the argument Pop is not executed on every iteration of the counting loop")
	} else {
		count = shapeVerdict{Discharged, "the first Pop gives the count n; the argument Pop runs once in each of the n iterations of a " + shape + "-counting loop"}
	}
	// ordering
	var eval func(v ssa.Value, depth int) affine
	eval = func(v ssa.Value, depth int) affine {
		if depth > 6 {
			return affine{}
		}
		if k, ok := constInt(v); ok {
			return affine{0, 0, k, true}
		}
		if isN0(v) {
			return affine{1, 0, 0, true}
		}
		if v == ssa.Value(loopVar) {
			switch shape {
			case "down":
				return affine{1, -1, 0, true}
			case "up":
				return affine{0, 1, 0, true}
			case "rev":
				return affine{1, -1, -1, true}
			}
		}
		if bo, ok := v.(*ssa.BinOp); ok && (bo.Op == token.ADD || bo.Op == token.SUB) {
			x, y := eval(bo.X, depth+1), eval(bo.Y, depth+1)
			if x.ok && y.ok {
				if bo.Op == token.ADD {
					return affine{x.a + y.a, x.b + y.b, x.c + y.c, true}
				}
				return affine{x.a - y.a, x.b - y.b, x.c - y.c, true}
			}
		}
		if cv, ok := v.(*ssa.Convert); ok {
			return eval(cv.X, depth+1)
		}
		return affine{}
	}
	holdsPop := func(v ssa.Value) bool {
		return backwardSliceHasStore(v, func(x ssa.Value) bool { return x == ssa.Value(pop) })
	}
	inLoop := func(b *ssa.BasicBlock) bool {
		return loopVar.Block().Dominates(b) && b != loopVar.Block() && loopVar.Block().Succs[0].Dominates(b)
	}
	laterLoop := false
	for _, b := range dominatedBlocks(h.body) {
		if b == loopVar.Block() || inLoop(b) {
			continue
		}
		for _, p := range b.Preds {
			if b.Dominates(p) && loopVar.Block().Succs[1].Dominates(b) {
				laterLoop = true // another loop after the pop loop (could be a reversal)
			}
		}
	}
	for _, b := range dominatedBlocks(h.body) {
		if !inLoop(b) {
			continue
		}
		for _, in := range b.Instrs {
			switch t := in.(type) {
			case *ssa.Call:
				bi, ok := t.Call.Value.(*ssa.Builtin)
				if !ok || bi.Name() != "append" {
					continue
				}
				a0, a1 := t.Call.Args[0], t.Call.Args[1]
				_, a1phi := a1.(*ssa.Phi)
				_, a0phi := a0.(*ssa.Phi)
				if holdsPop(a0) && a1phi {
					return count, shapeVerdict{Discharged, "each popped argument is put in front of the already collected ones (stack order reversed back to written order)"}
				}
				if a0phi && holdsPop(a1) {
					if laterLoop {
						return count, und("popped arguments are appended behind the collected ones and another loop follows (a reversal?): shape not recognised")
					}
					return count, shapeVerdict{Violated, "popped arguments are appended behind the collected ones: the argument list reaches the function reversed"}
				}
			case *ssa.Store:
				if t.Val != ssa.Value(pop) {
					continue
				}
				ia, ok := t.Addr.(*ssa.IndexAddr)
				if !ok {
					continue
				}
				if _, lit := ia.X.(*ssa.Alloc); lit {
					continue // element of a slice literal: judged at the append that uses it
				}
				mk, isMake := ia.X.(*ssa.MakeSlice)
				if !isMake || !isN0(mk.Len) {
					return count, und("the argument is stored into a list that is not make([]…, count): shape not recognised")
				}
				ix := eval(ia.Index, 0)
				switch {
				case !ix.ok:
					return count, und("the index the popped argument is stored at is not an affine function of the count and the loop variable")
				case ix.a == 1 && ix.b == -1 && ix.c == -1:
					return count, shapeVerdict{Discharged, "the argument popped in iteration j is stored at index count-1-j (stack order reversed back to written order)"}
				case ix.a == 0 && ix.b == 1 && ix.c == 0 && !laterLoop:
					return count, shapeVerdict{Violated, "the argument popped in iteration j is stored at index j: the argument list reaches the function reversed"}
				default:
					return count, und(fmt.Sprintf("the popped argument is stored at index %d·count%+d·j%+d: not recognised", ix.a, ix.b, ix.c))
				}
			}
		}
	}
	return count, und("cannot find how the popped arguments are collected")
}

// backwardSliceHasStore: v is a slice of a fresh array one of whose elements is stored from a value satisfying pred.
func backwardSliceHasStore(v ssa.Value, pred func(ssa.Value) bool) bool {
	sl, ok := v.(*ssa.Slice)
	if !ok {
		return false
	}
	alloc, ok := sl.X.(*ssa.Alloc)
	if !ok {
		return false
	}
	for _, ref := range *alloc.Referrers() {
		if ia, ok := ref.(*ssa.IndexAddr); ok {
			for _, r2 := range *ia.Referrers() {
				if st, ok := r2.(*ssa.Store); ok && pred(st.Val) {
					return true
				}
			}
		}
	}
	return false
}

// ---- GRAM.lex ---------------------------------------------------------------------------------------

var lexOracle = map[string]string{
	"(": "LeftBrace", ")": "RightBrace", "[": "LeftSquareBrace", "]": "RightSquareBrace",
	"+": "Plus", "-": "Minus", "*": "Star", "/": "Slash", "%": "Procent", "^": "Power",
	"=": "Equal", "<>": "NotEqual", "!=": "NotEqual", ">": "More", "<": "Less", ">=": "EqualMore", "<=": "EqualLess",
	"<<": "ShiftLeft", ">>": "ShiftRight", "AND": "And", "OR": "Or", "XOR": "Xor", "NOT": "Not", "IS": "Is",
	"IN": "In", "NULL": "Null", "LIKE": "Like", ",": "Comma",
}

// packageVarLiteral returns the composite-literal elements of a package-level slice variable.
func (c *Ctx) packageVarLiteral(pkgRel, name string) ([]ast.Expr, *types.Info, token.Pos) {
	p := c.Lib[pkgRel]
	if p == nil {
		return nil, nil, token.NoPos
	}
	for _, f := range p.Syntax {
		for _, d := range f.Decls {
			gd, ok := d.(*ast.GenDecl)
			if !ok || gd.Tok != token.VAR {
				continue
			}
			for _, s := range gd.Specs {
				vs := s.(*ast.ValueSpec)
				for i, n := range vs.Names {
					if n.Name == name && i < len(vs.Values) {
						if cl, ok := vs.Values[i].(*ast.CompositeLit); ok {
							return cl.Elts, p.TypesInfo, cl.Pos()
						}
					}
				}
			}
		}
	}
	return nil, nil, token.NoPos
}

var opSymRe = regexp.MustCompile(`Operation (?:unary )?'?([^' ]+)'? is not supported`)

// opsErrorSymbols: for each operator method of AbstractVariantOperations, the operator symbol quoted in its message.
func (c *Ctx) opsErrorSymbols() map[string]string {
	out := map[string]string{}
	for _, f := range c.methodsOfType(pkgVariants, "AbstractVariantOperations") {
		for _, b := range f.Blocks {
			for _, in := range b.Instrs {
				bo, ok := in.(*ssa.BinOp)
				if !ok || bo.Op != token.ADD {
					continue
				}
				if s, ok := constString(bo.X); ok {
					if mm := opSymRe.FindStringSubmatch(s + " "); mm != nil {
						out[f.Name()] = mm[1]
					}
				}
			}
		}
	}
	return out
}

func ruleGramLex(c *Ctx) []*Obligation {
	pm := c.buildParserModel()
	em := c.buildEvalModel()
	o := newObl("GRAM.lex")
	ops, info, pos := c.packageVarLiteral(pkgParsers, "operators")
	typs, info2, _ := c.packageVarLiteral(pkgParsers, "operatorTypes")
	if ops == nil || typs == nil {
		panic(anchorError("operators/operatorTypes tables not found as composite literals"))
	}
	if len(ops) != len(typs) {
		o.bad("parsers.operators#length", c.Pos(pos), fmt.Sprintf("operators has %d entries, operatorTypes %d: lookups past the shorter table index out of range or pair wrongly", len(ops), len(typs)))
		return o.list
	}
	syms := c.opsErrorSymbols()
	seen := map[string]bool{}
	for i := range ops {
		tv := info.Types[ops[i]]
		if tv.Value == nil || tv.Value.Kind() != constant.String {
			o.undecided(fmt.Sprintf("parsers.operators#%d", i), c.Pos(ops[i].Pos()), "non-constant lexeme")
			continue
		}
		lex := constant.StringVal(tv.Value)
		tt := info2.Types[typs[i]]
		var tname string
		if tt.Value != nil {
			if n, ok := constant.Int64Val(tt.Value); ok {
				tname = c.tokName(pm, n)
			}
		}
		key := "parsers.operators#lexeme#" + lex
		seen[lex] = true
		want, known := lexOracle[lex]
		if !known {
			o.bad(key, c.Pos(ops[i].Pos()), "lexeme "+lex+" is not an operator of the language")
			continue
		}
		if tname != want {
			o.bad(key, c.Pos(typs[i].Pos()), fmt.Sprintf("lexeme %q is paired with token type %s, the language defines it as %s", lex, tname, want))
			continue
		}
		// closed loop through the evaluator, where the type has a handler with an operation
		loop := ""
		if k, ok := pm.byName[tname]; ok && len(em.handlers[k]) > 0 && em.handlers[k][0].method != "" {
			meth := em.handlers[k][0].method
			sym := syms[meth]
			alias := sym == lex || (sym == "<>" && lex == "!=") || (strings.EqualFold(sym, lex))
			if sym != "" && !alias {
				o.bad(key, c.Pos(typs[i].Pos()), fmt.Sprintf("lexeme %q → %s → handler invokes %s whose own error message names operator %q", lex, tname, meth, sym))
				continue
			}
			loop = fmt.Sprintf(" → %s (message names %q)", meth, sym)
		}
		o.ok(key, c.Pos(ops[i].Pos()), fmt.Sprintf("%q ↔ %s%s", lex, tname, loop))
	}
	for lex := range lexOracle {
		if !seen[lex] {
			o.bad("parsers.operators#lexeme#"+lex, c.Pos(pos), "operator lexeme "+lex+" is missing from the table")
		}
	}
	return o.list
}

// ---- GRAM.emptycase -----------------------------------------------------------------------------------

func ruleGramEmptyCase(c *Ctx) []*Obligation {
	o := newObl("GRAM.emptycase")
	var rels []string
	for rel := range c.Lib {
		rels = append(rels, rel)
	}
	sort.Strings(rels)
	for _, rel := range rels {
		p := c.Lib[rel]
		for _, file := range p.Syntax {
			var curFunc string
			ast.Inspect(file, func(n ast.Node) bool {
				if fd, ok := n.(*ast.FuncDecl); ok {
					curFunc = fd.Name.Name
					if fd.Recv != nil && len(fd.Recv.List) == 1 {
						curFunc = "(*" + recvTypeName(fd.Recv.List[0].Type) + ")." + curFunc
					}
				}
				sw, ok := n.(*ast.SwitchStmt)
				if !ok || sw.Tag == nil {
					return true
				}
				tagT := p.TypesInfo.TypeOf(sw.Tag)
				if tagT == nil {
					return true
				}
				// switches over token types / variant types: tag is a call to a Type() method or of type VariantType
				isTypeSwitch := false
				if call, ok := sw.Tag.(*ast.CallExpr); ok {
					if sel, ok := call.Fun.(*ast.SelectorExpr); ok && sel.Sel.Name == "Type" {
						isTypeSwitch = true
					}
				}
				if nt, ok := tagT.(*types.Named); ok && nt.Obj().Name() == "VariantType" {
					isTypeSwitch = true
				}
				if !isTypeSwitch {
					return true
				}
				clauses := sw.Body.List
				swKey := fmt.Sprintf("%s.%s#switch(%s)", rel, curFunc, types.ExprString(sw.Tag))
				nSus := 0
				for i, st := range clauses {
					cc := st.(*ast.CaseClause)
					if cc.List == nil || len(cc.Body) != 0 {
						continue
					}
					var labels []string
					for _, e := range cc.List {
						labels = append(labels, types.ExprString(e))
					}
					next := i+1 < len(clauses) && clauses[i+1].(*ast.CaseClause).List != nil
					if next && c.emptyCaseIsSuspicious(clauses, i) {
						nSus++
						o.bad(swKey+"#case#"+strings.Join(labels, ","), c.Pos(cc.Pos()), "empty case "+strings.Join(labels, ",")+" directly precedes a case with a body: Go does not fall through, so this type silently skips the handling written below it")
					}
				}
				if nSus == 0 {
					o.ok(swKey, c.Pos(sw.Pos()), fmt.Sprintf("%d clauses, none is an empty clause in front of a clause with a body", len(clauses)))
				}
				return true
			})
		}
	}
	return o.list
}

// emptyCaseIsSuspicious: the run of empty clauses starting at i ends in a clause with a non-trivial body
// (more than a bare break), i.e. the shape `case A: case B: <work>`.
func (c *Ctx) emptyCaseIsSuspicious(clauses []ast.Stmt, i int) bool {
	for _, st := range clauses[i+1:] {
		cc := st.(*ast.CaseClause)
		if len(cc.Body) == 0 {
			continue
		}
		if len(cc.Body) == 1 {
			if br, ok := cc.Body[0].(*ast.BranchStmt); ok && br.Tok == token.BREAK {
				return false
			}
		}
		return cc.List != nil
	}
	return false
}

func recvNamedFn(g *ssa.Function) string {
	if g.Signature.Recv() == nil {
		return ""
	}
	t := g.Signature.Recv().Type()
	if p, ok := t.(*types.Pointer); ok {
		t = p.Elem()
	}
	if nt, ok := t.(*types.Named); ok {
		return nt.Obj().Name()
	}
	return ""
}
