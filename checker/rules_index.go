package main

import (
	"fmt"
	"go/token"
	"go/types"
	"sort"
	"strings"

	"golang.org/x/tools/go/ssa"
)

// ---------------------------------------------------------------------------------------------
// PANIC.index — every index / slice expression in the untrusted region is provably in range.
// DIM — byte counts are never used to index rune slices.
// ---------------------------------------------------------------------------------------------

func init() {
	register(&Rule{ID: "PANIC.index", Floor: 40,
		Doc: "every index and slice expression reachable from untrusted input is provably within bounds: constant index into a constant-length array, range/for idiom, dominating 0 <= i and i < len(same slice) tests (pure-load congruence), len(s)-k under len(s) >= k, verified field invariants (non-negative cursor, constant table length), or accessor wrappers whose obligation is discharged at their call sites",
		Run: rulePanicIndex})
	register(&Rule{ID: "DIM.runes", Floor: 6,
		Doc: "byte/rune dimension: a []rune(s) slice is indexed or sliced only with rune counts (len of that rune slice, constants), never with len(s) of the string it was converted from (a byte count)",
		Run: ruleDimRunes})
}

type idxSite struct {
	fn    *ssa.Function
	instr ssa.Instruction
	base  ssa.Value
	idx   ssa.Value // nil for slice sites
	lo    ssa.Value
	hi    ssa.Value
	kind  string
}

func (c *Ctx) indexSites(fn *ssa.Function) []idxSite {
	var out []idxSite
	for _, b := range fn.Blocks {
		for _, in := range b.Instrs {
			switch x := in.(type) {
			case *ssa.IndexAddr:
				out = append(out, idxSite{fn: fn, instr: x, base: x.X, idx: x.Index, kind: "index"})
			case *ssa.Index:
				out = append(out, idxSite{fn: fn, instr: x, base: x.X, idx: x.Index, kind: "index"})
			case *ssa.Lookup:
				if _, isMap := x.X.Type().Underlying().(*types.Map); !isMap {
					out = append(out, idxSite{fn: fn, instr: x, base: x.X, idx: x.Index, kind: "index"})
				}
			case *ssa.Slice:
				if x.Low != nil || x.High != nil {
					out = append(out, idxSite{fn: fn, instr: x, base: x.X, lo: x.Low, hi: x.High, kind: "slice"})
				}
			}
		}
	}
	return out
}

// arrayLen returns the static length if base is (a pointer to) an array.
func arrayLen(t types.Type) (int64, bool) {
	if p, ok := t.Underlying().(*types.Pointer); ok {
		t = p.Elem()
	}
	if a, ok := t.Underlying().(*types.Array); ok {
		return a.Len(), true
	}
	return 0, false
}

type boundsProver struct {
	c       *Ctx
	fn      *ssa.Function
	ex      *exprCtx
	eqDepth bool
}

// isLenOf: v == len(base') with base' congruent to base.
func (p *boundsProver) isLenOf(v, base ssa.Value) bool {
	call, ok := stripConv(v).(*ssa.Call)
	if !ok {
		return false
	}
	bi, ok := call.Call.Value.(*ssa.Builtin)
	if !ok || bi.Name() != "len" {
		return false
	}
	return p.c.sameValue(call.Call.Args[0], base)
}

// lenMinusK: v == len(base) - k, returns k.
func (p *boundsProver) lenMinusK(v, base ssa.Value) (int64, bool) {
	bo, ok := stripConv(v).(*ssa.BinOp)
	if !ok || bo.Op != token.SUB {
		return 0, false
	}
	k, isK := constInt(bo.Y)
	if !isK || !p.isLenOf(bo.X, base) {
		return 0, false
	}
	return k, true
}

// lenAtLeast: the largest m such that a dominating guard proves len(base) >= m at `at`.
func (p *boundsProver) lenAtLeast(base ssa.Value, at ssa.Instruction) int64 {
	best := int64(0)
	for _, g := range guardsAt(at.Block()) {
		cond, truth := g.atom()
		bo, ok := cond.(*ssa.BinOp)
		if !ok {
			continue
		}
		x, y, op := bo.X, bo.Y, bo.Op
		if _, isC := x.(*ssa.Const); isC {
			x, y = y, x
			if m, ok := mirrored[op]; ok {
				op = m
			}
		}
		if !p.isLenOf(x, base) {
			continue
		}
		k, isK := constInt(y)
		if !isK {
			continue
		}
		if !truth {
			op = negateOp(op)
		}
		var m int64
		switch op {
		case token.GEQ:
			m = k
		case token.GTR:
			m = k + 1
		case token.NEQ:
			if k == 0 {
				m = 1
			}
		case token.EQL:
			m = k
		}
		if m > best {
			best = m
		}
	}
	return best
}

// nonNegative: v >= 0 at `at`.
func (p *boundsProver) nonNegative(v ssa.Value, at ssa.Instruction, depth int) (bool, string) {
	if depth == 0 {
		return false, ""
	}
	v0 := v
	v = stripConv(v)
	if k, ok := constInt(v); ok {
		return k >= 0, "constant"
	}
	// conversion from an unsigned or rune-from-string source is handled by guards below
	_, nn, _ := p.c.numericGuards(v, at)
	if nn {
		return true, "dominating test >= 0"
	}
	if v0 != v {
		if _, nn2, _ := p.c.numericGuards(v0, at); nn2 {
			return true, "dominating test >= 0"
		}
	}
	if prm, ok := v.(*ssa.Parameter); ok && prm.Parent() == p.fn {
		e := p.c.tagEngine()
		region := p.c.untrustedRegion()
		pi := paramIndex(p.fn, prm)
		n, all := 0, true
		for _, ci := range e.callers[p.fn] {
			if !region[ci.Parent()] {
				continue
			}
			n++
			q := &boundsProver{c: p.c, fn: ci.Parent(), ex: p.c.newExpr(ci.Parent())}
			if ok2, _ := q.nonNegative(ci.Common().Args[pi], ci, depth-1); !ok2 {
				all = false
			}
		}
		if n > 0 && all {
			return true, fmt.Sprintf("parameter: all %d in-region callers pass a non-negative value", n)
		}
	}
	switch x := v.(type) {
	case *ssa.BinOp:
		switch x.Op {
		case token.ADD:
			a, wa := p.nonNegative(x.X, at, depth-1)
			b, wb := p.nonNegative(x.Y, at, depth-1)
			if a && b {
				return true, "sum of non-negatives (" + wa + ", " + wb + ")"
			}
			// range index: phi[-1, self] + 1
			if k, ok := constInt(x.Y); ok && k == 1 {
				if phi, ok := x.X.(*ssa.Phi); ok {
					okAll := true
					for _, e := range phi.Edges {
						if ke, isK := constInt(e); isK && ke >= -1 {
							continue
						}
						if e == ssa.Value(x) {
							continue
						}
						okAll = false
					}
					if okAll {
						return true, "range index"
					}
				}
			}
		case token.SUB:
			// len(s) - k with len(s) >= k
			if call, ok := stripConv(x.X).(*ssa.Call); ok {
				if bi, ok := call.Call.Value.(*ssa.Builtin); ok && bi.Name() == "len" {
					if k, isK := constInt(x.Y); isK && p.lenAtLeast(call.Call.Args[0], at) >= k {
						return true, fmt.Sprintf("len-%d under len >= %d", k, k)
					}
				}
			}
		}
	case *ssa.Phi:
		// loop counter: starts at a non-negative constant and is only incremented
		okAll := true
		for _, e := range x.Edges {
			if ke, isK := constInt(e); isK && ke >= 0 {
				continue
			}
			if bo, ok := e.(*ssa.BinOp); ok && bo.Op == token.ADD && bo.X == ssa.Value(x) {
				if k, isK := constInt(bo.Y); isK && k >= 0 {
					continue
				}
			}
			if ok2, _ := p.nonNegative(e, x.Block().Preds[0].Instrs[0], depth-1); ok2 && !isPhiSelfRef(e, x) {
				continue
			}
			okAll = false
		}
		if okAll {
			return true, "counter starting at a non-negative value and only incremented"
		}
	case *ssa.UnOp:
		if x.Op == token.MUL {
			if fa, ok := x.X.(*ssa.FieldAddr); ok {
				if p.c.nonNegativeField(fa) {
					return true, "field " + fieldName(fa.X.Type(), fa.Field) + " is a non-negative counter (every store is a constant >= 0 or old + non-negative)"
				}
			}
		}
	case *ssa.Call:
		if bi, ok := x.Call.Value.(*ssa.Builtin); ok && bi.Name() == "len" {
			return true, "len()"
		}
		if g := x.Call.StaticCallee(); g != nil && p.c.InModule(g) {
			if lo, ok := p.c.resultLowerBound(g); ok && lo >= 0 {
				return true, "result range of " + g.Name()
			}
		}
	}
	if at != nil && p.dbmNonNegative(v0, at) {
		return true, "difference bounds (definitions, loop induction and dominating tests give 0 <= i)"
	}
	return false, ""
}

func isPhiSelfRef(e ssa.Value, phi *ssa.Phi) bool {
	return backwardSliceHas(e, func(v ssa.Value) bool { return v == ssa.Value(phi) })
}

var nonNegFieldMemo = map[string]int{}

// nonNegativeField: every store to this struct field in the module is a constant >= 0 or old + non-negative.
func (c *Ctx) nonNegativeField(fa *ssa.FieldAddr) bool {
	st := fa.X.Type().Underlying().(*types.Pointer).Elem()
	key := st.String() + "." + fieldName(fa.X.Type(), fa.Field)
	if v, ok := nonNegFieldMemo[key]; ok {
		return v == 1
	}
	nonNegFieldMemo[key] = 2
	good := true
	for _, fn := range c.AllLibFuncs() {
		for _, b := range fn.Blocks {
			for _, in := range b.Instrs {
				store, ok := in.(*ssa.Store)
				if !ok {
					continue
				}
				fa2, ok := store.Addr.(*ssa.FieldAddr)
				if !ok || fa2.Field != fa.Field || !types.Identical(fa2.X.Type(), fa.X.Type()) {
					continue
				}
				if k, isK := constInt(store.Val); isK {
					if k < 0 {
						good = false
					}
					continue
				}
				// old + nonneg
				bo, ok := store.Val.(*ssa.BinOp)
				okStore := false
				if ok && bo.Op == token.ADD {
					if ld, ok := bo.X.(*ssa.UnOp); ok && ld.Op == token.MUL {
						if fa3, ok := ld.X.(*ssa.FieldAddr); ok && fa3.Field == fa.Field {
							if k, isK := constInt(bo.Y); isK && k >= 0 {
								okStore = true
							}
							if call, ok := bo.Y.(*ssa.Call); ok {
								if bi, ok := call.Call.Value.(*ssa.Builtin); ok && bi.Name() == "len" {
									okStore = true
								}
							}
						}
					}
				}
				if !okStore {
					good = false
				}
			}
		}
	}
	// composite-literal initialisation leaves the zero value: fine
	if good {
		nonNegFieldMemo[key] = 1
	}
	return good
}

// resultLowerBound: smallest value a module int function can return (from its return statements).
func (c *Ctx) resultLowerBound(fn *ssa.Function) (int64, bool) {
	if fn.Blocks == nil || fn.Signature.Results().Len() != 1 {
		return 0, false
	}
	lo := int64(1 << 62)
	for _, ret := range returnsOf(fn) {
		for _, leaf := range phiLeaves(ret.Results[0]) {
			if k, ok := constInt(leaf); ok {
				if k < lo {
					lo = k
				}
				continue
			}
			// range index / counter
			p := &boundsProver{c: c, fn: fn}
			if ok, _ := p.nonNegative(leaf, ret, 4); ok {
				if 0 < lo {
					lo = 0
				}
				continue
			}
			return 0, false
		}
	}
	return lo, true
}

// upperBounded: v < len(base) (strict=true) or v <= len(base) at `at`.
func (p *boundsProver) upperBounded(v, base ssa.Value, at ssa.Instruction, strict bool) (bool, string) {
	v0 := v
	v = stripConv(v)
	// static array length
	if n, ok := arrayLen(base.Type()); ok {
		if k, isK := constInt(v); isK {
			if (strict && k < n) || (!strict && k <= n) {
				return true, "constant index into array of constant length"
			}
			return false, ""
		}
	}
	if k, ok := p.lenMinusK(v, base); ok {
		if (strict && k >= 1) || (!strict && k >= 0) {
			return true, fmt.Sprintf("len-%d", k)
		}
	}
	if !strict && p.isLenOf(v, base) {
		return true, "len()"
	}
	if k, isK := constInt(v); isK {
		need := k
		if strict {
			need = k + 1
		}
		if p.lenAtLeast(base, at) >= need {
			return true, fmt.Sprintf("constant %d under len >= %d", k, need)
		}
		if fl, ok := p.c.constLenField(base); ok && fl >= need {
			return true, fmt.Sprintf("constant %d, field always holds make(_, %d)", k, fl)
		}
	}
	// same length as another slice for which the bound holds: len(A) == len(base) on this path
	for _, g := range guardsAt(at.Block()) {
		cond, truth := g.atom()
		bo, ok := cond.(*ssa.BinOp)
		if !ok || (bo.Op != token.EQL && bo.Op != token.NEQ) || (bo.Op == token.EQL) != truth {
			continue
		}
		for _, pair := range [][2]ssa.Value{{bo.X, bo.Y}, {bo.Y, bo.X}} {
			if !p.isLenOf(pair[1], base) {
				continue
			}
			if call, ok := stripConv(pair[0]).(*ssa.Call); ok {
				if bi, ok := call.Call.Value.(*ssa.Builtin); ok && bi.Name() == "len" && !p.c.sameValue(call.Call.Args[0], base) && !p.eqDepth {
					p.eqDepth = true
					ok2, why := p.upperBounded(v0, call.Call.Args[0], at, strict)
					p.eqDepth = false
					if ok2 {
						return true, "same length as " + p.ex.str(call.Call.Args[0]) + " (tested equal), where " + why
					}
				}
			}
		}
	}
	// range index over the same slice: idx = phi+1 with loop test idx < len(base)
	for _, g := range guardsAt(at.Block()) {
		cond, truth := g.atom()
		bo, ok := cond.(*ssa.BinOp)
		if !ok {
			continue
		}
		x, y, op := bo.X, bo.Y, bo.Op
		if !truth {
			op = negateOp(op)
		}
		matchV := func(a ssa.Value) bool { return p.c.sameValue(a, v) || p.c.sameValue(a, v0) }
		// v < len(base) / v <= len(base)-1 ...
		if matchV(x) {
			if p.isLenOf(y, base) && (op == token.LSS || (!strict && op == token.LEQ)) {
				return true, "dominating test i < len"
			}
			if k, ok := p.lenMinusK(y, base); ok && ((op == token.LEQ && k >= 1) || (op == token.LSS && k >= 0)) {
				return true, "dominating test against len-k"
			}
			if k, isK := constInt(y); isK && (op == token.LSS || op == token.LEQ) {
				lim := k
				if op == token.LEQ {
					lim = k + 1
				}
				// v < lim <= len
				if fl, ok := p.c.constLenField(base); ok && lim <= fl {
					return true, fmt.Sprintf("i < %d and the field always holds make(_, %d)", lim, fl)
				}
				if n, ok := arrayLen(base.Type()); ok && lim <= n {
					return true, "i < const <= array length"
				}
			}
			// v < n where n is a local equal to len(base)
			if phiLenAlias(y, func(a ssa.Value) bool { return p.isLenOf(a, base) }) && (op == token.LSS) {
				return true, "dominating test i < n, n = len"
			}
		}
		if matchV(y) {
			if p.isLenOf(x, base) && (op == token.GTR || (!strict && op == token.GEQ)) {
				return true, "dominating test len > i"
			}
		}
		// len >= i + 1
		if add, ok := y.(*ssa.BinOp); ok && add.Op == token.ADD && matchV(add.X) && p.isLenOf(x, base) {
			if k, isK := constInt(add.Y); isK && ((op == token.GEQ && k >= 1) || (op == token.GTR && k >= 0)) {
				return true, "dominating test len >= i+1"
			}
		}
	}
	// index returned by a module search function over the same receiver field: -1 or a range index below len(field)
	if call, ok := v.(*ssa.Call); ok {
		if g := call.Call.StaticCallee(); g != nil && p.c.InModule(g) && g.Signature.Recv() != nil {
			if ld, ok := base.(*ssa.UnOp); ok && ld.Op == token.MUL {
				if fa, ok := ld.X.(*ssa.FieldAddr); ok && len(call.Call.Args) > 0 && p.c.sameValue(fa.X, call.Call.Args[0]) {
					if p.c.returnsIndexBelowLenOfField(g, fa.Field) {
						// no store to the field between the call and the use
						if !p.c.fieldStoredBetween(p.fn, call, at, fa.Field) {
							return true, "result of " + g.Name() + "(): -1 or an index below len of the same field"
						}
					}
				}
			}
		}
	}
	if p.dbmBelowLen(v0, base, at, strict) {
		return true, "difference bounds (definitions, loop induction and dominating tests bound i by len)"
	}
	return false, ""
}

// returnsIndexBelowLenOfField: every non-constant return of g is a range index i with i < len(recv.field).
func (c *Ctx) returnsIndexBelowLenOfField(g *ssa.Function, field int) bool {
	if g.Blocks == nil || len(g.Params) == 0 {
		return false
	}
	p := &boundsProver{c: c, fn: g, ex: c.newExpr(g)}
	for _, ret := range returnsOf(g) {
		for _, leaf := range phiLeaves(ret.Results[0]) {
			if _, isK := constInt(leaf); isK {
				continue
			}
			okLeaf := false
			for _, gd := range guardsAt(ret.Block()) {
				cond, truth := gd.atom()
				bo, ok := cond.(*ssa.BinOp)
				if !ok || !truth || bo.Op != token.LSS || bo.X != leaf {
					continue
				}
				if call, ok := bo.Y.(*ssa.Call); ok {
					if bi, ok := call.Call.Value.(*ssa.Builtin); ok && bi.Name() == "len" {
						if ld, ok := call.Call.Args[0].(*ssa.UnOp); ok {
							if fa, ok := ld.X.(*ssa.FieldAddr); ok && fa.Field == field && fa.X == ssa.Value(g.Params[0]) {
								okLeaf = true
							}
						}
					}
				}
			}
			if !okLeaf {
				return false
			}
		}
	}
	_ = p
	return true
}

func (c *Ctx) fieldStoredBetween(fn *ssa.Function, from, to ssa.Instruction, field int) bool {
	for _, b := range fn.Blocks {
		for _, in := range b.Instrs {
			if st, ok := in.(*ssa.Store); ok {
				if fa, ok := st.Addr.(*ssa.FieldAddr); ok && fa.Field == field {
					if instrDominates(from, in) && instrDominates(in, to) {
						return true
					}
				}
			}
		}
	}
	return false
}

func phiLenAlias(v ssa.Value, isLen func(ssa.Value) bool) bool {
	return isLen(v)
}

var constLenMemo = map[string]int64{}

// constLenField: base is a load of a struct field that is only ever assigned make(T, K) with constant K.
func (c *Ctx) constLenField(base ssa.Value) (int64, bool) {
	ld, ok := base.(*ssa.UnOp)
	if !ok || ld.Op != token.MUL {
		return 0, false
	}
	fa, ok := ld.X.(*ssa.FieldAddr)
	if !ok {
		return 0, false
	}
	key := fa.X.Type().String() + "." + fieldName(fa.X.Type(), fa.Field)
	if v, ok := constLenMemo[key]; ok {
		return v, v > 0
	}
	var length int64 = -1
	good := true
	for _, fn := range c.AllLibFuncs() {
		for _, b := range fn.Blocks {
			for _, in := range b.Instrs {
				store, ok := in.(*ssa.Store)
				if !ok {
					continue
				}
				fa2, ok := store.Addr.(*ssa.FieldAddr)
				if !ok || fa2.Field != fa.Field || !types.Identical(fa2.X.Type(), fa.X.Type()) {
					continue
				}
				ms, ok := store.Val.(*ssa.MakeSlice)
				if !ok {
					// slice of a fresh constant-length array (make with constant size is lowered to new [K]T + slice)
					if sl, ok := store.Val.(*ssa.Slice); ok {
						if al, ok := sl.X.(*ssa.Alloc); ok && sl.Low == nil {
							if n, ok := arrayLen(al.Type()); ok {
								if sl.High != nil {
									hk, isK := constInt(sl.High)
									if !isK || hk > n {
										good = false
										continue
									}
									n = hk
								}
								if length == -1 || length == n {
									length = n
									continue
								}
							}
						}
					}
					good = false
					continue
				}
				k, isK := constInt(ms.Len)
				if !isK || (length != -1 && length != k) {
					good = false
					continue
				}
				length = k
			}
		}
	}
	if !good || length <= 0 {
		constLenMemo[key] = 0
		return 0, false
	}
	constLenMemo[key] = length
	return length, true
}

func rulePanicIndex(c *Ctx) []*Obligation {
	o := newObl("PANIC.index")
	region := c.untrustedRegion()
	var fns []*ssa.Function
	for fn := range region {
		if fn.Blocks != nil {
			fns = append(fns, fn)
		}
	}
	sort.Slice(fns, func(i, j int) bool { return c.FuncKey(fns[i]) < c.FuncKey(fns[j]) })
	for _, fn := range fns {
		p := &boundsProver{c: c, fn: fn, ex: c.newExpr(fn)}
		cnt := map[string]int{}
		for _, s := range c.indexSites(fn) {
			desc := p.ex.str(s.base)
			if len(desc) > 40 {
				desc = desc[:40] + "…"
			}
			base := fmt.Sprintf("%s#%s#%s", c.FuncKey(fn), s.kind, desc)
			cnt[base]++
			key := fmt.Sprintf("%s#%d", base, cnt[base])
			pos := c.Pos(s.instr.Pos())
			if s.kind == "index" {
				if _, isArr := arrayLen(s.base.Type()); isArr {
					if _, isK := constInt(s.idx); isK {
						if ok, why := p.upperBounded(s.idx, s.base, s.instr, true); ok {
							o.triv(key, pos, why)
							continue
						}
					}
				}
				// accessor wrapper: base and index are both parameters → obligation at the call sites
				if paramIndex(fn, s.base) >= 0 && paramIndex(fn, s.idx) >= 0 && fn.Signature.Recv() == nil {
					ok, why := c.wrapperCallersInBounds(fn, paramIndex(fn, s.base), paramIndex(fn, s.idx))
					if ok {
						o.ok(key, pos, "accessor wrapper: "+why)
					} else {
						o.bad(key, pos, "accessor wrapper indexes its slice argument unchecked and "+why)
					}
					continue
				}
				lo, wlo := p.nonNegative(s.idx, s.instr, 5)
				hi, whi := p.upperBounded(s.idx, s.base, s.instr, true)
				if lo && hi {
					o.ok(key, pos, "0 <= i: "+wlo+"; i < len: "+whi)
					continue
				}
				if why, ok := c.indexReviewed(fn, s, p); ok {
					o.reviewed(key, pos, why)
					continue
				}
				var miss []string
				if !lo {
					miss = append(miss, "no proof that the index "+p.ex.str(s.idx)+" is non-negative")
				}
				if !hi {
					miss = append(miss, "no proof that the index "+p.ex.str(s.idx)+" is below len("+desc+")")
				}
				o.bad(key, pos, strings.Join(miss, "; ")+": an out-of-range index panics")
				continue
			}
			// slice expression: 0 <= lo <= hi <= len
			var miss []string
			if s.lo != nil {
				if ok, _ := p.nonNegative(s.lo, s.instr, 5); !ok {
					miss = append(miss, "low bound "+p.ex.str(s.lo)+" not proved non-negative")
				}
				if s.hi == nil {
					if ok, _ := p.upperBounded(s.lo, s.base, s.instr, false); !ok {
						miss = append(miss, "low bound "+p.ex.str(s.lo)+" not proved <= len")
					}
				}
			}
			if s.hi != nil {
				if ok, _ := p.upperBounded(s.hi, s.base, s.instr, false); !ok {
					miss = append(miss, "high bound "+p.ex.str(s.hi)+" not proved <= len")
				}
				if s.lo != nil {
					// lo <= hi: constants vs len-k
					lk, lIsK := constInt(s.lo)
					if k, ok := p.lenMinusK(s.hi, s.base); ok && lIsK {
						if p.lenAtLeast(s.base, s.instr) < lk+k && !p.dbmLeq(s.lo, s.hi, s.instr) {
							miss = append(miss, fmt.Sprintf("low %d may exceed high len-%d", lk, k))
						}
					} else if !(lIsK && lk == 0) && !p.c.sameValue(s.lo, s.hi) {
						if ok, _ := p.loLeqHi(s.lo, s.hi, s.instr); !ok {
							miss = append(miss, "low bound not proved <= high bound")
						}
					}
				} else {
					if ok, _ := p.nonNegative(s.hi, s.instr, 5); !ok {
						miss = append(miss, "high bound "+p.ex.str(s.hi)+" not proved non-negative")
					}
				}
			}
			if len(miss) == 0 {
				o.ok(key, pos, "slice bounds within 0 <= low <= high <= len")
			} else if why, ok := c.indexReviewed(fn, s, p); ok {
				o.reviewed(key, pos, why)
			} else {
				o.bad(key, pos, strings.Join(miss, "; ")+": the slice expression can panic")
			}
		}
	}
	return o.list
}

func (p *boundsProver) loLeqHi(lo, hi ssa.Value, at ssa.Instruction) (bool, string) {
	// hi = lo + nonneg
	if bo, ok := stripConv(hi).(*ssa.BinOp); ok && bo.Op == token.ADD && p.c.sameValue(bo.X, lo) {
		if ok2, _ := p.nonNegative(bo.Y, at, 3); ok2 {
			return true, "high = low + non-negative"
		}
	}
	if p.dbmLeq(lo, hi, at) {
		return true, "difference bounds give low <= high"
	}
	return false, ""
}

// wrapperCallersInBounds: for `func f(ps []T, k int) T { return ps[k] }` every in-region call passes a constant k
// with len(ps) > k established on the path (FUNC.arity proves this per calculator by abstract interpretation
// over the argument count), or an index guarded at the call site.
func (c *Ctx) wrapperCallersInBounds(fn *ssa.Function, bi, ii int) (bool, string) {
	e := c.tagEngine()
	region := c.untrustedRegion()
	n := 0
	for _, ci := range e.callers[fn] {
		if !region[ci.Parent()] {
			continue
		}
		n++
		base, idx := ci.Common().Args[bi], ci.Common().Args[ii]
		p := &boundsProver{c: c, fn: ci.Parent(), ex: c.newExpr(ci.Parent())}
		if k, isK := constInt(idx); isK {
			// len(base) > k: by a dominating guard, or by FUNC.arity's abstract interpretation
			if p.lenAtLeast(base, ci) >= k+1 {
				continue
			}
			if ok, _ := c.arityProves(ci.Parent(), ci, k); ok {
				continue
			}
			return false, fmt.Sprintf("the call in %s (%s) reads element %d without len > %d being established", c.FuncKey(ci.Parent()), c.Pos(ci.Pos()), k, k)
		}
		lo, _ := p.nonNegative(idx, ci, 5)
		hi, _ := p.upperBounded(idx, base, ci, true)
		if !(lo && hi) {
			return false, fmt.Sprintf("the call in %s (%s) passes index %s without 0 <= i < len (lower %v, upper %v)", c.FuncKey(ci.Parent()), c.Pos(ci.Pos()), p.ex.str(idx), lo, hi)
		}
	}
	return true, fmt.Sprintf("all %d in-region call sites establish 0 <= k < len first", n)
}

// indexReviewed: reviewed instances, each keyed to one construct with a re-verified fingerprint.
func (c *Ctx) indexReviewed(fn *ssa.Function, s idxSite, p *boundsProver) (string, bool) {
	fk := c.FuncKey(fn)
	switch {
	case strings.HasSuffix(fk, "(*ExpressionParser).completeLexicalAnalysis"):
		// operatorTypes[i] under i < len(operators): the two tables have equal literal length (GRAM.lex)
		if ld, ok := s.base.(*ssa.UnOp); ok {
			if g, ok := ld.X.(*ssa.Global); ok && g.Name() == "operatorTypes" {
				ops, _, _ := c.packageVarLiteral(pkgParsers, "operators")
				typs, _, _ := c.packageVarLiteral(pkgParsers, "operatorTypes")
				lo, _ := p.nonNegative(s.idx, s.instr, 5)
				if len(ops) == len(typs) && len(ops) > 0 && lo && c.globalNeverStored(g) {
					// index guarded by i < len(operators)
					for _, gd := range guardsAt(s.instr.Block()) {
						cond, truth := gd.atom()
						if bo, ok := cond.(*ssa.BinOp); ok && bo.Op == token.LSS && truth && c.sameValue(bo.X, s.idx) {
							return "reviewed: index < len(operators) and len(operators) == len(operatorTypes) (both literal tables, never reassigned; lengths re-verified)", true
						}
					}
				}
			}
		}
	case strings.HasSuffix(fk, "(*SymbolRootNode).Add"):
		// v[0] where v = []rune(value) and value != "" (panic guard above): a non-empty string has at least one rune
		if cv, ok := s.base.(*ssa.Convert); ok {
			for _, gd := range guardsAt(s.instr.Block()) {
				cond, truth := gd.atom()
				if bo, ok := cond.(*ssa.BinOp); ok && bo.X == cv.X {
					if str, isS := constString(bo.Y); isS && str == "" && (bo.Op == token.NEQ) == truth {
						return "reviewed: []rune(value) of a string tested non-empty has length >= 1 (language fact); guard value != \"\" re-verified", true
					}
				}
			}
		}
	case strings.HasSuffix(fk, "(*CharReferenceMap).AddInterval"):
		// initialInterval[index], index from int(start) upwards, index < 0x100 in the loop condition; start >= 0 is the API's
		// character contract (all in-module callers pass constants >= 0 or characters): see PANIC.explicit intervalFamilyOrdered
		if hi, _ := p.upperBounded(s.idx, s.base, s.instr, true); hi {
			if why, ok := c.intervalFamilyOrdered(); ok {
				return "reviewed: upper bound proved (index < 0x100 = table length); the lower bound is the start character, which every in-module caller passes as a constant >= 0 or a character (" + why + ")", true
			}
		}
	}
	return "", false
}

func (c *Ctx) globalNeverStored(g *ssa.Global) bool {
	for _, fn := range c.AllLibFuncs() {
		if fn.Name() == "init" {
			continue
		}
		for _, b := range fn.Blocks {
			for _, in := range b.Instrs {
				if st, ok := in.(*ssa.Store); ok && st.Addr == ssa.Value(g) {
					return false
				}
			}
		}
	}
	return true
}

// ---- DIM.runes ------------------------------------------------------------------------------------------

func ruleDimRunes(c *Ctx) []*Obligation {
	o := newObl("DIM.runes")
	for _, fn := range c.AllLibFuncs() {
		ex := c.newExpr(fn)
		n := 0
		for _, s := range c.indexSites(fn) {
			cv, ok := s.base.(*ssa.Convert)
			if !ok {
				continue
			}
			// base = []rune(str)
			sl, isSlice := cv.Type().Underlying().(*types.Slice)
			if !isSlice {
				continue
			}
			if b, ok := sl.Elem().Underlying().(*types.Basic); !ok || b.Kind() != types.Int32 {
				continue
			}
			if b, ok := cv.X.Type().Underlying().(*types.Basic); !ok || b.Info()&types.IsString == 0 {
				continue
			}
			n++
			key := fmt.Sprintf("%s#runes(%s)#%d", c.FuncKey(fn), ex.str(cv.X), n)
			usesByteLen := func(v ssa.Value) bool {
				if v == nil {
					return false
				}
				return backwardSliceHas(v, func(x ssa.Value) bool {
					call, ok := x.(*ssa.Call)
					if !ok {
						return false
					}
					bi, ok := call.Call.Value.(*ssa.Builtin)
					if !ok || bi.Name() != "len" {
						return false
					}
					a := call.Call.Args[0]
					if b, ok := a.Type().Underlying().(*types.Basic); ok && b.Info()&types.IsString != 0 {
						return true // len of a string: bytes
					}
					return false
				})
			}
			if usesByteLen(s.idx) || usesByteLen(s.lo) || usesByteLen(s.hi) {
				o.bad(key, c.Pos(s.instr.Pos()), "the rune slice []rune("+ex.str(cv.X)+") is indexed with a value derived from len(<string>) — a byte count: for any non-ASCII text the index is past the end (panic) or points at the wrong character")
			} else {
				o.ok(key, c.Pos(s.instr.Pos()), "indexed with rune counts / constants only")
			}
		}
	}
	return o.list
}

// arityProves is provided by FUNC.arity: on every path of calculator fn that reaches `at`, the argument count
// exceeds k.
func (c *Ctx) arityProves(fn *ssa.Function, at ssa.CallInstruction, k int64) (bool, string) {
	return c.funcArityReaches(fn, at, k)
}
