package main

import (
	"fmt"
	"go/constant"
	"go/token"
	"sort"
	"strings"

	"golang.org/x/tools/go/ssa"
)

// ---------------------------------------------------------------------------------------------
// OPT — the post-processing chain of AbstractTokenizer.ReadNextToken (C15), POS.stale (C12)
//
// The loop body compares token types, option flags, the last token type and one type assertion
// only against constants, so one iteration is evaluated abstractly for every element of the finite
// partition (token class × state kind × last type × 2^7 options). Nothing is run: the "token" is
// a symbol with an abstract type, its text is never inspected (a branch on it is reported).
// ---------------------------------------------------------------------------------------------

type mlScenario struct {
	eof      bool
	stateNil bool
	tokNil   bool
	tokEmpty bool
	typ      int64
	isQuote  bool
	last     int64
	opts     map[string]bool
}

type mlToken struct {
	isNil bool
	empty bool
	typ   int64
	val   string // "raw", "decoded(raw)", `" "`, "char(read)", `""`, …
	fresh bool   // built by NewToken in this simulation
	line  string
	col   string
}

type mlResult struct {
	outcome    string // "skip", "emit", "none", "opaque"
	tok        *mlToken
	lastWrites []int64
	finalLast  int64
	reads      int
	why        string
	decodeArg  string
	ops        []string // scanner movements in order: NextToken, Read, Unread, UnreadMany
}

// every simulated scenario of the main loop, kept for the rules that are derived from the model
type mlRun struct {
	sc  mlScenario
	res mlResult
}

var mlLog []mlRun

// mainLoopRuns returns the scenario log (filled by OPT.chain's exhaustive enumeration).
func (c *Ctx) mainLoopRuns() []mlRun {
	runRule(c, "OPT.chain")
	return mlLog
}

func (sc mlScenario) group(names map[int64]string) string {
	switch {
	case sc.eof:
		return "end of input"
	case sc.stateNil:
		return "character without a state"
	case sc.tokNil:
		return "state returns no token"
	case sc.tokEmpty:
		return "state returns an empty token"
	}
	q := ""
	if sc.isQuote {
		q = " from the quote state"
	}
	return names[sc.typ] + " token" + q
}

type mlVal struct {
	kind string // "int","bool","tok","str","char","state","pos","quote","iface","tuple","unknown","self","scanner"
	n    int64
	b    bool
	tok  *mlToken
	s    string
	nilv bool
	tup  []mlVal
}

var optionFields = []string{"skipUnknown", "skipWhitespaces", "skipComments", "skipEof", "mergeWhitespaces", "unifyNumbers", "decodeStrings"}

func (c *Ctx) simulateMainLoop(fn *ssa.Function, sc mlScenario) (out mlResult) {
	defer func() { mlLog = append(mlLog, mlRun{sc, out}) }()
	return c.simulateMainLoop1(fn, sc)
}

func (c *Ctx) simulateMainLoop1(fn *ssa.Function, sc mlScenario) mlResult {
	res := mlResult{finalLast: sc.last}
	env := map[ssa.Value]mlVal{}
	last := sc.last
	var header *ssa.BasicBlock
	for _, h := range fn.Blocks {
		for _, p := range h.Preds {
			if h.Dominates(p) && header == nil {
				header = h
			}
		}
	}
	// natural loop of the header: blocks from which a back edge is reachable without passing the header
	loopBlocks := map[*ssa.BasicBlock]bool{}
	if header != nil {
		var stack []*ssa.BasicBlock
		for _, p := range header.Preds {
			if header.Dominates(p) && !loopBlocks[p] {
				loopBlocks[p] = true
				stack = append(stack, p)
			}
		}
		for len(stack) > 0 {
			b := stack[len(stack)-1]
			stack = stack[:len(stack)-1]
			if b == header {
				continue
			}
			for _, p := range b.Preds {
				if !loopBlocks[p] {
					loopBlocks[p] = true
					stack = append(stack, p)
				}
			}
		}
		loopBlocks[header] = true
	}
	type mlFrame struct {
		call *ssa.Call
		blk  *ssa.BasicBlock
		idx  int
		pred *ssa.BasicBlock
	}
	var frames []mlFrame
	iter := 0
	var eval func(v ssa.Value) mlVal
	eval = func(v ssa.Value) mlVal {
		if mv, ok := env[v]; ok {
			return mv
		}
		switch t := v.(type) {
		case *ssa.Const:
			if t.Value == nil {
				return mlVal{kind: "nil", nilv: true}
			}
			switch t.Value.Kind() {
			case constant.Bool:
				return mlVal{kind: "bool", b: constant.BoolVal(t.Value)}
			case constant.Int:
				n, _ := constant.Int64Val(t.Value)
				return mlVal{kind: "int", n: n}
			case constant.String:
				return mlVal{kind: "str", s: fmt.Sprintf("%q", constant.StringVal(t.Value))}
			}
		case *ssa.Parameter:
			return mlVal{kind: "self"}
		case *ssa.MakeInterface:
			return eval(t.X)
		case *ssa.ChangeInterface:
			return eval(t.X)
		case *ssa.Global:
			return mlVal{kind: "unknown"}
		}
		return mlVal{kind: "unknown"}
	}
	cur := fn.Blocks[0]
	var pred *ssa.BasicBlock
	startIdx := 0
	for steps := 0; steps < 600; steps++ {
		if cur == header && startIdx == 0 && len(frames) == 0 {
			iter++
		}
		var next *ssa.BasicBlock
		inlined := false
		for ii := startIdx; ii < len(cur.Instrs); ii++ {
			in := cur.Instrs[ii]
			switch t := in.(type) {
			case *ssa.Phi:
				for i, p := range cur.Preds {
					if p == pred {
						env[t] = eval(t.Edges[i])
					}
				}
			case *ssa.FieldAddr:
				env[t] = mlVal{kind: "field", s: fieldName(t.X.Type(), t.Field)}
			case *ssa.UnOp:
				x := eval(t.X)
				switch {
				case t.Op == token.MUL && x.kind == "field":
					switch {
					case x.s == "LastTokenType":
						env[t] = mlVal{kind: "int", n: last}
					case x.s == "Scanner":
						env[t] = mlVal{kind: "scanner"}
					default:
						if b, ok := sc.opts[x.s]; ok {
							env[t] = mlVal{kind: "bool", b: b}
						} else {
							env[t] = mlVal{kind: "unknown"}
						}
					}
				case t.Op == token.MUL:
					env[t] = mlVal{kind: "unknown"}
				case t.Op == token.NOT && x.kind == "bool":
					env[t] = mlVal{kind: "bool", b: !x.b}
				default:
					env[t] = mlVal{kind: "unknown"}
				}
			case *ssa.Store:
				a := eval(t.Addr)
				if a.kind == "field" && a.s == "LastTokenType" {
					v := eval(t.Val)
					if v.kind != "int" {
						res.outcome, res.why = "opaque", "LastTokenType is assigned a value the analysis cannot evaluate"
						return res
					}
					last = v.n
					res.lastWrites = append(res.lastWrites, v.n)
				} else if a.kind == "field" {
					res.outcome, res.why = "opaque", "the token loop stores to field "+a.s
					return res
				}
			case *ssa.BinOp:
				l, r := eval(t.X), eval(t.Y)
				switch {
				case (t.Op == token.EQL || t.Op == token.NEQ) && (l.nilv || r.nilv):
					o := l
					if l.nilv {
						o = r
					}
					isNil := false
					switch o.kind {
					case "tok":
						isNil = o.tok.isNil
					case "state":
						isNil = o.b
					case "scanner":
						isNil = false
					case "nil":
						isNil = true
					default:
						res.outcome, res.why = "opaque", "nil test on a value outside the model"
						return res
					}
					env[t] = mlVal{kind: "bool", b: isNil == (t.Op == token.EQL)}
				case (t.Op == token.EQL || t.Op == token.NEQ) && l.kind == "int" && r.kind == "int":
					env[t] = mlVal{kind: "bool", b: (l.n == r.n) == (t.Op == token.EQL)}
				case (t.Op == token.EQL || t.Op == token.NEQ) && l.kind == "str" && r.kind == "str" && r.s == `""` && l.s == "raw":
					env[t] = mlVal{kind: "bool", b: sc.tokEmpty == (t.Op == token.EQL)}
				case l.kind == "str" || r.kind == "str":
					env[t] = mlVal{kind: "textdep", s: l.s + t.Op.String() + r.s}
				default:
					env[t] = mlVal{kind: "unknown"}
				}
			case *ssa.TypeAssert:
				x := eval(t.X)
				if t.CommaOk && (x.kind == "nil" || x.nilv) {
					env[t] = mlVal{kind: "tuple", tup: []mlVal{{kind: "nil", nilv: true}, {kind: "bool", b: false}}}
				} else if t.CommaOk && x.kind == "state" {
					isQ := sc.isQuote && !x.b && strings.HasSuffix(t.AssertedType.String(), "IQuoteState")
					env[t] = mlVal{kind: "tuple", tup: []mlVal{{kind: "quote"}, {kind: "bool", b: isQ}}}
				} else {
					env[t] = mlVal{kind: "unknown"}
				}
			case *ssa.Extract:
				x := eval(t.Tuple)
				if x.kind == "tuple" && t.Index < len(x.tup) {
					env[t] = x.tup[t.Index]
				} else {
					env[t] = mlVal{kind: "unknown"}
				}
			case *ssa.Convert:
				x := eval(t.X)
				if x.kind == "char" {
					env[t] = mlVal{kind: "str", s: "char(" + x.s + ")"}
				} else {
					env[t] = x
				}
			case *ssa.Call:
				cc := t.Common()
				if cc.IsInvoke() {
					recv := eval(cc.Value)
					name := cc.Method.Name()
					switch {
					case recv.kind == "scanner" && name == "Peek":
						env[t] = mlVal{kind: "char", s: "peek"}
					case recv.kind == "scanner" && name == "Read":
						res.reads++
						res.ops = append(res.ops, "Read")
						env[t] = mlVal{kind: "char", s: "read"}
					case recv.kind == "scanner" && (name == "Unread" || name == "UnreadMany"):
						res.ops = append(res.ops, name)
						env[t] = mlVal{kind: "unknown"}
					case recv.kind == "scanner" && (name == "PeekLine" || name == "PeekColumn" || name == "Line" || name == "Column"):
						where := "before-loop"
						if iter > 0 {
							where = "iteration"
						}
						env[t] = mlVal{kind: "pos", s: fmt.Sprintf("%s@%s#%d", name, where, len(res.ops))}
					case recv.kind == "state" && name == "NextToken":
						res.ops = append(res.ops, "NextToken")
						env[t] = mlVal{kind: "tok", tok: &mlToken{isNil: sc.tokNil, empty: sc.tokEmpty, typ: sc.typ, val: "raw", line: "state", col: "state"}}
					case name == "DecodeString":
						a0, a1 := eval(cc.Args[0]), eval(cc.Args[1])
						res.decodeArg = a1.kind + ":" + a1.s
						env[t] = mlVal{kind: "str", s: "decoded(" + a0.s + ")"}
					default:
						env[t] = mlVal{kind: "unknown"}
					}
					continue
				}
				f := calleeObj(cc)
				if g := cc.StaticCallee(); g != nil && f != nil && c.InModule(g) && g.Blocks != nil && g != fn && len(frames) < 3 &&
					recvNamed(f) == "AbstractTokenizer" && f.Name() != "GetCharacterState" && f.Name() != "QuoteState" {
					if _, isOpt := sc.opts[strings.ToLower(f.Name()[:1])+f.Name()[1:]]; !isOpt {
						// a helper method of the tokenizer: executed as part of the loop body
						for k, prm := range g.Params {
							if k < len(cc.Args) {
								env[prm] = eval(cc.Args[k])
							}
						}
						frames = append(frames, mlFrame{t, cur, ii + 1, pred})
						cur, pred, startIdx = g.Blocks[0], nil, 0
						inlined = true
						break
					}
				}
				switch {
				case f != nil && f.Name() == "IsEof" && recvNamed(f) == "_TCharValidator":
					env[t] = mlVal{kind: "bool", b: sc.eof}
				case f != nil && f.Name() == "GetCharacterState":
					env[t] = mlVal{kind: "state", b: sc.stateNil}
				case f != nil && f.Name() == "QuoteState":
					env[t] = mlVal{kind: "quote"}
				case f != nil && f.Name() == "NewToken" && c.relPkg(f.Pkg()) == "tokenizers":
					ty, va, li, co := eval(cc.Args[0]), eval(cc.Args[1]), eval(cc.Args[2]), eval(cc.Args[3])
					if ty.kind != "int" {
						res.outcome, res.why = "opaque", "a token is re-created with a type the analysis cannot evaluate"
						return res
					}
					env[t] = mlVal{kind: "tok", tok: &mlToken{typ: ty.n, val: va.s, fresh: true, line: li.s, col: co.s, empty: va.s == `""`}}
				case f != nil && recvNamed(f) == "Token" && c.relPkg(f.Pkg()) == "tokenizers":
					recv := eval(cc.Args[0])
					if recv.kind != "tok" || recv.tok.isNil {
						res.outcome, res.why = "opaque", "token accessor on a nil or unknown token"
						return res
					}
					switch f.Name() {
					case "Type":
						env[t] = mlVal{kind: "int", n: recv.tok.typ}
					case "Value":
						env[t] = mlVal{kind: "str", s: recv.tok.val}
					case "Line":
						env[t] = mlVal{kind: "pos", s: "token:" + recv.tok.line}
					case "Column":
						env[t] = mlVal{kind: "pos", s: "token:" + recv.tok.col}
					default:
						env[t] = mlVal{kind: "unknown"}
					}
				case f != nil && recvNamed(f) == "AbstractTokenizer" && c.relPkg(f.Pkg()) == "tokenizers":
					// option getter called on the receiver
					name := strings.ToLower(f.Name()[:1]) + f.Name()[1:]
					if b, ok := sc.opts[name]; ok {
						env[t] = mlVal{kind: "bool", b: b}
					} else {
						env[t] = mlVal{kind: "unknown"}
					}
				default:
					env[t] = mlVal{kind: "unknown"}
				}
			case *ssa.If:
				cv := eval(t.Cond)
				if cv.kind == "textdep" {
					res.outcome, res.why = "opaque", "a branch of the token loop depends on the token's text ("+cv.s+"): options may then re-segment or rewrite conditionally on content"
					return res
				}
				if cv.kind != "bool" {
					res.outcome, res.why = "opaque", "a branch condition of the token loop is outside the finite model (token type, option flags, last token type, state kind)"
					return res
				}
				if cv.b {
					next = cur.Succs[0]
				} else {
					next = cur.Succs[1]
				}
			case *ssa.Jump:
				next = cur.Succs[0]
			case *ssa.Return:
				if n := len(frames); n > 0 {
					fr := frames[n-1]
					frames = frames[:n-1]
					switch len(t.Results) {
					case 0:
						env[fr.call] = mlVal{kind: "unknown"}
					case 1:
						env[fr.call] = eval(t.Results[0])
					default:
						tv := mlVal{kind: "tuple"}
						for _, r := range t.Results {
							tv.tup = append(tv.tup, eval(r))
						}
						env[fr.call] = tv
					}
					cur, pred, startIdx = fr.blk, fr.pred, fr.idx
					inlined = true
					break
				}
				res.finalLast = last
				if len(t.Results) == 1 {
					rv := eval(t.Results[0])
					if rv.kind == "tok" && !rv.tok.isNil {
						res.outcome, res.tok = "emit", rv.tok
					} else if rv.nilv || (rv.kind == "tok" && rv.tok.isNil) {
						res.outcome = "none"
					} else {
						res.outcome, res.why = "opaque", "returned value outside the model"
					}
				}
				return res
			}
			if inlined {
				break
			}
		}
		if inlined {
			continue
		}
		if next == nil {
			res.outcome, res.why = "opaque", "control flow left the model"
			return res
		}
		// second pass through the loop head: staying inside the loop means the token was skipped
		if cur == header && iter > 1 && len(frames) == 0 && loopBlocks[next] {
			res.outcome = "skip"
			res.finalLast = last
			return res
		}
		pred, cur, startIdx = cur, next, 0
	}
	res.outcome, res.why = "opaque", "simulation did not terminate"
	return res
}

func init() {
	register(&Rule{ID: "OPT.chain", Floor: 8,
		Doc: "the post-processing chain evaluated over the whole finite partition (token class × quote-state? × last token type × 128 option sets): each outcome (skip / emitted type / emitted value / last-token-type bookkeeping) equals the specification of the property — whole tokens dropped or rewritten, bookkeeping only for returned tokens, end-of-input marker rule",
		Run: ruleOptChain})
	register(&Rule{ID: "OPT.nointerference", Floor: 16,
		Doc: "segmentation cannot depend on options: no tokenizer state (or anything it calls) reads an option, and in the main loop the scanner is moved only under conditions that derive from the scanner and the state's own token, never from option flags or re-created tokens",
		Run: ruleOptNoInterference})
	register(&Rule{ID: "POS.stale", Floor: 4,
		Doc: "a token re-created by the main loop (unknown, decoded, merged, unified, end-of-input) gets a position captured in the same iteration before the scanner moves — or the original token's own position — never one captured before earlier tokens were skipped",
		Run: rulePosStale})
}

func optSetString(o map[string]bool) string {
	var on []string
	for _, f := range optionFields {
		if o[f] {
			on = append(on, f)
		}
	}
	if len(on) == 0 {
		return "no options"
	}
	return strings.Join(on, "+")
}

func ruleOptChain(c *Ctx) []*Obligation {
	mlLog = nil
	o := newObl("OPT.chain")
	fn := c.MustFunc("tokenizers", "AbstractTokenizer", "ReadNextToken")
	names := c.constNames("tokenizers", "")
	byName := map[string]int64{}
	for v, n := range names {
		byName[n] = v
	}
	need := []string{"Unknown", "Eof", "Float", "Integer", "HexDecimal", "Number", "Symbol", "Quoted", "Word", "Keyword", "Whitespace", "Comment", "Special", "Eol"}
	for _, n := range need {
		if _, ok := byName[n]; !ok {
			panic(anchorError("token type constant " + n + " not found"))
		}
	}
	type failure struct{ clause, msg string }
	fails := map[string]string{}
	counts := map[string]int{}
	clauses := []string{"skip-unknown", "skip-comments", "skip-whitespaces", "merge-whitespaces", "unify-numbers", "decode-strings", "untouched-when-off", "last-token-type", "end-of-input", "fallback-unknown"}
	fail := func(clause, msg string) {
		if _, dup := fails[clause]; !dup {
			fails[clause] = msg
		}
	}
	total := 0
	var types []int64
	for _, n := range need {
		if n != "Eof" {
			types = append(types, byName[n])
		}
	}
	lasts := []int64{byName["Whitespace"], byName["Word"], byName["Unknown"], byName["Eof"]}
	for mask := 0; mask < 128; mask++ {
		opts := map[string]bool{}
		for i, f := range optionFields {
			opts[f] = mask&(1<<i) != 0
		}
		// --- regular tokens
		for _, T := range types {
			for _, q := range []bool{false, true} {
				for _, last := range lasts {
					total++
					sc := mlScenario{typ: T, isQuote: q, last: last, opts: opts}
					r := c.simulateMainLoop(fn, sc)
					ctx := fmt.Sprintf("[token type %s, quote state %v, last type %s, %s]", names[T], q, names[last], optSetString(opts))
					if r.outcome == "opaque" {
						fail("untouched-when-off", r.why+" "+ctx)
						continue
					}
					// specification
					wantSkip, wantType, wantVal := false, T, "raw"
					switch {
					case T == byName["Unknown"] && opts["skipUnknown"]:
						wantSkip = true
					default:
						if q && opts["decodeStrings"] {
							wantVal = "decoded(raw)"
						}
						switch {
						case T == byName["Comment"] && opts["skipComments"]:
							wantSkip = true
						case T == byName["Whitespace"] && last == byName["Whitespace"] && opts["skipWhitespaces"]:
							wantSkip = true
						default:
							if T == byName["Whitespace"] && opts["mergeWhitespaces"] {
								wantType, wantVal = T, `" "`
							}
							if opts["unifyNumbers"] && (T == byName["Integer"] || T == byName["Float"] || T == byName["HexDecimal"]) {
								wantType = byName["Number"]
							}
						}
					}
					clauseOf := func() string {
						switch {
						case T == byName["Unknown"]:
							return "skip-unknown"
						case T == byName["Comment"]:
							return "skip-comments"
						case T == byName["Whitespace"] && opts["skipWhitespaces"] && last == byName["Whitespace"]:
							return "skip-whitespaces"
						case T == byName["Whitespace"]:
							return "merge-whitespaces"
						case T == byName["Integer"] || T == byName["Float"] || T == byName["HexDecimal"]:
							return "unify-numbers"
						case q:
							return "decode-strings"
						}
						return "untouched-when-off"
					}
					cl := clauseOf()
					counts[cl]++
					if r.reads != 0 {
						fail(cl, "the iteration reads a character although the state produced a non-empty token "+ctx)
					}
					if wantSkip {
						if r.outcome != "skip" {
							fail(cl, fmt.Sprintf("the token should be dropped but the loop %ss %s", r.outcome, ctx))
						}
						counts["last-token-type"]++
						if r.finalLast != last {
							fail("last-token-type", fmt.Sprintf("a skipped token changes the last-token-type bookkeeping to %s: the whitespace rule then misjudges adjacency (two whitespace tokens around a skipped token are both emitted) %s", names[r.finalLast], ctx))
						}
						continue
					}
					if r.outcome != "emit" {
						fail(cl, fmt.Sprintf("the token should be emitted but the loop yields %q %s", r.outcome, ctx))
						continue
					}
					if r.tok.typ != wantType {
						fail(cl, fmt.Sprintf("emitted type is %s, expected %s %s", names[r.tok.typ], names[wantType], ctx))
					}
					if r.tok.val != wantVal {
						fail(cl, fmt.Sprintf("emitted value is %s, expected %s %s", r.tok.val, wantVal, ctx))
					}
					if q && opts["decodeStrings"] && r.decodeArg != "char:peek" {
						fail("decode-strings", "the quote character handed to DecodeString is not the character that dispatched the state "+ctx)
					}
					counts["last-token-type"]++
					if r.finalLast != wantType {
						fail("last-token-type", fmt.Sprintf("after returning a %s token the last token type is %s %s", names[wantType], names[r.finalLast], ctx))
					}
				}
			}
		}
		// --- no state / nil token / empty token → one-character Unknown token
		for _, sc0 := range []mlScenario{{stateNil: true}, {tokNil: true}, {tokEmpty: true}} {
			total++
			sc := sc0
			sc.opts, sc.last, sc.typ = opts, byName["Word"], byName["Word"]
			r := c.simulateMainLoop(fn, sc)
			counts["fallback-unknown"]++
			ctx := fmt.Sprintf("[no state %v, nil token %v, empty token %v, %s]", sc.stateNil, sc.tokNil, sc.tokEmpty, optSetString(opts))
			if r.outcome == "opaque" {
				fail("fallback-unknown", r.why+" "+ctx)
				continue
			}
			if r.reads != 1 {
				fail("fallback-unknown", fmt.Sprintf("the fallback reads %d characters, expected exactly 1 %s", r.reads, ctx))
			}
			if opts["skipUnknown"] {
				if r.outcome != "skip" {
					fail("fallback-unknown", "unknown character not skipped "+ctx)
				}
			} else if r.outcome != "emit" || r.tok.typ != byName["Unknown"] || r.tok.val != "char(read)" {
				fail("fallback-unknown", "the fallback does not emit Unknown(<character read>) "+ctx)
			}
		}
		// --- end of input
		for _, last := range []int64{byName["Eof"], byName["Word"]} {
			total++
			r := c.simulateMainLoop(fn, mlScenario{eof: true, opts: opts, last: last})
			counts["end-of-input"]++
			ctx := fmt.Sprintf("[end of input, last type %s, %s]", names[last], optSetString(opts))
			if r.outcome == "opaque" {
				fail("end-of-input", r.why+" "+ctx)
				continue
			}
			wantEmit := last != byName["Eof"] && !opts["skipEof"]
			if wantEmit {
				if r.outcome != "emit" || r.tok.typ != byName["Eof"] || r.tok.val != `""` {
					fail("end-of-input", "an end-of-input token (type Eof, empty value) must be emitted once "+ctx)
				}
			} else if r.outcome != "none" {
				fail("end-of-input", fmt.Sprintf("no token may be returned here but the loop yields %q %s", r.outcome, ctx))
			}
			if r.finalLast != byName["Eof"] {
				fail("end-of-input", "the last token type is not Eof after the end of input was reached "+ctx)
			}
			if r.reads != 0 {
				fail("end-of-input", "a character is read at the end of input "+ctx)
			}
		}
	}
	sort.Strings(clauses)
	for _, cl := range clauses {
		key := c.FuncKey(fn) + "#chain#" + cl
		if msg, bad := fails[cl]; bad {
			o.bad(key, c.Pos(fn.Pos()), msg)
		} else {
			o.ok(key, c.Pos(fn.Pos()), fmt.Sprintf("%d abstract scenario(s) agree with the specification", counts[cl]))
		}
	}
	o.list = append(o.list, &Obligation{Rule: "OPT.chain", Construct: c.FuncKey(fn) + "#chain#scenarios", Pos: c.Pos(fn.Pos()), Status: Discharged, By: fmt.Sprintf("%d scenarios enumerated exhaustively (finite partition)", total), Trivial: true})
	return o.list
}

// ---- OPT.nointerference -------------------------------------------------------------------------------

func (c *Ctx) readsOption(fn *ssa.Function) (string, bool) {
	for _, b := range fn.Blocks {
		for _, in := range b.Instrs {
			if fa, ok := in.(*ssa.FieldAddr); ok {
				n := fieldName(fa.X.Type(), fa.Field)
				for _, f := range optionFields {
					if n == f && strings.HasSuffix(fa.X.Type().String(), "AbstractTokenizer") {
						return "reads field " + n, true
					}
				}
			}
			if ci, ok := in.(ssa.CallInstruction); ok {
				f := calleeObj(ci.Common())
				if f == nil {
					continue
				}
				for _, of := range optionFields {
					getter := strings.ToUpper(of[:1]) + of[1:]
					if f.Name() == getter || f.Name() == "Set"+getter {
						rn := recvNamed(f)
						if rn == "AbstractTokenizer" || rn == "ITokenizer" || (ci.Common().IsInvoke() && strings.HasSuffix(ci.Common().Value.Type().String(), "ITokenizer")) {
							return "calls " + f.Name() + "()", true
						}
					}
				}
			}
		}
	}
	return "", false
}

func ruleOptNoInterference(c *Ctx) []*Obligation {
	o := newObl("OPT.nointerference")
	cg := c.CallGraph()
	for _, st := range c.tokenizerStateFuncs() {
		key := c.FuncKey(st) + "#option-free"
		seen := map[*ssa.Function]bool{}
		bad := ""
		var walk func(f *ssa.Function)
		walk = func(f *ssa.Function) {
			if f == nil || seen[f] || !c.InModule(f) || bad != "" {
				return
			}
			seen[f] = true
			if f.Name() == "ReadNextToken" {
				return // delegation never re-enters the main loop; CHA adds the edge through ITokenizer
			}
			if why, yes := c.readsOption(f); yes {
				bad = c.FuncKey(f) + " " + why
				return
			}
			if n := cg.Nodes[f]; n != nil {
				for _, e := range n.Out {
					// only calls through states/helpers matter; calls on the ITokenizer argument are inspected by readsOption
					if e.Site != nil && e.Site.Common().IsInvoke() && strings.HasSuffix(e.Site.Common().Value.Type().String(), "ITokenizer") {
						continue
					}
					walk(e.Callee.Func)
				}
			}
		}
		walk(st)
		if bad != "" {
			o.bad(key, c.Pos(st.Pos()), "a tokenizer state consults an option ("+bad+"): how the text is cut into tokens then depends on the option set")
		} else {
			o.ok(key, c.Pos(st.Pos()), fmt.Sprintf("%d reachable function(s), none reads an option", len(seen)))
		}
	}
	// main loop: scanner movement is a function of the scanner and the state's own token only - derived
	// from the exhaustive model of the loop: within one group of scenarios (same character/state/token
	// situation) the sequence of scanner movements must be the same for all 128 option sets and every
	// last-token-type
	fn := c.MustFunc("tokenizers", "AbstractTokenizer", "ReadNextToken")
	names := c.constNames("tokenizers", "")
	type grp struct {
		ops    string
		n      int
		bad    string
		opaque string
	}
	groups := map[string]*grp{}
	var order []string
	for _, run := range c.mainLoopRuns() {
		g := run.sc.group(names)
		if groups[g] == nil {
			groups[g] = &grp{ops: strings.Join(run.res.ops, " ")}
			order = append(order, g)
		}
		gr := groups[g]
		gr.n++
		if run.res.outcome == "opaque" {
			gr.opaque = run.res.why
			continue
		}
		if ops := strings.Join(run.res.ops, " "); ops != gr.ops && gr.bad == "" {
			gr.bad = fmt.Sprintf("with %s and last token type %s the loop moves the scanner by [%s], otherwise by [%s]", optSetString(run.sc.opts), names[run.sc.last], ops, gr.ops)
		}
	}
	sort.Strings(order)
	for _, g := range order {
		gr := groups[g]
		key := fmt.Sprintf("%s#scanner-moves#%s", c.FuncKey(fn), g)
		switch {
		case gr.opaque != "":
			o.undecided(key, c.Pos(fn.Pos()), gr.opaque)
		case gr.bad != "":
			o.bad(key, c.Pos(fn.Pos()), gr.bad+": enabling an option (or the history of returned tokens) changes how the text is cut")
		default:
			o.ok(key, c.Pos(fn.Pos()), fmt.Sprintf("%d scenario(s): scanner movements [%s] whatever the options and the last token type", gr.n, gr.ops))
		}
	}
	return o.list
}

// ---- POS.stale -------------------------------------------------------------------------------------------

func rulePosStale(c *Ctx) []*Obligation {
	o := newObl("POS.stale")
	fn := c.MustFunc("tokenizers", "AbstractTokenizer", "ReadNextToken")
	names := c.constNames("tokenizers", "")
	// derived from the exhaustive model of the loop: every token the loop re-creates carries a
	// position captured in the same iteration before the scanner moved, or the original token's own
	type kind struct {
		n          int
		bad, undec string
	}
	kinds := map[string]*kind{}
	var order []string
	okPos := func(p string) (bool, string) {
		switch {
		case strings.HasPrefix(p, "token:"):
			return true, ""
		case strings.HasPrefix(p, "PeekLine@iteration#0"), strings.HasPrefix(p, "PeekColumn@iteration#0"):
			return true, ""
		case strings.Contains(p, "@before-loop"):
			return false, "the position was captured once before the loop: after skipped tokens it is the position of an earlier token"
		case strings.Contains(p, "@iteration#"):
			return false, "the position is captured after the scanner has already moved in this iteration"
		}
		return false, "the position is not a scanner/token position (" + p + ")"
	}
	for _, run := range c.mainLoopRuns() {
		if run.res.outcome == "opaque" {
			k := "unmodelled"
			if kinds[k] == nil {
				kinds[k] = &kind{}
				order = append(order, k)
			}
			kinds[k].undec = run.res.why
			continue
		}
		if run.res.outcome != "emit" || run.res.tok == nil || !run.res.tok.fresh {
			continue
		}
		tk := run.res.tok
		k := names[tk.typ] + "(" + tk.val + ")"
		if kinds[k] == nil {
			kinds[k] = &kind{}
			order = append(order, k)
		}
		kinds[k].n++
		for _, p := range []string{tk.line, tk.col} {
			if good, why := okPos(p); !good && kinds[k].bad == "" {
				kinds[k].bad = why + " [" + run.sc.group(names) + ", " + optSetString(run.sc.opts) + "]"
			}
		}
	}
	sort.Strings(order)
	for _, k := range order {
		key := fmt.Sprintf("%s#recreated-token#%s", c.FuncKey(fn), k)
		switch {
		case kinds[k].undec != "":
			o.undecided(key, c.Pos(fn.Pos()), kinds[k].undec)
		case kinds[k].bad != "":
			o.bad(key, c.Pos(fn.Pos()), kinds[k].bad)
		default:
			o.ok(key, c.Pos(fn.Pos()), fmt.Sprintf("%d scenario(s): position captured in the same iteration before any scanner movement (or taken from the original token)", kinds[k].n))
		}
	}
	return o.list
}

// feasiblePhiLeaves is phiLeaves that ignores edges which can never be taken: the false edge of
// `if true` (the exit edge of a `for true` header) and the true edge of `if false`.
func feasiblePhiLeaves(v ssa.Value) []ssa.Value {
	var out []ssa.Value
	seen := map[ssa.Value]bool{}
	var walk func(x ssa.Value)
	walk = func(x ssa.Value) {
		if seen[x] {
			return
		}
		seen[x] = true
		p, ok := x.(*ssa.Phi)
		if !ok {
			out = append(out, x)
			return
		}
		for i, e := range p.Edges {
			pred := p.Block().Preds[i]
			if ifi, ok := pred.Instrs[len(pred.Instrs)-1].(*ssa.If); ok {
				if k, ok := ifi.Cond.(*ssa.Const); ok && k.Value != nil && k.Value.Kind() == constant.Bool {
					taken := pred.Succs[1]
					if constant.BoolVal(k.Value) {
						taken = pred.Succs[0]
					}
					if taken != p.Block() {
						continue
					}
				}
			}
			walk(e)
		}
	}
	walk(v)
	return out
}
