package main

import (
	"fmt"
	"go/types"
	"sort"
	"strings"
	"sync"
	"unicode"

	"golang.org/x/tools/go/ssa"
)

// ---------------------------------------------------------------------------------------------
// NAME.model (C18): variable discovery, automatic variables, case-insensitive resolution and the
// ordered-list behaviour of the collections, evaluated abstractly through the exported API against
// the list model of the statement.
// ---------------------------------------------------------------------------------------------

func callM(c *Ctx, m *mach, t types.Type, name string, recv mv, args ...mv) (mv, mOutcome) {
	f := c.lookupMethod(t, name)
	if f == nil {
		return nil, mOutcome{kind: "opaque", why: "method " + name + " not found on " + t.String()}
	}
	return m.Call(f, append([]mv{recv}, args...)...)
}

func resultType(f *ssa.Function) types.Type { return f.Signature.Results().At(0).Type() }

func stringsOfSlice(v mv) ([]string, bool) {
	var out []string
	switch t := v.(type) {
	case mNilT:
		return nil, true
	case mSlice:
		for _, e := range t.arr {
			s, ok := e.(string)
			if !ok {
				return nil, false
			}
			out = append(out, s)
		}
		return out, true
	}
	return nil, false
}

// foldUnique: first occurrences, compared case-insensitively.
func foldUnique(names []string) []string {
	var out []string
	seen := map[string]bool{}
	for _, n := range names {
		k := strings.ToLower(n)
		if !seen[k] {
			seen[k] = true
			out = append(out, k)
		}
	}
	return out
}

func checkDiscovered(got, occurrences []string) string {
	seen := map[string]bool{}
	for _, g := range got {
		if seen[g] {
			return fmt.Sprintf("the name %q is reported twice", g)
		}
		seen[g] = true
	}
	if fmt.Sprint(foldUnique(got)) != fmt.Sprint(foldUnique(occurrences)) {
		kw := ""
		for _, g := range got {
			isOcc := false
			for _, o := range occurrences {
				isOcc = isOcc || strings.EqualFold(o, g)
			}
			if gxKeywords[strings.ToUpper(g)] && !isOcc {
				kw = fmt.Sprintf(" - %q is a keyword of the language in any letter case, never a variable", g)
			}
		}
		return fmt.Sprintf("reported %q; the identifiers in variable position, in order of first occurrence, are %q%s", got, occurrences, kw)
	}
	return ""
}

// refIdentifiers: the identifiers in variable position of a token string, in order of occurrence, as the
// reference grammar places them; ok=false when the string is no sentence.
func refIdentifiers(ls []lexeme) (names []string, ok bool) {
	acc, rpn := gxReference(ls)
	if !acc {
		return nil, false
	}
	var cols []int
	for _, t := range rpn {
		if strings.HasPrefix(t, "Variable@") {
			var col int
			fmt.Sscanf(t, "Variable@%d", &col)
			cols = append(cols, col)
		}
	}
	sort.Ints(cols)
	for _, col := range cols {
		names = append(names, ls[col-1].text)
	}
	return names, true
}

// namexKeywordSentences: every keyword of the language, in upper, lower, capitalised and alternating letter
// case, in each position the grammar gives it (operator, second word of a two-word operator, operand), next
// to real identifiers: "never keywords" holds for each of them in whatever case it is written.
func namexKeywordSentences() []string {
	frames := map[string][]string{
		"AND":   {"x § y", "x § y § Z"},
		"OR":    {"x § y", "f ( x § y ) § z"},
		"XOR":   {"x § y", "x § y § X"},
		"NOT":   {"§ x", "x AND § y", "x § LIKE y", "x § IN y", "x IS § NULL"},
		"LIKE":  {"x § y", "x NOT § y"},
		"IS":    {"x § NULL", "x § NOT NULL AND y"},
		"IN":    {"x § y", "x NOT § y"},
		"NULL":  {"x IS §", "x IS NOT § OR y", "x = §", "f ( § , y )"},
		"TRUE":  {"x = §", "§ AND y", "f ( § , y )", "x [ § ]", "§"},
		"FALSE": {"x = §", "§ OR y", "f ( y , § )", "x [ § ]", "§"},
	}
	var kws []string
	for k := range frames {
		kws = append(kws, k)
	}
	sort.Strings(kws)
	var out []string
	for _, kw := range kws {
		alt := []rune(strings.ToLower(kw))
		for i := 1; i < len(alt); i += 2 {
			alt[i] = unicode.ToUpper(alt[i])
		}
		for _, form := range []string{kw, strings.ToLower(kw), kw[:1] + strings.ToLower(kw[1:]), string(alt)} {
			for _, f := range frames[kw] {
				out = append(out, strings.ReplaceAll(f, "§", form))
			}
		}
	}
	return out
}

type nameVerdicts struct {
	m map[string]*simpleVerdict
}

func (n *nameVerdicts) get(k string) *simpleVerdict {
	if n.m[k] == nil {
		n.m[k] = &simpleVerdict{}
	}
	return n.m[k]
}

var namexMemo *nameVerdicts
var namexMu sync.Mutex

type listEntry struct {
	name string
	id   int
}

func (c *Ctx) namexRun() *nameVerdicts {
	namexMu.Lock()
	defer namexMu.Unlock()
	if namexMemo != nil {
		return namexMemo
	}
	nv := &nameVerdicts{m: map[string]*simpleVerdict{}}
	namexMemo = nv
	m := newMach(c)
	m.maxSteps = 3000000
	var noteMu sync.Mutex
	note := func(k, bad, undec string) {
		noteMu.Lock()
		defer noteMu.Unlock()
		v := nv.get(k)
		v.runs++
		if bad != "" && (v.bad == "" || len(bad) < len(v.bad) || len(bad) == len(v.bad) && bad < v.bad) {
			v.bad = bad
		}
		if undec != "" && v.undec == "" {
			v.undec = undec
		}
	}
	// the families (6) and (8) run beside the others, each part on a machine of its own
	var wg sync.WaitGroup
	for part := 0; part < 2; part++ {
		part := part
		wg.Add(1)
		go func() {
			defer wg.Done()
			pm := newMach(c)
			pm.maxSteps = 3000000
			c.namexFoldPairs(pm, part, 2, note)
		}()
	}
	wg.Add(1)
	go func() {
		defer wg.Done()
		pm := newMach(c)
		pm.maxSteps = 3000000
		c.namexAutoHistories(pm, note)
	}()
	for _, kind := range []string{"functions", "variables"} {
		for _, whose := range []string{"default", "supplied"} {
			kind, whose := kind, whose
			wg.Add(1)
			go func() {
				defer wg.Done()
				pm := newMach(c)
				pm.maxSteps = 3000000
				c.namexHistories(pm, kind, whose, note)
			}()
		}
	}
	// ---- (1) discovery in expressions ------------------------------------------------------------
	pctor := c.MustFunc(pkgParsers, "", "NewExpressionParser")
	pt := resultType(pctor)
	parser, out := m.Call(pctor)
	if out.kind != "ok" {
		note("discover-expression", "", "NewExpressionParser: "+out.why)
	} else {
		exprs := []string{"a", "a + b * a", "f ( a , B ) + b", "A + a", "x IS NULL AND y IN z", "'a' + b", "a [ b ]", "1 + 2", "f ( )", "g ( h ( x ) , y ) + X", "NOT q OR r XOR q",
			"a LIKE 'b'", "true AND t", "n IS NOT NULL", "max ( a , min ( b , c ) ) * d", "a - - a", "b [ a ] + a [ b ]", "f ( f )", "null_1 + in_2", "a + /* b */ c", "abc + ABC + Abc"}
		// quoted identifiers are identifiers whatever they spell: source text → reference lexemes
		quotedIdent := map[string]string{
			`"and" + b`:           "Word~and + b",
			`"NOT" + total * 2`:   "Word~NOT + total * 2",
			`"x-y" * "null"`:      "Word~x-y * Word~null",
			`"a" + 'a' + a`:       "Word~a + 'a' + a",
			`f ( "In" , "like" )`: "f ( Word~In , Word~like )",
			`"is" IS NULL`:        "Word~is IS NULL",
			`"true" OR "False"`:   "Word~true OR Word~False",
		}
		for src := range quotedIdent {
			exprs = append(exprs, src)
		}
		exprs = append(exprs, namexKeywordSentences()...)
		sort.Strings(exprs)
		for _, e := range exprs {
			ls := lexemes(e)
			if ref, ok := quotedIdent[e]; ok {
				ls = lexemes(ref)
			}
			want, acc := refIdentifiers(ls)
			if !acc {
				continue
			}
			m.steps = 0
			noteSample("NAME.model/expressions", e)
			r, out := callM(c, m, pt, "ParseString", parser, e)
			if out.kind != "ok" {
				note("discover-expression", "", fmt.Sprintf("ParseString(%q): %s", e, out.why))
				continue
			}
			if _, isNil := r.(mNilT); !isNil {
				note("discover-expression", fmt.Sprintf("expression %q is well-formed (variables %q) but ParseString fails with %s: its variables are not discovered", e, want, errorCode(r)), "")
				continue
			}
			vn, out := callM(c, m, pt, "VariableNames", parser)
			got, ok := stringsOfSlice(vn)
			if out.kind != "ok" || !ok {
				note("discover-expression", "", fmt.Sprintf("VariableNames after %q: %s", e, out.why))
				continue
			}
			if why := checkDiscovered(got, want); why != "" {
				note("discover-expression", fmt.Sprintf("expression %q: %s", e, why), "")
			} else {
				note("discover-expression", "", "")
			}
		}
	}
	// ---- (2) discovery in templates ------------------------------------------------------------
	mpctor := c.MustFunc("mustache/parsers", "", "NewMustacheParser")
	mpt := resultType(mpctor)
	mparser, out := m.Call(mpctor)
	if out.kind != "ok" {
		note("discover-template", "", "NewMustacheParser: "+out.why)
	} else {
		var walk func(ns []musNode, acc *[]string)
		walk = func(ns []musNode, acc *[]string) {
			for _, n := range ns {
				switch n.kind {
				case "var", "esc":
					*acc = append(*acc, n.text)
				case "section":
					*acc = append(*acc, n.text)
					walk(n.body, acc)
				}
			}
		}
		for i, tr := range musTrees() {
			if i%3 != 0 {
				continue
			}
			src := musPrint(tr)
			var want []string
			walk(tr, &want)
			m.steps = 0
			r, out := callM(c, m, mpt, "ParseString", mparser, src)
			if out.kind != "ok" {
				note("discover-template", "", fmt.Sprintf("ParseString(%q): %s", src, out.why))
				continue
			}
			if _, isNil := r.(mNilT); !isNil {
				continue // MUS.reference reports rejected well-formed templates
			}
			vn, out := callM(c, m, mpt, "VariableNames", mparser)
			got, ok := stringsOfSlice(vn)
			if out.kind != "ok" || !ok {
				note("discover-template", "", fmt.Sprintf("VariableNames after %q: %s", src, out.why))
				continue
			}
			if why := checkDiscovered(got, want); why != "" {
				note("discover-template", fmt.Sprintf("template %q: %s", src, why), "")
			} else {
				note("discover-template", "", "")
			}
		}
	}
	// ---- (3) automatic variables ---------------------------------------------------------------
	cctor := c.MustFunc(pkgCalc, "", "NewExpressionCalculator")
	ct := resultType(cctor)
	newVar := c.MustFunc("calculator/variables", "", "NewVariable")
	vfi := c.MustFunc(pkgVariants, "", "VariantFromInteger")
	type autoCase struct {
		pre  []string
		expr string
		want []string
	}
	autoCases := []autoCase{
		{nil, "a + b + A", []string{"a", "b"}},
		{[]string{"B"}, "a + b + A", []string{"b", "a"}},
		{[]string{"x", "A"}, "f ( a ) + y", []string{"x", "a", "y"}},
		{[]string{"q"}, "1 + 2", []string{"q"}},
	}
	// keywords in every letter case get no entry: exactly the identifiers do (every second sentence with one
	// of its identifiers already there)
	for i, e := range namexKeywordSentences() {
		ids, ok := refIdentifiers(lexemes(e))
		if !ok {
			continue
		}
		tc := autoCase{expr: e}
		if i%2 == 1 && len(ids) > 0 {
			tc.pre = []string{strings.ToUpper(ids[len(ids)-1])}
		}
		tc.want = foldUnique(append(append([]string{}, tc.pre...), ids...))
		autoCases = append(autoCases, tc)
	}
	for _, tc := range autoCases {
		m.steps = 0
		calc, out := m.Call(cctor)
		if out.kind != "ok" {
			note("auto-variables", "", "NewExpressionCalculator: "+out.why)
			break
		}
		dv, out := callM(c, m, ct, "DefaultVariables", calc)
		dvi, ok := dv.(mIface)
		if out.kind != "ok" || !ok {
			note("auto-variables", "", "DefaultVariables: "+out.why)
			break
		}
		preVals := map[string]mv{}
		for i, p := range tc.pre {
			val, _ := m.Call(vfi, int64(i+5))
			vr, out := m.Call(newVar, p, val)
			if out.kind != "ok" {
				note("auto-variables", "", "NewVariable: "+out.why)
				continue
			}
			preVals[strings.ToLower(p)] = val
			callM(c, m, dvi.t, "Add", dvi.v, mIface{t: resultType(newVar), v: vr})
		}
		r, out := callM(c, m, ct, "SetExpression", calc, tc.expr)
		if out.kind != "ok" {
			note("auto-variables", "", fmt.Sprintf("SetExpression(%q): %s", tc.expr, out.why))
			continue
		}
		if _, isNil := r.(mNilT); !isNil {
			note("auto-variables", "", fmt.Sprintf("SetExpression(%q) fails with %s", tc.expr, errorCode(r)))
			continue
		}
		names, vals, why := collectionEntries(c, m, dvi)
		if why != "" {
			note("auto-variables", "", why)
			continue
		}
		bad := ""
		if fmt.Sprint(foldUnique(names)) != fmt.Sprint(tc.want) || len(names) != len(tc.want) {
			bad = fmt.Sprintf("with variables %q already present, setting %q leaves the default collection with %q; one entry per name (case-insensitively), existing ones kept, is %q", tc.pre, tc.expr, names, tc.want)
		}
		for i, n := range names {
			if pv, ok := preVals[strings.ToLower(n)]; ok && i < len(vals) {
				if eq, known := m.equal(pv, vals[i]); !known || !eq {
					bad = fmt.Sprintf("setting %q replaces the value of the variable %q that was already there", tc.expr, n)
				}
			}
		}
		note("auto-variables", bad, "")
	}
	// the switch: with automatic variables off nothing is created, whichever way the expression is set, and the
	// missing variable is reported; with it on both ways create the entries
	for _, auto := range []bool{true, false} {
		for _, way := range []string{"SetExpression", "SetOriginalTokens"} {
			m.steps = 0
			calc, out := m.Call(cctor)
			if out.kind != "ok" {
				break
			}
			if _, out := callM(c, m, ct, "SetAutoVariables", calc, auto); out.kind != "ok" {
				note("auto-variables", "", "SetAutoVariables: "+out.why)
				continue
			}
			expr := "p + Q * p"
			var r mv
			if way == "SetExpression" {
				r, out = callM(c, m, ct, "SetExpression", calc, expr)
			} else {
				// the token list of the same text, as another calculator's parser produced it
				donor, o0 := m.Call(cctor)
				_, o1 := callM(c, m, ct, "SetExpression", donor, expr)
				toks, o2 := callM(c, m, ct, "OriginalTokens", donor)
				if o0.kind != "ok" || o1.kind != "ok" || o2.kind != "ok" {
					note("auto-variables", "", "OriginalTokens: "+o0.why+o1.why+o2.why)
					continue
				}
				r, out = callM(c, m, ct, "SetOriginalTokens", calc, toks)
			}
			if out.kind != "ok" {
				note("auto-variables", "", way+": "+out.why)
				continue
			}
			if _, isNil := r.(mNilT); !isNil {
				note("auto-variables", "", way+" fails with "+errorCode(r))
				continue
			}
			dv, out := callM(c, m, ct, "DefaultVariables", calc)
			dvi, ok := dv.(mIface)
			if out.kind != "ok" || !ok {
				note("auto-variables", "", "DefaultVariables: "+out.why)
				continue
			}
			names, _, why := collectionEntries(c, m, dvi)
			if why != "" {
				note("auto-variables", "", why)
				continue
			}
			bad := ""
			switch {
			case auto && fmt.Sprint(foldUnique(names)) != "[p q]":
				bad = fmt.Sprintf("automatic variables on, %s(%q): the default collection holds %q; one entry per name is [p Q]", way, expr, names)
			case !auto && len(names) != 0:
				bad = fmt.Sprintf("automatic variables off, %s(%q): the default collection holds %q; nothing may be created", way, expr, names)
			}
			if !auto && bad == "" {
				ev, out := callM(c, m, ct, "Evaluate", calc)
				if tp, ok := ev.(mTuple); ok && out.kind == "ok" {
					if errorCode(tp[1]) != "VAR_NOT_FOUND" {
						bad = fmt.Sprintf("automatic variables off, %s(%q): evaluating gives %s %s; the missing variable must be reported (VAR_NOT_FOUND)", way, expr, mRender(tp[0]), errorCode(tp[1]))
					}
				} else if out.kind == "panic" {
					bad = fmt.Sprintf("automatic variables off, %s(%q): evaluating panics: %s", way, expr, out.why)
				}
			}
			note("auto-variables", bad, "")
		}
	}
	// identifiers spelled like the default functions, in variable position next to real calls of those functions:
	// ‹sum + Sum ( max , 2 )› has the variables sum and max ("the identifiers that occur in variable position",
	// "never function names": what decides is the position, not the spelling). Every default function name, in
	// three letter cases; with automatic variables on the default collection gets one entry per identifier, with
	// automatic variables off nothing is created and evaluating reports the missing variable by its name.
	{
		var fnames []string
		for n := range funcArityOracle {
			if lexemeOf(n).typ == "Word" {
				fnames = append(fnames, n)
			}
		}
		sort.Strings(fnames)
		for i, fn := range fnames {
			for ci, id := range []string{strings.ToLower(fn), fn, strings.ToUpper(fn)} {
				// a call of the function with its smallest number of arguments, the first one the next function's name as a variable
				id2 := strings.ToLower(fnames[(i+1)%len(fnames)])
				var args []string
				for k := 0; k < funcArityOracle[fn][0]; k++ {
					args = append(args, fmt.Sprint(k+2))
				}
				if len(args) > 0 {
					args[0] = id2
				}
				lex := id + " + " + fn + " ( " + strings.Join(args, " , ") + " )"
				ids, ok := refIdentifiers(lexemes(lex))
				if !ok {
					continue
				}
				want := foldUnique(ids)
				expr := strings.NewReplacer(" ( ", "(", " )", ")", " , ", ", ").Replace(lex)
				for _, auto := range []bool{true, false} {
					if !auto && ci != i%3 {
						continue
					}
					m.steps = 0
					calc, out := m.Call(cctor)
					if out.kind != "ok" {
						note("auto-variables", "", "NewExpressionCalculator: "+out.why)
						continue
					}
					where := fmt.Sprintf("SetExpression(%q)", expr)
					if !auto {
						where = "SetAutoVariables(false), " + where
						if _, out := callM(c, m, ct, "SetAutoVariables", calc, false); out.kind != "ok" {
							note("auto-variables", "", "SetAutoVariables: "+out.why)
							continue
						}
					}
					r, out := callM(c, m, ct, "SetExpression", calc, expr)
					if out.kind != "ok" {
						note("auto-variables", "", where+": "+out.why)
						continue
					}
					if _, isNil := r.(mNilT); !isNil {
						note("auto-variables", fmt.Sprintf("%s is refused with %s; an identifier spelled like a function is a variable where it stands in variable position", where, errorCode(r)), "")
						continue
					}
					dv, out := callM(c, m, ct, "DefaultVariables", calc)
					dvi, ok := dv.(mIface)
					if out.kind != "ok" || !ok {
						note("auto-variables", "", "DefaultVariables: "+out.why)
						continue
					}
					names, _, why := collectionEntries(c, m, dvi)
					if why != "" {
						note("auto-variables", "", why)
						continue
					}
					bad := ""
					switch {
					case auto && (len(names) != len(want) || fmt.Sprint(foldUnique(names)) != fmt.Sprint(want)):
						bad = fmt.Sprintf("automatic variables on, %s: the default collection holds %q; the identifiers in variable position are %q (spelled like functions, but not called), one entry each", where, names, want)
					case !auto && len(names) != 0:
						bad = fmt.Sprintf("%s: the default collection holds %q; nothing may be created", where, names)
					}
					if !auto && bad == "" {
						ev, out := callM(c, m, ct, "Evaluate", calc)
						tp, ok := ev.(mTuple)
						switch {
						case out.kind == "panic":
							bad = fmt.Sprintf("%s: evaluating panics: %s", where, out.why)
						case out.kind != "ok" || !ok || len(tp) != 2:
							note("auto-variables", "", where+", Evaluate: "+out.why)
							continue
						case errorCode(tp[1]) != "VAR_NOT_FOUND":
							bad = fmt.Sprintf("%s: evaluating gives %s %s; the variables %q are missing (they are spelled like functions but stand in variable position), which must be reported (VAR_NOT_FOUND)", where, mRender(tp[0]), errorCode(tp[1]), want)
						default:
							msg, named := errorField(tp[1], "Message"), false
							for _, w := range want {
								named = named || strings.Contains(strings.ToLower(msg), strings.ToLower(w))
							}
							if !named {
								bad = fmt.Sprintf("%s: evaluating reports VAR_NOT_FOUND with the message %q, which names none of the missing variables %q", where, msg, want)
							}
						}
					}
					note("auto-variables", bad, "")
				}
			}
		}
	}
	// unset variables of separate calculators are separate nulls: giving one a value in place leaves the other null
	{
		c1, o1 := m.Call(cctor)
		c2, o2 := m.Call(cctor)
		if o1.kind == "ok" && o2.kind == "ok" {
			_, s1 := callM(c, m, ct, "SetExpression", c1, "x IS NULL")
			_, s2 := callM(c, m, ct, "SetExpression", c2, "y + 1")
			if s1.kind == "opaque" || s2.kind == "opaque" {
				// a set-up step that left the model leaves its calculator half-updated: nothing is concluded
				note("separate-instances", "", "two calculators: SetExpression: "+s1.why+s2.why)
			} else {
				if dv, out := callM(c, m, ct, "DefaultVariables", c2); out.kind == "ok" {
					if dvi, ok := dv.(mIface); ok {
						if yv, out := callM(c, m, dvi.t, "FindByName", dvi.v, "y"); out.kind == "ok" {
							if yi, ok := yv.(mIface); ok {
								if val, out := callM(c, m, yi.t, "Value", yi.v); out.kind == "ok" {
									m.Call(c.MustFunc(pkgVariants, "Variant", "SetAsInteger"), val, int64(41))
								}
							}
						}
					}
				}
				r, out := callM(c, m, ct, "Evaluate", c1)
				tp, ok := r.(mTuple)
				switch {
				case out.kind == "panic":
					note("separate-instances", "evaluating ‹x IS NULL› panics: "+out.why, "")
				case out.kind != "ok" || !ok:
					note("separate-instances", "", "two calculators: "+out.why)
				default:
					res := "error " + errorCode(tp[1])
					if _, isNil := tp[1].(mNilT); isNil {
						pl, _ := m.Call(c.MustFunc(pkgVariants, "Variant", "AsObject"), tp[0])
						res = mRender(pl)
					}
					if res != "true" {
						note("separate-instances", fmt.Sprintf("‹x IS NULL› on one calculator evaluates to %s after the unset variable y of another calculator was given the value 41 in place: unset variables share one null variant", res), "")
					} else {
						note("separate-instances", "", "")
					}
				}
			}
		}
	}
	// templates: existing entries and values are kept, new names get one entry
	tctor := c.MustFunc("mustache", "", "NewMustacheTemplate")
	tt := resultType(tctor)
	for _, tc := range []struct {
		pre  map[string]string
		tmpl string
		want []string
	}{
		{map[string]string{}, "{{a}} {{#B}}{{A}}{{/B}}", []string{"a", "b"}},
		{map[string]string{"A": "1"}, "{{a}}{{#if c}}x{{/if}}", []string{"a", "c"}},
		{map[string]string{"z": "9"}, "text", []string{"z"}},
		{map[string]string{"\u023a": "1", "\u00c9t\u00e9": "2"}, "{{\u2c65}}{{#\u00e9T\u00c9}}x{{/\u00e9T\u00c9}}", []string{"\u2c65", "\u00e9t\u00e9"}},
	} {
		m.steps = 0
		tm, out := m.Call(tctor)
		if out.kind != "ok" {
			note("auto-variables", "", "NewMustacheTemplate: "+out.why)
			break
		}
		mm := &mMap{k: map[string]mv{}, v: map[string]mv{}}
		var keys []string
		for k := range tc.pre {
			keys = append(keys, k)
		}
		sort.Strings(keys)
		for _, k := range keys {
			ks, _ := mapKey(k)
			mm.keys = append(mm.keys, ks)
			mm.k[ks], mm.v[ks] = k, tc.pre[k]
		}
		if _, out := callM(c, m, tt, "SetDefaultVariables", tm, mm); out.kind != "ok" {
			note("auto-variables", "", "SetDefaultVariables: "+out.why)
			continue
		}
		if r, out := callM(c, m, tt, "SetTemplate", tm, tc.tmpl); out.kind != "ok" {
			note("auto-variables", "", "SetTemplate: "+out.why)
			continue
		} else if _, isNil := r.(mNilT); !isNil {
			continue
		}
		dv, out := callM(c, m, tt, "DefaultVariables", tm)
		dm, ok := dv.(*mMap)
		if out.kind != "ok" || !ok {
			note("auto-variables", "", "DefaultVariables of a template: "+out.why)
			continue
		}
		var names []string
		bad := ""
		for _, ks := range dm.keys {
			n, _ := dm.k[ks].(string)
			names = append(names, n)
			if pv, ok := tc.pre[n]; ok {
				if gv, _ := dm.v[ks].(string); gv != pv {
					bad = fmt.Sprintf("setting template %q replaces the value of the variable %q that was already there", tc.tmpl, n)
				}
			}
		}
		fu := foldUnique(names)
		sort.Strings(fu)
		want := append([]string{}, tc.want...)
		sort.Strings(want)
		if fmt.Sprint(fu) != fmt.Sprint(want) || len(names) != len(want) {
			bad = fmt.Sprintf("with variables %q already present, setting template %q leaves the default variables %q; one entry per name (case-insensitively), existing ones kept, is %q", tc.pre, tc.tmpl, names, tc.want)
		}
		note("auto-variables", bad, "")
	}
	// ---- (4) the collections as ordered lists ----------------------------------------------------
	for _, kind := range []string{"variables", "functions"} {
		var cctor2, mk *ssa.Function
		if kind == "variables" {
			cctor2 = c.MustFunc("calculator/variables", "", "NewVariableCollection")
			mk = newVar
		} else {
			cctor2 = c.MustFunc("calculator/functions", "", "NewFunctionCollection")
			mk = c.MustFunc("calculator/functions", "", "NewDelegatedFunction")
		}
		colT := resultType(cctor2)
		ops := []string{"Add x", "Add X", "Add y", "Remove 0", "Remove 1", "Remove 2", "RemoveByName x", "RemoveByName Y", "RemoveByName q", "Clear"}
		if kind == "variables" {
			ops = append(ops, "Locate z", "Locate X", "ClearValues")
		}
		var seqs [][]string
		for _, a := range ops {
			for _, b := range ops {
				seqs = append(seqs, []string{"Add x", a, b})
				for _, d := range ops {
					seqs = append(seqs, []string{a, b, d})
				}
			}
		}
		// longer lists: four entries, then every pair of operations (removing from the front or the middle keeps the order of the rest)
		for _, a := range ops {
			for _, b := range ops {
				seqs = append(seqs, []string{"Add x", "Add X", "Add y", "Add z", a, b})
			}
		}
		key := "list-model-" + kind
		for _, seq := range seqs {
			m.steps = 0
			col, out := m.Call(cctor2)
			if out.kind != "ok" {
				note(key, "", cctor2.Name()+": "+out.why)
				break
			}
			var model []listEntry
			nid := 0
			var hist []string
			for _, op := range seq {
				f := strings.Fields(op)
				find := func(n string) int {
					for i, e := range model {
						if strings.EqualFold(e.name, n) {
							return i
						}
					}
					return -1
				}
				skip := false
				switch f[0] {
				case "Add":
					nid++
					var item mv
					var o2 mOutcome
					if kind == "variables" {
						val, _ := m.Call(vfi, int64(nid))
						item, o2 = m.Call(mk, f[1], val)
					} else {
						item, o2 = m.Call(mk, f[1], &mSym{name: fmt.Sprintf("calc%d", nid), nonNil: true})
					}
					if o2.kind != "ok" {
						note(key, "", "constructing an entry: "+o2.why)
						skip = true
						break
					}
					_, out = callM(c, m, colT, "Add", col, mIface{t: resultType(mk), v: item})
					model = append(model, listEntry{f[1], nid})
				case "Remove":
					var idx int
					fmt.Sscan(f[1], &idx)
					if idx >= len(model) {
						skip = true
						break
					}
					_, out = callM(c, m, colT, "Remove", col, int64(idx))
					model = append(model[:idx:idx], model[idx+1:]...)
				case "RemoveByName":
					_, out = callM(c, m, colT, "RemoveByName", col, f[1])
					if i := find(f[1]); i >= 0 {
						model = append(model[:i:i], model[i+1:]...)
					}
				case "Clear":
					_, out = callM(c, m, colT, "Clear", col)
					model = nil
				case "ClearValues":
					_, out = callM(c, m, colT, "ClearValues", col)
				case "Locate":
					_, out = callM(c, m, colT, "Locate", col, f[1])
					if find(f[1]) < 0 {
						nid++
						model = append(model, listEntry{f[1], nid})
					}
				}
				if skip {
					break
				}
				hist = append(hist, op)
				where := fmt.Sprintf("%s collection after %s", kind, strings.Join(hist, ", "))
				if out.kind == "panic" {
					note(key, where+": panics: "+out.why, "")
					break
				}
				if out.kind != "ok" {
					note(key, "", where+": "+out.why)
					break
				}
				names, vals, why := collectionEntries(c, m, mIface{t: colT, v: col})
				if why != "" {
					note(key, "", where+": "+why)
					break
				}
				// cleared values are nulls, and each variable has its own
				if f[0] == "ClearValues" {
					for vi, val := range vals {
						if p, ok := val.(*mv); !ok || p == nil {
							note(key, fmt.Sprintf("%s, the value of entry %d is %s; a cleared variable holds a null value, not nothing", where, vi, mRender(val)), "")
							continue
						}
						if t, o := m.Call(c.MustFunc(pkgVariants, "Variant", "AsObject"), val); o.kind == "ok" {
							if _, isNil := t.(mNilT); !isNil {
								note(key, fmt.Sprintf("%s, entry %d still holds %s", where, vi, mRender(t)), "")
							}
						}
						for vj := 0; vj < vi; vj++ {
							if eq, known := m.equal(vals[vj], val); known && eq {
								note(key, fmt.Sprintf("%s, entries %d and %d hold one and the same value object: assigning to one variable's value in place changes the other", where, vj, vi), "")
							}
						}
					}
				}
				var want []string
				for _, e := range model {
					want = append(want, e.name)
				}
				bad := ""
				if fmt.Sprint(names) != fmt.Sprint(want) {
					bad = fmt.Sprintf("%s holds %q; an ordered list holds %q", where, names, want)
				}
				for _, probe := range []string{"x", "X", "y", "z", "q"} {
					r, o := callM(c, m, colT, "FindIndexByName", col, probe)
					gi, _ := r.(int64)
					if o.kind == "ok" && int(gi) != find(probe) && bad == "" {
						bad = fmt.Sprintf("%s, FindIndexByName(%q) returns %d; the first entry with that name compared case-insensitively is at %d", where, probe, gi, find(probe))
					}
				}
				note(key, bad, "")
			}
		}
	}
	// ---- (5) resolution: first added wins, case-insensitively; missing names are reported ----------
	{
		calc, out := m.Call(cctor)
		vc := c.MustFunc("calculator/variables", "", "NewVariableCollection")
		fc := c.MustFunc("calculator/functions", "", "NewFunctionCollection")
		if out.kind == "ok" {
			for _, tc := range []struct {
				vars       []string
				expr, want string
			}{
				{[]string{"x", "X"}, "X", "value of x#1"},
				{[]string{"Abc", "abc", "ABC"}, "aBC", "value of Abc#1"},
				{[]string{"\u023a", "\u2c65"}, "\"\u2c65\"", "value of \u023a#1"},
				{[]string{"\u00c9t\u00e9", "\u00e9t\u00e9"}, "\u00e9T\u00c9", "value of first"},
				{nil, "a + 1", "error VAR_NOT_FOUND naming a"},
				{[]string{"b"}, "g ( b )", "error FUNC_NOT_FOUND naming g"},
			} {
				m.steps = 0
				vcol, _ := m.Call(vc)
				fcol, _ := m.Call(fc)
				var firstVal mv
				for i, n := range tc.vars {
					val, _ := m.Call(vfi, int64(100+i))
					if i == 0 {
						firstVal = val
					}
					vr, _ := m.Call(newVar, n, val)
					callM(c, m, resultType(vc), "Add", vcol, mIface{t: resultType(newVar), v: vr})
				}
				if r, out := callM(c, m, ct, "SetExpression", calc, tc.expr); out.kind != "ok" {
					note("resolution", "", "SetExpression: "+out.why)
					continue
				} else if _, isNil := r.(mNilT); !isNil {
					note("resolution", "", "SetExpression fails: "+errorCode(r))
					continue
				}
				r, out := callM(c, m, ct, "EvaluateUsingVariablesAndFunctions", calc, mIface{t: resultType(vc), v: vcol}, mIface{t: resultType(fc), v: fcol})
				tp, ok := r.(mTuple)
				if out.kind == "panic" {
					note("resolution", fmt.Sprintf("evaluating %q with variables %q panics: %s", tc.expr, tc.vars, out.why), "")
					continue
				}
				if out.kind != "ok" || !ok {
					note("resolution", "", fmt.Sprintf("evaluating %q: %s", tc.expr, out.why))
					continue
				}
				bad := ""
				if strings.HasPrefix(tc.want, "value") {
					if eq, known := m.equal(tp[0], firstVal); !known || !eq {
						bad = fmt.Sprintf("evaluating %q with variables %q added in that order does not return the value of the first one (%s)", tc.expr, tc.vars, tc.want)
					}
				} else {
					f := strings.Fields(tc.want)
					code, name := f[1], f[3]
					msg := errorField(tp[1], "Message")
					if errorCode(tp[1]) != code || !strings.Contains(msg, name) {
						bad = fmt.Sprintf("evaluating %q with variables %q gives error code %q message %q; a missing name must be reported as %s", tc.expr, tc.vars, errorCode(tp[1]), msg, tc.want)
					}
				}
				note("resolution", bad, "")
			}
		} else {
			note("resolution", "", "NewExpressionCalculator: "+out.why)
		}
	}
	c.namexEmptyIdentifier(m, note)
	wg.Wait()
	return nv
}

// ---- (6) letters whose case mappings are not one-to-one ------------------------------------------------
//
// "With automatic variables on the default collection ends up with exactly one entry per such name compared
// case-insensitively", and the reported names "cover exactly the identifiers that occur in variable
// position (names differing only in letter case may be merged)". Which letters differ only in case is the
// collection's business (it resolves the names); discovery must not be coarser than the collection: for
// expressions and templates with two identifiers that are equal under one of upper-casing, lower-casing and
// Unicode case folding and different under another (Kelvin sign / k, Ohm sign / omega, capital sharp s / ß,
// dotless ı / i, long s / s, İ / i, micro sign / mu, a title-case digraph), plain and double-quoted, in either
// order: every identifier resolves in the default collection after SetExpression / SetTemplate, no entry of
// the collection is shadowed by an earlier one, an evaluation does not miss a variable, and a collection
// built from the reported names resolves every identifier.
func (c *Ctx) namexFoldPairs(m *mach, part, parts int, note func(k, bad, undec string)) {
	pairs := [][2]string{
		{"tk", "tK"}, {"t\u212a", "tk"}, {"t\u212a", "tK"}, {"t\u2126", "t\u03c9"}, {"t\u2126", "t\u03a9"}, {"t\u1e9e", "t\u00df"},
		{"t\u0131", "ti"}, {"t\u0131", "tI"}, {"t\u017f", "ts"}, {"t\u017f", "tS"}, {"t\u0130", "ti"}, {"t\u00b5", "t\u03bc"}, {"t\u01c5", "t\u01c6"}, {"t\u01c5", "t\u01c4"},
	}
	cctor := c.MustFunc(pkgCalc, "", "NewExpressionCalculator")
	ct := resultType(cctor)
	pctor := c.MustFunc(pkgParsers, "", "NewExpressionParser")
	pt := resultType(pctor)
	vcctor := c.MustFunc("calculator/variables", "", "NewVariableCollection")
	vct := resultType(vcctor)
	quote := func(s string) string { return "\"" + s + "\"" }
	isNil := func(v mv) bool {
		if _, ok := v.(mNilT); ok {
			return true
		}
		if i, ok := v.(mIface); ok {
			if _, ok := i.v.(mNilT); ok {
				return true
			}
			if p, ok := i.v.(*mv); ok && p == nil {
				return true
			}
		}
		p, ok := v.(*mv)
		return ok && p == nil
	}
	for pi, pr := range pairs {
		if pi%parts != part {
			continue
		}
		for _, order := range [][2]string{{pr[0], pr[1]}, {pr[1], pr[0]}} {
			for _, quoted := range []int{0, 1, 2} { // none, both, the first only
				a, b := order[0], order[1]
				ids := []string{a, b}
				switch quoted {
				case 1:
					a, b = quote(a), quote(b)
				case 2:
					a = quote(a)
				}
				for _, e := range []string{a + " + " + b, "Max(" + a + ", " + b + ")", a + "[" + b + "] = " + a} {
					m.steps = 0
					calc, out := m.Call(cctor)
					if out.kind != "ok" {
						note("case-mappings", "", "NewExpressionCalculator: "+out.why)
						return
					}
					r, out := callM(c, m, ct, "SetExpression", calc, e)
					if out.kind == "panic" {
						note("case-mappings", fmt.Sprintf("SetExpression(%+q) panics: %s", e, out.why), "")
						continue
					}
					if out.kind != "ok" {
						note("case-mappings", "", fmt.Sprintf("SetExpression(%+q): %s", e, out.why))
						continue
					}
					if !isNil(r) {
						// how a letter outside the quotes is tokenized is not this property's business
						if quoted == 1 {
							note("case-mappings", "", fmt.Sprintf("SetExpression(%+q) fails with %s", e, errorCode(r)))
						}
						continue
					}
					noteSample("NAME.model/case-mappings", e)
					dv, out := callM(c, m, ct, "DefaultVariables", calc)
					dvi, ok := dv.(mIface)
					if out.kind != "ok" || !ok {
						note("case-mappings", "", "DefaultVariables: "+out.why)
						continue
					}
					names, _, why := collectionEntries(c, m, dvi)
					if why != "" {
						note("case-mappings", "", why)
						continue
					}
					bad := ""
					for _, id := range ids {
						f, o := callM(c, m, dvi.t, "FindByName", dvi.v, id)
						if o.kind == "ok" && isNil(f) && bad == "" {
							bad = fmt.Sprintf("automatic variables on, SetExpression(%+q): the default collection holds %+q, in which the identifier %+q does not resolve (FindByName answers nil): one entry per identifier as the collection compares names", e, names, id)
						}
					}
					for i, n := range names {
						r, o := callM(c, m, dvi.t, "FindIndexByName", dvi.v, n)
						if gi, _ := r.(int64); o.kind == "ok" && int(gi) != i && bad == "" {
							bad = fmt.Sprintf("automatic variables on, SetExpression(%+q): the default collection holds %+q; entry %d (%+q) is shadowed by entry %d, which the collection takes for the same name: exactly one entry per name", e, names, i, n, gi)
						}
					}
					if bad == "" {
						ev, o := callM(c, m, ct, "Evaluate", calc)
						if tp, ok := ev.(mTuple); ok && o.kind == "ok" && errorCode(tp[1]) == "VAR_NOT_FOUND" {
							bad = fmt.Sprintf("automatic variables on, SetExpression(%+q), Evaluate: %s (%s); every identifier in variable position has an entry after the expression was set", e, errorCode(tp[1]), errorField(tp[1], "Message"))
						} else if o.kind == "panic" {
							bad = fmt.Sprintf("automatic variables on, SetExpression(%+q), Evaluate panics: %s", e, o.why)
						}
					}
					// the names the parser reports, put into a collection of their own, cover every identifier
					if bad == "" {
						parser, o0 := m.Call(pctor)
						pr, o1 := callM(c, m, pt, "ParseString", parser, e)
						vn, o2 := callM(c, m, pt, "VariableNames", parser)
						col, o3 := m.Call(vcctor)
						reported, ok := stringsOfSlice(vn)
						if o0.kind == "ok" && o1.kind == "ok" && o2.kind == "ok" && o3.kind == "ok" && ok && isNil(pr) {
							for _, n := range reported {
								callM(c, m, vct, "Locate", col, n)
							}
							for _, id := range ids {
								f, o := callM(c, m, vct, "FindByName", col, id)
								if o.kind == "ok" && isNil(f) && bad == "" {
									bad = fmt.Sprintf("ParseString(%+q) reports the variable names %+q; a variable collection holding exactly these does not resolve the identifier %+q: the reported names must cover every identifier in variable position (merging is allowed only for names the collection takes for one)", e, reported, id)
								}
							}
						} else {
							note("case-mappings", "", fmt.Sprintf("ParseString(%+q): %s%s%s%s", e, o0.why, o1.why, o2.why, o3.why))
						}
					}
					note("case-mappings", bad, "")
				}
			}
			// templates: every identifier has a default variable the template itself finds
			tctor := c.MustFunc("mustache", "", "NewMustacheTemplate")
			tt := resultType(tctor)
			a, b := order[0], order[1]
			for _, src := range []string{"{{" + a + "}}{{" + b + "}}", "{{#" + a + "}}{{{" + b + "}}}{{/" + a + "}}", "{{^" + a + "}}x{{/" + a + "}}{{#" + b + "}}y{{/" + b + "}}"} {
				m.steps = 0
				tm, out := m.Call(tctor)
				if out.kind != "ok" {
					note("case-mappings", "", "NewMustacheTemplate: "+out.why)
					return
				}
				r, out := callM(c, m, tt, "SetTemplate", tm, src)
				if out.kind == "panic" {
					note("case-mappings", fmt.Sprintf("SetTemplate(%+q) panics: %s", src, out.why), "")
					continue
				}
				if out.kind != "ok" {
					note("case-mappings", "", fmt.Sprintf("SetTemplate(%+q): %s", src, out.why))
					continue
				}
				if !isNil(r) {
					continue // how such a letter is tokenized inside a tag is not this property's business
				}
				dv, out := callM(c, m, tt, "DefaultVariables", tm)
				dm, ok := dv.(*mMap)
				if out.kind != "ok" || !ok || dm == nil {
					note("case-mappings", "", "DefaultVariables of a template: "+out.why)
					continue
				}
				var names []string
				for _, ks := range dm.keys {
					n, _ := dm.k[ks].(string)
					names = append(names, n)
				}
				sort.Strings(names)
				bad := ""
				for _, id := range []string{a, b} {
					g, o := callM(c, m, tt, "GetVariable", tm, dm, id)
					if o.kind == "ok" && isNil(g) && bad == "" {
						bad = fmt.Sprintf("automatic variables on, SetTemplate(%+q): the default variables are %+q, among which the template does not find %+q (GetVariable answers nil): one entry per identifier as the template compares names", src, names, id)
					}
				}
				note("case-mappings", bad, "")
			}
		}
	}
}

// ---- (7) the empty quoted identifier -------------------------------------------------------------------
//
// "" in variable position is an identifier like any other for the parser; whatever the calculator does with
// it (an entry named "" or none), setting the expression and creating the variables must come back, and
// every other identifier gets its entry, in order of first occurrence, entries already there being kept.
func (c *Ctx) namexEmptyIdentifier(m *mach, note func(k, bad, undec string)) {
	cctor := c.MustFunc(pkgCalc, "", "NewExpressionCalculator")
	ct := resultType(cctor)
	vcctor := c.MustFunc("calculator/variables", "", "NewVariableCollection")
	vct := resultType(vcctor)
	newVar := c.MustFunc("calculator/variables", "", "NewVariable")
	vfi := c.MustFunc(pkgVariants, "", "VariantFromInteger")
	for _, tc := range []struct {
		expr string
		want []string
	}{
		{`""`, nil}, {`"" + x`, []string{"x"}}, {`x + ""`, []string{"x"}}, {`a * Max(b, "") - A`, []string{"a", "b"}}, {`Max("", b, c)`, []string{"b", "c"}},
		{`kept + c[""] + "" + 'text'`, []string{"kept", "c"}}, {`""[i]`, []string{"i"}}, {`"" IS NULL`, nil}, {`NOT "" OR z`, []string{"z"}}, {`p IN "" AND q IN ""`, []string{"p", "q"}},
		{`- "" * y`, []string{"y"}}, {`f("")`, nil}, {`"" = '' AND "" <> u`, []string{"u"}},
	} {
		for _, way := range []string{"SetExpression", "CreateVariables", "CreateVariables over [B kept]"} {
			m.steps = 0
			calc, out := m.Call(cctor)
			if out.kind != "ok" {
				note("empty-identifier", "", "NewExpressionCalculator: "+out.why)
				return
			}
			var col mIface
			var pre []string
			where := fmt.Sprintf("automatic variables on, SetExpression(%q)", tc.expr)
			if way == "SetExpression" {
				r, out := callM(c, m, ct, "SetExpression", calc, tc.expr)
				if out.kind == "panic" {
					note("empty-identifier", where+" panics: "+out.why+"; the identifiers of the expression get no entries", "")
					continue
				}
				if out.kind != "ok" {
					note("empty-identifier", "", where+": "+out.why)
					continue
				}
				if _, isNil := r.(mNilT); !isNil {
					continue // refusing the empty identifier with an error is the parser's choice (C02)
				}
				dv, out := callM(c, m, ct, "DefaultVariables", calc)
				dvi, ok := dv.(mIface)
				if out.kind != "ok" || !ok {
					note("empty-identifier", "", "DefaultVariables: "+out.why)
					continue
				}
				col = dvi
			} else {
				where = fmt.Sprintf("automatic variables off, SetExpression(%q), then %s", tc.expr, way)
				callM(c, m, ct, "SetAutoVariables", calc, false)
				r, out := callM(c, m, ct, "SetExpression", calc, tc.expr)
				if out.kind != "ok" {
					if out.kind == "panic" {
						note("empty-identifier", where+": SetExpression panics: "+out.why, "")
					} else {
						note("empty-identifier", "", where+": "+out.why)
					}
					continue
				}
				if _, isNil := r.(mNilT); !isNil {
					continue
				}
				cv, out := m.Call(vcctor)
				if out.kind != "ok" {
					note("empty-identifier", "", "NewVariableCollection: "+out.why)
					continue
				}
				col = mIface{t: vct, v: cv}
				if strings.Contains(way, "over") {
					pre = []string{"B", "kept"}
					for i, p := range pre {
						val, _ := m.Call(vfi, int64(i+5))
						vr, _ := m.Call(newVar, p, val)
						callM(c, m, vct, "Add", cv, mIface{t: resultType(newVar), v: vr})
					}
				}
				if _, out := callM(c, m, ct, "CreateVariables", calc, col); out.kind == "panic" {
					note("empty-identifier", where+" panics: "+out.why+"; the identifiers of the expression get no entries", "")
					continue
				} else if out.kind != "ok" {
					note("empty-identifier", "", where+": "+out.why)
					continue
				}
			}
			names, _, why := collectionEntries(c, m, col)
			if why != "" {
				note("empty-identifier", "", where+": "+why)
				continue
			}
			want := foldUnique(append(append([]string{}, pre...), tc.want...))
			var got []string
			empties := 0
			for _, n := range names {
				if n == "" {
					empties++
					continue
				}
				got = append(got, n)
			}
			bad := ""
			if fmt.Sprint(foldUnique(got)) != fmt.Sprint(want) || len(got) != len(want) || empties > 1 {
				bad = fmt.Sprintf("%s: the collection holds %q; one entry per identifier in variable position, in order of first occurrence after the entries already there, is %q (with or without one for the empty identifier)", where, names, want)
			}
			note("empty-identifier", bad, "")
		}
	}
}

// ---- (8) resolution follows the collection as it is now ------------------------------------------------
//
// "Variables and functions are resolved case-insensitively with the first one added winning, a missing
// variable or function is reported as an error naming it, and adding, locating, removing and clearing
// entries behave as on an ordered list": one calculator, one expression calling fn (reading vr), and every
// history of three steps over {evaluate, set the expression again in another letter case, add a second
// entry of the same name, remove the first entry, remove by name, clear} on the default collection and on a
// collection supplied by the caller; then an evaluation. Every evaluation answers as the list stands at
// that moment: the value of the first entry of that name, or the error naming the identifier.
func (c *Ctx) namexHistories(m *mach, kind, whose string, note func(k, bad, undec string)) {
	cctor := c.MustFunc(pkgCalc, "", "NewExpressionCalculator")
	ct := resultType(cctor)
	vcctor := c.MustFunc("calculator/variables", "", "NewVariableCollection")
	fcctor := c.MustFunc("calculator/functions", "", "NewFunctionCollection")
	newVar := c.MustFunc("calculator/variables", "", "NewVariable")
	newFn := c.MustFunc("calculator/functions", "", "NewDelegatedFunction")
	vfi := c.MustFunc(pkgVariants, "", "VariantFromInteger")
	vtNames := c.variantTypeNames()
	// the calculator of the n-th function added answers with the Integer n
	m.symFunc = func(m *mach, f *mSym, args []mv) (mv, bool) {
		var n int64
		if _, err := fmt.Sscanf(f.name, "answers-%d", &n); err != nil {
			return nil, false
		}
		v, out := m.Call(vfi, n)
		if out.kind != "ok" {
			return nil, false
		}
		return mTuple{v, mNil}, true
	}
	defer func() { m.symFunc = nil }()
	ops := []string{"Evaluate", "SetExpression", "Add", "Remove", "RemoveByName", "Clear"}
	var seqs [][]string
	for _, a := range ops {
		for _, b := range ops {
			for _, d := range ops {
				seqs = append(seqs, []string{a, b, d})
			}
		}
	}
	{
		key := "resolution-histories-" + kind
		spell := map[string][2]string{"functions": {"fn(1)", "FN(1)"}, "variables": {"vr", "VR"}}[kind]
		ident := map[string][2]string{"functions": {"fn", "FN"}, "variables": {"vr", "VR"}}[kind]
		missing := map[string]string{"functions": "FUNC_NOT_FOUND", "variables": "VAR_NOT_FOUND"}[kind]
		{
			for _, seq := range seqs {
				m.steps = 0
				calc, out := m.Call(cctor)
				if out.kind != "ok" {
					note(key, "", "NewExpressionCalculator: "+out.why)
					return
				}
				if r, out := callM(c, m, ct, "SetExpression", calc, spell[0]); out.kind != "ok" {
					note(key, "", "SetExpression: "+out.why)
					continue
				} else if _, isNil := r.(mNilT); !isNil {
					note(key, "", "SetExpression fails: "+errorCode(r))
					continue
				}
				cur := 0 // the spelling the expression has now
				// the collections
				var vars, funcs mIface
				dv, o1 := callM(c, m, ct, "DefaultVariables", calc)
				df, o2 := callM(c, m, ct, "DefaultFunctions", calc)
				vars, ok1 := dv.(mIface)
				funcs, ok2 := df.(mIface)
				if o1.kind != "ok" || o2.kind != "ok" || !ok1 || !ok2 {
					note(key, "", "default collections: "+o1.why+o2.why)
					continue
				}
				if whose == "supplied" {
					if kind == "functions" {
						fc, _ := m.Call(fcctor)
						funcs = mIface{t: resultType(fcctor), v: fc}
					} else {
						vc, _ := m.Call(vcctor)
						vars = mIface{t: resultType(vcctor), v: vc}
					}
				}
				col := funcs
				if kind == "variables" {
					col = vars
				}
				// the model: the entries named like the identifier (others - the default functions - stay in front)
				base, _, why := collectionEntries(c, m, col)
				if why != "" {
					note(key, "", why)
					continue
				}
				var model []listEntry
				front := len(base)
				for i, n := range base {
					if strings.EqualFold(n, ident[0]) {
						// created by SetExpression (automatic variables): a null value
						model = append(model, listEntry{n, 0})
						front = i
					}
				}
				nid := 0
				add := func(name string) bool {
					nid++
					var item mv
					var o mOutcome
					if kind == "variables" {
						val, _ := m.Call(vfi, int64(nid))
						item, o = m.Call(newVar, name, val)
						if o.kind == "ok" {
							_, o = callM(c, m, col.t, "Add", col.v, mIface{t: resultType(newVar), v: item})
						}
					} else {
						item, o = m.Call(newFn, name, &mSym{name: fmt.Sprintf("answers-%d", nid), nonNil: true})
						if o.kind == "ok" {
							_, o = callM(c, m, col.t, "Add", col.v, mIface{t: resultType(newFn), v: item})
						}
					}
					model = append(model, listEntry{name, nid})
					return o.kind == "ok"
				}
				if len(model) == 0 && !add(ident[0]) {
					note(key, "", "adding an entry failed")
					continue
				}
				var hist []string
				evaluate := func() (string, string) { // got, want
					var r mv
					var o mOutcome
					switch {
					case whose == "default":
						r, o = callM(c, m, ct, "Evaluate", calc)
					case kind == "variables":
						r, o = callM(c, m, ct, "EvaluateUsingVariables", calc, vars)
					default:
						r, o = callM(c, m, ct, "EvaluateUsingVariablesAndFunctions", calc, vars, funcs)
					}
					want := "the error " + missing + " naming " + ident[cur]
					if len(model) > 0 {
						want = fmt.Sprintf("Integer %d", model[0].id)
						if model[0].id == 0 {
							want = "Null nil"
						}
					}
					tp, ok := r.(mTuple)
					switch {
					case o.kind == "panic":
						return "a panic: " + o.why, want
					case o.kind != "ok" || !ok || len(tp) != 2:
						return "opaque: " + o.why, want
					}
					if _, isNil := tp[1].(mNilT); !isNil {
						got := "the error " + errorCode(tp[1])
						if strings.Contains(errorField(tp[1], "Message"), ident[cur]) {
							got += " naming " + ident[cur]
						} else {
							got += " with the message " + errorField(tp[1], "Message")
						}
						return got, want
					}
					t, _ := m.Call(c.MustFunc(pkgVariants, "Variant", "Type"), tp[0])
					pl, _ := m.Call(c.MustFunc(pkgVariants, "Variant", "AsObject"), tp[0])
					k, _ := t.(int64)
					return vtNames[k] + " " + mRender(pl), want
				}
				bad, undec := "", ""
				for step := 0; step <= len(seq) && bad == "" && undec == ""; step++ {
					op := "Evaluate"
					if step < len(seq) {
						op = seq[step]
					}
					var o mOutcome
					o.kind = "ok"
					switch op {
					case "Evaluate":
						hist = append(hist, "Evaluate")
						got, want := evaluate()
						if strings.HasPrefix(got, "opaque") {
							undec = got
						} else if got != want {
							bad = fmt.Sprintf("one calculator, expression %q, %s %s collection holding one %s: after %s the evaluation gives %s; the list now holds %s, so the answer is %s", spell[0], whose, kind, ident[0], strings.Join(hist, ", "), got, renderEntries(model), want)
						}
						continue
					case "SetExpression":
						cur = 1 - cur
						var r mv
						r, o = callM(c, m, ct, "SetExpression", calc, spell[cur])
						if o.kind == "ok" {
							if _, isNil := r.(mNilT); !isNil {
								undec = "SetExpression fails: " + errorCode(r)
							}
						}
						hist = append(hist, fmt.Sprintf("SetExpression(%q)", spell[cur]))
						// automatic variables: an entry for a name the default collection does not hold
						if kind == "variables" && whose == "default" && len(model) == 0 {
							model = append(model, listEntry{ident[cur], 0})
							if l, _ := callM(c, m, col.t, "Length", col.v); l != nil {
								if n, ok := l.(int64); ok && n > 0 {
									front = int(n) - 1
								}
							}
						}
					case "Add":
						if !add(ident[1]) {
							undec = "adding an entry failed"
						}
						hist = append(hist, fmt.Sprintf("Add(%s#%d)", ident[1], nid))
					case "Remove":
						if len(model) == 0 {
							bad, undec = "", "-"
							break
						}
						_, o = callM(c, m, col.t, "Remove", col.v, int64(front))
						hist = append(hist, fmt.Sprintf("Remove(%d)", front))
						model = model[1:]
					case "RemoveByName":
						_, o = callM(c, m, col.t, "RemoveByName", col.v, strings.ToUpper(ident[0][:1])+ident[0][1:])
						hist = append(hist, fmt.Sprintf("RemoveByName(%q)", strings.ToUpper(ident[0][:1])+ident[0][1:]))
						if len(model) > 0 {
							model = model[1:]
						}
					case "Clear":
						_, o = callM(c, m, col.t, "Clear", col.v)
						hist = append(hist, "Clear()")
						model, front = nil, 0
					}
					if o.kind == "panic" {
						bad = fmt.Sprintf("%s %s collection: %s panics: %s", whose, kind, strings.Join(hist, ", "), o.why)
					} else if o.kind != "ok" {
						undec = strings.Join(hist, ", ") + ": " + o.why
					}
				}
				if undec == "-" { // a step that does not apply (removing from an empty list): the history ends there
					undec = ""
				}
				note(key, bad, undec)
			}
		}
	}
}

// ---- (9) automatic variables follow the default collection as it is now ----------------------------------
//
// "After an expression is set, with automatic variables on the default collection ends up with exactly one
// entry per variable name": whatever happened to the calculator before. One calculator; an expression is set
// (automatic variables on or off); the default collection is changed by its owner (cleared, one entry removed
// by name or by index, an entry given a value, a foreign entry added) and / or the switch is turned; an
// expression is set again - the very same text, the same text in another letter case, another text. Then the
// collection holds the entries it held before that call, values untouched, followed by one entry per
// identifier of the text that it lacked (none with the switch off), and with the switch on an evaluation
// does not miss a variable.
func (c *Ctx) namexAutoHistories(m *mach, note func(k, bad, undec string)) {
	const key = "auto-variables-histories"
	cctor := c.MustFunc(pkgCalc, "", "NewExpressionCalculator")
	ct := resultType(cctor)
	newVar := c.MustFunc("calculator/variables", "", "NewVariable")
	vfi := c.MustFunc(pkgVariants, "", "VariantFromInteger")
	type entry struct {
		name string
		val  mv // a value the history gave it (nil: whatever it has)
	}
	first := "a + B * c"
	seconds := []string{first, "A + b * C", "b - d", "1 + 2"}
	muts := []string{"nothing", "Clear()", "RemoveByName(\"b\")", "RemoveByName(\"C\")", "Remove(0)", "Get(0).SetValue(5)", "Add(z=7)", "Clear(), Add(B=7)"}
	for _, auto0 := range []bool{true, false} {
		for _, auto1 := range []bool{true, false} {
			for _, mut := range muts {
				for _, second := range seconds {
					m.steps = 0
					calc, out := m.Call(cctor)
					if out.kind != "ok" {
						note(key, "", "NewExpressionCalculator: "+out.why)
						return
					}
					var hist []string
					undec, bad := "", ""
					step := func(what string, o mOutcome) {
						hist = append(hist, what)
						if o.kind == "panic" && bad == "" {
							bad = fmt.Sprintf("one calculator: %s panics: %s", strings.Join(hist, ", "), o.why)
						} else if o.kind != "ok" && undec == "" {
							undec = strings.Join(hist, ", ") + ": " + o.why
						}
					}
					set := func(text string) {
						r, o := callM(c, m, ct, "SetExpression", calc, text)
						step(fmt.Sprintf("SetExpression(%q)", text), o)
						if o.kind == "ok" {
							if _, isNil := r.(mNilT); !isNil && bad == "" {
								bad = fmt.Sprintf("one calculator: after %s the well-formed expression is refused with %s", strings.Join(hist, ", "), errorCode(r))
							}
						}
					}
					var model []entry
					create := func(text string, auto bool) {
						ids, _ := refIdentifiers(lexemes(text))
						for _, id := range ids {
							have := false
							for _, e := range model {
								have = have || strings.EqualFold(e.name, id)
							}
							if auto && !have {
								model = append(model, entry{name: id})
							}
						}
					}
					if !auto0 {
						_, o := callM(c, m, ct, "SetAutoVariables", calc, false)
						step("SetAutoVariables(false)", o)
					}
					set(first)
					create(first, auto0)
					dv, o := callM(c, m, ct, "DefaultVariables", calc)
					col, ok := dv.(mIface)
					if o.kind != "ok" || !ok {
						note(key, "", "DefaultVariables: "+o.why)
						continue
					}
					addVar := func(name string, n int64) {
						val, _ := m.Call(vfi, n)
						vr, o := m.Call(newVar, name, val)
						if o.kind == "ok" {
							_, o = callM(c, m, col.t, "Add", col.v, mIface{t: resultType(newVar), v: vr})
						}
						step(fmt.Sprintf("DefaultVariables().Add(%s=%d)", name, n), o)
						model = append(model, entry{name, val})
					}
					removeNamed := func(name string) {
						_, o := callM(c, m, col.t, "RemoveByName", col.v, name)
						step(fmt.Sprintf("DefaultVariables().RemoveByName(%q)", name), o)
						for i, e := range model {
							if strings.EqualFold(e.name, name) {
								model = append(append([]entry{}, model[:i]...), model[i+1:]...)
								break
							}
						}
					}
					switch mut {
					case "Clear()":
						_, o := callM(c, m, col.t, "Clear", col.v)
						step("DefaultVariables().Clear()", o)
						model = nil
					case "RemoveByName(\"b\")":
						removeNamed("b")
					case "RemoveByName(\"C\")":
						removeNamed("C")
					case "Remove(0)":
						if len(model) == 0 {
							continue // nothing to remove: the history does not exist
						}
						_, o := callM(c, m, col.t, "Remove", col.v, int64(0))
						step("DefaultVariables().Remove(0)", o)
						model = model[1:]
					case "Get(0).SetValue(5)":
						if len(model) == 0 {
							continue
						}
						val, _ := m.Call(vfi, int64(5))
						e, o := callM(c, m, col.t, "Get", col.v, int64(0))
						if ei, ok := e.(mIface); ok && o.kind == "ok" {
							_, o = callM(c, m, ei.t, "SetValue", ei.v, val)
						}
						step("DefaultVariables().Get(0).SetValue(5)", o)
						model[0].val = val
					case "Add(z=7)":
						addVar("z", 7)
					case "Clear(), Add(B=7)":
						_, o := callM(c, m, col.t, "Clear", col.v)
						step("DefaultVariables().Clear()", o)
						model = nil
						addVar("B", 7)
					}
					if auto1 != auto0 {
						_, o := callM(c, m, ct, "SetAutoVariables", calc, auto1)
						step(fmt.Sprintf("SetAutoVariables(%v)", auto1), o)
					}
					set(second)
					create(second, auto1)
					if bad != "" || undec != "" {
						note(key, bad, undec)
						continue
					}
					names, vals, why := collectionEntries(c, m, col)
					if why != "" {
						note(key, "", strings.Join(hist, ", ")+": "+why)
						continue
					}
					var want []string
					for _, e := range model {
						want = append(want, e.name)
					}
					same := len(names) == len(want)
					for i := 0; same && i < len(names); i++ {
						same = strings.EqualFold(names[i], want[i])
					}
					onoff := map[bool]string{true: "on", false: "off"}[auto1]
					switch {
					case !same:
						bad = fmt.Sprintf("one calculator: after %s the default collection holds %q; automatic variables are %s, so it holds what it held before the last call plus one entry per identifier of %q that it lacked: %q", strings.Join(hist, ", "), names, onoff, second, want)
					default:
						for i, e := range model {
							if e.val != nil && i < len(vals) {
								if eq, known := m.equal(e.val, vals[i]); !known || !eq {
									bad = fmt.Sprintf("one calculator: after %s the variable %q no longer has the value it was given: an entry that is already there is kept as it is", strings.Join(hist, ", "), e.name)
								}
							}
						}
					}
					if bad == "" {
						ids, _ := refIdentifiers(lexemes(second))
						ev, o := callM(c, m, ct, "Evaluate", calc)
						tp, ok := ev.(mTuple)
						switch {
						case o.kind == "panic":
							bad = fmt.Sprintf("one calculator: after %s evaluating panics: %s", strings.Join(hist, ", "), o.why)
						case o.kind != "ok" || !ok || len(tp) != 2:
							undec = strings.Join(hist, ", ") + ", Evaluate: " + o.why
						case auto1 && errorCode(tp[1]) == "VAR_NOT_FOUND":
							bad = fmt.Sprintf("one calculator: after %s evaluating reports VAR_NOT_FOUND (%s); automatic variables are on, every identifier of the expression has an entry since the expression was set", strings.Join(hist, ", "), errorField(tp[1], "Message"))
						case !auto1 && len(foldUnique(ids)) > len(foldUniqueOf(want, ids)) && errorCode(tp[1]) != "VAR_NOT_FOUND":
							bad = fmt.Sprintf("one calculator: after %s evaluating gives %s %s; automatic variables are off and the collection %q lacks a variable of %q, which must be reported (VAR_NOT_FOUND)", strings.Join(hist, ", "), mRender(tp[0]), errorCode(tp[1]), want, second)
						}
					}
					note(key, bad, undec)
				}
			}
		}
	}
}

// foldUniqueOf: the names of ids (case-insensitively, once each) that occur in have.
func foldUniqueOf(have, ids []string) []string {
	var out []string
	for _, id := range foldUnique(ids) {
		for _, h := range have {
			if strings.EqualFold(h, id) {
				out = append(out, id)
				break
			}
		}
	}
	return out
}

func renderEntries(model []listEntry) string {
	if len(model) == 0 {
		return "no entry of that name"
	}
	var ps []string
	for _, e := range model {
		if e.id == 0 {
			ps = append(ps, e.name+" (null)")
		} else {
			ps = append(ps, fmt.Sprintf("%s#%d", e.name, e.id))
		}
	}
	return "[" + strings.Join(ps, " ") + "]"
}

// collectionEntries lists the names (and variable values) of a collection through Length/Get/Name/Value.
func collectionEntries(c *Ctx, m *mach, col mIface) (names []string, vals []mv, why string) {
	l, out := callM(c, m, col.t, "Length", col.v)
	n, ok := l.(int64)
	if out.kind != "ok" || !ok {
		return nil, nil, "Length: " + out.why
	}
	for i := int64(0); i < n; i++ {
		e, out := callM(c, m, col.t, "Get", col.v, i)
		ei, ok := e.(mIface)
		if out.kind != "ok" || !ok {
			return nil, nil, fmt.Sprintf("Get(%d): %s %s", i, out.why, mRender(e))
		}
		nm, out := callM(c, m, ei.t, "Name", ei.v)
		s, ok := nm.(string)
		if out.kind != "ok" || !ok {
			return nil, nil, "Name: " + out.why
		}
		names = append(names, s)
		if f := c.lookupMethod(ei.t, "Value"); f != nil {
			v, _ := m.Call(f, ei.v)
			vals = append(vals, v)
		}
	}
	return
}

func errorField(errv mv, field string) string {
	ie, ok := errv.(mIface)
	if !ok {
		return ""
	}
	p, ok := ie.v.(*mv)
	if !ok || p == nil {
		return ""
	}
	st, ok := (*p).(mStruct)
	if !ok {
		return ""
	}
	pt, ok := ie.t.Underlying().(*types.Pointer)
	if !ok {
		return ""
	}
	stt, ok := pt.Elem().Underlying().(*types.Struct)
	if !ok {
		return ""
	}
	for i := 0; i < stt.NumFields(); i++ {
		if stt.Field(i).Name() == field {
			return catRender(st[i])
		}
	}
	return ""
}

func init() {
	register(&Rule{ID: "NAME.model", Floor: 7,
		Doc: "variable discovery in expressions and templates (VariableNames after ParseString), automatic variables (default collections after SetExpression/SetTemplate with entries already present), the collections as ordered lists (every sequence of three of add/remove/remove-by-name/locate/clear/clear-values, FindIndexByName probes after every step) and resolution (first added wins case-insensitively; VAR_NOT_FOUND / FUNC_NOT_FOUND name the missing identifier; every three-step history of evaluations and collection changes on one calculator; automatic variables after the default collection was cleared / shortened / extended / given values or the switch was turned between two SetExpression calls with the same text, the same text in another letter case or another text), identifiers whose case mappings are not one-to-one and the empty quoted identifier, evaluated abstractly through the exported API against the list model",
		Run: func(c *Ctx) []*Obligation {
			o := newObl("NAME.model")
			nv := c.namexRun()
			anchors := map[string]string{
				"discover-expression":            c.Pos(c.MustFunc(pkgParsers, "ExpressionParser", "VariableNames").Pos()),
				"discover-template":              c.Pos(c.MustFunc("mustache/parsers", "MustacheParser", "VariableNames").Pos()),
				"auto-variables":                 c.Pos(c.MustFunc(pkgCalc, "ExpressionCalculator", "CreateVariables").Pos()),
				"list-model-variables":           c.Pos(c.MustFunc("calculator/variables", "", "NewVariableCollection").Pos()),
				"list-model-functions":           c.Pos(c.MustFunc("calculator/functions", "", "NewFunctionCollection").Pos()),
				"separate-instances":             c.Pos(c.MustFunc("calculator/variables", "", "NewVariable").Pos()),
				"resolution":                     c.Pos(c.MustFunc(pkgCalc, "ExpressionCalculator", "EvaluateUsingVariablesAndFunctions").Pos()),
				"case-mappings":                  c.Pos(c.MustFunc(pkgCalc, "ExpressionCalculator", "SetExpression").Pos()),
				"empty-identifier":               c.Pos(c.MustFunc(pkgCalc, "ExpressionCalculator", "CreateVariables").Pos()),
				"auto-variables-histories":       c.Pos(c.MustFunc(pkgCalc, "ExpressionCalculator", "SetExpression").Pos()),
				"resolution-histories-functions": c.Pos(c.MustFunc(pkgCalc, "ExpressionCalculator", "EvaluateUsingVariablesAndFunctions").Pos()),
				"resolution-histories-variables": c.Pos(c.MustFunc(pkgCalc, "ExpressionCalculator", "EvaluateUsingVariables").Pos()),
			}
			var keys []string
			for k := range anchors {
				keys = append(keys, k)
			}
			sort.Strings(keys)
			for _, k := range keys {
				v := nv.m[k]
				if v == nil {
					v = &simpleVerdict{}
				}
				o.list = append(o.list, emitSimple(c, "NAME.model", "names#"+k, anchors[k], v, "agree with the list model")...)
			}
			return o.list
		}})
}
