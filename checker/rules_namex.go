package main

import (
	"fmt"
	"go/types"
	"sort"
	"strings"
	"sync"

	"golang.org/x/tools/go/ssa"
)

// ---------------------------------------------------------------------------------------------
// NAME.model (C18): variable discovery, automatic variables, case-insensitive resolution and the
// ordered-list behaviour of the collections, evaluated abstractly through the exported API against
// the list model of the statement.
// ---------------------------------------------------------------------------------------------

func callM(c *Ctx, m *mach, t types.Type, name string, recv mv, args ...mv) (mv, mOutcome) {
	f := c.lookupMethod(t, name)
	if f == nil {
		return nil, mOutcome{kind: "opaque", why: "method " + name + " not found on " + t.String()}
	}
	return m.Call(f, append([]mv{recv}, args...)...)
}

func resultType(f *ssa.Function) types.Type { return f.Signature.Results().At(0).Type() }

func stringsOfSlice(v mv) ([]string, bool) {
	var out []string
	switch t := v.(type) {
	case mNilT:
		return nil, true
	case mSlice:
		for _, e := range t.arr {
			s, ok := e.(string)
			if !ok {
				return nil, false
			}
			out = append(out, s)
		}
		return out, true
	}
	return nil, false
}

// foldUnique: first occurrences, compared case-insensitively.
func foldUnique(names []string) []string {
	var out []string
	seen := map[string]bool{}
	for _, n := range names {
		k := strings.ToLower(n)
		if !seen[k] {
			seen[k] = true
			out = append(out, k)
		}
	}
	return out
}

func checkDiscovered(got, occurrences []string) string {
	seen := map[string]bool{}
	for _, g := range got {
		if seen[g] {
			return fmt.Sprintf("the name %q is reported twice", g)
		}
		seen[g] = true
	}
	if fmt.Sprint(foldUnique(got)) != fmt.Sprint(foldUnique(occurrences)) {
		return fmt.Sprintf("reported %q; the identifiers in variable position, in order of first occurrence, are %q", got, occurrences)
	}
	return ""
}

type nameVerdicts struct {
	m map[string]*simpleVerdict
}

func (n *nameVerdicts) get(k string) *simpleVerdict {
	if n.m[k] == nil {
		n.m[k] = &simpleVerdict{}
	}
	return n.m[k]
}

var namexMemo *nameVerdicts
var namexMu sync.Mutex

type listEntry struct {
	name string
	id   int
}

func (c *Ctx) namexRun() *nameVerdicts {
	namexMu.Lock()
	defer namexMu.Unlock()
	if namexMemo != nil {
		return namexMemo
	}
	nv := &nameVerdicts{m: map[string]*simpleVerdict{}}
	namexMemo = nv
	m := newMach(c)
	m.maxSteps = 3000000
	note := func(k, bad, undec string) {
		v := nv.get(k)
		v.runs++
		if bad != "" && v.bad == "" {
			v.bad = bad
		}
		if undec != "" && v.undec == "" {
			v.undec = undec
		}
	}
	// ---- (1) discovery in expressions ------------------------------------------------------------
	pctor := c.MustFunc(pkgParsers, "", "NewExpressionParser")
	pt := resultType(pctor)
	parser, out := m.Call(pctor)
	if out.kind != "ok" {
		note("discover-expression", "", "NewExpressionParser: "+out.why)
	} else {
		exprs := []string{"a", "a + b * a", "f ( a , B ) + b", "A + a", "x IS NULL AND y IN z", "'a' + b", "a [ b ]", "1 + 2", "f ( )", "g ( h ( x ) , y ) + X", "NOT q OR r XOR q",
			"a LIKE 'b'", "true AND t", "n IS NOT NULL", "max ( a , min ( b , c ) ) * d", "a - - a", "b [ a ] + a [ b ]", "f ( f )", "null_1 + in_2", "a + /* b */ c", "abc + ABC + Abc"}
		// quoted identifiers are identifiers whatever they spell: source text → reference lexemes
		quotedIdent := map[string]string{
			`"and" + b`:           "Word~and + b",
			`"NOT" + total * 2`:   "Word~NOT + total * 2",
			`"x-y" * "null"`:      "Word~x-y * Word~null",
			`"a" + 'a' + a`:       "Word~a + 'a' + a",
			`f ( "In" , "like" )`: "f ( Word~In , Word~like )",
			`"is" IS NULL`:        "Word~is IS NULL",
			`"true" OR "False"`:   "Word~true OR Word~False",
		}
		for src := range quotedIdent {
			exprs = append(exprs, src)
		}
		sort.Strings(exprs)
		for _, e := range exprs {
			ls := lexemes(e)
			if ref, ok := quotedIdent[e]; ok {
				ls = lexemes(ref)
			}
			acc, rpn := gxReference(ls)
			if !acc {
				continue
			}
			type occ struct {
				col  int
				name string
			}
			var occs []occ
			for _, t := range rpn {
				if strings.HasPrefix(t, "Variable@") {
					var col int
					fmt.Sscanf(t, "Variable@%d", &col)
					occs = append(occs, occ{col, ls[col-1].text})
				}
			}
			sort.Slice(occs, func(i, j int) bool { return occs[i].col < occs[j].col })
			var want []string
			for _, o := range occs {
				want = append(want, o.name)
			}
			m.steps = 0
			noteSample("NAME.model/expressions", e)
			r, out := callM(c, m, pt, "ParseString", parser, e)
			if out.kind != "ok" {
				note("discover-expression", "", fmt.Sprintf("ParseString(%q): %s", e, out.why))
				continue
			}
			if _, isNil := r.(mNilT); !isNil {
				note("discover-expression", fmt.Sprintf("expression %q is well-formed (variables %q) but ParseString fails with %s: its variables are not discovered", e, want, errorCode(r)), "")
				continue
			}
			vn, out := callM(c, m, pt, "VariableNames", parser)
			got, ok := stringsOfSlice(vn)
			if out.kind != "ok" || !ok {
				note("discover-expression", "", fmt.Sprintf("VariableNames after %q: %s", e, out.why))
				continue
			}
			if why := checkDiscovered(got, want); why != "" {
				note("discover-expression", fmt.Sprintf("expression %q: %s", e, why), "")
			} else {
				note("discover-expression", "", "")
			}
		}
	}
	// ---- (2) discovery in templates ------------------------------------------------------------
	mpctor := c.MustFunc("mustache/parsers", "", "NewMustacheParser")
	mpt := resultType(mpctor)
	mparser, out := m.Call(mpctor)
	if out.kind != "ok" {
		note("discover-template", "", "NewMustacheParser: "+out.why)
	} else {
		var walk func(ns []musNode, acc *[]string)
		walk = func(ns []musNode, acc *[]string) {
			for _, n := range ns {
				switch n.kind {
				case "var", "esc":
					*acc = append(*acc, n.text)
				case "section":
					*acc = append(*acc, n.text)
					walk(n.body, acc)
				}
			}
		}
		for i, tr := range musTrees() {
			if i%3 != 0 {
				continue
			}
			src := musPrint(tr)
			var want []string
			walk(tr, &want)
			m.steps = 0
			r, out := callM(c, m, mpt, "ParseString", mparser, src)
			if out.kind != "ok" {
				note("discover-template", "", fmt.Sprintf("ParseString(%q): %s", src, out.why))
				continue
			}
			if _, isNil := r.(mNilT); !isNil {
				continue // MUS.reference reports rejected well-formed templates
			}
			vn, out := callM(c, m, mpt, "VariableNames", mparser)
			got, ok := stringsOfSlice(vn)
			if out.kind != "ok" || !ok {
				note("discover-template", "", fmt.Sprintf("VariableNames after %q: %s", src, out.why))
				continue
			}
			if why := checkDiscovered(got, want); why != "" {
				note("discover-template", fmt.Sprintf("template %q: %s", src, why), "")
			} else {
				note("discover-template", "", "")
			}
		}
	}
	// ---- (3) automatic variables ---------------------------------------------------------------
	cctor := c.MustFunc(pkgCalc, "", "NewExpressionCalculator")
	ct := resultType(cctor)
	newVar := c.MustFunc("calculator/variables", "", "NewVariable")
	vfi := c.MustFunc(pkgVariants, "", "VariantFromInteger")
	for _, tc := range []struct {
		pre  []string
		expr string
		want []string
	}{
		{nil, "a + b + A", []string{"a", "b"}},
		{[]string{"B"}, "a + b + A", []string{"b", "a"}},
		{[]string{"x", "A"}, "f ( a ) + y", []string{"x", "a", "y"}},
		{[]string{"q"}, "1 + 2", []string{"q"}},
	} {
		m.steps = 0
		calc, out := m.Call(cctor)
		if out.kind != "ok" {
			note("auto-variables", "", "NewExpressionCalculator: "+out.why)
			break
		}
		dv, out := callM(c, m, ct, "DefaultVariables", calc)
		dvi, ok := dv.(mIface)
		if out.kind != "ok" || !ok {
			note("auto-variables", "", "DefaultVariables: "+out.why)
			break
		}
		preVals := map[string]mv{}
		for i, p := range tc.pre {
			val, _ := m.Call(vfi, int64(i+5))
			vr, out := m.Call(newVar, p, val)
			if out.kind != "ok" {
				note("auto-variables", "", "NewVariable: "+out.why)
				continue
			}
			preVals[strings.ToLower(p)] = val
			callM(c, m, dvi.t, "Add", dvi.v, mIface{t: resultType(newVar), v: vr})
		}
		r, out := callM(c, m, ct, "SetExpression", calc, tc.expr)
		if out.kind != "ok" {
			note("auto-variables", "", fmt.Sprintf("SetExpression(%q): %s", tc.expr, out.why))
			continue
		}
		if _, isNil := r.(mNilT); !isNil {
			note("auto-variables", "", fmt.Sprintf("SetExpression(%q) fails with %s", tc.expr, errorCode(r)))
			continue
		}
		names, vals, why := collectionEntries(c, m, dvi)
		if why != "" {
			note("auto-variables", "", why)
			continue
		}
		bad := ""
		if fmt.Sprint(foldUnique(names)) != fmt.Sprint(tc.want) || len(names) != len(tc.want) {
			bad = fmt.Sprintf("with variables %q already present, setting %q leaves the default collection with %q; one entry per name (case-insensitively), existing ones kept, is %q", tc.pre, tc.expr, names, tc.want)
		}
		for i, n := range names {
			if pv, ok := preVals[strings.ToLower(n)]; ok && i < len(vals) {
				if eq, known := m.equal(pv, vals[i]); !known || !eq {
					bad = fmt.Sprintf("setting %q replaces the value of the variable %q that was already there", tc.expr, n)
				}
			}
		}
		note("auto-variables", bad, "")
	}
	// the switch: with automatic variables off nothing is created, whichever way the expression is set, and the
	// missing variable is reported; with it on both ways create the entries
	for _, auto := range []bool{true, false} {
		for _, way := range []string{"SetExpression", "SetOriginalTokens"} {
			m.steps = 0
			calc, out := m.Call(cctor)
			if out.kind != "ok" {
				break
			}
			if _, out := callM(c, m, ct, "SetAutoVariables", calc, auto); out.kind != "ok" {
				note("auto-variables", "", "SetAutoVariables: "+out.why)
				continue
			}
			expr := "p + Q * p"
			var r mv
			if way == "SetExpression" {
				r, out = callM(c, m, ct, "SetExpression", calc, expr)
			} else {
				// the token list of the same text, as another calculator's parser produced it
				donor, o0 := m.Call(cctor)
				_, o1 := callM(c, m, ct, "SetExpression", donor, expr)
				toks, o2 := callM(c, m, ct, "OriginalTokens", donor)
				if o0.kind != "ok" || o1.kind != "ok" || o2.kind != "ok" {
					note("auto-variables", "", "OriginalTokens: "+o0.why+o1.why+o2.why)
					continue
				}
				r, out = callM(c, m, ct, "SetOriginalTokens", calc, toks)
			}
			if out.kind != "ok" {
				note("auto-variables", "", way+": "+out.why)
				continue
			}
			if _, isNil := r.(mNilT); !isNil {
				note("auto-variables", "", way+" fails with "+errorCode(r))
				continue
			}
			dv, out := callM(c, m, ct, "DefaultVariables", calc)
			dvi, ok := dv.(mIface)
			if out.kind != "ok" || !ok {
				note("auto-variables", "", "DefaultVariables: "+out.why)
				continue
			}
			names, _, why := collectionEntries(c, m, dvi)
			if why != "" {
				note("auto-variables", "", why)
				continue
			}
			bad := ""
			switch {
			case auto && fmt.Sprint(foldUnique(names)) != "[p q]":
				bad = fmt.Sprintf("automatic variables on, %s(%q): the default collection holds %q; one entry per name is [p Q]", way, expr, names)
			case !auto && len(names) != 0:
				bad = fmt.Sprintf("automatic variables off, %s(%q): the default collection holds %q; nothing may be created", way, expr, names)
			}
			if !auto && bad == "" {
				ev, out := callM(c, m, ct, "Evaluate", calc)
				if tp, ok := ev.(mTuple); ok && out.kind == "ok" {
					if errorCode(tp[1]) != "VAR_NOT_FOUND" {
						bad = fmt.Sprintf("automatic variables off, %s(%q): evaluating gives %s %s; the missing variable must be reported (VAR_NOT_FOUND)", way, expr, mRender(tp[0]), errorCode(tp[1]))
					}
				} else if out.kind == "panic" {
					bad = fmt.Sprintf("automatic variables off, %s(%q): evaluating panics: %s", way, expr, out.why)
				}
			}
			note("auto-variables", bad, "")
		}
	}
	// unset variables of separate calculators are separate nulls: giving one a value in place leaves the other null
	{
		c1, o1 := m.Call(cctor)
		c2, o2 := m.Call(cctor)
		if o1.kind == "ok" && o2.kind == "ok" {
			callM(c, m, ct, "SetExpression", c1, "x IS NULL")
			callM(c, m, ct, "SetExpression", c2, "y + 1")
			if dv, out := callM(c, m, ct, "DefaultVariables", c2); out.kind == "ok" {
				if dvi, ok := dv.(mIface); ok {
					if yv, out := callM(c, m, dvi.t, "FindByName", dvi.v, "y"); out.kind == "ok" {
						if yi, ok := yv.(mIface); ok {
							if val, out := callM(c, m, yi.t, "Value", yi.v); out.kind == "ok" {
								m.Call(c.MustFunc(pkgVariants, "Variant", "SetAsInteger"), val, int64(41))
							}
						}
					}
				}
			}
			r, out := callM(c, m, ct, "Evaluate", c1)
			tp, ok := r.(mTuple)
			switch {
			case out.kind == "panic":
				note("separate-instances", "evaluating ‹x IS NULL› panics: "+out.why, "")
			case out.kind != "ok" || !ok:
				note("separate-instances", "", "two calculators: "+out.why)
			default:
				res := "error " + errorCode(tp[1])
				if _, isNil := tp[1].(mNilT); isNil {
					pl, _ := m.Call(c.MustFunc(pkgVariants, "Variant", "AsObject"), tp[0])
					res = mRender(pl)
				}
				if res != "true" {
					note("separate-instances", fmt.Sprintf("‹x IS NULL› on one calculator evaluates to %s after the unset variable y of another calculator was given the value 41 in place: unset variables share one null variant", res), "")
				} else {
					note("separate-instances", "", "")
				}
			}
		}
	}
	// templates: existing entries and values are kept, new names get one entry
	tctor := c.MustFunc("mustache", "", "NewMustacheTemplate")
	tt := resultType(tctor)
	for _, tc := range []struct {
		pre  map[string]string
		tmpl string
		want []string
	}{
		{map[string]string{}, "{{a}} {{#B}}{{A}}{{/B}}", []string{"a", "b"}},
		{map[string]string{"A": "1"}, "{{a}}{{#if c}}x{{/if}}", []string{"a", "c"}},
		{map[string]string{"z": "9"}, "text", []string{"z"}},
		{map[string]string{"\u023a": "1", "\u00c9t\u00e9": "2"}, "{{\u2c65}}{{#\u00e9T\u00c9}}x{{/\u00e9T\u00c9}}", []string{"\u2c65", "\u00e9t\u00e9"}},
	} {
		m.steps = 0
		tm, out := m.Call(tctor)
		if out.kind != "ok" {
			note("auto-variables", "", "NewMustacheTemplate: "+out.why)
			break
		}
		mm := &mMap{k: map[string]mv{}, v: map[string]mv{}}
		var keys []string
		for k := range tc.pre {
			keys = append(keys, k)
		}
		sort.Strings(keys)
		for _, k := range keys {
			ks, _ := mapKey(k)
			mm.keys = append(mm.keys, ks)
			mm.k[ks], mm.v[ks] = k, tc.pre[k]
		}
		if _, out := callM(c, m, tt, "SetDefaultVariables", tm, mm); out.kind != "ok" {
			note("auto-variables", "", "SetDefaultVariables: "+out.why)
			continue
		}
		if r, out := callM(c, m, tt, "SetTemplate", tm, tc.tmpl); out.kind != "ok" {
			note("auto-variables", "", "SetTemplate: "+out.why)
			continue
		} else if _, isNil := r.(mNilT); !isNil {
			continue
		}
		dv, out := callM(c, m, tt, "DefaultVariables", tm)
		dm, ok := dv.(*mMap)
		if out.kind != "ok" || !ok {
			note("auto-variables", "", "DefaultVariables of a template: "+out.why)
			continue
		}
		var names []string
		bad := ""
		for _, ks := range dm.keys {
			n, _ := dm.k[ks].(string)
			names = append(names, n)
			if pv, ok := tc.pre[n]; ok {
				if gv, _ := dm.v[ks].(string); gv != pv {
					bad = fmt.Sprintf("setting template %q replaces the value of the variable %q that was already there", tc.tmpl, n)
				}
			}
		}
		fu := foldUnique(names)
		sort.Strings(fu)
		want := append([]string{}, tc.want...)
		sort.Strings(want)
		if fmt.Sprint(fu) != fmt.Sprint(want) || len(names) != len(want) {
			bad = fmt.Sprintf("with variables %q already present, setting template %q leaves the default variables %q; one entry per name (case-insensitively), existing ones kept, is %q", tc.pre, tc.tmpl, names, tc.want)
		}
		note("auto-variables", bad, "")
	}
	// ---- (4) the collections as ordered lists ----------------------------------------------------
	for _, kind := range []string{"variables", "functions"} {
		var cctor2, mk *ssa.Function
		if kind == "variables" {
			cctor2 = c.MustFunc("calculator/variables", "", "NewVariableCollection")
			mk = newVar
		} else {
			cctor2 = c.MustFunc("calculator/functions", "", "NewFunctionCollection")
			mk = c.MustFunc("calculator/functions", "", "NewDelegatedFunction")
		}
		colT := resultType(cctor2)
		ops := []string{"Add x", "Add X", "Add y", "Remove 0", "Remove 1", "Remove 2", "RemoveByName x", "RemoveByName Y", "RemoveByName q", "Clear"}
		if kind == "variables" {
			ops = append(ops, "Locate z", "Locate X", "ClearValues")
		}
		var seqs [][]string
		for _, a := range ops {
			for _, b := range ops {
				seqs = append(seqs, []string{"Add x", a, b})
				for _, d := range ops {
					seqs = append(seqs, []string{a, b, d})
				}
			}
		}
		// longer lists: four entries, then every pair of operations (removing from the front or the middle keeps the order of the rest)
		for _, a := range ops {
			for _, b := range ops {
				seqs = append(seqs, []string{"Add x", "Add X", "Add y", "Add z", a, b})
			}
		}
		key := "list-model-" + kind
		for _, seq := range seqs {
			m.steps = 0
			col, out := m.Call(cctor2)
			if out.kind != "ok" {
				note(key, "", cctor2.Name()+": "+out.why)
				break
			}
			var model []listEntry
			nid := 0
			var hist []string
			for _, op := range seq {
				f := strings.Fields(op)
				find := func(n string) int {
					for i, e := range model {
						if strings.EqualFold(e.name, n) {
							return i
						}
					}
					return -1
				}
				skip := false
				switch f[0] {
				case "Add":
					nid++
					var item mv
					var o2 mOutcome
					if kind == "variables" {
						val, _ := m.Call(vfi, int64(nid))
						item, o2 = m.Call(mk, f[1], val)
					} else {
						item, o2 = m.Call(mk, f[1], &mSym{name: fmt.Sprintf("calc%d", nid), nonNil: true})
					}
					if o2.kind != "ok" {
						note(key, "", "constructing an entry: "+o2.why)
						skip = true
						break
					}
					_, out = callM(c, m, colT, "Add", col, mIface{t: resultType(mk), v: item})
					model = append(model, listEntry{f[1], nid})
				case "Remove":
					var idx int
					fmt.Sscan(f[1], &idx)
					if idx >= len(model) {
						skip = true
						break
					}
					_, out = callM(c, m, colT, "Remove", col, int64(idx))
					model = append(model[:idx:idx], model[idx+1:]...)
				case "RemoveByName":
					_, out = callM(c, m, colT, "RemoveByName", col, f[1])
					if i := find(f[1]); i >= 0 {
						model = append(model[:i:i], model[i+1:]...)
					}
				case "Clear":
					_, out = callM(c, m, colT, "Clear", col)
					model = nil
				case "ClearValues":
					_, out = callM(c, m, colT, "ClearValues", col)
				case "Locate":
					_, out = callM(c, m, colT, "Locate", col, f[1])
					if find(f[1]) < 0 {
						nid++
						model = append(model, listEntry{f[1], nid})
					}
				}
				if skip {
					break
				}
				hist = append(hist, op)
				where := fmt.Sprintf("%s collection after %s", kind, strings.Join(hist, ", "))
				if out.kind == "panic" {
					note(key, where+": panics: "+out.why, "")
					break
				}
				if out.kind != "ok" {
					note(key, "", where+": "+out.why)
					break
				}
				names, vals, why := collectionEntries(c, m, mIface{t: colT, v: col})
				if why != "" {
					note(key, "", where+": "+why)
					break
				}
				// cleared values are nulls, and each variable has its own
				if f[0] == "ClearValues" {
					for vi, val := range vals {
						if p, ok := val.(*mv); !ok || p == nil {
							note(key, fmt.Sprintf("%s, the value of entry %d is %s; a cleared variable holds a null value, not nothing", where, vi, mRender(val)), "")
							continue
						}
						if t, o := m.Call(c.MustFunc(pkgVariants, "Variant", "AsObject"), val); o.kind == "ok" {
							if _, isNil := t.(mNilT); !isNil {
								note(key, fmt.Sprintf("%s, entry %d still holds %s", where, vi, mRender(t)), "")
							}
						}
						for vj := 0; vj < vi; vj++ {
							if eq, known := m.equal(vals[vj], val); known && eq {
								note(key, fmt.Sprintf("%s, entries %d and %d hold one and the same value object: assigning to one variable's value in place changes the other", where, vj, vi), "")
							}
						}
					}
				}
				var want []string
				for _, e := range model {
					want = append(want, e.name)
				}
				bad := ""
				if fmt.Sprint(names) != fmt.Sprint(want) {
					bad = fmt.Sprintf("%s holds %q; an ordered list holds %q", where, names, want)
				}
				for _, probe := range []string{"x", "X", "y", "z", "q"} {
					r, o := callM(c, m, colT, "FindIndexByName", col, probe)
					gi, _ := r.(int64)
					if o.kind == "ok" && int(gi) != find(probe) && bad == "" {
						bad = fmt.Sprintf("%s, FindIndexByName(%q) returns %d; the first entry with that name compared case-insensitively is at %d", where, probe, gi, find(probe))
					}
				}
				note(key, bad, "")
			}
		}
	}
	// ---- (5) resolution: first added wins, case-insensitively; missing names are reported ----------
	{
		calc, out := m.Call(cctor)
		vc := c.MustFunc("calculator/variables", "", "NewVariableCollection")
		fc := c.MustFunc("calculator/functions", "", "NewFunctionCollection")
		if out.kind == "ok" {
			for _, tc := range []struct {
				vars       []string
				expr, want string
			}{
				{[]string{"x", "X"}, "X", "value of x#1"},
				{[]string{"Abc", "abc", "ABC"}, "aBC", "value of Abc#1"},
				{[]string{"\u023a", "\u2c65"}, "\"\u2c65\"", "value of \u023a#1"},
				{[]string{"\u00c9t\u00e9", "\u00e9t\u00e9"}, "\u00e9T\u00c9", "value of first"},
				{nil, "a + 1", "error VAR_NOT_FOUND naming a"},
				{[]string{"b"}, "g ( b )", "error FUNC_NOT_FOUND naming g"},
			} {
				m.steps = 0
				vcol, _ := m.Call(vc)
				fcol, _ := m.Call(fc)
				var firstVal mv
				for i, n := range tc.vars {
					val, _ := m.Call(vfi, int64(100+i))
					if i == 0 {
						firstVal = val
					}
					vr, _ := m.Call(newVar, n, val)
					callM(c, m, resultType(vc), "Add", vcol, mIface{t: resultType(newVar), v: vr})
				}
				if r, out := callM(c, m, ct, "SetExpression", calc, tc.expr); out.kind != "ok" {
					note("resolution", "", "SetExpression: "+out.why)
					continue
				} else if _, isNil := r.(mNilT); !isNil {
					note("resolution", "", "SetExpression fails: "+errorCode(r))
					continue
				}
				r, out := callM(c, m, ct, "EvaluateUsingVariablesAndFunctions", calc, mIface{t: resultType(vc), v: vcol}, mIface{t: resultType(fc), v: fcol})
				tp, ok := r.(mTuple)
				if out.kind == "panic" {
					note("resolution", fmt.Sprintf("evaluating %q with variables %q panics: %s", tc.expr, tc.vars, out.why), "")
					continue
				}
				if out.kind != "ok" || !ok {
					note("resolution", "", fmt.Sprintf("evaluating %q: %s", tc.expr, out.why))
					continue
				}
				bad := ""
				if strings.HasPrefix(tc.want, "value") {
					if eq, known := m.equal(tp[0], firstVal); !known || !eq {
						bad = fmt.Sprintf("evaluating %q with variables %q added in that order does not return the value of the first one (%s)", tc.expr, tc.vars, tc.want)
					}
				} else {
					f := strings.Fields(tc.want)
					code, name := f[1], f[3]
					msg := errorField(tp[1], "Message")
					if errorCode(tp[1]) != code || !strings.Contains(msg, name) {
						bad = fmt.Sprintf("evaluating %q with variables %q gives error code %q message %q; a missing name must be reported as %s", tc.expr, tc.vars, errorCode(tp[1]), msg, tc.want)
					}
				}
				note("resolution", bad, "")
			}
		} else {
			note("resolution", "", "NewExpressionCalculator: "+out.why)
		}
	}
	return nv
}

// collectionEntries lists the names (and variable values) of a collection through Length/Get/Name/Value.
func collectionEntries(c *Ctx, m *mach, col mIface) (names []string, vals []mv, why string) {
	l, out := callM(c, m, col.t, "Length", col.v)
	n, ok := l.(int64)
	if out.kind != "ok" || !ok {
		return nil, nil, "Length: " + out.why
	}
	for i := int64(0); i < n; i++ {
		e, out := callM(c, m, col.t, "Get", col.v, i)
		ei, ok := e.(mIface)
		if out.kind != "ok" || !ok {
			return nil, nil, fmt.Sprintf("Get(%d): %s %s", i, out.why, mRender(e))
		}
		nm, out := callM(c, m, ei.t, "Name", ei.v)
		s, ok := nm.(string)
		if out.kind != "ok" || !ok {
			return nil, nil, "Name: " + out.why
		}
		names = append(names, s)
		if f := c.lookupMethod(ei.t, "Value"); f != nil {
			v, _ := m.Call(f, ei.v)
			vals = append(vals, v)
		}
	}
	return
}

func errorField(errv mv, field string) string {
	ie, ok := errv.(mIface)
	if !ok {
		return ""
	}
	p, ok := ie.v.(*mv)
	if !ok || p == nil {
		return ""
	}
	st, ok := (*p).(mStruct)
	if !ok {
		return ""
	}
	pt, ok := ie.t.Underlying().(*types.Pointer)
	if !ok {
		return ""
	}
	stt, ok := pt.Elem().Underlying().(*types.Struct)
	if !ok {
		return ""
	}
	for i := 0; i < stt.NumFields(); i++ {
		if stt.Field(i).Name() == field {
			return catRender(st[i])
		}
	}
	return ""
}

func init() {
	register(&Rule{ID: "NAME.model", Floor: 7,
		Doc: "variable discovery in expressions and templates (VariableNames after ParseString), automatic variables (default collections after SetExpression/SetTemplate with entries already present), the collections as ordered lists (every sequence of three of add/remove/remove-by-name/locate/clear/clear-values, FindIndexByName probes after every step) and resolution (first added wins case-insensitively; VAR_NOT_FOUND / FUNC_NOT_FOUND name the missing identifier), evaluated abstractly through the exported API against the list model",
		Run: func(c *Ctx) []*Obligation {
			o := newObl("NAME.model")
			nv := c.namexRun()
			anchors := map[string]string{
				"discover-expression":  c.Pos(c.MustFunc(pkgParsers, "ExpressionParser", "VariableNames").Pos()),
				"discover-template":    c.Pos(c.MustFunc("mustache/parsers", "MustacheParser", "VariableNames").Pos()),
				"auto-variables":       c.Pos(c.MustFunc(pkgCalc, "ExpressionCalculator", "CreateVariables").Pos()),
				"list-model-variables": c.Pos(c.MustFunc("calculator/variables", "", "NewVariableCollection").Pos()),
				"list-model-functions": c.Pos(c.MustFunc("calculator/functions", "", "NewFunctionCollection").Pos()),
				"separate-instances":   c.Pos(c.MustFunc("calculator/variables", "", "NewVariable").Pos()),
				"resolution":           c.Pos(c.MustFunc(pkgCalc, "ExpressionCalculator", "EvaluateUsingVariablesAndFunctions").Pos()),
			}
			var keys []string
			for k := range anchors {
				keys = append(keys, k)
			}
			sort.Strings(keys)
			for _, k := range keys {
				v := nv.m[k]
				if v == nil {
					v = &simpleVerdict{}
				}
				o.list = append(o.list, emitSimple(c, "NAME.model", "names#"+k, anchors[k], v, "agree with the list model")...)
			}
			return o.list
		}})
}
