package main

import (
	"fmt"
	"go/constant"
	"go/token"
	"go/types"
	"hash/fnv"
	"sort"
	"strings"
	"sync"
	"sync/atomic"
	"unicode/utf8"

	"golang.org/x/tools/go/ssa"
)

// ---------------------------------------------------------------------------------------------
// mach — an abstract machine over go/ssa with a real heap.
//
// The rules that decide a component by evaluating it over a finite partition of its inputs (one
// abstract run per cell of the partition) share this evaluator. Unlike ai.go it keeps objects,
// slices, maps, closures and interface values as such, runs the package initialisers to obtain the
// tables the code consults, dispatches interface calls on the dynamic type, and follows panics
// through defer/recover; so a rule can drive a component through its exported entry points and read
// the result back through its accessors, and no internal name, helper boundary or table layout of
// the component is assumed. Everything that comes from outside the partition (variant payloads,
// line/column numbers, values produced by other modules) is an opaque symbol; a branch on a symbol
// the rule gave no meaning to ends the run as "opaque" (undecided), never silently.
// ---------------------------------------------------------------------------------------------

type mv = interface{}

// value kinds: bool, int64, float64, string (Go natives), mNilT, *mSym, *mv (pointer), mStruct, mArray,
// mSlice, *mMap, *mClosure, *ssa.Function, *ssa.Builtin, mIface, mTuple, *mIter, *mBuilder

type mNilT struct{}

var mNil = mNilT{}

// mSym is an opaque value. nonNil: known not to be nil. typ: static type where it was produced.
type mSym struct {
	name   string
	nonNil bool
	typ    types.Type
	rt     types.Type // for the result of reflect.TypeOf: the type described
	msg    mv         // for an error made by errors.New: its text
	rv     mv         // for the result of reflect.ValueOf: the value described (rt: its dynamic type; rt == nil: the zero Value)
}

type mStruct []mv
type mArray []mv
type mSlice struct{ arr []mv }
type mTuple []mv

type mIface struct {
	t types.Type
	v mv
}

type mMap struct {
	keys []string
	k    map[string]mv
	v    map[string]mv
}

type mClosure struct {
	fn  *ssa.Function
	env []mv
}

type mIter struct {
	s    []rune // string iteration
	str  string
	pos  int
	m    *mMap
	keys []string
}

// mBuilder is the content of a strings.Builder (kept in the slot of the builder variable)
type mBuilder struct{ parts []mv }

type mOutcome struct {
	kind string // "ok", "panic", "opaque"
	why  string
	val  mv // panic value
}

type mAbort struct{ why string } // the run leaves the model (Go panic payload)
type mPanic struct {
	val mv
	why string
}

type mframe struct {
	fn        *ssa.Function
	caller    *mframe
	env       []mv
	idx       map[ssa.Value]int32
	block     *ssa.BasicBlock
	prev      *ssa.BasicBlock
	defers    []func()
	panicking bool
	panicVal  *mPanic
	result    mv
}

type mach struct {
	c          *Ctx
	globals    map[*ssa.Global]*mv
	onceDone   map[*mv]bool // sync.Once values whose function has run
	heldLocks  map[*mv]int  // sync mutexes held by the run (syncModel); emptied when a top-level Call begins
	inited     map[*ssa.Package]bool
	symHeap    map[string]*mv
	steps      int
	maxSteps   int
	maxDepth   int // call depth at which a run is given up (0: 150)
	finfo      map[*ssa.Function]map[ssa.Value]int32
	cov        map[*ssa.Function]bool
	crashCache map[*ssa.Function]*crashEntry
	ring       [32]*ssa.Function // the most recently entered functions (for witnesses)
	ringPos    int
	ownPkgs    map[*ssa.Package]bool // extra packages evaluated like the module's (self-test)
	prog       *ssa.Program          // program of the code under evaluation when it is not the repository's (self-test)
	depth      int
	nsym       int
	// mapOrder: the order every `range` over a map follows (Go fixes none): 0 insertion order, 1 reversed, 2 rotated by one
	mapOrder int
	// intercept is asked before any statically resolved call (module or not): handled=true → its result is used
	intercept func(m *mach, fn *ssa.Function, args []mv) (mv, bool)
	// external gives the meaning of a function the machine does not execute (outside the module or without body)
	external func(m *mach, fn *ssa.Function, args []mv) (mv, bool)
	// decide gives the outcome of a branch on a non-constant condition
	decide func(m *mach, cond mv, at ssa.Instruction) (bool, bool)
	// symEq decides equality between a symbol and another value
	symEq func(a, b mv) (bool, bool)
	// execExternal: execute the body of this out-of-module function
	execExternal func(fn *ssa.Function) bool
	// symCall gives the meaning of an interface method called on an opaque object
	symCall func(m *mach, recv *mSym, method *types.Func, args []mv) (mv, bool)
	// symFunc gives the meaning of calling an opaque function value
	symFunc func(m *mach, f *mSym, args []mv) (mv, bool)
	// onInstr observes every executed instruction (path recording)
	onInstr func(fr *mframe, in ssa.Instruction)
}

func newMach(c *Ctx) *mach {
	return &mach{c: c, globals: map[*ssa.Global]*mv{}, inited: map[*ssa.Package]bool{}, symHeap: map[string]*mv{}, maxSteps: 400000, finfo: map[*ssa.Function]map[ssa.Value]int32{}, cov: map[*ssa.Function]bool{}, crashCache: map[*ssa.Function]*crashEntry{}}
}

func (m *mach) sym(name string, t types.Type) *mSym { return &mSym{name: name, typ: t} }

func (m *mach) fresh(prefix string, t types.Type) *mSym {
	m.nsym++
	return &mSym{name: fmt.Sprintf("%s#%d", prefix, m.nsym), typ: t}
}

func (m *mach) abort(format string, a ...interface{}) {
	panic(mAbort{fmt.Sprintf(format, a...)})
}

func (m *mach) throw(val mv, format string, a ...interface{}) {
	panic(&mPanic{val: val, why: fmt.Sprintf(format, a...)})
}

// Call runs fn on args; Go-level panics of the machine are turned into the outcome.
func (m *mach) Call(fn *ssa.Function, args ...mv) (ret mv, out mOutcome) {
	defer func() { crashRecord(m, fn, args, ret, out) }() // declared first: runs after the recovery below
	defer func() {
		if r := recover(); r != nil {
			switch t := r.(type) {
			case mAbort:
				out = mOutcome{kind: "opaque", why: t.why}
			case *mPanic:
				out = mOutcome{kind: "panic", why: t.why, val: t.val}
			default:
				out = mOutcome{kind: "opaque", why: fmt.Sprintf("evaluator fault: %v", r)}
			}
		}
	}()
	if m.depth == 0 {
		m.heldLocks = nil // a run that left the model may have kept its locks
	}
	ret = m.callFn(nil, fn, args, nil)
	return ret, mOutcome{kind: "ok"}
}

// ---- what escaped from the entry points: panics and (nil, nil) / (value, error) results ----------------

type crashEntry struct {
	calls int64
	first string // first witness
}

var crashMu sync.Mutex
var crashLog = map[string]*crashEntry{}
var crashByFn sync.Map // *ssa.Function -> *crashEntry
var covered sync.Map   // *ssa.Function -> true: functions entered by some abstract run

func crashEntryOf(m *mach, fn *ssa.Function) *crashEntry {
	if e, ok := m.crashCache[fn]; ok {
		return e
	}
	v, ok := crashByFn.Load(fn)
	if !ok {
		crashMu.Lock()
		key := m.c.FuncKey(fn)
		e := crashLog[key]
		if e == nil {
			e = &crashEntry{}
			crashLog[key] = e
		}
		crashMu.Unlock()
		v, _ = crashByFn.LoadOrStore(fn, e)
	}
	e := v.(*crashEntry)
	m.crashCache[fn] = e
	return e
}

func crashRecord(m *mach, fn *ssa.Function, args []mv, ret mv, out mOutcome) {
	e := crashEntryOf(m, fn)
	atomic.AddInt64(&e.calls, 1)
	witness := ""
	show := func() string {
		var as []string
		for i, a := range args {
			if i == 0 && fn.Signature.Recv() != nil {
				continue
			}
			as = append(as, mRender(a))
		}
		s := strings.Join(as, ", ")
		if len(s) > 160 {
			s = s[:160] + "…"
		}
		return fn.Name() + "(" + s + ")"
	}
	switch out.kind {
	case "panic":
		witness = show() + " panics: " + out.why
	case "ok":
		// (result, error): exactly one of them
		tp, ok := ret.(mTuple)
		if !ok || len(tp) != 2 {
			return
		}
		res := fn.Signature.Results()
		if res.Len() == 2 && res.At(1).Type().String() == "error" {
			if _, isPtr := res.At(0).Type().Underlying().(*types.Pointer); isPtr {
				isNil := func(v mv) (bool, bool) {
					switch t := v.(type) {
					case mNilT:
						return true, true
					case *mv:
						return t == nil, true
					case mIface:
						return false, true
					case *mSym:
						return false, t.nonNil
					}
					return false, false
				}
				rn, rk := isNil(tp[0])
				en, ek := isNil(tp[1])
				if rk && ek && rn && en {
					witness = show() + " returns neither a result nor an error"
				} else if rk && ek && !rn && !en {
					witness = show() + " returns both a result and an error"
				}
			}
		}
	}
	if witness == "" {
		return
	}
	crashMu.Lock()
	if e.first == "" || len(witness) < len(e.first) {
		e.first = witness
	}
	crashMu.Unlock()
}

// ---- values -----------------------------------------------------------------------------------------

func (m *mach) zero(t types.Type) mv {
	switch u := t.Underlying().(type) {
	case *types.Basic:
		switch {
		case u.Info()&types.IsBoolean != 0:
			return false
		case u.Info()&types.IsInteger != 0:
			return int64(0)
		case u.Info()&types.IsFloat != 0:
			return float64(0)
		case u.Info()&types.IsString != 0:
			return ""
		case u.Kind() == types.UnsafePointer || u.Kind() == types.UntypedNil:
			return mNil
		}
		return m.fresh("zero", t)
	case *types.Struct:
		s := make(mStruct, u.NumFields())
		for i := range s {
			s[i] = m.zero(u.Field(i).Type())
		}
		return s
	case *types.Array:
		a := make(mArray, u.Len())
		for i := range a {
			a[i] = m.zero(u.Elem())
		}
		return a
	case *types.Tuple:
		tp := make(mTuple, u.Len())
		for i := range tp {
			tp[i] = m.zero(u.At(i).Type())
		}
		return tp
	}
	return mNil
}

func mcopy(v mv) mv {
	switch t := v.(type) {
	case mStruct:
		o := make(mStruct, len(t))
		for i, x := range t {
			o[i] = mcopy(x)
		}
		return o
	case mArray:
		o := make(mArray, len(t))
		for i, x := range t {
			o[i] = mcopy(x)
		}
		return o
	}
	return v
}

func (m *mach) constVal(k *ssa.Const) mv {
	if k.Value == nil {
		return m.zero(k.Type())
	}
	switch u := k.Type().Underlying().(type) {
	case *types.Basic:
		switch {
		case u.Info()&types.IsBoolean != 0:
			return constant.BoolVal(k.Value)
		case u.Info()&types.IsInteger != 0:
			if n, ok := constant.Int64Val(constant.ToInt(k.Value)); ok {
				return n
			}
			if n, ok := constant.Uint64Val(constant.ToInt(k.Value)); ok {
				return int64(n)
			}
		case u.Info()&types.IsFloat != 0:
			f, _ := constant.Float64Val(k.Value)
			return f
		case u.Info()&types.IsString != 0:
			return constant.StringVal(k.Value)
		}
	}
	return m.fresh("const", k.Type())
}

func mRender(v mv) string {
	switch t := v.(type) {
	case nil:
		return "<unset>"
	case bool, int64, float64:
		return fmt.Sprint(t)
	case string:
		return fmt.Sprintf("%q", t)
	case mNilT:
		return "nil"
	case *mSym:
		return t.name
	case mIface:
		return mRender(t.v)
	case mTuple:
		var ps []string
		for _, x := range t {
			ps = append(ps, mRender(x))
		}
		return "(" + strings.Join(ps, ", ") + ")"
	case mSlice:
		var ps []string
		for _, x := range t.arr {
			ps = append(ps, mRender(x))
		}
		return "[" + strings.Join(ps, " ") + "]"
	case mStruct:
		var ps []string
		for _, x := range t {
			ps = append(ps, mRender(x))
		}
		return "{" + strings.Join(ps, " ") + "}"
	case *mv:
		if t == nil {
			return "nil"
		}
		return "&" + renderShallow(*t, 2)
	case *mBuilder:
		return "builder"
	case *mCat:
		var ps []string
		for _, p := range t.parts {
			ps = append(ps, mRender(p))
		}
		return "(" + strings.Join(ps, " + ") + ")"
	case *mClosure:
		return "func " + t.fn.Name()
	case *ssa.Function:
		return "func " + t.Name()
	}
	return fmt.Sprintf("%T", v)
}

func mapKey(v mv) (string, bool) {
	switch t := v.(type) {
	case bool, int64, float64:
		return fmt.Sprintf("%T:%v", t, t), true
	case string:
		return "s:" + t, true
	case *mSym:
		return "sym:" + t.name, true
	case mIface:
		k, ok := mapKey(t.v)
		return "i:" + t.t.String() + ":" + k, ok
	case *mv:
		return fmt.Sprintf("p:%p", t), true
	case mNilT:
		return "nil", true
	case mStruct:
		var ps []string
		for _, x := range t {
			k, ok := mapKey(x)
			if !ok {
				return "", false
			}
			ps = append(ps, k)
		}
		return "{" + strings.Join(ps, ",") + "}", true
	case mArray:
		var ps []string
		for _, x := range t {
			k, ok := mapKey(x)
			if !ok {
				return "", false
			}
			ps = append(ps, k)
		}
		return "[" + strings.Join(ps, ",") + "]", true
	}
	return "", false
}

// equal: (result, known)
func (m *mach) equal(a, b mv) (bool, bool) {
	if ia, ok := a.(mIface); ok {
		if ib, ok := b.(mIface); ok {
			if !types.Identical(ia.t, ib.t) {
				return false, true
			}
			switch ia.t.Underlying().(type) {
			case *types.Slice, *types.Map, *types.Signature:
				m.throw(m.sym("runtime error: comparing uncomparable type "+ia.t.String(), nil), "comparing uncomparable type %s", ia.t)
			case *types.Struct:
				if !types.Comparable(ia.t) {
					m.throw(m.sym("runtime error: comparing uncomparable type "+ia.t.String(), nil), "comparing uncomparable type %s", ia.t)
				}
			}
			return m.equal(ia.v, ib.v)
		}
		if _, isNil := b.(mNilT); isNil {
			return false, true
		}
		return m.equal(ia.v, b)
	}
	if _, ok := b.(mIface); ok {
		return m.equal(b, a)
	}
	sa, aSym := a.(*mSym)
	sb, bSym := b.(*mSym)
	if aSym || bSym {
		if m.symEq != nil {
			if eq, ok := m.symEq(a, b); ok {
				return eq, true
			}
		}
		if aSym && bSym {
			if sa == sb || sa.name == sb.name {
				return true, true
			}
			if sa.rt != nil && sb.rt != nil && sa.rv == nil && sb.rv == nil {
				// two reflect.Type descriptors of known types: equal exactly when the types are identical
				return types.Identical(sa.rt, sb.rt), true
			}
			return false, false
		}
		s, o := sa, b
		if bSym {
			s, o = sb, a
		}
		if _, isNil := o.(mNilT); isNil && s.nonNil {
			return false, true
		}
		return false, false
	}
	switch x := a.(type) {
	case mNilT:
		switch y := b.(type) {
		case mNilT:
			return true, true
		case mSlice:
			return y.arr == nil, true
		case *mv:
			return y == nil, true
		case *mMap:
			return y == nil, true
		case *mClosure:
			return y == nil, true
		}
		return false, true
	case bool:
		if y, ok := b.(bool); ok {
			return x == y, true
		}
	case int64:
		if y, ok := b.(int64); ok {
			return x == y, true
		}
	case float64:
		if y, ok := b.(float64); ok {
			return x == y, true
		}
	case string:
		if y, ok := b.(string); ok {
			return x == y, true
		}
	case *mv:
		if y, ok := b.(*mv); ok {
			return x == y, true
		}
	case *mMap:
		if y, ok := b.(*mMap); ok {
			return x == y, true
		}
	case mStruct:
		if y, ok := b.(mStruct); ok && len(x) == len(y) {
			all := true
			for i := range x {
				eq, known := m.equal(x[i], y[i])
				if !known {
					return false, false
				}
				all = all && eq
			}
			return all, true
		}
	case mArray:
		if y, ok := b.(mArray); ok && len(x) == len(y) {
			all := true
			for i := range x {
				eq, known := m.equal(x[i], y[i])
				if !known {
					return false, false
				}
				all = all && eq
			}
			return all, true
		}
	case *ssa.Function:
		if y, ok := b.(*ssa.Function); ok {
			return x == y, true
		}
	}
	if _, isNil := b.(mNilT); isNil {
		return m.equal(b, a)
	}
	return false, false
}

func symName(op string, a, b mv) string {
	s := "(" + mRender(a) + " " + op + " " + mRender(b) + ")"
	if len(s) > 120 {
		s = s[:120] + "…"
	}
	return s
}

func wrapInt(n int64, t types.Type) int64 {
	if b, ok := t.Underlying().(*types.Basic); ok {
		switch b.Kind() {
		case types.Int8:
			return int64(int8(n))
		case types.Int16:
			return int64(int16(n))
		case types.Int32:
			return int64(int32(n))
		case types.Uint8:
			return int64(uint8(n))
		case types.Uint16:
			return int64(uint16(n))
		case types.Uint32:
			return int64(uint32(n))
		}
	}
	return n
}

func (m *mach) binop(in *ssa.BinOp, a, b mv) mv {
	op := in.Op
	if op == token.EQL || op == token.NEQ {
		eq, known := m.equal(a, b)
		if !known {
			return &mSym{name: symName(op.String(), a, b), typ: in.Type()}
		}
		return eq == (op == token.EQL)
	}
	switch x := a.(type) {
	case int64:
		if y, ok := b.(int64); ok {
			unsigned := false
			if bt, ok := in.X.Type().Underlying().(*types.Basic); ok && bt.Info()&types.IsUnsigned != 0 {
				unsigned = true
			}
			switch op {
			case token.ADD:
				return wrapInt(x+y, in.Type())
			case token.SUB:
				return wrapInt(x-y, in.Type())
			case token.MUL:
				return wrapInt(x*y, in.Type())
			case token.QUO:
				if y == 0 {
					m.throw(m.sym("runtime error: integer divide by zero", nil), "integer divide by zero")
				}
				return wrapInt(x/y, in.Type())
			case token.REM:
				if y == 0 {
					m.throw(m.sym("runtime error: integer divide by zero", nil), "integer divide by zero")
				}
				return x % y
			case token.AND:
				return x & y
			case token.OR:
				return x | y
			case token.XOR:
				return x ^ y
			case token.AND_NOT:
				return x &^ y
			case token.SHL:
				if y < 0 {
					m.throw(m.sym("runtime error: negative shift amount", nil), "negative shift amount")
				}
				if y >= 64 {
					return int64(0)
				}
				return wrapInt(x<<uint(y), in.Type())
			case token.SHR:
				if y < 0 {
					m.throw(m.sym("runtime error: negative shift amount", nil), "negative shift amount")
				}
				if unsigned {
					if y >= 64 {
						return int64(0)
					}
					return int64(uint64(x) >> uint(y))
				}
				if y >= 64 {
					y = 63
				}
				return x >> uint(y)
			case token.LSS:
				if unsigned {
					return uint64(x) < uint64(y)
				}
				return x < y
			case token.LEQ:
				if unsigned {
					return uint64(x) <= uint64(y)
				}
				return x <= y
			case token.GTR:
				if unsigned {
					return uint64(x) > uint64(y)
				}
				return x > y
			case token.GEQ:
				if unsigned {
					return uint64(x) >= uint64(y)
				}
				return x >= y
			}
		}
	case float64:
		if y, ok := b.(float64); ok {
			// float32 arithmetic: the float64 result rounded once more is the float32 result (53 >= 2*24+2 bits)
			r32 := func(r float64) float64 {
				if bt, ok := in.Type().Underlying().(*types.Basic); ok && bt.Kind() == types.Float32 {
					return float64(float32(r))
				}
				return r
			}
			switch op {
			case token.ADD:
				return r32(x + y)
			case token.SUB:
				return r32(x - y)
			case token.MUL:
				return r32(x * y)
			case token.QUO:
				return r32(x / y)
			case token.LSS:
				return x < y
			case token.LEQ:
				return x <= y
			case token.GTR:
				return x > y
			case token.GEQ:
				return x >= y
			}
		}
	case string:
		if y, ok := b.(string); ok {
			switch op {
			case token.ADD:
				return x + y
			case token.LSS:
				return x < y
			case token.LEQ:
				return x <= y
			case token.GTR:
				return x > y
			case token.GEQ:
				return x >= y
			}
		}
	case bool:
		if y, ok := b.(bool); ok {
			switch op {
			case token.AND, token.LAND:
				return x && y
			case token.OR, token.LOR:
				return x || y
			}
		}
	}
	// string concatenation with symbolic parts keeps the parts
	if op == token.ADD {
		if isStringy(a) && isStringy(b) {
			return catStr(a, b)
		}
	}
	return &mSym{name: symName(op.String(), a, b), typ: in.Type()}
}

// mCat is a string made of constant and symbolic parts.
type mCat struct{ parts []mv }

func isStringy(v mv) bool {
	switch t := v.(type) {
	case string, *mCat:
		return true
	case *mSym:
		if t.typ == nil {
			return true
		}
		b, ok := t.typ.Underlying().(*types.Basic)
		return ok && b.Info()&types.IsString != 0
	}
	return false
}

func catStr(parts ...mv) mv {
	out := &mCat{}
	for _, p := range parts {
		switch t := p.(type) {
		case *mCat:
			for _, q := range t.parts {
				out.parts = appendPart(out.parts, q)
			}
		default:
			out.parts = appendPart(out.parts, p)
		}
	}
	if len(out.parts) == 0 {
		return ""
	}
	if len(out.parts) == 1 {
		return out.parts[0]
	}
	return out
}

func appendPart(ps []mv, p mv) []mv {
	if s, ok := p.(string); ok {
		if s == "" {
			return ps
		}
		if n := len(ps); n > 0 {
			if l, ok := ps[n-1].(string); ok {
				ps[n-1] = l + s
				return ps
			}
		}
	}
	return append(ps, p)
}

func catRender(v mv) string {
	switch t := v.(type) {
	case string:
		return t
	case *mCat:
		var sb strings.Builder
		for _, p := range t.parts {
			sb.WriteString(catRender(p))
		}
		return sb.String()
	case *mSym:
		return "‹" + t.name + "›"
	case mIface:
		return catRender(t.v)
	}
	return "‹" + mRender(v) + "›"
}

// ---- memory ---------------------------------------------------------------------------------------

func (m *mach) symSlot(key string, t types.Type) *mv {
	if p, ok := m.symHeap[key]; ok {
		return p
	}
	var v mv = &mSym{name: key, typ: t}
	m.symHeap[key] = &v
	return &v
}

func (m *mach) load(addr mv, t types.Type, at ssa.Instruction) mv {
	switch p := addr.(type) {
	case *mv:
		if p == nil {
			m.throw(m.sym("runtime error: invalid memory address or nil pointer dereference", nil), "nil pointer dereference at %s", m.c.Pos(at.Pos()))
		}
		if *p == nil {
			*p = m.zero(t)
		}
		return mcopy(*p)
	case mNilT:
		m.throw(m.sym("runtime error: invalid memory address or nil pointer dereference", nil), "nil pointer dereference at %s", m.c.Pos(at.Pos()))
	case *mSym:
		return mcopy(*m.symSlot("*"+p.name, t))
	}
	m.abort("load through %s at %s", mRender(addr), m.c.Pos(at.Pos()))
	return nil
}

// storeInPlace assigns val to the variable at p. A struct or array variable keeps its cells: addresses of
// its fields and elements taken before the assignment (x = T{f: x.f} is built as field addresses, then
// *x = zero, then the field stores) still denote the variable afterwards, as in Go.
func storeInPlace(p *mv, val mv) {
	switch nv := val.(type) {
	case mStruct:
		if old, ok := (*p).(mStruct); ok && len(old) == len(nv) {
			for i := range nv {
				storeInPlace(&old[i], nv[i])
			}
			return
		}
	case mArray:
		if old, ok := (*p).(mArray); ok && len(old) == len(nv) {
			for i := range nv {
				storeInPlace(&old[i], nv[i])
			}
			return
		}
	}
	*p = mcopy(val)
}

func (m *mach) store(addr, val mv, at ssa.Instruction) {
	switch p := addr.(type) {
	case *mv:
		if p == nil {
			m.throw(m.sym("runtime error: invalid memory address or nil pointer dereference", nil), "nil pointer dereference at %s", m.c.Pos(at.Pos()))
		}
		storeInPlace(p, val)
		return
	case mNilT:
		m.throw(m.sym("runtime error: invalid memory address or nil pointer dereference", nil), "nil pointer dereference at %s", m.c.Pos(at.Pos()))
	case *mSym:
		*m.symSlot("*"+p.name, nil) = mcopy(val)
		return
	}
	m.abort("store through %s at %s", mRender(addr), m.c.Pos(at.Pos()))
}

func (m *mach) global(g *ssa.Global) *mv {
	if p, ok := m.globals[g]; ok {
		return p
	}
	elem := g.Type().(*types.Pointer).Elem()
	var v mv
	if g.Pkg != nil && m.c.relPkg(g.Pkg.Pkg) != "" || (g.Pkg != nil && m.c.isLibPath(g.Pkg.Pkg.Path())) || (g.Pkg != nil && m.ownPkgs[g.Pkg]) {
		v = m.zero(elem)
		m.globals[g] = &v
		m.initPkg(g.Pkg)
		return m.globals[g]
	}
	if g.Pkg != nil && pureStdPkgs[g.Pkg.Pkg.Path()] && g.Pkg.Pkg.Path() != "unicode" {
		// tables of the pure standard-library packages whose bodies the machine evaluates
		v = m.zero(elem)
		m.globals[g] = &v
		if g.Pkg.Pkg.Path() != "internal/bytealg" { // its initialiser only reads CPU features
			m.initPkg(g.Pkg)
		}
		if g.Pkg.Pkg.Path() == "internal/bytealg" && g.Name() == "MaxLen" {
			*m.globals[g] = int64(63) // amd64 with AVX2; only selects between equivalent search strategies
		}
		return m.globals[g]
	}
	name := g.Name()
	if g.Pkg != nil {
		name = g.Pkg.Pkg.Name() + "." + name
	}
	if _, isStruct := elem.Underlying().(*types.Struct); isStruct {
		v = &mSym{name: name, nonNil: true, typ: elem}
	} else {
		v = &mSym{name: name, nonNil: true, typ: elem}
	}
	m.globals[g] = &v
	return &v
}

// initPkg runs the package initialiser of a module package (the initialisers of its imports are
// triggered by need, when one of their globals is read).
func (m *mach) initPkg(p *ssa.Package) {
	if m.inited[p] {
		return
	}
	m.inited[p] = true
	init := p.Func("init")
	if init == nil || init.Blocks == nil {
		return
	}
	// the guard variable makes a second run a no-op; the calls to other packages' init are skipped
	saved := m.steps
	m.callFn(nil, init, nil, nil)
	m.steps = saved
}

// ---- execution ------------------------------------------------------------------------------------

func (m *mach) get(fr *mframe, v ssa.Value) mv {
	switch t := v.(type) {
	case *ssa.Const:
		return m.constVal(t)
	case *ssa.Global:
		return m.global(t)
	case *ssa.Function:
		return t
	case *ssa.Builtin:
		return t
	}
	if i, ok := fr.idx[v]; ok {
		if x := fr.env[i]; x != nil {
			return x
		}
	}
	m.abort("value %s used before definition in %s", v.Name(), fr.fn.Name())
	return nil
}

func (fr *mframe) set(v ssa.Value, x mv) { fr.env[fr.idx[v]] = x }

// valueIndex numbers the parameters, free variables and value-producing instructions of fn.
func (m *mach) valueIndex(fn *ssa.Function) map[ssa.Value]int32 {
	if ix, ok := m.finfo[fn]; ok {
		return ix
	}
	ix := map[ssa.Value]int32{}
	for _, p := range fn.Params {
		ix[p] = int32(len(ix))
	}
	for _, fv := range fn.FreeVars {
		ix[fv] = int32(len(ix))
	}
	for _, b := range fn.Blocks {
		for _, in := range b.Instrs {
			if v, ok := in.(ssa.Value); ok {
				ix[v] = int32(len(ix))
			}
		}
	}
	m.finfo[fn] = ix
	return ix
}

func (m *mach) callFn(caller *mframe, fn *ssa.Function, args []mv, env []mv) mv {
	if m.intercept != nil {
		if r, ok := m.intercept(m, fn, args); ok {
			return r
		}
	}
	if o := fn.Origin(); o != nil && o.Pkg != nil && o.Pkg.Pkg.Path() == "slices" {
		// members of package slices whose bodies test for overlapping memory with package unsafe
		if r, ok := m.slicesModel(fn, o.Name(), args); ok {
			return r
		}
	}
	inModule := fn.Blocks != nil && (m.c.InModule(fn) || (fn.Pkg != nil && m.c.isLibPath(fn.Pkg.Pkg.Path())))
	if !inModule && fn.Blocks != nil && m.execExternal != nil && m.execExternal(fn) {
		inModule = true
	}
	// instantiated generics and synthetic wrappers (bound methods, thunks) of module functions run as well
	if !inModule && fn.Blocks != nil && fn.Synthetic != "" && fn.Pkg == nil {
		inModule = true
	}
	if !inModule {
		if fn.Synthetic == "package initializer" || fn.Name() == "init" && fn.Signature.Recv() == nil && fn.Signature.Params().Len() == 0 {
			if !(fn.Synthetic == "package initializer" && caller == nil && fn.Pkg != nil && pureStdPkgs[fn.Pkg.Pkg.Path()] && fn.Blocks != nil) {
				return mNil
			}
			inModule = true // the tables of a pure standard-library package, asked for by global()
		}
	}
	if !inModule {
		if r, ok := m.builtinModel(fn, args); ok {
			return r
		}
		if m.external != nil {
			if r, ok := m.external(m, fn, args); ok {
				return r
			}
		}
		// pure standard-library code without a model is read like the module's own: its SSA body is
		// evaluated when every argument is concrete (assembly leaves have models in stdAsmModel)
		if r, ok := m.stdAsmModel(fn, args); ok {
			return r
		}
		if !(fn.Blocks != nil && fn.Pkg != nil && pureStdPkgs[fn.Pkg.Pkg.Path()] && concreteArgs(args)) &&
			!(fn.Blocks != nil && fn.Pkg == nil && fn.Origin() != nil && fn.Origin().Pkg != nil && pureStdPkgs[fn.Origin().Pkg.Pkg.Path()] && concreteArgs(args)) {
			return m.opaqueResult(fn, args)
		}
	}
	if m.depth > 150 && m.depth > m.maxDepth {
		m.abort("call depth exceeded in %s", fn.Name())
	}
	m.depth++
	defer func() { m.depth-- }()
	if !m.cov[fn] {
		m.cov[fn] = true
		covered.Store(fn, true)
	}
	m.ring[m.ringPos&31] = fn
	m.ringPos++
	ix := m.valueIndex(fn)
	fr := &mframe{fn: fn, caller: caller, env: make([]mv, len(ix)), idx: ix}
	for i, p := range fn.Params {
		if i < len(args) {
			fr.set(p, args[i])
		} else {
			fr.set(p, m.zero(p.Type()))
		}
	}
	for i, fv := range fn.FreeVars {
		if i < len(env) {
			fr.set(fv, env[i])
		}
	}
	fr.block = fn.Blocks[0]
	for fr.block != nil {
		m.runFrame(fr)
	}
	return fr.result
}

// harmlessVoid: result-less functions outside the module whose effects (output, scheduling, diagnostics)
// are not part of any value the machine computes.
func harmlessVoid(fn *ssa.Function) bool {
	pkg := ""
	if fn.Pkg != nil {
		pkg = fn.Pkg.Pkg.Path()
	} else if r := fn.Signature.Recv(); r != nil {
		t := r.Type()
		if p, ok := t.(*types.Pointer); ok {
			t = p.Elem()
		}
		if n, ok := t.(*types.Named); ok && n.Obj().Pkg() != nil {
			pkg = n.Obj().Pkg().Path()
		}
	}
	switch pkg {
	case "fmt", "log", "os", "runtime", "runtime/debug", "time", "testing", "sync", "io":
		return true
	}
	return false
}

// moduleNamed: a named type declared by the module under analysis.
func (m *mach) moduleNamed(t types.Type) bool {
	n, ok := t.(*types.Named)
	return ok && n.Obj().Pkg() != nil && m.c.relPkg(n.Obj().Pkg()) != ""
}

// opaqueResult: the result of a function outside the model.
func (m *mach) opaqueResult(fn *ssa.Function, args []mv) mv {
	res := fn.Signature.Results()
	var as []string
	for _, a := range args {
		as = append(as, mRender(a))
	}
	name := fn.Name()
	if fn.Pkg != nil {
		name = fn.Pkg.Pkg.Name() + "." + name
	} else if r := fn.Signature.Recv(); r != nil {
		name = types.TypeString(r.Type(), func(p *types.Package) string { return p.Name() }) + "." + name
	}
	base := name + "(" + strings.Join(as, ",") + ")"
	if len(base) > 100 {
		base = base[:100] + "…"
	}
	switch res.Len() {
	case 0:
		// a function without results acts through its arguments: skipping it silently would continue with
		// memory it should have changed (or a callback it should have called)
		if !harmlessVoid(fn) {
			for _, a := range args {
				if i, ok := a.(mIface); ok {
					a = i.v
				}
				switch x := a.(type) {
				case *mv:
					if x != nil {
						m.abort("the effect of %s on its arguments is outside the model", base)
					}
				case mSlice, *mMap, *mClosure, *ssa.Function:
					m.abort("the effect of %s on its arguments is outside the model", base)
				}
			}
		}
		return mNil
	case 1:
		// constructors return objects
		_, isPtr := res.At(0).Type().Underlying().(*types.Pointer)
		return &mSym{name: base, typ: res.At(0).Type(), nonNil: isPtr && strings.HasPrefix(fn.Name(), "New")}
	}
	tp := make(mTuple, res.Len())
	for i := range tp {
		tp[i] = &mSym{name: fmt.Sprintf("%s.%d", base, i), typ: res.At(i).Type()}
	}
	return tp
}

func (m *mach) runDefers(fr *mframe) {
	for len(fr.defers) > 0 {
		d := fr.defers[len(fr.defers)-1]
		fr.defers = fr.defers[:len(fr.defers)-1]
		func() {
			defer func() {
				if r := recover(); r != nil {
					if _, isAbort := r.(mAbort); isAbort {
						panic(r)
					}
					if p, ok := r.(*mPanic); ok {
						// a new panic replaces the current one
						fr.panicking = true
						fr.panicVal = p
						return
					}
					panic(r)
				}
			}()
			d()
		}()
	}
	if fr.panicking {
		panic(fr.panicVal)
	}
}

func (m *mach) runFrame(fr *mframe) {
	defer func() {
		if fr.block == nil {
			return
		}
		r := recover()
		if r == nil {
			return
		}
		p, ok := r.(*mPanic)
		if !ok {
			panic(r)
		}
		fr.panicking = true
		fr.panicVal = p
		m.runDefers(fr) // re-panics if still panicking
		fr.block = fr.fn.Recover
		if fr.block == nil {
			fr.result = m.zeroResults(fr.fn)
		}
	}()
	for {
		blk := fr.block
		var next *ssa.BasicBlock
		for _, in := range blk.Instrs {
			m.steps++
			if m.steps > m.maxSteps {
				m.abort("the abstract run exceeds its step budget (non-termination?) in %s", fr.fn.Name())
			}
			if m.onInstr != nil {
				m.onInstr(fr, in)
			}
			switch t := in.(type) {
			case *ssa.DebugRef:
			case *ssa.Phi:
				for i, p := range blk.Preds {
					if p == fr.prev {
						fr.set(t, m.get(fr, t.Edges[i]))
						break
					}
				}
			case *ssa.If:
				cv := m.get(fr, t.Cond)
				b, ok := cv.(bool)
				if !ok {
					if m.decide != nil {
						if d, known := m.decide(m, cv, t); known {
							b, ok = d, true
						}
					}
					if !ok {
						m.abort("a branch on %s at %s is outside the finite model", mRender(cv), m.c.Pos(t.Cond.Pos()))
					}
				}
				if b {
					next = blk.Succs[0]
				} else {
					next = blk.Succs[1]
				}
			case *ssa.Jump:
				next = blk.Succs[0]
			case *ssa.Return:
				switch len(t.Results) {
				case 0:
					fr.result = mNil
				case 1:
					fr.result = m.get(fr, t.Results[0])
				default:
					tp := make(mTuple, len(t.Results))
					for i, r := range t.Results {
						tp[i] = m.get(fr, r)
					}
					fr.result = tp
				}
				fr.block = nil
				return
			case *ssa.RunDefers:
				m.runDefers(fr)
			case *ssa.Panic:
				v := m.get(fr, t.X)
				m.throw(v, "panic(%s) at %s", mRender(v), m.c.Pos(t.Pos()))
			case *ssa.Defer:
				fn, args, env := m.prepareCall(fr, &t.Call)
				callerFr := fr
				fr.defers = append(fr.defers, func() { m.invoke(callerFr, fn, args, env, t) })
			case *ssa.Go:
				m.abort("goroutine start at %s", m.c.Pos(t.Pos()))
			case *ssa.Store:
				m.store(m.get(fr, t.Addr), m.get(fr, t.Val), t)
			case *ssa.MapUpdate:
				mp, ok := m.get(fr, t.Map).(*mMap)
				if !ok || mp == nil {
					if _, isNil := m.get(fr, t.Map).(mNilT); isNil {
						m.throw(m.sym("assignment to entry in nil map", nil), "assignment to entry in nil map at %s", m.c.Pos(t.Pos()))
					}
					m.abort("update of a map outside the model at %s", m.c.Pos(t.Pos()))
				}
				k := m.get(fr, t.Key)
				ks, ok := mapKey(k)
				if !ok {
					m.abort("map key outside the model at %s", m.c.Pos(t.Pos()))
				}
				if _, has := mp.k[ks]; !has {
					mp.keys = append(mp.keys, ks)
				}
				mp.k[ks] = k
				mp.v[ks] = mcopy(m.get(fr, t.Value))
			case ssa.Value:
				fr.set(t, m.eval(fr, t))
			default:
				m.abort("instruction %T at %s", in, m.c.Pos(in.Pos()))
			}
		}
		if next == nil {
			m.abort("control flow left the model in %s", fr.fn.Name())
		}
		fr.prev, fr.block = blk, next
	}
}

func (m *mach) zeroResults(fn *ssa.Function) mv {
	res := fn.Signature.Results()
	switch res.Len() {
	case 0:
		return mNil
	case 1:
		return m.zero(res.At(0).Type())
	}
	return m.zero(res)
}

func (m *mach) prepareCall(fr *mframe, cc *ssa.CallCommon) (fn mv, args []mv, env []mv) {
	if cc.IsInvoke() {
		recv := m.get(fr, cc.Value)
		for _, a := range cc.Args {
			args = append(args, m.get(fr, a))
		}
		switch r := recv.(type) {
		case mIface:
			prog := m.c.Prog
			if m.prog != nil {
				prog = m.prog
			}
			if sy, isSym := r.v.(*mSym); isSym {
				if pt, isPtr := r.t.(*types.Pointer); isPtr && types.IsInterface(pt.Elem()) {
					// an error made by errors.New / fmt.Errorf: an opaque object
					return &symMethod{recv: sy, method: cc.Method}, args, nil
				}
			}
			f := prog.LookupMethod(r.t, cc.Method.Pkg(), cc.Method.Name())
			if f == nil {
				m.abort("method %s not found on %s", cc.Method.Name(), r.t)
			}
			return f, append([]mv{r.v}, args...), nil
		case mNilT:
			m.throw(m.sym("runtime error: invalid memory address or nil pointer dereference", nil), "method %s called on a nil interface at %s", cc.Method.Name(), m.c.Pos(cc.Pos()))
		case *mSym:
			return &symMethod{recv: r, method: cc.Method}, args, nil
		}
		m.abort("interface call on %s at %s", mRender(recv), m.c.Pos(cc.Pos()))
	}
	fv := m.get(fr, cc.Value)
	for _, a := range cc.Args {
		args = append(args, m.get(fr, a))
	}
	if cl, ok := fv.(*mClosure); ok {
		return cl.fn, args, cl.env
	}
	return fv, args, nil
}

type symMethod struct {
	recv   *mSym
	method *types.Func
}

func (m *mach) invoke(fr *mframe, fn mv, args []mv, env []mv, at ssa.Instruction) mv {
	switch f := fn.(type) {
	case *ssa.Function:
		return m.callFn(fr, f, args, env)
	case *ssa.Builtin:
		return m.builtin(fr, f, args, at)
	case *symMethod:
		// reflect.Type of a known dynamic type
		if f.recv.rt != nil {
			switch f.method.Name() {
			case "Comparable":
				return types.Comparable(f.recv.rt)
			case "Kind":
				if k, ok := reflectKind(f.recv.rt); ok {
					return k
				}
			case "Elem":
				if et := reflectElem(f.recv.rt); et != nil {
					return &mSym{name: "reflect.TypeOf(" + et.String() + ")", nonNil: true, rt: et}
				}
			case "String":
				// as package reflect prints types: qualified by the package name, not its path
				return types.TypeString(f.recv.rt, func(p *types.Package) string { return p.Name() })
			case "PkgPath", "Name":
				// of a defined type: its package path (empty for the predeclared types) and its name; both empty
				// for an unnamed type
				var obj *types.TypeName
				switch nt := types.Unalias(f.recv.rt).(type) {
				case *types.Named:
					obj = nt.Obj()
				case *types.Basic:
					if f.method.Name() == "Name" {
						return nt.Name()
					}
					return ""
				default:
					return ""
				}
				if f.method.Name() == "Name" {
					if nt := types.Unalias(f.recv.rt).(*types.Named); nt.TypeArgs().Len() == 0 {
						return obj.Name()
					}
					break // an instantiated generic type prints its arguments: outside the model
				}
				if obj.Pkg() == nil {
					return "" // error
				}
				return obj.Pkg().Path()
			}
		}
		if f.recv.msg != nil && f.method.Name() == "Error" && len(args) == 0 {
			return f.recv.msg
		}
		// a method of an opaque object: the rule gives it a meaning through symCall
		if m.symCall != nil {
			if r, ok := m.symCall(m, f.recv, f.method, args); ok {
				return r
			}
		}
		res := f.method.Type().(*types.Signature).Results()
		base := f.recv.name + "." + f.method.Name() + "()"
		switch res.Len() {
		case 0:
			return mNil
		case 1:
			return &mSym{name: base, typ: res.At(0).Type()}
		}
		tp := make(mTuple, res.Len())
		for i := range tp {
			tp[i] = &mSym{name: fmt.Sprintf("%s.%d", base, i), typ: res.At(i).Type()}
		}
		return tp
	case *mSym:
		// an opaque function value supplied by the rule
		if m.symFunc != nil {
			if r, ok := m.symFunc(m, f, args); ok {
				return r
			}
		}
	case mNilT:
		m.throw(m.sym("runtime error: invalid memory address or nil pointer dereference", nil), "call of a nil function at %s", m.c.Pos(at.Pos()))
	}
	m.abort("call of %s at %s", mRender(fn), m.c.Pos(at.Pos()))
	return nil
}

func (m *mach) builtin(fr *mframe, b *ssa.Builtin, args []mv, at ssa.Instruction) mv {
	switch b.Name() {
	case "len", "cap":
		switch x := args[0].(type) {
		case string:
			return int64(len(x))
		case mSlice:
			if b.Name() == "cap" {
				return int64(cap(x.arr))
			}
			return int64(len(x.arr))
		case mNilT:
			return int64(0)
		case *mMap:
			if x == nil {
				return int64(0)
			}
			return int64(len(x.keys))
		case mArray:
			return int64(len(x))
		case *mv:
			if x != nil {
				if a, ok := (*x).(mArray); ok {
					return int64(len(a))
				}
			}
		case *mCat:
			allConst := true
			n := 0
			for _, p := range x.parts {
				s, ok := p.(string)
				if !ok {
					allConst = false
					break
				}
				n += len(s)
			}
			if allConst {
				return int64(n)
			}
		}
		return &mSym{name: b.Name() + "(" + mRender(args[0]) + ")", typ: types.Typ[types.Int]}
	case "append":
		var base []mv
		switch x := args[0].(type) {
		case mSlice:
			base = x.arr
		case mNilT:
		default:
			m.abort("append to %s at %s", mRender(args[0]), m.c.Pos(at.Pos()))
		}
		var add []mv
		switch y := args[1].(type) {
		case mSlice:
			for _, e := range y.arr {
				add = append(add, mcopy(e))
			}
		case mNilT:
		case string:
			for _, c := range []byte(y) {
				add = append(add, int64(c))
			}
		default:
			m.abort("append of %s at %s", mRender(args[1]), m.c.Pos(at.Pos()))
		}
		if len(add) == 0 {
			if base == nil {
				return mNil
			}
			return mSlice{base}
		}
		if len(base)+len(add) <= cap(base) {
			return mSlice{append(base, add...)} // in place, as the runtime does: aliases see the write
		}
		// grow as the Go runtime does (the aliasing behaviour of later appends depends on the capacity)
		var esize int64 = 8
		if call, ok := at.(*ssa.Call); ok {
			if st, ok := call.Type().Underlying().(*types.Slice); ok {
				esize = mSizes.Sizeof(st.Elem())
			}
		}
		nc := growCap(int64(cap(base)), int64(len(base)+len(add)), esize)
		out := make([]mv, len(base), nc)
		copy(out, base)
		return mSlice{append(out, add...)}
	case "copy":
		dst, ok := args[0].(mSlice)
		if !ok {
			return int64(0)
		}
		switch src := args[1].(type) {
		case mSlice:
			// as the runtime's memmove: overlapping source and destination behave as if copied through a buffer
			n := len(dst.arr)
			if len(src.arr) < n {
				n = len(src.arr)
			}
			tmp := make([]mv, n)
			for i := 0; i < n; i++ {
				tmp[i] = mcopy(src.arr[i])
			}
			copy(dst.arr, tmp)
			return int64(n)
		case string:
			n := 0
			for n < len(dst.arr) && n < len(src) {
				dst.arr[n] = int64(src[n])
				n++
			}
			return int64(n)
		}
		return int64(0)
	case "delete":
		if mp, ok := args[0].(*mMap); ok && mp != nil {
			if ks, ok := mapKey(args[1]); ok {
				if _, has := mp.k[ks]; has {
					delete(mp.k, ks)
					delete(mp.v, ks)
					for i, k := range mp.keys {
						if k == ks {
							mp.keys = append(mp.keys[:i:i], mp.keys[i+1:]...)
							break
						}
					}
				}
				return mNil
			}
			m.abort("delete with a key outside the model")
		}
		return mNil
	case "recover":
		// only effective in a function deferred by a panicking frame
		if fr != nil && fr.caller != nil && fr.caller.panicking {
			fr.caller.panicking = false
			p := fr.caller.panicVal
			fr.caller.panicVal = nil
			if p == nil {
				return mNil
			}
			if _, isIface := p.val.(mIface); isIface {
				return p.val
			}
			return mIface{t: types.Typ[types.String], v: p.val}
		}
		return mNil
	case "ssa:wrapnilchk":
		// the receiver check of a promoted-method wrapper
		if _, isNil := args[0].(mNilT); isNil {
			m.throw(m.sym("runtime error: invalid memory address or nil pointer dereference", nil), "value method called through a nil pointer at %s", m.c.Pos(at.Pos()))
		}
		if p, ok := args[0].(*mv); ok && p == nil {
			m.throw(m.sym("runtime error: invalid memory address or nil pointer dereference", nil), "value method called through a nil pointer at %s", m.c.Pos(at.Pos()))
		}
		return args[0]
	case "print", "println":
		return mNil
	case "min", "max":
		// any number of operands of one ordered type (integers, floats without NaN, strings)
		if len(args) >= 1 {
			best := args[0]
			ok := true
			for _, a := range args[1:] {
				var less bool
				switch x := a.(type) {
				case int64:
					y, isInt := best.(int64)
					ok = ok && isInt
					less = x < y
				case uint64:
					y, isUint := best.(uint64)
					ok = ok && isUint
					less = x < y
				case float64:
					y, isFloat := best.(float64)
					ok = ok && isFloat && x == x && y == y
					less = x < y
				case string:
					y, isStr := best.(string)
					ok = ok && isStr
					less = x < y
				default:
					ok = false
				}
				if !ok {
					break
				}
				if (b.Name() == "min") == less {
					best = a
				}
			}
			if ok {
				switch best.(type) {
				case int64, uint64, float64, string:
					return best
				}
			}
		}
	case "clear":
		switch x := args[0].(type) {
		case mNilT:
			return mNil
		case *mMap:
			if x != nil {
				x.k = map[string]mv{}
				x.v = map[string]mv{}
				x.keys = nil
			}
			return mNil
		case mSlice:
			if call, ok := at.(ssa.CallInstruction); ok && len(call.Common().Args) == 1 {
				if st, ok := call.Common().Args[0].Type().Underlying().(*types.Slice); ok {
					for i := range x.arr {
						x.arr[i] = m.zero(st.Elem())
					}
					return mNil
				}
			}
		}
	}
	m.abort("builtin %s at %s", b.Name(), m.c.Pos(at.Pos()))
	return nil
}

func (m *mach) eval(fr *mframe, v ssa.Value) mv {
	switch t := v.(type) {
	case *ssa.Alloc:
		var slot mv = m.zero(t.Type().(*types.Pointer).Elem())
		return &slot
	case *ssa.BinOp:
		return m.binop(t, m.get(fr, t.X), m.get(fr, t.Y))
	case *ssa.UnOp:
		x := m.get(fr, t.X)
		switch t.Op {
		case token.MUL:
			return m.load(x, t.Type(), t)
		case token.NOT:
			if b, ok := x.(bool); ok {
				return !b
			}
			return &mSym{name: "!" + mRender(x), typ: t.Type()}
		case token.SUB:
			switch n := x.(type) {
			case int64:
				return wrapInt(-n, t.Type())
			case float64:
				return -n
			}
			return &mSym{name: "-" + mRender(x), typ: t.Type()}
		case token.XOR:
			if n, ok := x.(int64); ok {
				return wrapInt(^n, t.Type())
			}
			return &mSym{name: "^" + mRender(x), typ: t.Type()}
		}
		m.abort("unary %s at %s", t.Op, m.c.Pos(t.Pos()))
	case *ssa.Call:
		fn, args, env := m.prepareCall(fr, &t.Call)
		return m.invoke(fr, fn, args, env, t)
	case *ssa.ChangeInterface:
		return m.get(fr, t.X)
	case *ssa.ChangeType:
		x := m.get(fr, t.X)
		// a change between a type the module declares and its underlying type (type floatSource float32) never
		// changes the value: the symbol is only re-tagged
		if s, ok := x.(*mSym); ok && s.typ != nil && !types.Identical(s.typ, t.Type()) && (m.moduleNamed(s.typ) || m.moduleNamed(t.Type())) {
			if _, isBasic := t.Type().Underlying().(*types.Basic); isBasic {
				return &mSym{name: s.name, nonNil: s.nonNil, typ: t.Type(), rt: s.rt, msg: s.msg}
			}
		}
		if s, ok := x.(*mSym); ok && s.typ != nil && !types.Identical(s.typ, t.Type()) {
			if _, isBasic := t.Type().Underlying().(*types.Basic); isBasic {
				q := func(p *types.Package) string { return p.Name() }
				return &mSym{name: "conv<" + types.TypeString(t.Type(), q) + ">(" + s.name + ")", nonNil: s.nonNil, typ: t.Type()}
			}
		}
		return x
	case *ssa.MultiConvert:
		return m.get(fr, t.X)
	case *ssa.Convert:
		return m.convert(t, m.get(fr, t.X))
	case *ssa.MakeInterface:
		x := m.get(fr, t.X)
		if s, ok := x.(*mSym); ok && s.typ == nil {
			s.typ = t.X.Type()
		}
		return mIface{t: t.X.Type(), v: x}
	case *ssa.Extract:
		tp, ok := m.get(fr, t.Tuple).(mTuple)
		if !ok || t.Index >= len(tp) {
			m.abort("extract from %s", mRender(m.get(fr, t.Tuple)))
		}
		return tp[t.Index]
	case *ssa.FieldAddr:
		x := m.get(fr, t.X)
		switch p := x.(type) {
		case *mv:
			if p == nil {
				break
			}
			if *p == nil {
				*p = m.zero(t.X.Type().Underlying().(*types.Pointer).Elem())
			}
			if s, ok := (*p).(mStruct); ok {
				return &s[t.Field]
			}
			if sy, ok := (*p).(*mSym); ok {
				return m.symSlot(sy.name+"."+fieldName(t.X.Type(), t.Field), t.Type().(*types.Pointer).Elem())
			}
			m.abort("field of %s at %s", mRender(*p), m.c.Pos(t.Pos()))
		case *mSym:
			return m.symSlot(p.name+"."+fieldName(t.X.Type(), t.Field), t.Type().(*types.Pointer).Elem())
		}
		m.throw(m.sym("runtime error: invalid memory address or nil pointer dereference", nil), "field access through a nil pointer at %s", m.c.Pos(t.Pos()))
	case *ssa.Field:
		x := m.get(fr, t.X)
		if s, ok := x.(mStruct); ok {
			return mcopy(s[t.Field])
		}
		if sy, ok := x.(*mSym); ok {
			return &mSym{name: sy.name + "." + fieldName(t.X.Type(), t.Field), typ: t.Type()}
		}
		m.abort("field of %s at %s", mRender(x), m.c.Pos(t.Pos()))
	case *ssa.IndexAddr:
		x := m.get(fr, t.X)
		idx := m.get(fr, t.Index)
		i, ok := idx.(int64)
		var arr []mv
		switch a := x.(type) {
		case mSlice:
			arr = a.arr
		case *mv:
			if a == nil {
				m.throw(m.sym("runtime error: invalid memory address or nil pointer dereference", nil), "index through a nil array pointer")
			}
			aa, isArr := (*a).(mArray)
			if !isArr {
				m.abort("index of %s at %s", mRender(*a), m.c.Pos(t.Pos()))
			}
			arr = aa
		case mNilT:
		default:
			m.abort("index of %s at %s", mRender(x), m.c.Pos(t.Pos()))
		}
		if !ok {
			m.abort("index %s outside the model at %s", mRender(idx), m.c.Pos(t.Pos()))
		}
		if i < 0 || i >= int64(len(arr)) {
			m.throw(m.sym(fmt.Sprintf("runtime error: index out of range [%d] with length %d", i, len(arr)), nil), "index out of range [%d] with length %d at %s", i, len(arr), m.c.Pos(t.Pos()))
		}
		return &arr[i]
	case *ssa.Index:
		x := m.get(fr, t.X)
		idx := m.get(fr, t.Index)
		i, ok := idx.(int64)
		if !ok {
			m.abort("index %s outside the model at %s", mRender(idx), m.c.Pos(t.Pos()))
		}
		switch a := x.(type) {
		case string:
			if i < 0 || i >= int64(len(a)) {
				m.throw(m.sym(fmt.Sprintf("runtime error: index out of range [%d] with length %d", i, len(a)), nil), "string index out of range [%d] with length %d at %s", i, len(a), m.c.Pos(t.Pos()))
			}
			return int64(a[i])
		case mArray:
			if i < 0 || i >= int64(len(a)) {
				m.throw(m.sym("runtime error: index out of range", nil), "index out of range [%d] with length %d at %s", i, len(a), m.c.Pos(t.Pos()))
			}
			return mcopy(a[i])
		}
		m.abort("index of %s at %s", mRender(x), m.c.Pos(t.Pos()))
	case *ssa.Lookup:
		x := m.get(fr, t.X)
		k := m.get(fr, t.Index)
		switch mp := x.(type) {
		case string:
			i, ok := k.(int64)
			if !ok {
				m.abort("string index outside the model")
			}
			if i < 0 || i >= int64(len(mp)) {
				m.throw(m.sym("runtime error: index out of range", nil), "string index out of range [%d] with length %d at %s", i, len(mp), m.c.Pos(t.Pos()))
			}
			return int64(mp[i])
		case *mMap, mNilT:
			var val mv
			found := false
			if mm, ok := mp.(*mMap); ok && mm != nil {
				// a key that is not a constant selects among the entries like a chain of comparisons would:
				// each comparison is a branch on a non-constant condition (explored in both directions, or outside the model)
				// (the description of a dynamic type, reflect.TypeOf, is a symbol that stands for exactly one type:
				// its name decides)
				if ksym, isSym := k.(*mSym); isSym && len(mm.keys) > 0 && ksym.rt == nil {
					if _, same := mm.v["sym:"+ksym.name]; !same {
						if m.decide == nil {
							m.abort("a map lookup by the non-constant key %s at %s is outside the finite model", mRender(k), m.c.Pos(t.Pos()))
						}
						if b, isBasic := t.Index.Type().Underlying().(*types.Basic); isBasic && b.Info()&types.IsBoolean != 0 {
							d, _ := m.decide(m, k, t)
							k = d
						} else {
							for _, kstr := range mm.keys {
								kv := mm.k[kstr]
								if _, symKey := kv.(*mSym); symKey {
									continue
								}
								cond := &mSym{name: symName("==", k, kv), typ: types.Typ[types.Bool]}
								if d, _ := m.decide(m, cond, t); d {
									k = kv
									break
								}
							}
						}
					}
				}
				ks, okk := mapKey(k)
				if !okk {
					m.abort("map key outside the model at %s", m.c.Pos(t.Pos()))
				}
				if vv, has := mm.v[ks]; has {
					val, found = mcopy(vv), true
				}
			}
			elemT := t.X.Type().Underlying().(*types.Map).Elem()
			if !found {
				val = m.zero(elemT)
			}
			if t.CommaOk {
				return mTuple{val, found}
			}
			return val
		}
		m.abort("lookup in %s at %s", mRender(x), m.c.Pos(t.Pos()))
	case *ssa.MakeClosure:
		cl := &mClosure{fn: t.Fn.(*ssa.Function)}
		for _, b := range t.Bindings {
			cl.env = append(cl.env, m.get(fr, b))
		}
		return cl
	case *ssa.MakeMap:
		return &mMap{k: map[string]mv{}, v: map[string]mv{}}
	case *ssa.MakeSlice:
		n, ok := m.get(fr, t.Len).(int64)
		cp, ok2 := m.get(fr, t.Cap).(int64)
		if !ok || !ok2 || n < 0 || cp < n || cp > 1<<20 {
			if ok && ok2 && (n < 0 || cp < n) {
				m.throw(m.sym("runtime error: makeslice: len out of range", nil), "makeslice: len out of range at %s", m.c.Pos(t.Pos()))
			}
			m.abort("make of a slice whose size is outside the model at %s", m.c.Pos(t.Pos()))
		}
		arr := make([]mv, n, cp)
		et := t.Type().Underlying().(*types.Slice).Elem()
		for i := range arr {
			arr[i] = m.zero(et)
		}
		return mSlice{arr}
	case *ssa.Slice:
		return m.sliceOp(fr, t)
	case *ssa.TypeAssert:
		return m.typeAssert(t, m.get(fr, t.X))
	case *ssa.Range:
		x := m.get(fr, t.X)
		switch s := x.(type) {
		case string:
			return &mIter{str: s}
		case *mMap:
			if s == nil {
				return &mIter{m: &mMap{}}
			}
			keys := append([]string{}, s.keys...)
			switch {
			case m.mapOrder == 1:
				for l, r := 0, len(keys)-1; l < r; l, r = l+1, r-1 {
					keys[l], keys[r] = keys[r], keys[l]
				}
			case m.mapOrder == 2 && len(keys) > 1:
				keys = append(keys[1:], keys[0])
			}
			return &mIter{m: s, keys: keys}
		case mNilT:
			return &mIter{m: &mMap{}}
		}
		m.abort("range over %s at %s", mRender(x), m.c.Pos(t.Pos()))
	case *ssa.Next:
		it := m.get(fr, t.Iter).(*mIter)
		if t.IsString {
			if it.pos >= len(it.str) {
				return mTuple{false, int64(0), int64(0)}
			}
			r, size := utf8.DecodeRuneInString(it.str[it.pos:])
			p := it.pos
			it.pos += size
			return mTuple{true, int64(p), int64(r)}
		}
		for len(it.keys) > 0 {
			k := it.keys[0]
			it.keys = it.keys[1:]
			if kv, has := it.m.k[k]; has {
				return mTuple{true, kv, mcopy(it.m.v[k])}
			}
		}
		return mTuple{false, mNil, mNil}
	case *ssa.SliceToArrayPointer:
		m.abort("slice to array pointer")
	}
	m.abort("value %T at %s", v, m.c.Pos(v.Pos()))
	return nil
}

func (m *mach) sliceOp(fr *mframe, t *ssa.Slice) mv {
	x := m.get(fr, t.X)
	geti := func(v ssa.Value, def int64) int64 {
		if v == nil {
			return def
		}
		n, ok := m.get(fr, v).(int64)
		if !ok {
			m.abort("slice bound %s outside the model at %s", mRender(m.get(fr, v)), m.c.Pos(t.Pos()))
		}
		return n
	}
	switch s := x.(type) {
	case string:
		lo, hi := geti(t.Low, 0), geti(t.High, int64(len(s)))
		if lo < 0 || hi > int64(len(s)) || lo > hi {
			m.throw(m.sym("runtime error: slice bounds out of range", nil), "slice bounds out of range [%d:%d] with length %d at %s", lo, hi, len(s), m.c.Pos(t.Pos()))
		}
		return s[lo:hi]
	case mSlice, mNilT, *mv:
		var arr []mv
		switch a := s.(type) {
		case mSlice:
			arr = a.arr
		case *mv:
			if a == nil {
				m.throw(m.sym("runtime error: invalid memory address or nil pointer dereference", nil), "slice of a nil array pointer")
			}
			aa, ok := (*a).(mArray)
			if !ok {
				m.abort("slice of %s", mRender(*a))
			}
			arr = aa
		}
		lo, hi := geti(t.Low, 0), geti(t.High, int64(len(arr)))
		mx := geti(t.Max, int64(cap(arr)))
		if lo < 0 || hi > int64(cap(arr)) || lo > hi || mx > int64(cap(arr)) || hi > mx {
			m.throw(m.sym("runtime error: slice bounds out of range", nil), "slice bounds out of range [%d:%d] with capacity %d at %s", lo, hi, cap(arr), m.c.Pos(t.Pos()))
		}
		if arr == nil {
			return mNil
		}
		return mSlice{arr[lo:hi:mx]}
	case *mCat, *mSym:
		return &mSym{name: "slice(" + mRender(x) + ")", typ: t.Type()}
	}
	m.abort("slice of %s at %s", mRender(x), m.c.Pos(t.Pos()))
	return nil
}

func (m *mach) convert(t *ssa.Convert, x mv) mv {
	dst, src := t.Type().Underlying(), t.X.Type().Underlying()
	if s, ok := x.(*mSym); ok {
		if s.typ != nil && types.Identical(s.typ, t.Type()) {
			return &mSym{name: s.name, nonNil: s.nonNil, typ: t.Type()}
		}
		q := func(p *types.Package) string { return p.Name() }
		return &mSym{name: "conv<" + types.TypeString(t.Type(), q) + ">(" + s.name + ")", nonNil: s.nonNil, typ: t.Type()}
	}
	switch d := dst.(type) {
	case *types.Basic:
		switch {
		case d.Info()&types.IsString != 0:
			switch v := x.(type) {
			case int64:
				return string(rune(v))
			case string:
				return v
			case mSlice, mNilT:
				var arr []mv
				if sl, ok := v.(mSlice); ok {
					arr = sl.arr
				}
				el := src.(*types.Slice).Elem().Underlying().(*types.Basic)
				parts := []mv{}
				for _, e := range arr {
					n, ok := e.(int64)
					if !ok {
						parts = append(parts, e)
						continue
					}
					if el.Kind() == types.Byte {
						parts = append(parts, string([]byte{byte(n)}))
					} else {
						parts = append(parts, string(rune(n)))
					}
				}
				return catStr(parts...)
			case *mCat:
				return v
			}
		case d.Info()&types.IsInteger != 0:
			switch v := x.(type) {
			case int64:
				return wrapInt(v, t.Type())
			case float64:
				return wrapInt(int64(v), t.Type())
			}
		case d.Info()&types.IsFloat != 0:
			switch v := x.(type) {
			case int64:
				if sb, ok := src.(*types.Basic); ok && sb.Info()&types.IsUnsigned != 0 {
					if d.Kind() == types.Float32 {
						return float64(float32(uint64(v)))
					}
					return float64(uint64(v))
				}
				if d.Kind() == types.Float32 {
					return float64(float32(v)) // a float32 keeps 24 bits of the integer
				}
				return float64(v)
			case float64:
				if d.Kind() == types.Float32 {
					return float64(float32(v))
				}
				return v
			}
		case d.Kind() == types.UnsafePointer:
			return x
		}
	case *types.Slice:
		if s, ok := x.(string); ok {
			el := d.Elem().Underlying().(*types.Basic)
			var arr []mv
			if el.Kind() == types.Byte {
				for _, b := range []byte(s) {
					arr = append(arr, int64(b))
				}
			} else {
				for _, r := range s {
					arr = append(arr, int64(r))
				}
			}
			esz := int64(4)
			if el.Kind() == types.Byte {
				esz = 1
			}
			n := int64(len(arr))
			cp := n
			if n > 0 {
				cp = roundupsize(n*esz) / esz
			}
			out := make([]mv, n, cp)
			copy(out, arr)
			return mSlice{out}
		}
		if c, ok := x.(*mCat); ok {
			// every symbolic part is one element
			var arr []mv
			for _, p := range c.parts {
				if s, ok := p.(string); ok {
					for _, r := range s {
						arr = append(arr, int64(r))
					}
				} else {
					arr = append(arr, p)
				}
			}
			return mSlice{arr}
		}
	case *types.Pointer:
		return x
	}
	m.abort("conversion of %s to %s at %s", mRender(x), t.Type(), m.c.Pos(t.Pos()))
	return nil
}

func (m *mach) typeAssert(t *ssa.TypeAssert, x mv) mv {
	fail := func(dyn string) mv {
		if t.CommaOk {
			return mTuple{m.zero(t.AssertedType), false}
		}
		m.throw(m.sym("interface conversion: interface is "+dyn+", not "+t.AssertedType.String(), nil), "type assertion to %s fails on %s at %s", t.AssertedType, dyn, m.c.Pos(t.Pos()))
		return nil
	}
	switch v := x.(type) {
	case mNilT:
		return fail("nil")
	case mIface:
		if it, ok := t.AssertedType.Underlying().(*types.Interface); ok {
			if types.Implements(v.t, it) {
				if t.CommaOk {
					return mTuple{v, true}
				}
				return v
			}
			return fail(v.t.String())
		}
		if types.Identical(v.t, t.AssertedType) {
			if t.CommaOk {
				return mTuple{v.v, true}
			}
			return v.v
		}
		return fail(v.t.String())
	case *mSym:
		if v.typ != nil {
			if _, srcIsIface := v.typ.Underlying().(*types.Interface); !srcIsIface {
				return m.typeAssert(t, mIface{t: v.typ, v: v})
			}
		}
		// an opaque non-nil object re-asserted to an interface without a failure branch (method values
		// of interfaces, x.(I) as a nil check): the object stands for an implementation of what it is used as
		if _, toIface := t.AssertedType.Underlying().(*types.Interface); toIface && !t.CommaOk && v.nonNil {
			return v
		}
		m.abort("type assertion on %s at %s is outside the model", v.name, m.c.Pos(t.Pos()))
	}
	m.abort("type assertion on %s at %s", mRender(x), m.c.Pos(t.Pos()))
	return nil
}

// sortedKeys is used by rules printing maps deterministically.
func sortedKeys(mm map[string]bool) []string {
	var ks []string
	for k := range mm {
		ks = append(ks, k)
	}
	sort.Strings(ks)
	return ks
}

var mSizes = types.SizesFor("gc", "amd64")

var sizeClasses = []int64{8, 16, 24, 32, 48, 64, 80, 96, 112, 128, 144, 160, 176, 192, 208, 224, 240, 256, 288, 320, 352, 384, 416, 448, 480, 512, 576, 640, 704, 768, 896, 1024, 1152, 1280, 1408, 1536, 1792, 2048, 2304, 2688, 3072, 3200, 3456, 4096, 4864, 5120, 5376, 6144, 6528, 6784, 6912, 8192, 9472, 9728, 10240, 10880, 12288, 13568, 14336, 16384, 18432, 19072, 20480, 21760, 24576, 27264, 28672, 32768}

func roundupsize(n int64) int64 {
	for _, c := range sizeClasses {
		if n <= c {
			return c
		}
	}
	return (n + 8191) / 8192 * 8192
}

// growCap: the capacity runtime.growslice gives (gc, amd64).
func growCap(oldCap, newLen, esize int64) int64 {
	newcap := oldCap
	doublecap := newcap + newcap
	if newLen > doublecap {
		newcap = newLen
	} else if oldCap < 256 {
		newcap = doublecap
	} else {
		for newcap < newLen {
			newcap += (newcap + 3*256) >> 2
		}
	}
	if esize <= 0 {
		return newcap
	}
	return roundupsize(newcap*esize) / esize
}

// lookupMethod: the function implementing the (exported, possibly promoted) method name of type t, nil if none.
func (c *Ctx) lookupMethod(t types.Type, name string) *ssa.Function {
	ms := c.Prog.MethodSets.MethodSet(t)
	for i := 0; i < ms.Len(); i++ {
		if sel := ms.At(i); sel.Obj().Name() == name {
			return c.Prog.MethodValue(sel)
		}
	}
	return nil
}

// ---- exploration of value-dependent branches ---------------------------------------------------------

type mPath struct {
	conds []string // rendered conditions with the direction taken: "cond=true"
	ret   mv
	out   mOutcome
}

// explore runs `run` once per combination of directions of the branches whose condition is symbolic
// (at most maxPaths runs); run must rebuild its inputs.
func (m *mach) explore(maxPaths int, run func() (mv, mOutcome)) []mPath {
	var paths []mPath
	work := [][]bool{nil}
	saved := m.decide
	defer func() { m.decide = saved }()
	for len(work) > 0 && len(paths) < maxPaths {
		forced := work[len(work)-1]
		work = work[:len(work)-1]
		var taken []bool
		var conds []string
		m.decide = func(mm *mach, cond mv, at ssa.Instruction) (bool, bool) {
			d := false
			if len(taken) < len(forced) {
				d = forced[len(taken)]
			} else {
				// a free choice: the other direction is explored later
				alt := append(append([]bool{}, taken...), true)
				work = append(work, alt)
			}
			taken = append(taken, d)
			conds = append(conds, fmt.Sprintf("%s=%v", mRender(cond), d))
			return d, true
		}
		m.steps = 0
		r, out := run()
		paths = append(paths, mPath{conds: conds, ret: r, out: out})
	}
	return paths
}

// renderShallow prints the object a pointer leads to, down to a small depth (object graphs may be cyclic).
func renderShallow(v mv, depth int) string {
	if depth == 0 {
		return "…"
	}
	switch t := v.(type) {
	case mStruct:
		var ps []string
		for _, x := range t {
			ps = append(ps, renderShallow(x, depth-1))
		}
		return "{" + strings.Join(ps, " ") + "}"
	case *mv:
		if t == nil {
			return "nil"
		}
		return "&" + renderShallow(*t, depth-1)
	case mSlice:
		var ps []string
		for i, x := range t.arr {
			if i == 4 {
				ps = append(ps, "…")
				break
			}
			ps = append(ps, renderShallow(x, depth-1))
		}
		return "[" + strings.Join(ps, " ") + "]"
	case mIface:
		return renderShallow(t.v, depth)
	case *mMap:
		return "map"
	case nil:
		return "<unset>"
	}
	return mRender(v)
}

// recentPath: the functions most recently entered by the machine, oldest first, consecutive repeats
// and accessors collapsed - the tail of the call path of the last run, printed with witnesses.
func (m *mach) recentPath() string {
	var names []string
	n := m.ringPos
	start := n - 32
	if start < 0 {
		start = 0
	}
	seen := map[string]bool{}
	for i := start; i < n; i++ {
		fn := m.ring[i&31]
		if fn == nil {
			continue
		}
		name := fn.Name()
		if r := fn.Signature.Recv(); r != nil {
			t := r.Type()
			if p, ok := t.(*types.Pointer); ok {
				t = p.Elem()
			}
			if nt, ok := t.(*types.Named); ok {
				name = nt.Obj().Name() + "." + name
			}
		}
		if seen[name] {
			// keep the latest position of a repeated function
			for k, x := range names {
				if x == name {
					names = append(names[:k], names[k+1:]...)
					break
				}
			}
		}
		seen[name] = true
		names = append(names, name)
	}
	if len(names) > 10 {
		names = names[len(names)-10:]
	}
	return strings.Join(names, " → ")
}

// mFingerprint renders everything reachable from v (pointers followed, cycles and sharing shown by
// numbering objects in order of first visit) as a hash: two fingerprints of one object taken before and
// after a call differ exactly if the call changed some reachable, visible memory cell (slice elements
// beyond the length are not visible).
var typeStrings sync.Map // types.Type -> its String() (printing a type is slow, fingerprints do it per interface value)

func typeStringCached(t types.Type) string {
	if s, ok := typeStrings.Load(t); ok {
		return s.(string)
	}
	s := t.String()
	typeStrings.Store(t, s)
	return s
}

func mFingerprint(v mv) string {
	h := fnv.New128a()
	seen := map[*mv]int{}
	seenMap := map[*mMap]int{}
	var walk func(v mv, depth int)
	w := func(s string) { h.Write([]byte(s)); h.Write([]byte{0}) }
	walk = func(v mv, depth int) {
		if depth > 200 {
			w("deep")
			return
		}
		switch t := v.(type) {
		case nil:
			w("unset")
		case bool, int64, float64:
			w(fmt.Sprintf("%T%v", t, t))
		case string:
			w("s" + t)
		case mNilT:
			w("nil")
		case *mSym:
			w("sym" + t.name)
		case mIface:
			if t.t != nil {
				w("i" + typeStringCached(t.t))
			}
			walk(t.v, depth+1)
		case mTuple:
			w(fmt.Sprintf("tuple%d", len(t)))
			for _, x := range t {
				walk(x, depth+1)
			}
		case mSlice:
			w(fmt.Sprintf("slice%d", len(t.arr)))
			for _, x := range t.arr {
				walk(x, depth+1)
			}
		case mStruct:
			w(fmt.Sprintf("struct%d", len(t)))
			for _, x := range t {
				walk(x, depth+1)
			}
		case mArray:
			w(fmt.Sprintf("array%d", len(t)))
			for _, x := range t {
				walk(x, depth+1)
			}
		case *mv:
			if t == nil {
				w("nilptr")
				return
			}
			if id, ok := seen[t]; ok {
				w(fmt.Sprintf("ref%d", id))
				return
			}
			seen[t] = len(seen)
			w("ptr")
			walk(*t, depth+1)
		case *mMap:
			if t == nil {
				w("nilmap")
				return
			}
			if id, ok := seenMap[t]; ok {
				w(fmt.Sprintf("mapref%d", id))
				return
			}
			seenMap[t] = len(seenMap)
			keys := append([]string{}, t.keys...)
			sort.Strings(keys)
			w(fmt.Sprintf("map%d", len(keys)))
			for _, k := range keys {
				w(k)
				walk(t.v[k], depth+1)
			}
		case *mBuilder:
			w("builder")
			for _, p := range t.parts {
				walk(p, depth+1)
			}
		case *mCat:
			w("cat")
			for _, p := range t.parts {
				walk(p, depth+1)
			}
		case *mClosure:
			w("closure" + t.fn.String())
			for _, e := range t.env {
				walk(e, depth+1)
			}
		case *ssa.Function:
			w("func" + t.String())
		default:
			w(fmt.Sprintf("%T", v))
		}
	}
	walk(v, 0)
	return fmt.Sprintf("%x/%d", h.Sum(nil), len(seen))
}

// mFieldFingerprints: the fingerprint of every field of the struct v points to (nil if v is no such pointer).
func mFieldFingerprints(v mv) []string {
	p, ok := v.(*mv)
	if !ok || p == nil {
		return nil
	}
	st, ok := (*p).(mStruct)
	if !ok {
		return nil
	}
	out := make([]string, len(st))
	for i, f := range st {
		out[i] = mFingerprint(f)
	}
	return out
}

// changedFields names the fields of struct type t whose fingerprints differ.
func changedFields(t types.Type, before, after []string) []string {
	if p, ok := t.Underlying().(*types.Pointer); ok {
		t = p.Elem()
	}
	st, _ := t.Underlying().(*types.Struct)
	var out []string
	for i := range before {
		if i < len(after) && before[i] != after[i] {
			name := fmt.Sprintf("#%d", i)
			if st != nil && i < st.NumFields() {
				name = st.Field(i).Name()
			}
			out = append(out, name)
		}
	}
	return out
}
