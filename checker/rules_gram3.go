package main

import (
	"fmt"
	"go/constant"
	"go/token"
	"go/types"
	"sort"
	"strings"

	"golang.org/x/tools/go/ssa"
)

// ---- error constructors ---------------------------------------------------------------------------

// isErrorCtor reports whether f builds an error value of the library (module constructors and the
// commons NewUnsupportedError used by the variant operations).
func (c *Ctx) isErrorCtor(f *types.Func) bool {
	if f == nil || f.Pkg() == nil {
		return false
	}
	switch f.Name() {
	case "NewSyntaxError", "NewExpressionError", "NewMustacheError":
		return c.relPkg(f.Pkg()) != ""
	}
	if strings.HasSuffix(f.Pkg().Path(), "pip-services3-commons-gox/errors") && strings.HasPrefix(f.Name(), "New") && strings.HasSuffix(f.Name(), "Error") {
		return true
	}
	return false
}

type ctorSite struct {
	fn   *ssa.Function
	call *ssa.Call
	ctor string
	code string // constant code argument, "" if not constant
	live bool   // value reaches a return/store/call argument
}

var ctorSitesMemo []*ctorSite

// errWrapper: a function of the module that does nothing with an error but build and return it - every
// path returns, as its error result, the fresh value of a library constructor (or of another such
// wrapper). Its call sites are construction sites like the constructors' own: a refactoring that routes
// every rejection through one helper keeps as many obligations as before, and a caller that builds an
// error through the helper and drops it is still seen.
type errWrapper struct {
	ctor      string // the library constructor the value comes from
	code      string // constant code, "" when the code is a parameter
	codeParam int    // index of the parameter (receiver not counted) that carries the code, -1 if constant
}

var errWrappersMemo map[*ssa.Function]*errWrapper

func isErrorLike(t types.Type) bool {
	if t == nil {
		return false
	}
	if types.Identical(t, types.Universe.Lookup("error").Type()) {
		return true
	}
	return types.Implements(t, types.Universe.Lookup("error").Type().Underlying().(*types.Interface))
}

// ssaCallee: the called function with an instantiated generic resolved to its origin.
func ssaCallee(cc *ssa.CallCommon) *ssa.Function {
	f := cc.StaticCallee()
	if f != nil && f.Origin() != nil {
		return f.Origin()
	}
	return f
}

// codeOfCall: the code a constructor or wrapper call is given - a constant, a parameter of the
// enclosing function (index, receiver not counted) or neither.
func (c *Ctx) codeOfCall(call *ssa.Call, w map[*ssa.Function]*errWrapper) (ctor, code string, param int, ok bool) {
	args := callArgs(call.Common())
	idx := -1
	if f := calleeObj(call.Common()); c.isErrorCtor(f) {
		ctor, idx = f.Name(), 1
	} else if ew := w[ssaCallee(call.Common())]; ew != nil {
		ctor = ew.ctor
		if ew.codeParam < 0 {
			return ctor, ew.code, -1, true
		}
		idx = ew.codeParam
	} else {
		return "", "", -1, false
	}
	if idx >= len(args) {
		return ctor, "<non-constant>", -1, true
	}
	if s, isConst := constString(args[idx]); isConst {
		return ctor, s, -1, true
	}
	if p, isParam := args[idx].(*ssa.Parameter); isParam {
		fn := call.Parent()
		off := 0
		if fn.Signature.Recv() != nil {
			off = 1
		}
		for i, q := range fn.Params {
			if q == p && i >= off {
				return ctor, "", i - off, true
			}
		}
	}
	return ctor, "<non-constant>", -1, true
}

func (c *Ctx) errorWrappers() map[*ssa.Function]*errWrapper {
	if errWrappersMemo != nil {
		return errWrappersMemo
	}
	w := map[*ssa.Function]*errWrapper{}
	for changed := true; changed; {
		changed = false
		for _, fn := range c.AllLibFuncs() {
			if w[fn] != nil || fn.Signature.Results().Len() != 1 || !isErrorLike(fn.Signature.Results().At(0).Type()) {
				continue
			}
			if o, ok := fn.Object().(*types.Func); ok && c.isErrorCtor(o) {
				continue
			}
			var found *errWrapper
			all := true
			for _, ret := range returnsOf(fn) {
				seen := map[ssa.Value]bool{}
				var roots func(v ssa.Value) bool
				roots = func(v ssa.Value) bool {
					if seen[v] {
						return true
					}
					seen[v] = true
					switch x := v.(type) {
					case *ssa.MakeInterface:
						return roots(x.X)
					case *ssa.ChangeInterface:
						return roots(x.X)
					case *ssa.ChangeType:
						return roots(x.X)
					case *ssa.Phi:
						for _, e := range x.Edges {
							if !roots(e) {
								return false
							}
						}
						return true
					case *ssa.Call:
						ctor, code, param, ok := c.codeOfCall(x, w)
						if !ok || code == "<non-constant>" {
							return false
						}
						ew := &errWrapper{ctor: ctor, code: code, codeParam: param}
						if found != nil && (found.ctor != ew.ctor || found.codeParam != ew.codeParam || found.codeParam < 0 && found.code != ew.code) {
							return false
						}
						found = ew
						return true
					}
					return false
				}
				if len(ret.Results) != 1 || !roots(ret.Results[0]) {
					all = false
					break
				}
			}
			if all && found != nil {
				w[fn] = found
				changed = true
			}
		}
	}
	errWrappersMemo = w
	return w
}

func (c *Ctx) errorCtorSites() []*ctorSite {
	if ctorSitesMemo != nil {
		return ctorSitesMemo
	}
	wrappers := c.errorWrappers()
	var out []*ctorSite
	for _, fn := range c.AllLibFuncs() {
		for _, ci := range allCalls(fn) {
			call, ok := ci.(*ssa.Call)
			if !ok {
				continue
			}
			ctor, code, param, ok := c.codeOfCall(call, wrappers)
			if !ok {
				continue
			}
			s := &ctorSite{fn: fn, call: call, ctor: ctor, code: code}
			if param >= 0 {
				// inside a wrapper: the code is whatever the wrapper's callers pass (their sites carry it)
				if wrappers[fn] != nil {
					s.code = "<parameter>"
				} else {
					s.code = "<non-constant>"
				}
			}
			s.live = valueEscapes(call)
			out = append(out, s)
		}
	}
	ctorSitesMemo = out
	return out
}

// valueEscapes: v (or a conversion / phi of it) is returned, stored, or passed to a call.
func valueEscapes(v ssa.Value) bool {
	seen := map[ssa.Value]bool{}
	var walk func(x ssa.Value) bool
	walk = func(x ssa.Value) bool {
		if seen[x] {
			return false
		}
		seen[x] = true
		refs := x.Referrers()
		if refs == nil {
			return false
		}
		for _, r := range *refs {
			switch y := r.(type) {
			case *ssa.Return:
				return true
			case *ssa.Store:
				if y.Val == x {
					return true
				}
			case ssa.CallInstruction:
				return true
			case *ssa.MakeInterface:
				if walk(y) {
					return true
				}
			case *ssa.ChangeInterface:
				if walk(y) {
					return true
				}
			case *ssa.ChangeType:
				if walk(y) {
					return true
				}
			case *ssa.Phi:
				if walk(y) {
					return true
				}
			case *ssa.MakeClosure, *ssa.MapUpdate, *ssa.Send:
				return true
			}
		}
		return false
	}
	return walk(v)
}

func init() {
	register(&Rule{ID: "GRAM.deaderr", Floor: 60,
		Doc: "every error value constructed by NewSyntaxError / NewExpressionError / NewMustacheError / NewUnsupportedError flows to a return (or is stored / passed on); an error that is built and dropped silently accepts the input",
		Run: ruleGramDeadErr})
	register(&Rule{ID: "GRAM.errcode", Floor: 60,
		Doc: "the code argument of every error constructor is a non-empty string constant",
		Run: ruleGramErrCode})
	register(&Rule{ID: "GRAM.allmatch", Floor: 1,
		Doc: "in the multi-token matcher a mismatching element forces the result false: after a mismatch no further iteration can overwrite the verdict",
		Run: ruleGramAllMatch})
	register(&Rule{ID: "GRAM.leftover", Floor: 1,
		Doc: "performParsing returns success only on the path where, after the top-level analysis, hasMoreTokens() is false (or there were no tokens at all)",
		Run: ruleGramLeftover})
	register(&Rule{ID: "GRAM.errprop", Floor: 30,
		Doc: "the error result of every parser stage (level functions, lexical pass, end-of-input check, section parser) is tested and returned before anything else happens",
		Run: ruleGramErrProp})
	register(&Rule{ID: "GRAM.consume", Floor: 14,
		Doc: "cursor typestate: every moveToNextToken() happens after the current token's type was tested on every path since the previous cursor movement — no token is skipped unseen (a dropped ')' / ']' / '(' / ',' test, or a consumed-then-abandoned keyword)",
		Run: ruleGramConsume})
	register(&Rule{ID: "GRAM.unknown", Floor: 1,
		Doc: "lexical classification: a token is appended to the initial token list only on the path where its classified type is not Unknown; the Unknown path returns an error",
		Run: ruleGramUnknown})
	register(&Rule{ID: "GRAM.rejects", Floor: 7,
		Doc: "each rejection the expression grammar needs (UNEXPECTED_END, ERROR_NEAR, ERROR_AT, UNKNOWN_SYMBOL, MISSED_CLOSE_PARENTHESIS after groups and after calls, MISSED_CLOSE_SQUARE_BRACKET) is still constructed, returned and guarded by a test of the cursor or the current token",
		Run: ruleGramRejects})
}

func (c *Ctx) ctorKey(s *ctorSite, n int) string {
	return fmt.Sprintf("%s#%s(%s)#%d", c.FuncKey(s.fn), s.ctor, s.code, n)
}

func ruleGramDeadErr(c *Ctx) []*Obligation {
	o := newObl("GRAM.deaderr")
	cnt := map[string]int{}
	for _, s := range c.errorCtorSites() {
		base := c.FuncKey(s.fn) + "#" + s.ctor + "(" + s.code + ")"
		cnt[base]++
		key := c.ctorKey(s, cnt[base])
		if s.live {
			o.ok(key, c.Pos(s.call.Pos()), "constructed error reaches a return / store / call")
		} else {
			o.bad(key, c.Pos(s.call.Pos()), "error "+s.code+" is constructed but the value is never returned, stored or passed on: the condition it reports is silently ignored")
		}
	}
	return o.list
}

func ruleGramErrCode(c *Ctx) []*Obligation {
	o := newObl("GRAM.errcode")
	cnt := map[string]int{}
	for _, s := range c.errorCtorSites() {
		base := c.FuncKey(s.fn) + "#" + s.ctor + "(" + s.code + ")"
		cnt[base]++
		key := c.ctorKey(s, cnt[base])
		if s.code == "<parameter>" {
			o.triv(key, c.Pos(s.call.Pos()), "code is the wrapper's parameter: checked at the wrapper's call sites")
		} else if s.code == "" || s.code == "<non-constant>" {
			o.bad(key, c.Pos(s.call.Pos()), "error constructed with an empty or non-constant code: callers cannot tell what was rejected")
		} else {
			o.triv(key, c.Pos(s.call.Pos()), "code "+s.code)
		}
	}
	return o.list
}

// ---- GRAM.allmatch ----------------------------------------------------------------------------------

func ruleGramAllMatch(c *Ctx) []*Obligation {
	o := newObl("GRAM.allmatch")
	fn := c.MustFunc(pkgParsers, "ExpressionParser", "matchTokensWithTypes")
	key := c.FuncKey(fn) + "#mismatch-forces-false"
	// the multi-token matcher evaluated abstractly: a pattern of 1..3 token types against 0..3 remaining
	// tokens, each matching or not: the result is true exactly when the whole pattern is there and every
	// element matches, and the cursor advances by the pattern length exactly then
	bad, undec, runs := "", "", 0
	for n := 1; n <= 3 && bad == ""; n++ {
		for r := 0; r <= 3 && bad == ""; r++ {
			for bits := 0; bits < 1<<r && bad == ""; bits++ {
				runs++
				ai := &absInterp{c: c, fn: fn, env: map[ssa.Value]aiVal{}, fields: map[string]aiVal{}}
				pat := aiVal{kind: "list"}
				for i := 0; i < n; i++ {
					pat.tup = append(pat.tup, aiInt(int64(100+i)))
				}
				toks := aiVal{kind: "list"}
				for i := 0; i < r; i++ {
					toks.tup = append(toks.tup, aiSym(fmt.Sprintf("tok%d", i)))
				}
				if len(fn.Params) < 2 {
					o.undecided(key, c.Pos(fn.Pos()), "unexpected signature")
					return o.list
				}
				ai.env[fn.Params[1]] = pat
				ai.fields["initialTokens"] = toks
				ai.fields["currentTokenIndex"] = aiInt(0)
				ai.inline = func(g *ssa.Function) bool { return recvNamedFn(g) == "ExpressionParser" }
				ai.call = func(ai *absInterp, call *ssa.Call) (aiVal, bool) {
					f := calleeObj(call.Common())
					if f != nil && recvNamed(f) == "ExpressionToken" && f.Name() == "Type" {
						var i int
						if v := ai.get(call.Common().Args[0]); v.kind == "sym" {
							if _, err := fmt.Sscanf(v.s, "tok%d", &i); err == nil {
								if bits&(1<<i) != 0 && i < n {
									return aiInt(int64(100 + i)), true // matches its pattern element
								}
								return aiInt(int64(900 + i)), true
							}
						}
					}
					return aiVal{}, false
				}
				out := ai.run(fn.Blocks[0], nil, 0)
				desc := func() string {
					var ms []string
					for i := 0; i < r; i++ {
						ms = append(ms, fmt.Sprint(bits&(1<<i) != 0 && i < n))
					}
					return fmt.Sprintf("pattern of %d type(s), %d token(s) left, element matches [%s]", n, r, strings.Join(ms, " "))
				}
				if out.kind == "panic" {
					bad = "the matcher indexes past the last token (" + out.why + ") with " + desc()
					continue
				}
				if out.kind != "return" || len(out.ret) != 1 || out.ret[0].kind != "bool" {
					undec = "matchTokensWithTypes: " + out.why
					continue
				}
				want := r >= n
				for i := 0; i < n && want; i++ {
					if bits&(1<<i) == 0 {
						want = false
					}
				}
				cur := ai.fields["currentTokenIndex"]
				wantCur := int64(0)
				if want {
					wantCur = int64(n)
				}
				switch {
				case out.ret[0].b != want:
					bad = fmt.Sprintf("the matcher answers %v for a %s: a token sequence that is not the operator (a mismatching or missing element) is accepted as it, or the operator is not recognised", out.ret[0].b, desc())
				case cur.kind != "int" || cur.n != wantCur:
					bad = fmt.Sprintf("the matcher leaves the cursor at %s instead of %d for a %s", aiRender(cur), wantCur, desc())
				}
			}
		}
	}
	switch {
	case bad != "":
		o.bad(key, c.Pos(fn.Pos()), bad)
	case undec != "":
		o.undecided(key, c.Pos(fn.Pos()), undec)
	default:
		o.ok(key, c.Pos(fn.Pos()), fmt.Sprintf("%d abstract runs: true exactly for a complete, fully matching pattern, and the cursor advances exactly then", runs))
	}
	return o.list
}

func ruleGramLeftover(c *Ctx) []*Obligation {
	o := newObl("GRAM.leftover")
	for _, spec := range []struct{ pkg, typ, top string }{
		{pkgParsers, "ExpressionParser", "performSyntaxAnalysis"},
		{"mustache/parsers", "MustacheParser", "performSyntaxAnalysis"},
	} {
		fn := c.MustFunc(spec.pkg, spec.typ, "performParsing")
		top := c.MustFunc(spec.pkg, spec.typ, spec.top)
		var topCall ssa.Instruction
		for _, ci := range allCalls(fn) {
			if ci.Common().StaticCallee() == top {
				topCall = ci
			}
		}
		key := c.FuncKey(fn) + "#success-return"
		if topCall == nil {
			o.bad(key, c.Pos(fn.Pos()), "performParsing no longer runs the top-level analysis")
			continue
		}
		bad := ""
		n := 0
		for _, ret := range returnsOf(fn) {
			// success returns: every incoming path to a `return nil` (nil may come through a phi)
			for _, path := range successPaths(ret) {
				n++
				if !topCall.Block().Dominates(path) && topCall.Block() != path {
					// path that skips the analysis: must be the "no tokens at all" path: guarded by len(originalTokens) > 0 false
					if !hasLenZeroGuard(path, ret.Block()) {
						bad = "a success return is reachable without running the top-level analysis and without the empty-input guard"
					}
					continue
				}
				okEdge := false
				for _, g := range guardsOnEdge(path, ret.Block()) {
					v, truth := g.atom()
					if call, isCall := v.(*ssa.Call); isCall && !truth {
						if f := call.Call.StaticCallee(); f != nil && f.Name() == "hasMoreTokens" && instrDominates(topCall, call) {
							okEdge = true
						}
					}
				}
				if !okEdge {
					bad = "success is returned after the top-level analysis without requiring hasMoreTokens() == false on the current cursor: trailing tokens would be ignored"
				}
			}
		}
		if n == 0 {
			bad = "no success return found"
		}
		if bad != "" {
			o.bad(key, c.Pos(fn.Pos()), bad)
		} else {
			o.ok(key, c.Pos(fn.Pos()), fmt.Sprintf("%d success edge(s): each is either the empty-input path or passes hasMoreTokens()==false after %s", n, spec.top))
		}
	}
	return o.list
}

// successPaths returns, for a Return whose error operand can be nil, the predecessor blocks (or the
// return block itself) through which the nil value arrives.
func successPaths(ret *ssa.Return) []*ssa.BasicBlock {
	if len(ret.Results) == 0 {
		return nil
	}
	v := ret.Results[len(ret.Results)-1]
	if isNilConst(v) {
		// return nil: one path per predecessor (or the block itself if it has none)
		if len(ret.Block().Preds) == 0 {
			return []*ssa.BasicBlock{ret.Block()}
		}
		return append([]*ssa.BasicBlock{}, ret.Block().Preds...)
	}
	if phi, ok := v.(*ssa.Phi); ok && phi.Block() == ret.Block() {
		var out []*ssa.BasicBlock
		for i, e := range phi.Edges {
			if isNilConst(e) {
				out = append(out, ret.Block().Preds[i])
			}
		}
		return out
	}
	return nil
}

// guardsOnEdge: conditions known when control flows from pred into succ.
func guardsOnEdge(pred, succ *ssa.BasicBlock) []guard {
	gs := guardsAt(pred)
	if pred == succ {
		return gs
	}
	if ifi, ok := pred.Instrs[len(pred.Instrs)-1].(*ssa.If); ok {
		if pred.Succs[0] == succ && pred.Succs[1] != succ {
			gs = append(gs, guard{Cond: ifi.Cond, Truth: true, If: ifi})
		} else if pred.Succs[1] == succ && pred.Succs[0] != succ {
			gs = append(gs, guard{Cond: ifi.Cond, Truth: false, If: ifi})
		}
	}
	return gs
}

func hasLenZeroGuard(pred, succ *ssa.BasicBlock) bool {
	for _, g := range guardsOnEdge(pred, succ) {
		v, truth := g.atom()
		bo, ok := v.(*ssa.BinOp)
		if !ok {
			continue
		}
		call, isCall := bo.X.(*ssa.Call)
		if !isCall {
			continue
		}
		if bi, ok := call.Call.Value.(*ssa.Builtin); !ok || bi.Name() != "len" {
			continue
		}
		k, isK := constInt(bo.Y)
		if !isK || k != 0 {
			continue
		}
		if (bo.Op == token.GTR && !truth) || (bo.Op == token.EQL && truth) || (bo.Op == token.LEQ && truth) || (bo.Op == token.NEQ && !truth) {
			return true
		}
	}
	return false
}

// ---- GRAM.errprop -----------------------------------------------------------------------------------

func (c *Ctx) parserStageFuncs() map[*ssa.Function]bool {
	out := map[*ssa.Function]bool{}
	for _, spec := range []struct{ pkg, typ string }{{pkgParsers, "ExpressionParser"}, {"mustache/parsers", "MustacheParser"}} {
		for _, f := range c.methodsOfType(spec.pkg, spec.typ) {
			res := f.Signature.Results()
			if res.Len() == 0 || res.At(res.Len()-1).Type().String() != "error" {
				continue
			}
			if f.Object() != nil && f.Object().Exported() {
				continue // public API entry points are callers' business
			}
			out[f] = true
		}
	}
	return out
}

func ruleGramErrProp(c *Ctx) []*Obligation {
	o := newObl("GRAM.errprop")
	stages := c.parserStageFuncs()
	var fns []*ssa.Function
	for _, spec := range []struct{ pkg, typ string }{{pkgParsers, "ExpressionParser"}, {"mustache/parsers", "MustacheParser"}} {
		fns = append(fns, c.methodsOfType(spec.pkg, spec.typ)...)
	}
	for _, fn := range fns {
		cnt := map[string]int{}
		for _, ci := range allCalls(fn) {
			call, ok := ci.(*ssa.Call)
			if !ok {
				continue
			}
			g := call.Call.StaticCallee()
			if g == nil || !stages[g] {
				continue
			}
			cnt[g.Name()]++
			key := fmt.Sprintf("%s#call#%s#%d", c.FuncKey(fn), g.Name(), cnt[g.Name()])
			var errVal ssa.Value = call
			if g.Signature.Results().Len() > 1 {
				errVal = nil
				for _, r := range *call.Referrers() {
					if ex, ok := r.(*ssa.Extract); ok && ex.Index == g.Signature.Results().Len()-1 {
						errVal = ex
					}
				}
			}
			if errVal == nil {
				o.bad(key, c.Pos(call.Pos()), "the error result of "+g.Name()+" is discarded")
				continue
			}
			okProp, why := errTestedAndReturned(call, errVal)
			if okProp {
				o.ok(key, c.Pos(call.Pos()), why)
			} else {
				o.bad(key, c.Pos(call.Pos()), "error of "+g.Name()+": "+why)
			}
		}
	}
	return o.list
}

// errTestedAndReturned: errVal is returned directly, or the call's block ends in `if errVal != nil`
// whose true successor returns errVal, with no other call between the stage call and the test.
func errTestedAndReturned(call *ssa.Call, errVal ssa.Value) (bool, string) {
	for _, r := range *errVal.Referrers() {
		if ret, ok := r.(*ssa.Return); ok && ret.Block() == call.Block() {
			return true, "returned directly"
		}
	}
	b := call.Block()
	ifi, ok := b.Instrs[len(b.Instrs)-1].(*ssa.If)
	if !ok {
		return false, "not tested in the block of the call"
	}
	bo, ok := ifi.Cond.(*ssa.BinOp)
	if !ok || bo.X != errVal || !isNilConst(bo.Y) || (bo.Op != token.NEQ && bo.Op != token.EQL) {
		return false, "the block of the call does not end in a nil test of this error"
	}
	errSucc := b.Succs[0]
	if bo.Op == token.EQL {
		errSucc = b.Succs[1]
	}
	// nothing with side effects between the call and the test
	after := false
	for _, in := range b.Instrs {
		if in == ssa.Instruction(call) {
			after = true
			continue
		}
		if after {
			if _, isCall := in.(ssa.CallInstruction); isCall {
				return false, "another call happens before the error is tested"
			}
		}
	}
	ret, ok := errSucc.Instrs[len(errSucc.Instrs)-1].(*ssa.Return)
	if !ok {
		return false, "the error branch does not return"
	}
	for _, rv := range ret.Results {
		if rv == errVal {
			return true, "tested immediately and returned on the error edge"
		}
	}
	return false, "the error branch returns something else than this error"
}

// ---- GRAM.consume (cursor typestate) ---------------------------------------------------------------

func ruleGramConsume(c *Ctx) []*Obligation {
	o := newObl("GRAM.consume")
	m := c.buildParserModel()
	move := c.MustFunc(pkgParsers, "ExpressionParser", "moveToNextToken")
	matcher := c.MustFunc(pkgParsers, "ExpressionParser", "matchTokensWithTypes")
	cur := c.MustFunc(pkgParsers, "ExpressionParser", "getCurrentToken")
	isLevel := map[*ssa.Function]bool{}
	for _, f := range m.levels {
		isLevel[f] = true
	}
	isMoveLike := func(in ssa.Instruction) bool {
		ci, ok := in.(ssa.CallInstruction)
		if !ok {
			return false
		}
		g := ci.Common().StaticCallee()
		return g != nil && (g == move || g == matcher || isLevel[g])
	}
	for _, fn := range m.levels {
		// forward must-analysis of "the current token's type is known to equal a tested constant".
		// Edge-sensitive: only the edge on which a type test MATCHED establishes the fact; the other edge
		// keeps the state it had before the test.
		in := map[*ssa.BasicBlock]bool{}
		pre := map[*ssa.BasicBlock]bool{} // state at the end of the block, before its terminating If
		for _, b := range fn.Blocks {
			in[b], pre[b] = true, true
		}
		// typeTest returns (isTest, matchedSuccessorIndex)
		typeTest := func(b *ssa.BasicBlock) (bool, int) {
			ifi, ok := b.Instrs[len(b.Instrs)-1].(*ssa.If)
			if !ok {
				return false, 0
			}
			recv, _, op, ok := c.typeTestConst(ifi.Cond, pkgParsers, "ExpressionToken")
			if !ok {
				return false, 0
			}
			match := 0
			if op == token.NEQ {
				match = 1
			}
			// receiver must derive from getCurrentToken() calls not followed by a cursor movement before this test
			for _, leaf := range phiLeaves(recv) {
				lc, isCall := leaf.(*ssa.Call)
				if !isCall {
					continue
				}
				if g := lc.Call.StaticCallee(); g == cur {
					stale := false
					for _, x := range allCalls(fn) {
						if isMoveLike(x) && instrDominates(lc, x) && instrDominates(x, ifi) {
							stale = true
						}
					}
					if !stale {
						return true, match
					}
				}
				if cc, isN := c.callTo(lc, pkgParsers, "", "NewExpressionToken"); isN && cc != nil {
					return true, match // reclassified copy of the current token
				}
			}
			return false, 0
		}
		edgeOut := func(p, b *ssa.BasicBlock) bool {
			if isT, match := typeTest(p); isT && p.Succs[match] == b && p.Succs[1-match] != b {
				return true
			}
			return pre[p]
		}
		transfer := func(b *ssa.BasicBlock, st bool) bool {
			for _, ins := range b.Instrs {
				if isMoveLike(ins) {
					st = false
				}
			}
			return st
		}
		changed := true
		for changed {
			changed = false
			for _, b := range fn.Blocks {
				st := len(b.Preds) > 0
				for _, p := range b.Preds {
					st = st && edgeOut(p, b)
				}
				if b == fn.Blocks[0] {
					st = false
				}
				ns := transfer(b, st)
				if st != in[b] || ns != pre[b] {
					in[b], pre[b] = st, ns
					changed = true
				}
			}
		}
		n := 0
		for _, b := range fn.Blocks {
			st := in[b]
			for _, ins := range b.Instrs {
				if ci, ok := ins.(ssa.CallInstruction); ok && ci.Common().StaticCallee() == move {
					n++
					key := fmt.Sprintf("%s#move#%d", c.FuncKey(fn), n)
					if st {
						o.ok(key, c.Pos(ins.Pos()), "on every path the consumed token's type is known to equal a tested constant (matched edge of a type test since the last cursor movement)")
					} else {
						o.bad(key, c.Pos(ins.Pos()), "a token is consumed on a path where its type was not matched against an expected constant since the previous cursor movement: some token (a wrong closer, a stray word) is silently skipped")
					}
				}
				if isMoveLike(ins) {
					st = false
				}
			}
		}
	}
	return o.list
}

// ---- GRAM.unknown -----------------------------------------------------------------------------------

// globalLiteral: the value of a never-reassigned package-level slice variable initialised with a
// composite literal of constants, as an abstract list.
func (c *Ctx) globalLiteral(g *ssa.Global) (aiVal, bool) {
	if g.Pkg == nil || c.relPkg(g.Pkg.Pkg) == "" || !c.globalNeverStored(g) {
		return aiVal{}, false
	}
	elts, info, _ := c.packageVarLiteral(c.relPkg(g.Pkg.Pkg), g.Name())
	if elts == nil || info == nil {
		return aiVal{}, false
	}
	lst := aiVal{kind: "list"}
	for _, e := range elts {
		tv, ok := info.Types[e]
		if !ok || tv.Value == nil {
			return aiVal{}, false
		}
		switch tv.Value.Kind() {
		case constant.String:
			lst.tup = append(lst.tup, aiStr(constant.StringVal(tv.Value)))
		case constant.Int:
			n, _ := constant.Int64Val(tv.Value)
			lst.tup = append(lst.tup, aiInt(n))
		default:
			return aiVal{}, false
		}
	}
	return lst, true
}

func ruleGramUnknown(c *Ctx) []*Obligation {
	o := newObl("GRAM.unknown")
	fn := c.MustFunc(pkgParsers, "ExpressionParser", "completeLexicalAnalysis")
	key := c.FuncKey(fn) + "#append-only-classified"
	tt := map[string]int64{}
	for _, n := range []string{"Unknown", "Comment", "Whitespace", "Word", "Keyword", "Symbol", "Integer", "Float", "Quoted"} {
		v, ok := c.constByName("tokenizers", n)
		if !ok {
			panic(anchorError("token type " + n + " not found"))
		}
		tt[n] = v
	}
	et := func(n string) int64 {
		v, ok := c.constByName(pkgParsers, n)
		if !ok {
			panic(anchorError("expression token type " + n + " not found"))
		}
		return v
	}
	// the lexical pass evaluated abstractly for a single input token of each kind: what is appended to
	// the token list, or which error is returned
	run := func(typ int64, text aiVal) (appended []int64, errCode string, opaque string) {
		ai := &absInterp{c: c, fn: fn, env: map[ssa.Value]aiVal{}, fields: map[string]aiVal{}}
		ai.fields["originalTokens"] = aiVal{kind: "list", tup: []aiVal{aiSym("tok0")}}
		ai.fields["initialTokens"] = aiVal{kind: "list"}
		ai.inline = func(g *ssa.Function) bool {
			return (recvNamedFn(g) == "ExpressionParser" || (g.Signature.Recv() == nil && c.relPkg(g.Pkg.Pkg) == pkgParsers)) && g.Name() != "NewExpressionToken"
		}
		ai.cmp = func(a, b aiVal) (bool, bool) {
			if (a.kind == "sym" && b.kind == "str") || (a.kind == "str" && b.kind == "sym") {
				return false, true // some text that is none of the constants
			}
			return false, false
		}
		ai.load = func(ai *absInterp, addr ssa.Value) (aiVal, bool) {
			if g, ok := addr.(*ssa.Global); ok {
				return c.globalLiteral(g)
			}
			return aiVal{}, false
		}
		ai.call = func(ai *absInterp, call *ssa.Call) (aiVal, bool) {
			cc := call.Common()
			f := calleeObj(cc)
			if f == nil {
				return aiVal{}, false
			}
			switch {
			case recvNamed(f) == "Token" && c.relPkg(f.Pkg()) == "tokenizers":
				switch f.Name() {
				case "Type":
					return aiInt(typ), true
				case "Value":
					return text, true
				}
				return aiSym("pos"), true
			case f.Pkg() != nil && f.Pkg().Path() == "strings" && f.Name() == "ToUpper":
				a := ai.get(cc.Args[0])
				if a.kind == "str" {
					return aiStr(strings.ToUpper(a.s)), true
				}
				return a, true
			case f.Name() == "NewExpressionToken":
				if t := ai.get(cc.Args[0]); t.kind == "int" {
					return aiVal{kind: "sym", s: "exprtoken", n: t.n}, true
				}
				return aiSym("exprtoken-of-unknown-type"), true
			case c.isErrorCtor(f):
				code := "?"
				if sv := ai.get(cc.Args[1]); sv.kind == "str" {
					code = sv.s
				}
				return aiSym("err:" + code), true
			}
			return aiVal{}, false
		}
		out := ai.run(fn.Blocks[0], nil, 0)
		if out.kind != "return" || len(out.ret) != 1 {
			return nil, "", "completeLexicalAnalysis: " + out.why
		}
		if r := out.ret[0]; r.kind == "sym" && strings.HasPrefix(r.s, "err:") {
			return nil, strings.TrimPrefix(r.s, "err:"), ""
		} else if r.kind != "nil" {
			return nil, "", "the returned error is outside the model"
		}
		l := ai.fields["initialTokens"]
		if l.kind != "list" {
			return nil, "", "the token list is not kept as a list the model can follow"
		}
		for _, v := range l.tup {
			if v.s != "exprtoken" {
				return nil, "", "a token of undetermined type is appended"
			}
			appended = append(appended, v.n)
		}
		return appended, "", ""
	}
	type cs struct {
		name    string
		typ     int64
		text    aiVal
		wantErr string
		want    []int64
		what    string
	}
	cases := []cs{
		{"a character the tokenizer could not classify", tt["Unknown"], aiSym("text"), "UNKNOWN_SYMBOL", nil, "is not rejected with UNKNOWN_SYMBOL (it is dropped or passed on)"},
		{"a comment", tt["Comment"], aiSym("text"), "", nil, "is not skipped"},
		{"white space", tt["Whitespace"], aiSym("text"), "", nil, "is not skipped"},
		{"a word", tt["Word"], aiSym("text"), "", []int64{et("Variable")}, "does not become a Variable token"},
		{"a symbol that is no operator", tt["Symbol"], aiSym("text"), "UNKNOWN_SYMBOL", nil, "is not rejected with UNKNOWN_SYMBOL"},
		{"the symbol +", tt["Symbol"], aiStr("+"), "", []int64{et("Plus")}, "does not become a Plus token"},
		{"the keyword true", tt["Keyword"], aiStr("true"), "", []int64{et("Constant")}, "does not become a Constant token"},
		{"the keyword and", tt["Keyword"], aiStr("and"), "", []int64{et("And")}, "does not become an And token"},
		{"an integer literal", tt["Integer"], aiSym("text"), "", []int64{et("Constant")}, "does not become a Constant token"},
		{"a quoted string", tt["Quoted"], aiSym("text"), "", []int64{et("Constant")}, "does not become a Constant token"},
	}
	bad, undec := "", ""
	for _, k := range cases {
		got, errCode, opaque := run(k.typ, k.text)
		switch {
		case opaque != "":
			undec = opaque
		case errCode != k.wantErr || fmt.Sprint(got) != fmt.Sprint(k.want):
			if bad == "" {
				res := fmt.Sprintf("appends token type(s) %v", got)
				if errCode != "" {
					res = "returns " + errCode
				}
				bad = fmt.Sprintf("%s %s (the lexical pass %s)", k.name, k.what, res)
			}
		}
	}
	switch {
	case bad != "":
		o.bad(key, c.Pos(fn.Pos()), bad)
	case undec != "":
		o.undecided(key, c.Pos(fn.Pos()), undec)
	default:
		o.ok(key, c.Pos(fn.Pos()), fmt.Sprintf("%d abstract runs: unclassifiable input is rejected, comments and white space are skipped, everything else is classified", len(cases)))
	}
	return o.list
}

// ---- GRAM.rejects -----------------------------------------------------------------------------------

func ruleGramRejects(c *Ctx) []*Obligation {
	o := newObl("GRAM.rejects")
	m := c.buildParserModel()
	type need struct {
		code  string
		where string // function name, "" = any ExpressionParser method
		min   int
	}
	needs := []need{
		{"UNEXPECTED_END", "checkForMoreTokens", 1},
		{"ERROR_NEAR", "performParsing", 1},
		{"UNKNOWN_SYMBOL", "completeLexicalAnalysis", 1},
	}
	if len(m.levels) == 7 {
		l6 := m.levels[6].Name()
		needs = append(needs, need{"ERROR_AT", l6, 1}, need{"MISSED_CLOSE_PARENTHESIS", l6, 2}, need{"MISSED_CLOSE_SQUARE_BRACKET", l6, 1})
	}
	sites := c.errorCtorSites()
	for _, nd := range needs {
		key := "parsers.ExpressionParser#rejects#" + nd.code
		var live []*ctorSite
		for _, s := range sites {
			if s.code != nd.code || !s.live {
				continue
			}
			if !strings.HasSuffix(c.FuncKey(s.fn), "(*ExpressionParser)."+nd.where) {
				continue
			}
			// must be guarded by some branch (not unconditional) and end in a return of that error
			if len(guardsAt(s.call.Block())) == 0 {
				continue
			}
			live = append(live, s)
		}
		if len(live) >= nd.min {
			var ps []string
			for _, s := range live {
				ps = append(ps, c.Pos(s.call.Pos()))
			}
			sort.Strings(ps)
			o.ok(key, ps[0], fmt.Sprintf("%d guarded, returned construction site(s) in %s", len(live), nd.where))
		} else {
			o.bad(key, "-", fmt.Sprintf("rejection %s has %d guarded+returned site(s) in %s, the grammar needs %d: some malformed input is no longer rejected with this code", nd.code, len(live), nd.where, nd.min))
		}
	}
	// the End-of-input check runs first in every level function
	check := c.MustFunc(pkgParsers, "ExpressionParser", "checkForMoreTokens")
	for i, f := range m.levels {
		key := fmt.Sprintf("%s#level%d#starts-with-end-check", c.FuncKey(f), i)
		first := allCalls(f)
		if len(first) > 0 && first[0].Common().StaticCallee() == check {
			o.ok(key, c.Pos(f.Pos()), "first action is checkForMoreTokens()")
		} else {
			o.bad(key, c.Pos(f.Pos()), "level function does not start with the end-of-input check: an expression ending here dereferences a missing token or is accepted")
		}
	}
	return o.list
}
