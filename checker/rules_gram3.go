package main

import (
	"fmt"
	"go/token"
	"go/types"
	"sort"
	"strings"

	"golang.org/x/tools/go/ssa"
)

// ---- error constructors ---------------------------------------------------------------------------

// isErrorCtor reports whether f builds an error value of the library (module constructors and the
// commons NewUnsupportedError used by the variant operations).
func (c *Ctx) isErrorCtor(f *types.Func) bool {
	if f == nil || f.Pkg() == nil {
		return false
	}
	switch f.Name() {
	case "NewSyntaxError", "NewExpressionError", "NewMustacheError":
		return c.relPkg(f.Pkg()) != ""
	}
	if strings.HasSuffix(f.Pkg().Path(), "pip-services3-commons-gox/errors") && strings.HasPrefix(f.Name(), "New") && strings.HasSuffix(f.Name(), "Error") {
		return true
	}
	return false
}

type ctorSite struct {
	fn   *ssa.Function
	call *ssa.Call
	ctor string
	code string // constant code argument, "" if not constant
	live bool   // value reaches a return/store/call argument
}

var ctorSitesMemo []*ctorSite

func (c *Ctx) errorCtorSites() []*ctorSite {
	if ctorSitesMemo != nil {
		return ctorSitesMemo
	}
	var out []*ctorSite
	for _, fn := range c.AllLibFuncs() {
		for _, ci := range allCalls(fn) {
			call, ok := ci.(*ssa.Call)
			if !ok {
				continue
			}
			f := calleeObj(call.Common())
			if !c.isErrorCtor(f) {
				continue
			}
			s := &ctorSite{fn: fn, call: call, ctor: f.Name()}
			args := callArgs(call.Common())
			if len(args) >= 2 {
				if code, ok := constString(args[1]); ok {
					s.code = code
				} else {
					s.code = "<non-constant>"
				}
			}
			s.live = valueEscapes(call)
			out = append(out, s)
		}
	}
	ctorSitesMemo = out
	return out
}

// valueEscapes: v (or a conversion / phi of it) is returned, stored, or passed to a call.
func valueEscapes(v ssa.Value) bool {
	seen := map[ssa.Value]bool{}
	var walk func(x ssa.Value) bool
	walk = func(x ssa.Value) bool {
		if seen[x] {
			return false
		}
		seen[x] = true
		refs := x.Referrers()
		if refs == nil {
			return false
		}
		for _, r := range *refs {
			switch y := r.(type) {
			case *ssa.Return:
				return true
			case *ssa.Store:
				if y.Val == x {
					return true
				}
			case ssa.CallInstruction:
				return true
			case *ssa.MakeInterface:
				if walk(y) {
					return true
				}
			case *ssa.ChangeInterface:
				if walk(y) {
					return true
				}
			case *ssa.ChangeType:
				if walk(y) {
					return true
				}
			case *ssa.Phi:
				if walk(y) {
					return true
				}
			case *ssa.MakeClosure, *ssa.MapUpdate, *ssa.Send:
				return true
			}
		}
		return false
	}
	return walk(v)
}

func init() {
	register(&Rule{ID: "GRAM.deaderr", Floor: 60,
		Doc: "every error value constructed by NewSyntaxError / NewExpressionError / NewMustacheError / NewUnsupportedError flows to a return (or is stored / passed on); an error that is built and dropped silently accepts the input",
		Run: ruleGramDeadErr})
	register(&Rule{ID: "GRAM.errcode", Floor: 60,
		Doc: "the code argument of every error constructor is a non-empty string constant",
		Run: ruleGramErrCode})
	register(&Rule{ID: "GRAM.allmatch", Floor: 1,
		Doc: "in the multi-token matcher a mismatching element forces the result false: after a mismatch no further iteration can overwrite the verdict",
		Run: ruleGramAllMatch})
	register(&Rule{ID: "GRAM.leftover", Floor: 1,
		Doc: "performParsing returns success only on the path where, after the top-level analysis, hasMoreTokens() is false (or there were no tokens at all)",
		Run: ruleGramLeftover})
	register(&Rule{ID: "GRAM.errprop", Floor: 30,
		Doc: "the error result of every parser stage (level functions, lexical pass, end-of-input check, section parser) is tested and returned before anything else happens",
		Run: ruleGramErrProp})
	register(&Rule{ID: "GRAM.consume", Floor: 14,
		Doc: "cursor typestate: every moveToNextToken() happens after the current token's type was tested on every path since the previous cursor movement — no token is skipped unseen (a dropped ')' / ']' / '(' / ',' test, or a consumed-then-abandoned keyword)",
		Run: ruleGramConsume})
	register(&Rule{ID: "GRAM.unknown", Floor: 1,
		Doc: "lexical classification: a token is appended to the initial token list only on the path where its classified type is not Unknown; the Unknown path returns an error",
		Run: ruleGramUnknown})
	register(&Rule{ID: "GRAM.rejects", Floor: 7,
		Doc: "each rejection the expression grammar needs (UNEXPECTED_END, ERROR_NEAR, ERROR_AT, UNKNOWN_SYMBOL, MISSED_CLOSE_PARENTHESIS after groups and after calls, MISSED_CLOSE_SQUARE_BRACKET) is still constructed, returned and guarded by a test of the cursor or the current token",
		Run: ruleGramRejects})
}

func (c *Ctx) ctorKey(s *ctorSite, n int) string {
	return fmt.Sprintf("%s#%s(%s)#%d", c.FuncKey(s.fn), s.ctor, s.code, n)
}

func ruleGramDeadErr(c *Ctx) []*Obligation {
	o := newObl("GRAM.deaderr")
	cnt := map[string]int{}
	for _, s := range c.errorCtorSites() {
		base := c.FuncKey(s.fn) + "#" + s.ctor + "(" + s.code + ")"
		cnt[base]++
		key := c.ctorKey(s, cnt[base])
		if s.live {
			o.ok(key, c.Pos(s.call.Pos()), "constructed error reaches a return / store / call")
		} else {
			o.bad(key, c.Pos(s.call.Pos()), "error "+s.code+" is constructed but the value is never returned, stored or passed on: the condition it reports is silently ignored")
		}
	}
	return o.list
}

func ruleGramErrCode(c *Ctx) []*Obligation {
	o := newObl("GRAM.errcode")
	cnt := map[string]int{}
	for _, s := range c.errorCtorSites() {
		base := c.FuncKey(s.fn) + "#" + s.ctor + "(" + s.code + ")"
		cnt[base]++
		key := c.ctorKey(s, cnt[base])
		if s.code == "" || s.code == "<non-constant>" {
			o.bad(key, c.Pos(s.call.Pos()), "error constructed with an empty or non-constant code: callers cannot tell what was rejected")
		} else {
			o.triv(key, c.Pos(s.call.Pos()), "code "+s.code)
		}
	}
	return o.list
}

// ---- GRAM.allmatch ----------------------------------------------------------------------------------

func ruleGramAllMatch(c *Ctx) []*Obligation {
	o := newObl("GRAM.allmatch")
	fn := c.MustFunc(pkgParsers, "ExpressionParser", "matchTokensWithTypes")
	key := c.FuncKey(fn) + "#mismatch-forces-false"
	// the element comparison: <token>.Type() == types[i] (non-constant right side)
	var cmp *ssa.BinOp
	for _, b := range fn.Blocks {
		for _, in := range b.Instrs {
			bo, ok := in.(*ssa.BinOp)
			if !ok || (bo.Op != token.EQL && bo.Op != token.NEQ) {
				continue
			}
			for _, side := range []ssa.Value{bo.X, bo.Y} {
				if call, ok := side.(*ssa.Call); ok {
					if _, isT := c.callTo(call, pkgParsers, "ExpressionToken", "Type"); isT {
						cmp = bo
					}
				}
			}
		}
	}
	if cmp == nil {
		o.undecided(key, c.Pos(fn.Pos()), "element comparison not found in the matcher")
		return o.list
	}
	mismatchTruth := cmp.Op == token.NEQ // value of cmp when the element does NOT match
	// loop header: a block that dominates cmp's block and is reachable from it
	var header *ssa.BasicBlock
	r := reachableBlocks(cmp.Block(), nil)
	for d := cmp.Block(); d != nil; d = d.Idom() {
		for _, p := range d.Preds {
			if r[p] && d.Dominates(p) {
				header = d
			}
		}
		if header != nil {
			break
		}
	}
	if header == nil {
		// no loop: straight-line comparisons; accept if every comparison result feeds the return through control flow
		o.ok(key, c.Pos(cmp.Pos()), "matcher has no loop; single comparison decides")
		return o.list
	}
	// explore from the comparison assuming a mismatch: branches on cmp itself (or !cmp) take the mismatch side only
	seen := map[*ssa.BasicBlock]bool{}
	reachesHeader := false
	var walk func(b *ssa.BasicBlock, first bool)
	walk = func(b *ssa.BasicBlock, first bool) {
		if !first {
			if b == header {
				reachesHeader = true
				return
			}
			if seen[b] {
				return
			}
			seen[b] = true
		}
		if ifi, ok := b.Instrs[len(b.Instrs)-1].(*ssa.If); ok {
			g := guard{Cond: ifi.Cond, Truth: true}
			v, pos := g.atom()
			if v == ssa.Value(cmp) {
				// cond is cmp (pos=true) or !cmp (pos=false); when mismatching, cmp == mismatchTruth
				condVal := mismatchTruth == pos
				if condVal {
					walk(b.Succs[0], false)
				} else {
					walk(b.Succs[1], false)
				}
				return
			}
		}
		for _, s := range b.Succs {
			walk(s, false)
		}
	}
	walk(cmp.Block(), true)
	if !reachesHeader {
		o.ok(key, c.Pos(cmp.Pos()), "on a mismatch control leaves the loop (break/return): no later element can overwrite the verdict")
		return o.list
	}
	// a further iteration can run after a mismatch: accepted only if the accumulator is conjoined with its previous value
	for _, in := range header.Instrs {
		phi, ok := in.(*ssa.Phi)
		if !ok {
			break
		}
		if !types.Identical(phi.Type().Underlying(), types.Typ[types.Bool]) {
			continue
		}
		for i, e := range phi.Edges {
			pred := header.Preds[i]
			if !header.Dominates(pred) {
				continue // not a back edge
			}
			if e == ssa.Value(cmp) {
				o.bad(key, c.Pos(cmp.Pos()), "the accumulator is overwritten with each element's comparison and the loop continues after a mismatch: only the last element decides (e.g. 'a foo LIKE b' is matched as NOT LIKE)")
				return o.list
			}
			if p2, ok := e.(*ssa.Phi); ok {
				hasFalse, hasCmp, guardedByAcc := false, false, false
				for j, e2 := range p2.Edges {
					if k, ok := e2.(*ssa.Const); ok && k.Value != nil && k.Value.String() == "false" {
						hasFalse = true
						// the false edge must come from a test of the accumulator
						pb := p2.Block().Preds[j]
						if ifi, ok := pb.Instrs[len(pb.Instrs)-1].(*ssa.If); ok && ifi.Cond == ssa.Value(phi) {
							guardedByAcc = true
						}
					}
					if e2 == ssa.Value(cmp) {
						hasCmp = true
					}
				}
				if hasFalse && hasCmp && guardedByAcc {
					o.ok(key, c.Pos(cmp.Pos()), "accumulator is conjoined with its previous value (acc && cmp)")
					return o.list
				}
				if hasCmp {
					o.bad(key, c.Pos(cmp.Pos()), "after a mismatch the loop continues and the accumulator can become true again")
					return o.list
				}
			}
		}
	}
	o.undecided(key, c.Pos(cmp.Pos()), "a later iteration can run after a mismatch and the accumulator shape is not one of the enumerated idioms")
	return o.list
}

// ---- GRAM.leftover ----------------------------------------------------------------------------------

func ruleGramLeftover(c *Ctx) []*Obligation {
	o := newObl("GRAM.leftover")
	for _, spec := range []struct{ pkg, typ, top string }{
		{pkgParsers, "ExpressionParser", "performSyntaxAnalysis"},
		{"mustache/parsers", "MustacheParser", "performSyntaxAnalysis"},
	} {
		fn := c.MustFunc(spec.pkg, spec.typ, "performParsing")
		top := c.MustFunc(spec.pkg, spec.typ, spec.top)
		var topCall ssa.Instruction
		for _, ci := range allCalls(fn) {
			if ci.Common().StaticCallee() == top {
				topCall = ci
			}
		}
		key := c.FuncKey(fn) + "#success-return"
		if topCall == nil {
			o.bad(key, c.Pos(fn.Pos()), "performParsing no longer runs the top-level analysis")
			continue
		}
		bad := ""
		n := 0
		for _, ret := range returnsOf(fn) {
			// success returns: every incoming path to a `return nil` (nil may come through a phi)
			for _, path := range successPaths(ret) {
				n++
				if !topCall.Block().Dominates(path) && topCall.Block() != path {
					// path that skips the analysis: must be the "no tokens at all" path: guarded by len(originalTokens) > 0 false
					if !hasLenZeroGuard(path, ret.Block()) {
						bad = "a success return is reachable without running the top-level analysis and without the empty-input guard"
					}
					continue
				}
				okEdge := false
				for _, g := range guardsOnEdge(path, ret.Block()) {
					v, truth := g.atom()
					if call, isCall := v.(*ssa.Call); isCall && !truth {
						if f := call.Call.StaticCallee(); f != nil && f.Name() == "hasMoreTokens" && instrDominates(topCall, call) {
							okEdge = true
						}
					}
				}
				if !okEdge {
					bad = "success is returned after the top-level analysis without requiring hasMoreTokens() == false on the current cursor: trailing tokens would be ignored"
				}
			}
		}
		if n == 0 {
			bad = "no success return found"
		}
		if bad != "" {
			o.bad(key, c.Pos(fn.Pos()), bad)
		} else {
			o.ok(key, c.Pos(fn.Pos()), fmt.Sprintf("%d success edge(s): each is either the empty-input path or passes hasMoreTokens()==false after %s", n, spec.top))
		}
	}
	return o.list
}

// successPaths returns, for a Return whose error operand can be nil, the predecessor blocks (or the
// return block itself) through which the nil value arrives.
func successPaths(ret *ssa.Return) []*ssa.BasicBlock {
	if len(ret.Results) == 0 {
		return nil
	}
	v := ret.Results[len(ret.Results)-1]
	if isNilConst(v) {
		// return nil: one path per predecessor (or the block itself if it has none)
		if len(ret.Block().Preds) == 0 {
			return []*ssa.BasicBlock{ret.Block()}
		}
		return append([]*ssa.BasicBlock{}, ret.Block().Preds...)
	}
	if phi, ok := v.(*ssa.Phi); ok && phi.Block() == ret.Block() {
		var out []*ssa.BasicBlock
		for i, e := range phi.Edges {
			if isNilConst(e) {
				out = append(out, ret.Block().Preds[i])
			}
		}
		return out
	}
	return nil
}

// guardsOnEdge: conditions known when control flows from pred into succ.
func guardsOnEdge(pred, succ *ssa.BasicBlock) []guard {
	gs := guardsAt(pred)
	if pred == succ {
		return gs
	}
	if ifi, ok := pred.Instrs[len(pred.Instrs)-1].(*ssa.If); ok {
		if pred.Succs[0] == succ && pred.Succs[1] != succ {
			gs = append(gs, guard{Cond: ifi.Cond, Truth: true, If: ifi})
		} else if pred.Succs[1] == succ && pred.Succs[0] != succ {
			gs = append(gs, guard{Cond: ifi.Cond, Truth: false, If: ifi})
		}
	}
	return gs
}

func hasLenZeroGuard(pred, succ *ssa.BasicBlock) bool {
	for _, g := range guardsOnEdge(pred, succ) {
		v, truth := g.atom()
		bo, ok := v.(*ssa.BinOp)
		if !ok {
			continue
		}
		call, isCall := bo.X.(*ssa.Call)
		if !isCall {
			continue
		}
		if bi, ok := call.Call.Value.(*ssa.Builtin); !ok || bi.Name() != "len" {
			continue
		}
		k, isK := constInt(bo.Y)
		if !isK || k != 0 {
			continue
		}
		if (bo.Op == token.GTR && !truth) || (bo.Op == token.EQL && truth) || (bo.Op == token.LEQ && truth) || (bo.Op == token.NEQ && !truth) {
			return true
		}
	}
	return false
}

// ---- GRAM.errprop -----------------------------------------------------------------------------------

func (c *Ctx) parserStageFuncs() map[*ssa.Function]bool {
	out := map[*ssa.Function]bool{}
	for _, spec := range []struct{ pkg, typ string }{{pkgParsers, "ExpressionParser"}, {"mustache/parsers", "MustacheParser"}} {
		for _, f := range c.methodsOfType(spec.pkg, spec.typ) {
			res := f.Signature.Results()
			if res.Len() == 0 || res.At(res.Len()-1).Type().String() != "error" {
				continue
			}
			if f.Object() != nil && f.Object().Exported() {
				continue // public API entry points are callers' business
			}
			out[f] = true
		}
	}
	return out
}

func ruleGramErrProp(c *Ctx) []*Obligation {
	o := newObl("GRAM.errprop")
	stages := c.parserStageFuncs()
	var fns []*ssa.Function
	for _, spec := range []struct{ pkg, typ string }{{pkgParsers, "ExpressionParser"}, {"mustache/parsers", "MustacheParser"}} {
		fns = append(fns, c.methodsOfType(spec.pkg, spec.typ)...)
	}
	for _, fn := range fns {
		cnt := map[string]int{}
		for _, ci := range allCalls(fn) {
			call, ok := ci.(*ssa.Call)
			if !ok {
				continue
			}
			g := call.Call.StaticCallee()
			if g == nil || !stages[g] {
				continue
			}
			cnt[g.Name()]++
			key := fmt.Sprintf("%s#call#%s#%d", c.FuncKey(fn), g.Name(), cnt[g.Name()])
			var errVal ssa.Value = call
			if g.Signature.Results().Len() > 1 {
				errVal = nil
				for _, r := range *call.Referrers() {
					if ex, ok := r.(*ssa.Extract); ok && ex.Index == g.Signature.Results().Len()-1 {
						errVal = ex
					}
				}
			}
			if errVal == nil {
				o.bad(key, c.Pos(call.Pos()), "the error result of "+g.Name()+" is discarded")
				continue
			}
			okProp, why := errTestedAndReturned(call, errVal)
			if okProp {
				o.ok(key, c.Pos(call.Pos()), why)
			} else {
				o.bad(key, c.Pos(call.Pos()), "error of "+g.Name()+": "+why)
			}
		}
	}
	return o.list
}

// errTestedAndReturned: errVal is returned directly, or the call's block ends in `if errVal != nil`
// whose true successor returns errVal, with no other call between the stage call and the test.
func errTestedAndReturned(call *ssa.Call, errVal ssa.Value) (bool, string) {
	for _, r := range *errVal.Referrers() {
		if ret, ok := r.(*ssa.Return); ok && ret.Block() == call.Block() {
			return true, "returned directly"
		}
	}
	b := call.Block()
	ifi, ok := b.Instrs[len(b.Instrs)-1].(*ssa.If)
	if !ok {
		return false, "not tested in the block of the call"
	}
	bo, ok := ifi.Cond.(*ssa.BinOp)
	if !ok || bo.X != errVal || !isNilConst(bo.Y) || (bo.Op != token.NEQ && bo.Op != token.EQL) {
		return false, "the block of the call does not end in a nil test of this error"
	}
	errSucc := b.Succs[0]
	if bo.Op == token.EQL {
		errSucc = b.Succs[1]
	}
	// nothing with side effects between the call and the test
	after := false
	for _, in := range b.Instrs {
		if in == ssa.Instruction(call) {
			after = true
			continue
		}
		if after {
			if _, isCall := in.(ssa.CallInstruction); isCall {
				return false, "another call happens before the error is tested"
			}
		}
	}
	ret, ok := errSucc.Instrs[len(errSucc.Instrs)-1].(*ssa.Return)
	if !ok {
		return false, "the error branch does not return"
	}
	for _, rv := range ret.Results {
		if rv == errVal {
			return true, "tested immediately and returned on the error edge"
		}
	}
	return false, "the error branch returns something else than this error"
}

// ---- GRAM.consume (cursor typestate) ---------------------------------------------------------------

func ruleGramConsume(c *Ctx) []*Obligation {
	o := newObl("GRAM.consume")
	m := c.buildParserModel()
	move := c.MustFunc(pkgParsers, "ExpressionParser", "moveToNextToken")
	matcher := c.MustFunc(pkgParsers, "ExpressionParser", "matchTokensWithTypes")
	cur := c.MustFunc(pkgParsers, "ExpressionParser", "getCurrentToken")
	isLevel := map[*ssa.Function]bool{}
	for _, f := range m.levels {
		isLevel[f] = true
	}
	isMoveLike := func(in ssa.Instruction) bool {
		ci, ok := in.(ssa.CallInstruction)
		if !ok {
			return false
		}
		g := ci.Common().StaticCallee()
		return g != nil && (g == move || g == matcher || isLevel[g])
	}
	for _, fn := range m.levels {
		// forward must-analysis of "the current token's type is known to equal a tested constant".
		// Edge-sensitive: only the edge on which a type test MATCHED establishes the fact; the other edge
		// keeps the state it had before the test.
		in := map[*ssa.BasicBlock]bool{}
		pre := map[*ssa.BasicBlock]bool{} // state at the end of the block, before its terminating If
		for _, b := range fn.Blocks {
			in[b], pre[b] = true, true
		}
		// typeTest returns (isTest, matchedSuccessorIndex)
		typeTest := func(b *ssa.BasicBlock) (bool, int) {
			ifi, ok := b.Instrs[len(b.Instrs)-1].(*ssa.If)
			if !ok {
				return false, 0
			}
			recv, _, op, ok := c.typeTestConst(ifi.Cond, pkgParsers, "ExpressionToken")
			if !ok {
				return false, 0
			}
			match := 0
			if op == token.NEQ {
				match = 1
			}
			// receiver must derive from getCurrentToken() calls not followed by a cursor movement before this test
			for _, leaf := range phiLeaves(recv) {
				lc, isCall := leaf.(*ssa.Call)
				if !isCall {
					continue
				}
				if g := lc.Call.StaticCallee(); g == cur {
					stale := false
					for _, x := range allCalls(fn) {
						if isMoveLike(x) && instrDominates(lc, x) && instrDominates(x, ifi) {
							stale = true
						}
					}
					if !stale {
						return true, match
					}
				}
				if cc, isN := c.callTo(lc, pkgParsers, "", "NewExpressionToken"); isN && cc != nil {
					return true, match // reclassified copy of the current token
				}
			}
			return false, 0
		}
		edgeOut := func(p, b *ssa.BasicBlock) bool {
			if isT, match := typeTest(p); isT && p.Succs[match] == b && p.Succs[1-match] != b {
				return true
			}
			return pre[p]
		}
		transfer := func(b *ssa.BasicBlock, st bool) bool {
			for _, ins := range b.Instrs {
				if isMoveLike(ins) {
					st = false
				}
			}
			return st
		}
		changed := true
		for changed {
			changed = false
			for _, b := range fn.Blocks {
				st := len(b.Preds) > 0
				for _, p := range b.Preds {
					st = st && edgeOut(p, b)
				}
				if b == fn.Blocks[0] {
					st = false
				}
				ns := transfer(b, st)
				if st != in[b] || ns != pre[b] {
					in[b], pre[b] = st, ns
					changed = true
				}
			}
		}
		n := 0
		for _, b := range fn.Blocks {
			st := in[b]
			for _, ins := range b.Instrs {
				if ci, ok := ins.(ssa.CallInstruction); ok && ci.Common().StaticCallee() == move {
					n++
					key := fmt.Sprintf("%s#move#%d", c.FuncKey(fn), n)
					if st {
						o.ok(key, c.Pos(ins.Pos()), "on every path the consumed token's type is known to equal a tested constant (matched edge of a type test since the last cursor movement)")
					} else {
						o.bad(key, c.Pos(ins.Pos()), "a token is consumed on a path where its type was not matched against an expected constant since the previous cursor movement: some token (a wrong closer, a stray word) is silently skipped")
					}
				}
				if isMoveLike(ins) {
					st = false
				}
			}
		}
	}
	return o.list
}

// ---- GRAM.unknown -----------------------------------------------------------------------------------

func ruleGramUnknown(c *Ctx) []*Obligation {
	o := newObl("GRAM.unknown")
	fn := c.MustFunc(pkgParsers, "ExpressionParser", "completeLexicalAnalysis")
	key := c.FuncKey(fn) + "#append-only-classified"
	n := 0
	for _, ci := range allCalls(fn) {
		cc, ok := c.callTo(ci, pkgParsers, "", "NewExpressionToken")
		if !ok {
			continue
		}
		n++
		typ := cc.Args[0]
		good := false
		for _, g := range guardsAt(ci.Block()) {
			v, truth := g.atom()
			bo, ok := v.(*ssa.BinOp)
			if !ok || bo.X != typ {
				continue
			}
			if k, ok := constInt(bo.Y); ok && k == 0 && ((bo.Op == token.EQL && !truth) || (bo.Op == token.NEQ && truth)) {
				// and the other edge returns an error
				other := g.If.Block().Succs[0]
				if !truth == false {
					other = g.If.Block().Succs[1]
				}
				if truth {
					other = g.If.Block().Succs[1]
				} else {
					other = g.If.Block().Succs[0]
				}
				if ret, ok := other.Instrs[len(other.Instrs)-1].(*ssa.Return); ok && len(ret.Results) == 1 && !isNilConst(ret.Results[0]) {
					good = true
				}
			}
		}
		if good {
			o.ok(key, c.Pos(ci.Pos()), "token appended only under tokenType != Unknown; the Unknown edge returns an error")
		} else {
			o.bad(key, c.Pos(ci.Pos()), "a token can be appended to the initial list although its classification is Unknown (or the Unknown path no longer returns an error)")
		}
	}
	if n == 0 {
		o.bad(key, c.Pos(fn.Pos()), "lexical pass no longer builds expression tokens")
	}
	return o.list
}

// ---- GRAM.rejects -----------------------------------------------------------------------------------

func ruleGramRejects(c *Ctx) []*Obligation {
	o := newObl("GRAM.rejects")
	m := c.buildParserModel()
	type need struct {
		code  string
		where string // function name, "" = any ExpressionParser method
		min   int
	}
	needs := []need{
		{"UNEXPECTED_END", "checkForMoreTokens", 1},
		{"ERROR_NEAR", "performParsing", 1},
		{"UNKNOWN_SYMBOL", "completeLexicalAnalysis", 1},
	}
	if len(m.levels) == 7 {
		l6 := m.levels[6].Name()
		needs = append(needs, need{"ERROR_AT", l6, 1}, need{"MISSED_CLOSE_PARENTHESIS", l6, 2}, need{"MISSED_CLOSE_SQUARE_BRACKET", l6, 1})
	}
	sites := c.errorCtorSites()
	for _, nd := range needs {
		key := "parsers.ExpressionParser#rejects#" + nd.code
		var live []*ctorSite
		for _, s := range sites {
			if s.code != nd.code || !s.live {
				continue
			}
			if !strings.HasSuffix(c.FuncKey(s.fn), "(*ExpressionParser)."+nd.where) {
				continue
			}
			// must be guarded by some branch (not unconditional) and end in a return of that error
			if len(guardsAt(s.call.Block())) == 0 {
				continue
			}
			live = append(live, s)
		}
		if len(live) >= nd.min {
			var ps []string
			for _, s := range live {
				ps = append(ps, c.Pos(s.call.Pos()))
			}
			sort.Strings(ps)
			o.ok(key, ps[0], fmt.Sprintf("%d guarded, returned construction site(s) in %s", len(live), nd.where))
		} else {
			o.bad(key, "-", fmt.Sprintf("rejection %s has %d guarded+returned site(s) in %s, the grammar needs %d: some malformed input is no longer rejected with this code", nd.code, len(live), nd.where, nd.min))
		}
	}
	// the End-of-input check runs first in every level function
	check := c.MustFunc(pkgParsers, "ExpressionParser", "checkForMoreTokens")
	for i, f := range m.levels {
		key := fmt.Sprintf("%s#level%d#starts-with-end-check", c.FuncKey(f), i)
		first := allCalls(f)
		if len(first) > 0 && first[0].Common().StaticCallee() == check {
			o.ok(key, c.Pos(f.Pos()), "first action is checkForMoreTokens()")
		} else {
			o.bad(key, c.Pos(f.Pos()), "level function does not start with the end-of-input check: an expression ending here dereferences a missing token or is accepted")
		}
	}
	return o.list
}
