package main

import (
	"fmt"
	"go/types"
	"math"
	"regexp"
	"sort"
	"strconv"
	"strings"
	"sync"

	"golang.org/x/tools/go/ssa"
)

// ---------------------------------------------------------------------------------------------
// CONV.model (C07): Convert of both managers evaluated abstractly for every source type × target
// type on a variant with a symbolic payload x: a success carries exactly the requested type tag
// (the argument itself for its own type and for Object), the numeric / temporal cells are the
// statement's conventions as host expressions over x, the type-safe manager succeeds exactly on its
// whitelist and agrees there with the type-unsafe one, everything else is an error.
// ---------------------------------------------------------------------------------------------

type convOutcome struct {
	kind, tag, expr, code string
	same                  bool
	conds                 []string
	why                   string
}

// zeroTimeUnixSeconds: the instant 0001-01-01T00:00:00Z, for which time.Time.IsZero holds, counted in Unix seconds
// (the host's documented value: 1969 years x 365 days + 477 leap days, times 86400, before the epoch).
const zeroTimeUnixSeconds = -(1969*365 + 1969/4 - 1969/100 + 1969/400) * 86400

// wholeTexts: whole numbers of both signs: small ones, the bounds of 32 bits, powers of ten and of two, the counts
// around the largest number of milliseconds / microseconds a time span holds (numbers that are not time spans must
// not be read as such), and numbers beyond 2^53 up to the ends of the 64-bit range, which a reader that goes through a
// double does not give back (the pinned tree did: String -> Long through the commons converter's ParseFloat; repaired
// in /repo, known_findings.json).
func wholeTexts(asText bool) []interface{} {
	var out []interface{}
	for _, n := range []int64{0, 1, 7, 255, 65536, math.MaxInt32, int64(math.MaxInt32) + 1, 4294967296, 1700000000000, 9223372036854, 9223372036855, 9223372036, 9223372037,
		10000000000000, 123456789012345, int64(1) << 40, int64(1) << 50, int64(1)<<53 - 1, 9007199254740881, 1000000000000000,
		int64(1)<<53 + 1, 9223372036854775, 1234567890123456789, math.MaxInt64} {
		for _, k := range []int64{n, -n} {
			if k == 0 && n != 0 {
				continue
			}
			if asText {
				out = append(out, lit(strconv.FormatInt(k, 10)))
			} else {
				out = append(out, k)
			}
		}
	}
	return append(out[:1], out[2:]...) // 0 once
}

// convNumerals gives the converters of the commons module (another module: opaque to the machine) their meaning
// on whole decimal numerals and truth values, as that module's source has it (reviewed: convert/LongConverter.go,
// StringConverter.go of v1.0.8): a whole number is printed with strconv.FormatInt; a text is read as
// int64(strconv.ParseFloat(text)) - exact below 2^53, rounded beyond; a plain whole number read as a time span counts
// milliseconds (in the host's int64 nanoseconds).
var reWholeText = regexp.MustCompile(`^(0|-?[1-9][0-9]{0,18})$`)

func convNumerals(m *mach, fn *ssa.Function, args []mv) (mv, bool) {
	if fn.Signature.Recv() == nil || len(args) != 2 || !strings.HasSuffix(fnFullName(fn), "Converter."+fn.Name()) || !strings.Contains(fnFullName(fn), "commons-gox/convert.") {
		return nil, false
	}
	a, plain := args[1], true
	if i, isIface := a.(mIface); isIface {
		_, plain = i.t.(*types.Basic) // a time span or another named type has a text of its own
		a = i.v
	}
	whole := func(s string) (int64, bool) {
		if !reWholeText.MatchString(s) {
			return 0, false
		}
		if _, err := strconv.ParseInt(s, 10, 64); err != nil {
			return 0, false
		}
		v, err := strconv.ParseFloat(s, 64)
		return int64(v), err == nil
	}
	switch fn.Name() {
	case "ToString":
		switch x := a.(type) {
		case int64:
			if plain {
				return strconv.FormatInt(x, 10), true
			}
		case bool:
			if plain {
				return strconv.FormatBool(x), true
			}
		}
		return nil, false
	case "ToInteger", "ToLong":
		if s, ok := a.(string); ok {
			if n, ok := whole(s); ok {
				return n, true
			}
		}
	case "ToBoolean":
		if s, ok := a.(string); ok && (s == "true" || s == "false") {
			return s == "true", true
		}
	case "ToDuration":
		if s, ok := a.(string); ok {
			if n, ok := whole(s); ok && n < int64(1)<<53 && n > -(int64(1)<<53) {
				return n * 1000000, true // time.Duration(n) * time.Millisecond in the host's arithmetic
			}
		}
	}
	return decimalNumerals(m, fn, args)
}

func (h *vxHarness) runConvert(t1, t2 string) []convOutcome {
	f := h.c.lookupMethod(h.mgrT, "Convert")
	var outs []convOutcome
	var src mv
	paths := h.m.explore(8, func() (ret mv, out mOutcome) {
		defer func() {
			if r := recover(); r != nil {
				if a, ok := r.(mAbort); ok {
					ret, out = nil, mOutcome{kind: "opaque", why: a.why}
					return
				}
				panic(r)
			}
		}()
		src = h.variant(t1, "x")
		return h.m.Call(f, h.mgr, src, h.vtByNm[t2])
	})
	for _, p := range paths {
		oc := convOutcome{conds: p.conds}
		switch p.out.kind {
		case "panic", "opaque":
			oc.kind, oc.why = p.out.kind, p.out.why
		default:
			tp, ok := p.ret.(mTuple)
			if !ok || len(tp) != 2 {
				oc.kind, oc.why = "opaque", "unexpected result shape"
				break
			}
			if _, isNil := tp[1].(mNilT); !isNil {
				oc.kind, oc.code = "error", errorCode(tp[1])
				if oc.code == "" {
					oc.code = mRender(tp[1])
				}
				break
			}
			if _, isNil := tp[0].(mNilT); isNil {
				oc.kind = "neither"
				break
			}
			oc.kind = "value"
			oc.tag = h.typeOf(tp[0])
			oc.expr = h.payloadOf(tp[0])
			if eq, known := h.m.equal(tp[0], src); known && eq {
				oc.same = true
			}
		}
		outs = append(outs, oc)
	}
	return outs
}

var convxMemo []*opsVerdict
var convxMu sync.Mutex

func (c *Ctx) convxRun() []*opsVerdict {
	convxMu.Lock()
	defer convxMu.Unlock()
	if convxMemo != nil {
		return convxMemo
	}
	types11 := append([]string{"Null"}, valueTypes...)
	var all []*opsVerdict
	var mu sync.Mutex
	var wg sync.WaitGroup
	unsafeCells := map[string]string{}
	var ucMu sync.Mutex
	run := func(manager string) {
		defer wg.Done()
		h := c.newVxHarness(manager)
		fn := c.lookupMethod(h.mgrT, "Convert")
		for _, t1 := range types11 {
			v := &opsVerdict{key: fmt.Sprintf("variants.%s.Convert#from-%s", manager, t1)}
			if fn != nil {
				v.pos = c.Pos(fn.Pos())
			}
			mu.Lock()
			all = append(all, v)
			mu.Unlock()
			if h.fault != "" || fn == nil {
				v.undec = h.fault + " Convert missing"
				continue
			}
			bad := func(format string, a ...interface{}) {
				if v.bad == "" {
					v.bad = fmt.Sprintf(format, a...)
				}
			}
			for _, t2 := range types11 {
				v.runs++
				where := fmt.Sprintf("%s.Convert(%s x, %s)", manager, t1, t2)
				if t2 == "Long" || t2 == "String" {
					noteSample("CONV.model/"+manager, where)
				}
				outs := h.runConvert(t1, t2)
				identity := (t2 == t1 && t2 != "Null") || t2 == "Object"
				safeOK := identity || t2 == "Null"
				if manager == "TypeSafeVariantOperations" {
					for _, w := range convSafeWhitelist[t1] {
						if w == t2 {
							safeOK = true
						}
					}
				}
				for _, oc := range outs {
					switch oc.kind {
					case "opaque":
						if v.undec == "" {
							v.undec = where + ": " + oc.why
						}
					case "panic":
						bad("%s panics: %s", where, oc.why)
					case "neither":
						bad("%s returns neither a result nor an error", where)
					case "value":
						switch {
						case identity && !oc.same:
							bad("%s returns a %s %s; its own type or Object requested returns the argument itself", where, oc.tag, oc.expr)
						case !identity && oc.same && t1 != "Null":
							bad("%s returns the argument unchanged (a %s); the requested type is %s", where, oc.tag, t2)
						case !identity && oc.tag != t2:
							bad("%s returns a %s; a successful conversion carries exactly the requested type", where, oc.tag)
						case manager == "TypeSafeVariantOperations" && !safeOK:
							bad("%s succeeds (%s %s); the type-safe manager permits only the numeric widenings and reports every other conversion as an error", where, oc.tag, oc.expr)
						}
						// a conversion to a wide type never goes through a narrower one on the way
						narrow := map[string][]string{"Double": {"ToFloat(", "conv<float32>("}, "Long": {"ToInteger(", "conv<int>(", "conv<int32>("}}
						for _, frag := range narrow[t2] {
							if strings.Contains(oc.expr, frag) && !(t1 == "Float" && t2 == "Double") && !(t1 == "Integer" && t2 == "Long") {
								bad("%s yields %s: the value passes through a narrower type (%s) on its way to %s and loses precision or range", where, oc.expr, strings.TrimSuffix(frag, "("), t2)
							}
						}
						// whole-number payloads: int and int64 are one representation, a conversion between them changes nothing
						normCell := normConv
						if t1 == "Integer" || t1 == "Long" {
							normCell = func(e string) string { return normIntIdentity(normConv(e)) }
						}
						if spec, ok := convUnsafeOracle[t1][t2]; ok && len(oc.conds) == 0 {
							if want := xlateOracle(spec.expr); normCell(oc.expr) != normCell(want) {
								bad("%s yields %s; the statement's convention is %s", where, oc.expr, want)
							}
						}
						if !identity {
							ucMu.Lock()
							k := t1 + ">" + t2
							if manager == "TypeUnsafeVariantOperations" {
								unsafeCells[k] = oc.expr
							} else if u, ok := unsafeCells[k]; ok && normCell(u) != normCell(oc.expr) {
								bad("%s yields %s where the type-unsafe manager yields %s", where, oc.expr, u)
							}
							ucMu.Unlock()
						}
					case "error":
						if identity {
							bad("%s fails with %s; its own type or Object requested returns the argument itself", where, oc.code)
						} else if manager == "TypeSafeVariantOperations" && safeOK && len(oc.conds) == 0 {
							bad("%s fails with %s; the type-safe manager permits this widening", where, oc.code)
						} else if _, ok := convUnsafeOracle[t1][t2]; ok && manager == "TypeUnsafeVariantOperations" && len(oc.conds) == 0 {
							bad("%s fails with %s; the statement defines this conversion", where, oc.code)
						}
					}
				}
			}
		}
	}
	// a conversion result is a fresh variant: a later conversion does not change an earlier result
	for _, manager := range managers {
		h := c.newVxHarness(manager)
		fn := c.lookupMethod(h.mgrT, "Convert")
		v := &opsVerdict{key: fmt.Sprintf("variants.%s.Convert#fresh-results", manager)}
		all = append(all, v)
		if h.fault != "" || fn == nil {
			v.undec = h.fault + " Convert missing"
			continue
		}
		v.pos = c.Pos(fn.Pos())
		for _, pair := range [][2]string{{"Integer", "Long"}, {"Integer", "Double"}, {"Long", "Double"}, {"Float", "Double"}, {"Integer", "Float"}} {
			v.runs++
			// constants: whether results are shared does not depend on the value, and a value-dependent branch
			// inside a conversion must not leave this clause undecided
			var pa, pb interface{} = int64(5), int64(7)
			if pair[0] == "Float" {
				pa, pb = float64(1.5), float64(2.5)
			}
			a := h.variant(pair[0], pa)
			b := h.variant(pair[0], pb)
			r1, o1 := h.m.Call(fn, h.mgr, a, h.vtByNm[pair[1]])
			t1, ok1 := r1.(mTuple)
			if o1.kind != "ok" || !ok1 {
				if v.undec == "" {
					v.undec = "Convert: " + o1.why
				}
				continue
			}
			before := h.payloadOf(t1[0])
			r2, o2 := h.m.Call(fn, h.mgr, b, h.vtByNm[pair[1]])
			t2, ok2 := r2.(mTuple)
			if o2.kind != "ok" || !ok2 {
				continue
			}
			after := h.payloadOf(t1[0])
			if eq, known := h.m.equal(t1[0], t2[0]); (known && eq) || before != after {
				if v.bad == "" {
					v.bad = fmt.Sprintf("%s.Convert(%s %v, %s) held %s; after Convert(%s %v, %s) the same result holds %s: conversions share their result variant", manager, pair[0], pa, pair[1], before, pair[0], pb, pair[1], after)
				}
			}
		}
	}
	// every conversion hands out its own result object: two conversions of one value to one type never return
	// the same variant (a shared result would change under the first caller's feet), Null target included
	for _, manager := range managers {
		h := c.newVxHarness(manager)
		fn := c.lookupMethod(h.mgrT, "Convert")
		v := &opsVerdict{key: fmt.Sprintf("variants.%s.Convert#distinct-results", manager)}
		all = append(all, v)
		if h.fault != "" || fn == nil {
			v.undec = h.fault + " Convert missing"
			continue
		}
		v.pos = c.Pos(fn.Pos())
		for _, t1 := range []string{"Null", "Integer", "Boolean", "String"} {
			for _, t2 := range types11 {
				if t2 == t1 && t2 != "Null" || t2 == "Object" {
					continue
				}
				v.runs++
				var payload interface{} = int64(3)
				switch t1 {
				case "Boolean":
					payload = true
				case "String":
					payload = lit("1")
				}
				src := h.variant(t1, payload)
				r1, o1 := h.m.Call(fn, h.mgr, src, h.vtByNm[t2])
				r2, o2 := h.m.Call(fn, h.mgr, src, h.vtByNm[t2])
				tp1, ok1 := r1.(mTuple)
				tp2, ok2 := r2.(mTuple)
				if o1.kind != "ok" || o2.kind != "ok" || !ok1 || !ok2 {
					continue // outcomes are judged cell by cell above
				}
				if _, isNil := tp1[0].(mNilT); isNil {
					continue
				}
				if eq, known := h.m.equal(tp1[0], tp2[0]); known && eq && v.bad == "" {
					v.bad = fmt.Sprintf("%s.Convert(%s, %s) called twice returns one and the same variant: results are shared between callers (filling one in place changes every later conversion)", manager, t1, t2)
				}
			}
		}
	}
	// round trips on boundary values (concrete payloads): the widening conversions of the statement succeed
	// for every value of the source type and converting back yields the original
	{
		manager := "TypeUnsafeVariantOperations"
		h := c.newVxHarness(manager)
		fn := c.lookupMethod(h.mgrT, "Convert")
		v := &opsVerdict{key: "variants.Convert#round-trips-on-boundary-values"}
		all = append(all, v)
		if h.fault != "" || fn == nil {
			v.undec = h.fault + " Convert missing"
		} else {
			v.pos = c.Pos(fn.Pos())
			ints := []interface{}{int64(0), int64(1), int64(-1), int64(255), int64(256), int64(65536), int64(2147483647), int64(2147483648), int64(-2147483648), int64(-2147483649), int64(3000000000), int64(4294967296)}
			big := []interface{}{int64(1) << 53, -(int64(1) << 53), int64(1) << 40}
			// unit-scaled conversions (a count of milliseconds is a time span of count x 10^6 ns, a count of seconds a
			// date-time): counts that are not multiples of a power of two, whose scaled value lies beyond 2^53 (not exact
			// in a double), of both signs, up to the largest count whose time span exists; and whole seconds beyond 2^53
			counts := func(unit int64) []interface{} {
				out := append([]interface{}{}, ints...)
				for _, n := range []int64{9000000001, 9007199255, 16777217, 123456789013, 1000000000001, 9000000000009, 9000000000013, 7777777777777, math.MaxInt64/unit - 1, math.MaxInt64 / unit} {
					if n <= math.MaxInt64/unit {
						out = append(out, n, -n)
					}
				}
				return out
			}
			secs := append(counts(1), int64(1)<<53+1, -(int64(1)<<53 + 1), int64(9000000000000001), int64(1)<<62+1)
			// the host's time.Unix on constants is a date-time that remembers its seconds (time.Unix(s, 0).Unix() == s for every s)
			reUnix := regexp.MustCompile(`^time\.Unix\((-?[0-9]+),0\)$`)
			// … and is an instant like any other: it is the zero time exactly for the seconds count of 0001-01-01T00:00:00Z,
			// and two of them compare as their seconds counts do
			unixSecs := func(a mv) (int64, bool) {
				if sy, ok := a.(*mSym); ok {
					if mm := reUnix.FindStringSubmatch(sy.name); mm != nil {
						n, err := strconv.ParseInt(mm[1], 10, 64)
						return n, err == nil
					}
				}
				return 0, false
			}
			h.m.external = func(m *mach, fn *ssa.Function, args []mv) (mv, bool) {
				name := fnFullName(fn)
				if !strings.HasPrefix(name, "time.Time.") || len(args) == 0 {
					return convNumerals(m, fn, args)
				}
				s0, ok := unixSecs(args[0])
				if !ok {
					return nil, false
				}
				if len(args) == 1 {
					switch fn.Name() {
					case "Unix":
						return s0, true
					case "IsZero":
						return s0 == zeroTimeUnixSeconds, true
					}
					return nil, false
				}
				if s1, ok := unixSecs(args[1]); ok && len(args) == 2 {
					switch fn.Name() {
					case "Equal":
						return s0 == s1, true
					case "Before":
						return s0 < s1, true
					case "After":
						return s0 > s1, true
					}
				}
				return nil, false
			}
			secs = append(secs, int64(zeroTimeUnixSeconds), int64(zeroTimeUnixSeconds)+1, int64(zeroTimeUnixSeconds)-1, int64(-62135596800000))
			chains := []struct {
				t1, t2 string
				vals   []interface{}
			}{
				{"Integer", "Long", append(append([]interface{}{}, ints...), big...)},
				{"Long", "Integer", append(append([]interface{}{}, ints...), big...)},
				{"Integer", "Double", append(append([]interface{}{}, ints...), big...)},
				{"Long", "Double", append(append([]interface{}{}, ints...), big...)},
				{"Float", "Double", []interface{}{float64(0), float64(1.5), float64(-0.25), float64(float32(0.1)), float64(float32(3.0e38)), float64(float32(1e-40))}},
				{"Boolean", "Integer", []interface{}{true, false}},
				{"Boolean", "Long", []interface{}{true, false}},
				{"Integer", "TimeSpan", counts(1000000)},
				{"Long", "TimeSpan", counts(1000000)},
				{"Integer", "DateTime", secs},
				{"Long", "DateTime", secs},
				// whole numbers and truth values as texts, and the texts of whole numbers and truth values as values
				{"Integer", "String", wholeTexts(false)},
				{"Long", "String", wholeTexts(false)},
				{"Boolean", "String", []interface{}{true, false}},
				{"String", "Integer", wholeTexts(true)},
				{"String", "Long", wholeTexts(true)},
				{"String", "Boolean", []interface{}{lit("true"), lit("false")}},
			}
			for _, ch := range chains {
				for _, val := range ch.vals {
					v.runs++
					where := fmt.Sprintf("%s.Convert, %s %v -> %s -> %s", manager, ch.t1, val, ch.t2, ch.t1)
					src := h.variant(ch.t1, val)
					want := h.payloadOf(src)
					r1, o1 := h.m.Call(fn, h.mgr, src, h.vtByNm[ch.t2])
					tp1, ok1 := r1.(mTuple)
					switch {
					case o1.kind == "panic":
						if v.bad == "" {
							v.bad = where + ": the first conversion panics: " + o1.why
						}
						continue
					case o1.kind != "ok" || !ok1:
						if v.undec == "" {
							v.undec = where + ": " + o1.why
						}
						continue
					}
					if _, isNil := tp1[1].(mNilT); !isNil {
						if v.bad == "" {
							v.bad = fmt.Sprintf("%s: the conversion to %s fails with %s; the statement defines it for every %s value", where, ch.t2, errorCode(tp1[1]), ch.t1)
						}
						continue
					}
					r2, o2 := h.m.Call(fn, h.mgr, tp1[0], h.vtByNm[ch.t1])
					tp2, ok2 := r2.(mTuple)
					switch {
					case o2.kind == "panic":
						if v.bad == "" {
							v.bad = where + ": converting back panics: " + o2.why
						}
						continue
					case o2.kind != "ok" || !ok2:
						if v.undec == "" {
							v.undec = where + ": " + o2.why
						}
						continue
					}
					if _, isNil := tp2[1].(mNilT); !isNil {
						if v.bad == "" {
							v.bad = fmt.Sprintf("%s: converting back fails with %s; the round trip is lossless and defined there", where, errorCode(tp2[1]))
						}
						continue
					}
					if got := h.payloadOf(tp2[0]); got != want && v.bad == "" {
						v.bad = fmt.Sprintf("%s: the round trip yields %s; the original value is %s (every widening conversion round-trips: converting back yields the original value)", where, got, want)
					}
				}
			}
		}
	}
	// the type-safe whitelist on boundary values (concrete payloads): what the manager permits is a matter of the
	// two types, not of the value - every permitted widening succeeds for every value of the source type, carries
	// the requested type and equals what the type-unsafe manager returns for the same value
	{
		hs, hu := c.newVxHarness("TypeSafeVariantOperations"), c.newVxHarness("TypeUnsafeVariantOperations")
		v := &opsVerdict{key: "variants.TypeSafeVariantOperations.Convert#whitelist-on-boundary-values"}
		all = append(all, v)
		fs, fu := c.lookupMethod(hs.mgrT, "Convert"), c.lookupMethod(hu.mgrT, "Convert")
		if hs.fault != "" || hu.fault != "" || fs == nil || fu == nil {
			v.undec = hs.fault + hu.fault + " Convert missing"
		} else {
			v.pos = c.Pos(fs.Pos())
			whole := []interface{}{int64(0), int64(1), int64(-1), int64(255), int64(65536), int64(1) << 24, int64(1)<<24 + 1, -(int64(1)<<24 + 1), int64(33554431), int64(123456789), int64(-987654321),
				int64(math.MaxInt32), int64(math.MinInt32), int64(1) << 40, int64(1)<<40 + 1, int64(1) << 53, int64(1)<<53 + 1, -(int64(1)<<53 + 1), int64(math.MaxInt64), int64(math.MinInt64)}
			floats := []interface{}{float64(0), math.Copysign(0, -1), float64(1.5), float64(float32(0.1)), float64(float32(math.MaxFloat32)), float64(float32(math.SmallestNonzeroFloat32)), float64(float32(16777216)), math.Inf(1), math.Inf(-1)}
			one := func(h *vxHarness, f *ssa.Function, t1 string, val interface{}, t2 string) (string, string) {
				h.m.steps = 0
				r, out := h.m.Call(f, h.mgr, h.variant(t1, val), h.vtByNm[t2])
				tp, ok := r.(mTuple)
				switch {
				case out.kind == "panic":
					return "panics: " + out.why, ""
				case out.kind != "ok" || !ok || len(tp) != 2:
					return "", out.why
				}
				if _, isNil := tp[1].(mNilT); !isNil {
					code := errorCode(tp[1])
					if code == "" {
						code = mRender(tp[1])
					}
					return "fails with " + code, ""
				}
				if _, isNil := tp[0].(mNilT); isNil {
					return "returns neither a result nor an error", ""
				}
				return "returns " + h.typeOf(tp[0]) + " " + h.payloadOf(tp[0]), ""
			}
			var srcs []string
			for t1 := range convSafeWhitelist {
				srcs = append(srcs, t1)
			}
			sort.Strings(srcs)
			for _, t1 := range srcs {
				vals := whole
				if t1 == "Float" || t1 == "Double" {
					vals = floats
				}
				for _, t2 := range convSafeWhitelist[t1] {
					for _, val := range vals {
						v.runs++
						where := fmt.Sprintf("Convert(%s %v, %s)", t1, val, t2)
						got, why := one(hs, fs, t1, val, t2)
						ref, whyU := one(hu, fu, t1, val, t2)
						switch {
						case why != "":
							if v.undec == "" {
								v.undec = "TypeSafeVariantOperations." + where + ": " + why
							}
						case !strings.HasPrefix(got, "returns "+t2+" "):
							if v.bad == "" {
								v.bad = fmt.Sprintf("TypeSafeVariantOperations.%s %s; the type-safe manager permits the widening %s to %s, for every %s value, and the result carries exactly the requested type", where, got, t1, t2, t1)
							}
						case whyU != "":
							if v.undec == "" {
								v.undec = "TypeUnsafeVariantOperations." + where + ": " + whyU
							}
						case got != ref:
							if v.bad == "" {
								v.bad = fmt.Sprintf("TypeSafeVariantOperations.%s %s where the type-unsafe manager %s; wherever the type-safe manager succeeds it agrees with the type-unsafe one", where, got, ref)
							}
						}
					}
				}
			}
		}
	}
	wg.Add(1)
	run("TypeUnsafeVariantOperations") // first: its cells are the reference for the agreement clause
	wg.Add(1)
	go run("TypeSafeVariantOperations")
	wg.Wait()
	sort.Slice(all, func(i, j int) bool { return all[i].key < all[j].key })
	convxMemo = all
	return all
}

func init() {
	register(&Rule{ID: "CONV.model", Floor: 24,
		Doc: "Convert of both managers evaluated abstractly for every source × target type on a symbolic payload: requested-type tag, identity for own type / Object, the statement's numeric and temporal conventions as host expressions, the type-safe whitelist and its agreement with the type-unsafe manager, errors elsewhere; every conversion returns its own result object; round trips integer<->long<->double, float->double, boolean<->numeric, integer/long<->time span and integer/long<->date-time on boundary constants (0, ±1, around 2^8, 2^16, 2^31, 2^32, ±2^53; odd millisecond / second counts of both signs whose scaled value lies beyond 2^53, up to the largest representable) succeed and return the original; the type-safe whitelist run on concrete boundary values (odd whole numbers beyond 2^24 and 2^53, int32 / int64 extremes, float extremes) succeeds for every value and equals the type-unsafe result",
		Run: func(c *Ctx) []*Obligation {
			o := newObl("CONV.model")
			for _, v := range c.convxRun() {
				switch {
				case v.bad != "":
					o.bad(v.key, v.pos, v.bad)
				case v.undec != "":
					o.undecided(v.key, v.pos, v.undec)
				default:
					o.ok(v.key, v.pos, fmt.Sprintf("%d conversion cells agree with the statement", v.runs))
				}
			}
			return o.list
		}})
}

var _ = strings.Join

var reInnerWiden = regexp.MustCompile(`conv<([a-zA-Z0-9.]+)>\(conv<int64>\(`)

// normConv: float→integer conversion truncates by itself (math.Trunc is optional); an inner widening to int64 is lossless.
func normConv(e string) string {
	for {
		i := strings.Index(e, "math.Trunc(")
		if i < 0 {
			break
		}
		j := matchingParen(e, i+len("math.Trunc"))
		if j < 0 {
			break
		}
		e = e[:i] + e[i+len("math.Trunc("):j] + e[j+1:]
	}
	for {
		loc := reInnerWiden.FindStringSubmatchIndex(e)
		if loc == nil {
			break
		}
		innerStart := loc[1] - len("conv<int64>(")
		j := matchingParen(e, loc[1]-1)
		if j < 0 {
			break
		}
		e = e[:innerStart] + e[loc[1]:j] + e[j+1:]
	}
	return e
}

// normIntIdentity removes conversions between int and int64 around whole-number expressions of a cell whose
// payload symbols (x, c1, c2) are Integer or Long payloads: both types are 64-bit signed integers on the
// platform the machine models, so such a conversion is the identity whatever it is applied to - a symbol, or
// an expression built from the symbols and integer literals with integer operators. Anything else stays:
// conversions to or from narrower integer types, floating-point conversions, host functions, comparisons.
func normIntIdentity(e string) string {
	for changed := true; changed; {
		changed = false
		// (time.Duration is an int64 by another name: the conversion changes the type tag only)
		for _, pre := range []string{"conv<int64>(", "conv<int>(", "conv<time.Duration>("} {
			for from := 0; ; {
				i := strings.Index(e[from:], pre)
				if i < 0 {
					break
				}
				i += from
				j := matchingParen(e, i+len(pre)-1)
				if j < 0 {
					break
				}
				if inner := e[i+len(pre) : j]; isWholeNumberExpr(inner) {
					e = e[:i] + inner + e[j+1:]
					changed = true
				} else {
					from = i + len(pre)
				}
			}
		}
	}
	return normTree(e)
}

var reWholeAtom = regexp.MustCompile(`^[-^]?(x|c1|c2|[0-9]+)$`)

// isWholeNumberExpr: symbols x / c1 / c2 and integer literals combined by integer operators (as the machine prints them).
func isWholeNumberExpr(e string) bool {
	e = strings.NewReplacer("(", " ", ")", " ").Replace(e)
	fs := strings.Fields(e)
	if len(fs) == 0 {
		return false
	}
	for _, f := range fs {
		switch f {
		case "+", "-", "*", "/", "%", "&", "|", "^", "&^", "<<", ">>":
			continue
		}
		f = strings.TrimLeft(f, "-^")
		if !reWholeAtom.MatchString(f) {
			return false
		}
	}
	return true
}
