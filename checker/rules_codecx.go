package main

import (
	"fmt"
	"os"
	"strings"
	"sync"

	"golang.org/x/tools/go/ssa"
)

// ---------------------------------------------------------------------------------------------
// CODEC.roundtrip (C14): the three quote states evaluated abstractly through EncodeString /
// DecodeString and, for the expression and CSV states, through their tokenizer: decoding the
// encoding of a string gives the string back for every string of a bounded length over {quote,
// other quote, ASCII letter, 2-, 3- and 4-byte characters, space, newline} and both quote
// characters; decoding never panics on any such string; the encoded form placed in a stream is read
// back as exactly one token that decodes to the original.
// ---------------------------------------------------------------------------------------------

var codecStates = []struct{ name, pkg, ctor, tokenizer string }{
	{"generic", "tokenizers/generic", "NewGenericQuoteState", ""},
	{"expression", "calculator/tokenizers", "NewExpressionQuoteState", "expression"},
	{"csv", "csv", "NewCsvQuoteState", "csv"},
}

var codecMemo map[string]*simpleVerdict
var codecMu sync.Mutex

func (c *Ctx) codecRun() map[string]*simpleVerdict {
	codecMu.Lock()
	defer codecMu.Unlock()
	if codecMemo != nil {
		return codecMemo
	}
	maxLen := 4
	if c.Tier == "thorough" {
		maxLen = 5
	}
	res := map[string]*simpleVerdict{}
	var mu sync.Mutex
	var wg sync.WaitGroup
	quotes := []rune{'\'', '"', '«', '「', '😀'}
	for _, st := range codecStates {
		st := st
		alpha := []string{"'", "\"", "«", "a", "é", "€", "😀", " ", "\n"}
		var strs []string
		var rec func(p string, n int)
		rec = func(p string, n int) {
			strs = append(strs, p)
			if n == 0 {
				return
			}
			for _, a := range alpha {
				rec(p+a, n-1)
			}
		}
		rec("", maxLen)
		// the last code points of the Basic Multilingual Plane, the replacement character, NUL and a backslash are text like any other
		strs = append(strs, "a\uffffb", "\uffff", "\ufffe'", "\ufffd\"", "a\x00b", "\\", "a\\'", "\\\\", "x\uffff\uffffy", "'\uffff'")
		nw := 6
		for w := 0; w < nw; w++ {
			wg.Add(1)
			go func(w int) {
				defer wg.Done()
				v := &simpleVerdict{}
				defer func() {
					mu.Lock()
					t := res[st.name]
					if t == nil {
						t = &simpleVerdict{}
						res[st.name] = t
					}
					t.runs += v.runs
					if v.bad != "" && (t.bad == "" || len(v.bad) < len(t.bad)) {
						t.bad = v.bad
					}
					if v.undec != "" && t.undec == "" {
						t.undec = v.undec
					}
					mu.Unlock()
				}()
				ctor := c.MustFunc(st.pkg, "", st.ctor)
				qt := ctor.Signature.Results().At(0).Type()
				var th *tkHarness
				m := newMach(c)
				if st.tokenizer != "" {
					th = c.newTkHarness(st.tokenizer)
					if th.fault != "" {
						v.undec = th.fault
						return
					}
					m = th.m
					if why := th.setOptions(0); why != "" {
						v.undec = why
						return
					}
				}
				// one state object serves every quote character, as the tokenizers use it
				state, out := m.Call(ctor)
				if out.kind != "ok" {
					v.undec = st.ctor + ": " + out.why
					return
				}
				enc := c.lookupMethod(qt, "EncodeString")
				dec := c.lookupMethod(qt, "DecodeString")
				if enc == nil || dec == nil {
					v.undec = "EncodeString/DecodeString not found on " + qt.String()
					return
				}
				for i := w; i < len(strs); i += nw {
					s := strs[i]
					for _, q := range quotes {
						m.steps = 0
						v.runs++
						where := fmt.Sprintf("%s quote state, quote %q, string %q", st.name, string(q), s)
						if i%301 == 0 {
							noteSample("CODEC.roundtrip/"+st.name, where)
						}
						// decoding any string never fails
						if _, out := m.Call(dec, state, s, int64(q)); out.kind == "panic" {
							v.bad = where + ": DecodeString panics: " + out.why
							continue
						} else if out.kind != "ok" {
							v.undec = where + ": DecodeString: " + out.why
							continue
						}
						e, out := m.Call(enc, state, s, int64(q))
						if out.kind == "panic" {
							v.bad = where + ": EncodeString panics: " + out.why
							continue
						}
						es, ok := e.(string)
						if out.kind != "ok" || !ok {
							v.undec = where + ": EncodeString: " + out.why + " " + catRender(e)
							continue
						}
						d, out := m.Call(dec, state, es, int64(q))
						if out.kind == "panic" {
							v.bad = fmt.Sprintf("%s: decoding its encoding %q panics: %s", where, es, out.why)
							continue
						}
						ds, ok := d.(string)
						if out.kind != "ok" || !ok {
							v.undec = where + ": DecodeString of the encoding: " + out.why
							continue
						}
						if ds != s {
							if v.bad == "" || len(where) < 70 {
								v.bad = fmt.Sprintf("%s: encodes to %q, which decodes to %q", where, es, ds)
							}
							continue
						}
						// the encoded form in a stream is exactly one token (the CSV tokenizer is configured with the quote
						// character through SetQuoteSymbols; the expression tokenizer knows ' and ")
						if th == nil {
							continue
						}
						if st.tokenizer == "csv" {
							if q == '😀' {
								continue // outside the range the tokenizer is configured for (up to U+FFFE)
							}
							if _, out := th.call("SetQuoteSymbols", mSlice{[]mv{int64(q)}}); out.kind != "ok" {
								v.undec = where + ": SetQuoteSymbols: " + out.why
								continue
							}
						} else if q != '"' && q != '\'' {
							continue
						}
						r := th.tokenize(es)
						switch {
						case r.kind == "panic":
							v.bad = fmt.Sprintf("%s: tokenizing its encoding %q panics: %s", where, es, r.why)
						case r.kind != "ok":
							v.undec = where + ": tokenizing the encoding: " + r.why
						case len(r.toks) != 2 || r.toks[1].typ != "Eof" || r.toks[0].val != es:
							if v.bad == "" {
								v.bad = fmt.Sprintf("%s: its encoding %q in a stream is read back as [%s], not as one token", where, es, renderToks(r.toks))
							}
						}
					}
				}
				c.codecStreams(st.name, st.tokenizer, th, state, enc, w, nw, v)
			}(w)
		}
	}
	wg.Wait()
	codecMemo = res
	return res
}

// codecStreams: the stream clause beyond the bare encoding. (1) CSV state: the tokenizer has a configuration
// (separators ; | tab blank, several of them, a non-Latin one; one or two quote symbols) and the encoded value
// stands alone and between two fields of a row, joined by the configuration's separators; the values are made
// of the configured characters, the default ones and a letter. (2) expression and CSV states: long streams -
// values of 4 to 13 KB of 2-, 3- and 4-byte characters behind 0 to 3 ASCII letters, so that the characters
// fall on every byte alignment. Each time the value comes back as exactly one token that decodes to it.
func (c *Ctx) codecStreams(name, kind string, th *tkHarness, state mv, enc *ssa.Function, w, nw int, v *simpleVerdict) {
	if th == nil || v.undec != "" {
		return
	}
	m := th.m
	if why := th.setOptions(1 << 6); why != "" { // DecodeStrings
		v.undec = why
		return
	}
	defer th.setOptions(0)
	encode := func(where, s string, q rune) (string, bool) {
		m.steps = 0
		e, out := m.Call(enc, state, s, int64(q))
		if out.kind == "panic" {
			v.bad = where + ": EncodeString panics: " + out.why
			return "", false
		}
		es, ok := e.(string)
		if out.kind != "ok" || !ok {
			v.undec = where + ": EncodeString: " + out.why + " " + catRender(e)
			return "", false
		}
		return es, true
	}
	n := 0
	mine := func() bool { n++; return n%nw == w }
	if kind == "csv" {
		runes := func(rs []rune) mv {
			arr := make([]mv, len(rs))
			for i, r := range rs {
				arr[i] = int64(r)
			}
			return mSlice{arr}
		}
		for _, seps := range [][]rune{{';'}, {'|'}, {'\t'}, {' '}, {',', ';', '|'}, {'\t', ' '}, {'、'}} {
			for _, qs := range [][]rune{{'"'}, {'\''}, {'"', '\''}, {'\'', '"'}, {'«', '"'}} {
				if !mine() {
					continue
				}
				cfg := fmt.Sprintf("CSV quote state, tokenizer configured with separators %q and quote symbols %q", string(seps), string(qs))
				// the setters are called in an order that never makes a separator equal to a configured quote
				for _, step := range []struct {
					f  string
					rs []rune
				}{{"SetQuoteSymbols", []rune{'\x01'}}, {"SetFieldSeparators", seps}, {"SetQuoteSymbols", qs}} {
					if _, out := th.call(step.f, runes(step.rs)); out.kind != "ok" {
						v.undec = fmt.Sprintf("%s: %s(%q): %s %s", cfg, step.f, string(step.rs), out.kind, out.why)
						return
					}
				}
				alpha := []string{"a", " "}
				for _, r := range append(append(append([]rune{}, seps...), qs...), ',', '"') {
					if a := string(r); !strings.Contains(strings.Join(alpha, ""), a) {
						alpha = append(alpha, a)
					}
				}
				vals := []string{""}
				for _, a := range alpha {
					vals = append(vals, a)
					for _, b := range alpha {
						vals = append(vals, a+b, "a"+a+b, a+"a"+b, a+b+"a")
					}
				}
				for vi, s := range vals {
					q := qs[vi%len(qs)]
					where := fmt.Sprintf("%s, quote %q, string %q", cfg, string(q), s)
					es, ok := encode(where, s, q)
					if !ok {
						continue
					}
					sep := string(seps[vi%len(seps)])
					sep2 := string(seps[(vi/len(seps))%len(seps)])
					for _, st := range []struct {
						text string
						want []string
					}{{es, []string{s, ""}}, {"x" + sep + es + sep2 + "y", []string{"x", sep, s, sep2, "y", ""}}} {
						v.runs++
						r := th.tokenize(st.text)
						got := []string{}
						for _, t := range r.toks {
							got = append(got, t.val)
						}
						switch {
						case r.kind == "panic":
							v.bad = fmt.Sprintf("%s: tokenizing the stream %q that holds its encoding %q panics: %s", where, st.text, es, r.why)
						case r.kind != "ok":
							v.undec = where + ": tokenizing the stream: " + r.why
						case fmt.Sprintf("%q", got) != fmt.Sprintf("%q", st.want):
							if v.bad == "" || len(where) < 110 {
								v.bad = fmt.Sprintf("%s: its encoding %q placed in the stream %q is read back (string decoding on) as [%s]; the statement requires exactly one token for it, with the decoded value %q (values %q)", where, es, st.text, renderToks(r.toks), s, st.want)
							}
						}
					}
				}
			}
		}
		// back to the default configuration
		for _, step := range []struct {
			f  string
			rs []rune
		}{{"SetQuoteSymbols", []rune{'\x01'}}, {"SetFieldSeparators", []rune{','}}, {"SetQuoteSymbols", []rune{'"'}}} {
			th.call(step.f, runes(step.rs))
		}
	}
	// long streams
	type long struct {
		unit string
		pad  int
		size int // bytes, about
	}
	var longs []long
	units := []string{"é", "€", "😀", "é€😀", "ж\uffee"}
	for ui, unit := range units {
		for pad := 0; pad < 4; pad++ {
			switch {
			case c.Tier == "thorough":
				longs = append(longs, long{unit, pad, 4200 + 300*pad}, long{unit, pad, []int{8300, 9000, 12400, 13000}[(ui+pad)%4]})
			case (ui+pad)%4 == 0 && ui < 4:
				longs = append(longs, long{unit, pad, 4200})
			}
		}
	}
	saved := m.maxSteps
	defer func() { m.maxSteps = saved }()
	for li, l := range longs {
		if !mine() {
			continue
		}
		s := "abc"[:l.pad] + strings.Repeat(l.unit, l.size/len(l.unit))
		q := []rune{'\'', '"'}[li%2]
		if kind == "csv" {
			q = '"'
		}
		where := fmt.Sprintf("%s quote state, quote %q, string of %d bytes: %q followed by %d times %q", name, string(q), len(s), "abc"[:l.pad], l.size/len(l.unit), l.unit)
		m.maxSteps = 400000000
		es, ok := encode(where, s, q)
		if !ok {
			continue
		}
		v.runs++
		r := th.tokenize(es)
		if os.Getenv("MACHDEBUG") != "" {
			fmt.Fprintf(os.Stderr, "%s: %d steps\n", where, m.steps)
		}
		switch {
		case r.kind == "panic":
			v.bad = fmt.Sprintf("%s: tokenizing its encoding panics: %s", where, r.why)
		case r.kind != "ok":
			v.undec = where + ": tokenizing the encoding: " + r.why
		case len(r.toks) != 2 || r.toks[1].typ != "Eof":
			if v.bad == "" {
				v.bad = fmt.Sprintf("%s: its encoding in a stream is read back as %d tokens, not as one token", where, len(r.toks)-1)
			}
		case r.toks[0].val != s:
			if v.bad == "" || len(where) < 110 {
				got := []rune(r.toks[0].val)
				want := []rune(s)
				i := 0
				for i < len(got) && i < len(want) && got[i] == want[i] {
					i++
				}
				j := i + 4
				if j > len(got) {
					j = len(got)
				}
				v.bad = fmt.Sprintf("%s: its encoding in a stream is read back (string decoding on) as one token whose value has %d characters instead of %d and departs from the string at character %d (%q...), near byte %d of the stream", where, len(got), len(want), i, string(got[i:j]), 1+len(string(want[:i])))
			}
		}
	}
}

func init() {
	register(&Rule{ID: "CODEC.roundtrip", Floor: 3,
		Doc: "the generic, expression and CSV quote states evaluated abstractly: DecodeString(EncodeString(s,q),q)=s and no decode panics, for every string up to a bounded length over {quote, other quote, letter, 2-/3-/4-byte characters, space, newline} and five quote characters (ASCII, Latin-1, non-Latin, astral) served by one state object; for the expression and CSV states the encoding is read back from a stream as exactly one token",
		Run: func(c *Ctx) []*Obligation {
			o := newObl("CODEC.roundtrip")
			res := c.codecRun()
			for _, st := range codecStates {
				v := res[st.name]
				if v == nil {
					v = &simpleVerdict{}
				}
				o.list = append(o.list, emitSimple(c, "CODEC.roundtrip", st.pkg+"."+st.ctor[3:]+"#decode-inverts-encode", c.Pos(c.MustFunc(st.pkg, "", st.ctor).Pos()), v, "decode(encode(s)) = s, decode total, one token per encoded string")...)
			}
			return o.list
		}})
}
