package main

import (
	"fmt"
	"sync"
)

// ---------------------------------------------------------------------------------------------
// CODEC.roundtrip (C14): the three quote states evaluated abstractly through EncodeString /
// DecodeString and, for the expression and CSV states, through their tokenizer: decoding the
// encoding of a string gives the string back for every string of a bounded length over {quote,
// other quote, ASCII letter, 2-, 3- and 4-byte characters, space, newline} and both quote
// characters; decoding never panics on any such string; the encoded form placed in a stream is read
// back as exactly one token that decodes to the original.
// ---------------------------------------------------------------------------------------------

var codecStates = []struct{ name, pkg, ctor, tokenizer string }{
	{"generic", "tokenizers/generic", "NewGenericQuoteState", ""},
	{"expression", "calculator/tokenizers", "NewExpressionQuoteState", "expression"},
	{"csv", "csv", "NewCsvQuoteState", "csv"},
}

var codecMemo map[string]*simpleVerdict
var codecMu sync.Mutex

func (c *Ctx) codecRun() map[string]*simpleVerdict {
	codecMu.Lock()
	defer codecMu.Unlock()
	if codecMemo != nil {
		return codecMemo
	}
	maxLen := 4
	if c.Tier == "thorough" {
		maxLen = 5
	}
	res := map[string]*simpleVerdict{}
	var mu sync.Mutex
	var wg sync.WaitGroup
	quotes := []rune{'\'', '"', '«', '「', '😀'}
	for _, st := range codecStates {
		st := st
		alpha := []string{"'", "\"", "«", "a", "é", "€", "😀", " ", "\n"}
		var strs []string
		var rec func(p string, n int)
		rec = func(p string, n int) {
			strs = append(strs, p)
			if n == 0 {
				return
			}
			for _, a := range alpha {
				rec(p+a, n-1)
			}
		}
		rec("", maxLen)
		// the last code points of the Basic Multilingual Plane, the replacement character, NUL and a backslash are text like any other
		strs = append(strs, "a\uffffb", "\uffff", "\ufffe'", "\ufffd\"", "a\x00b", "\\", "a\\'", "\\\\", "x\uffff\uffffy", "'\uffff'")
		nw := 6
		for w := 0; w < nw; w++ {
			wg.Add(1)
			go func(w int) {
				defer wg.Done()
				v := &simpleVerdict{}
				defer func() {
					mu.Lock()
					t := res[st.name]
					if t == nil {
						t = &simpleVerdict{}
						res[st.name] = t
					}
					t.runs += v.runs
					if v.bad != "" && (t.bad == "" || len(v.bad) < len(t.bad)) {
						t.bad = v.bad
					}
					if v.undec != "" && t.undec == "" {
						t.undec = v.undec
					}
					mu.Unlock()
				}()
				ctor := c.MustFunc(st.pkg, "", st.ctor)
				qt := ctor.Signature.Results().At(0).Type()
				var th *tkHarness
				m := newMach(c)
				if st.tokenizer != "" {
					th = c.newTkHarness(st.tokenizer)
					if th.fault != "" {
						v.undec = th.fault
						return
					}
					m = th.m
					if why := th.setOptions(0); why != "" {
						v.undec = why
						return
					}
				}
				// one state object serves every quote character, as the tokenizers use it
				state, out := m.Call(ctor)
				if out.kind != "ok" {
					v.undec = st.ctor + ": " + out.why
					return
				}
				enc := c.lookupMethod(qt, "EncodeString")
				dec := c.lookupMethod(qt, "DecodeString")
				if enc == nil || dec == nil {
					v.undec = "EncodeString/DecodeString not found on " + qt.String()
					return
				}
				for i := w; i < len(strs); i += nw {
					s := strs[i]
					for _, q := range quotes {
						m.steps = 0
						v.runs++
						where := fmt.Sprintf("%s quote state, quote %q, string %q", st.name, string(q), s)
						if i%301 == 0 {
							noteSample("CODEC.roundtrip/"+st.name, where)
						}
						// decoding any string never fails
						if _, out := m.Call(dec, state, s, int64(q)); out.kind == "panic" {
							v.bad = where + ": DecodeString panics: " + out.why
							continue
						} else if out.kind != "ok" {
							v.undec = where + ": DecodeString: " + out.why
							continue
						}
						e, out := m.Call(enc, state, s, int64(q))
						if out.kind == "panic" {
							v.bad = where + ": EncodeString panics: " + out.why
							continue
						}
						es, ok := e.(string)
						if out.kind != "ok" || !ok {
							v.undec = where + ": EncodeString: " + out.why + " " + catRender(e)
							continue
						}
						d, out := m.Call(dec, state, es, int64(q))
						if out.kind == "panic" {
							v.bad = fmt.Sprintf("%s: decoding its encoding %q panics: %s", where, es, out.why)
							continue
						}
						ds, ok := d.(string)
						if out.kind != "ok" || !ok {
							v.undec = where + ": DecodeString of the encoding: " + out.why
							continue
						}
						if ds != s {
							if v.bad == "" || len(where) < 70 {
								v.bad = fmt.Sprintf("%s: encodes to %q, which decodes to %q", where, es, ds)
							}
							continue
						}
						// the encoded form in a stream is exactly one token (the CSV tokenizer is configured with the quote
						// character through SetQuoteSymbols; the expression tokenizer knows ' and ")
						if th == nil {
							continue
						}
						if st.tokenizer == "csv" {
							if q == '😀' {
								continue // outside the range the tokenizer is configured for (up to U+FFFE)
							}
							if _, out := th.call("SetQuoteSymbols", mSlice{[]mv{int64(q)}}); out.kind != "ok" {
								v.undec = where + ": SetQuoteSymbols: " + out.why
								continue
							}
						} else if q != '"' && q != '\'' {
							continue
						}
						r := th.tokenize(es)
						switch {
						case r.kind == "panic":
							v.bad = fmt.Sprintf("%s: tokenizing its encoding %q panics: %s", where, es, r.why)
						case r.kind != "ok":
							v.undec = where + ": tokenizing the encoding: " + r.why
						case len(r.toks) != 2 || r.toks[1].typ != "Eof" || r.toks[0].val != es:
							if v.bad == "" {
								v.bad = fmt.Sprintf("%s: its encoding %q in a stream is read back as [%s], not as one token", where, es, renderToks(r.toks))
							}
						}
					}
				}
			}(w)
		}
	}
	wg.Wait()
	codecMemo = res
	return res
}

func init() {
	register(&Rule{ID: "CODEC.roundtrip", Floor: 3,
		Doc: "the generic, expression and CSV quote states evaluated abstractly: DecodeString(EncodeString(s,q),q)=s and no decode panics, for every string up to a bounded length over {quote, other quote, letter, 2-/3-/4-byte characters, space, newline} and five quote characters (ASCII, Latin-1, non-Latin, astral) served by one state object; for the expression and CSV states the encoding is read back from a stream as exactly one token",
		Run: func(c *Ctx) []*Obligation {
			o := newObl("CODEC.roundtrip")
			res := c.codecRun()
			for _, st := range codecStates {
				v := res[st.name]
				if v == nil {
					v = &simpleVerdict{}
				}
				o.list = append(o.list, emitSimple(c, "CODEC.roundtrip", st.pkg+"."+st.ctor[3:]+"#decode-inverts-encode", c.Pos(c.MustFunc(st.pkg, "", st.ctor).Pos()), v, "decode(encode(s)) = s, decode total, one token per encoded string")...)
			}
			return o.list
		}})
}
