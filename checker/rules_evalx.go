package main

import (
	"fmt"
	"sort"
	"strings"
	"sync"
)

// ---------------------------------------------------------------------------------------------
// EVAL.realops (C19): the calculator with its REAL operations managers (GRAM.eval drives it with an
// opaque one and so never enters them), and the managers called directly.
//
// A calculator evaluates mixed-type expressions whose operands need conversions (Integer + String,
// Boolean and String operands of arithmetic, functions of a String …) several times, with the host
// changing a variable's Variant in place between two evaluations (SetAsString / SetAsDouble / … on the
// same object in the same collection), or evaluating under another variable set in between: every
// answer must be the one a calculator that has never evaluated anything gives for the values the
// variables hold at that moment ("evaluating again with equal inputs returns an equal result, any
// number of times and interleaved with evaluations under other variable sets"), and nothing reachable
// from the calculator instance - its operations object included - may differ after an evaluation
// (state written during an evaluation is what concurrent evaluations of one instance race on).
// The same for the managers on their own: Convert and the operators leave the manager object unchanged
// and answer by the present value of their operands.
// ---------------------------------------------------------------------------------------------

// evxVal: a value of a variable; evxStep: the variable's Variant is set to it in place.
type evxVal struct {
	typ     string
	payload interface{}
}

func (v evxVal) String() string {
	switch p := v.payload.(type) {
	case nil:
		return v.typ
	case lit:
		return fmt.Sprintf("%s %q", v.typ, string(p))
	default:
		return fmt.Sprintf("%s %v", v.typ, p)
	}
}

// setInPlace stores the value in an existing variant through the exported setter of its type.
func (h *vxHarness) setInPlace(variant mv, v evxVal) mOutcome {
	vt := resultType(h.c.MustFunc(pkgVariants, "", "EmptyVariant"))
	var arg mv = v.payload
	if l, ok := v.payload.(lit); ok {
		arg = string(l)
	}
	if v.typ == "Null" {
		_, out := callM(h.c, h.m, vt, "Clear", variant)
		return out
	}
	_, out := callM(h.c, h.m, vt, "SetAs"+v.typ, variant, arg)
	return out
}

// evxCalc: one calculator on a harness's machine.
type evxCalc struct {
	h    *vxHarness
	calc mv
}

func (h *vxHarness) newEvxCalc(manager string) (*evxCalc, string) {
	c := h.c
	cctor := c.MustFunc(pkgCalc, "", "NewExpressionCalculator")
	calc, out := h.m.Call(cctor)
	if out.kind != "ok" {
		return nil, "NewExpressionCalculator: " + out.why
	}
	if manager != "" {
		mctor := c.MustFunc(pkgVariants, "", "New"+manager)
		ops, out := h.m.Call(mctor)
		if out.kind != "ok" {
			return nil, mctor.Name() + ": " + out.why
		}
		if _, out := callM(c, h.m, resultType(cctor), "SetVariantOperations", calc, mIface{t: resultType(mctor), v: ops}); out.kind != "ok" {
			return nil, "SetVariantOperations: " + out.why
		}
	}
	return &evxCalc{h: h, calc: calc}, ""
}

func (k *evxCalc) setTokens(expr string) mOutcome {
	c, m := k.h.c, k.h.m
	newTok := c.MustFunc("tokenizers", "", "NewToken")
	var toks []mv
	for i, l := range lexemes(expr) {
		tt, _ := c.constByName("tokenizers", l.typ)
		t, _ := m.Call(newTok, tt, l.text, int64(1), int64(i+1))
		toks = append(toks, t)
	}
	m.steps = 0
	_, out := callM(c, m, resultType(c.MustFunc(pkgCalc, "", "NewExpressionCalculator")), "SetOriginalTokens", k.calc, mSlice{toks})
	return out
}

// variables builds a collection holding one fresh variant per name; the variants are returned by name.
func (h *vxHarness) evxVariables(names []string, vals map[string]evxVal) (mv, map[string]mv) {
	c, m := h.c, h.m
	vc := c.MustFunc("calculator/variables", "", "NewVariableCollection")
	newVar := c.MustFunc("calculator/variables", "", "NewVariable")
	vars, _ := m.Call(vc)
	held := map[string]mv{}
	for _, n := range names {
		held[n] = h.variant(vals[n].typ, vals[n].payload)
		vr, _ := m.Call(newVar, n, held[n])
		callM(c, m, resultType(vc), "Add", vars, mIface{t: resultType(newVar), v: vr})
	}
	return mIface{t: resultType(vc), v: vars}, held
}

// evaluate: "Type payload", "error CODE", or "" with the reason the run left the model / panicked.
func (k *evxCalc) evaluate(vars mv) (string, string) {
	c, m := k.h.c, k.h.m
	m.steps = 0
	r, out := callM(c, m, resultType(c.MustFunc(pkgCalc, "", "NewExpressionCalculator")), "EvaluateUsingVariables", k.calc, vars)
	return k.h.renderResult(r, out)
}

func (h *vxHarness) renderResult(r mv, out mOutcome) (string, string) {
	tp, ok := r.(mTuple)
	switch {
	case out.kind == "panic":
		return "panic: " + out.why, ""
	case out.kind != "ok" || !ok || len(tp) != 2:
		return "", out.why
	}
	if _, isNil := tp[1].(mNilT); !isNil {
		code := errorCode(tp[1])
		if code == "" {
			code = mRender(tp[1])
		}
		return "error " + code, ""
	}
	if _, isNil := tp[0].(mNilT); isNil {
		return "neither a result nor an error", ""
	}
	tag := h.typeOf(tp[0])
	if tag == "Null" {
		return "Null", ""
	}
	return tag + " " + h.payloadOf(tp[0]), ""
}

var evxMemo []*opsVerdict
var evxMu sync.Mutex

func (c *Ctx) evxRun() []*opsVerdict {
	evxMu.Lock()
	defer evxMu.Unlock()
	if evxMemo != nil {
		return evxMemo
	}
	// the other variables of the expressions
	base := map[string]evxVal{"k": {"Integer", int64(1)}, "d": {"Double", float64(0.5)}, "s": {"String", lit("z")}, "b": {"Boolean", true}}
	// expressions in which x meets an operand (variable or literal) of another type, on either side, or a function
	exprs := []string{"k + x", "x + k", "d * x", "x * d", "k - x", "x - d", "s + x", "x + s", "k = x", "x = k", "x <> s", "k < x", "x >= d", "b AND x", "x OR b", "b XOR x",
		"- x", "NOT x", "x IS NULL", "k IN Array ( x , d )", "Array ( k , s ) [ x ]", "Abs ( x )", "Min ( k , x )", "Max ( x , d )", "Sum ( k , x , d )", "If ( x , k , d )",
		"1 + x", "x * 2", "x = 1", "'z' + x", "x + 'z'", "TRUE AND x", "x ^ k", "k ^ x", "x << k", "k / x", "k + x * d", "Sqrt ( x ) + k"}
	// histories of x: the value it holds at the first evaluation and what the host then stores in the same Variant
	histories := [][]evxVal{
		{{"String", lit("5")}, {"String", lit("7")}},
		{{"String", lit("5")}, {"Double", float64(2.5)}},
		{{"String", lit("true")}, {"String", lit("false")}},
		{{"Boolean", true}, {"Boolean", false}},
		{{"Boolean", true}, {"Integer", int64(4)}},
		{{"Integer", int64(3)}, {"Long", int64(4)}},
		{{"Integer", int64(3)}, {"Integer", int64(0)}},
		{{"Long", int64(9)}, {"String", lit("2")}},
		{{"Double", float64(1.5)}, {"String", lit("2")}},
		{{"Float", float64(1.5)}, {"Float", float64(-2)}},
		{{"TimeSpan", int64(1500000)}, {"Long", int64(2)}},
		{{"Null", nil}, {"Integer", int64(2)}},
		{{"Integer", int64(2)}, {"Null", nil}},
	}
	if c.Tier != "thorough" {
		histories = [][]evxVal{histories[0], histories[1], histories[4], histories[5], histories[8], histories[11]}
	}
	setups := []struct{ label, manager string }{{"a calculator with its default operations", ""}, {"a calculator given NewTypeUnsafeVariantOperations()", "TypeUnsafeVariantOperations"}, {"a calculator given NewTypeSafeVariantOperations()", "TypeSafeVariantOperations"}}
	var all []*opsVerdict
	var mu sync.Mutex
	var wg sync.WaitGroup
	pos := c.Pos(c.MustFunc(pkgCalc, "ExpressionCalculator", "EvaluateUsingVariables").Pos())
	for _, su := range setups {
		su := su
		name := su.manager
		if name == "" {
			name = "default"
		}
		vRes := &opsVerdict{key: "calculator.ExpressionCalculator#real-operations#" + name + "#answers-by-present-values", pos: pos}
		vInst := &opsVerdict{key: "calculator.ExpressionCalculator#real-operations#" + name + "#instance-unchanged", pos: pos}
		all = append(all, vRes, vInst)
		wg.Add(1)
		go func() {
			defer wg.Done()
			defer func() {
				if r := recover(); r != nil {
					a, ok := r.(mAbort)
					if !ok {
						panic(r)
					}
					mu.Lock()
					vRes.undec, vInst.undec = a.why, a.why
					mu.Unlock()
				}
			}()
			used, ref := c.newVxHarness("TypeUnsafeVariantOperations"), c.newVxHarness("TypeUnsafeVariantOperations")
			if used.fault != "" || ref.fault != "" {
				vRes.undec, vInst.undec = used.fault+ref.fault, used.fault+ref.fault
				return
			}
			calcT := resultType(c.MustFunc(pkgCalc, "", "NewExpressionCalculator"))
			// fresh: what a calculator that never evaluated anything answers, on a machine of its own
			freshMemo := map[string][2]string{}
			fresh := func(expr string, names []string, vals map[string]evxVal) (res string, why string) {
				key := expr
				for _, n := range names {
					key += "|" + n + "=" + vals[n].String()
				}
				if r, ok := freshMemo[key]; ok {
					return r[0], r[1]
				}
				defer func() { freshMemo[key] = [2]string{res, why} }()
				k, why := ref.newEvxCalc(su.manager)
				if k == nil {
					return "", why
				}
				if out := k.setTokens(expr); out.kind != "ok" {
					return "", "SetOriginalTokens: " + out.why
				}
				vars, _ := ref.evxVariables(names, vals)
				return k.evaluate(vars)
			}
			// one calculator serves the whole family, as a host's would: expression after expression, evaluation after evaluation
			k, why := used.newEvxCalc(su.manager)
			if k == nil {
				vRes.undec, vInst.undec = why, why
				return
			}
			for _, expr := range exprs {
				var names []string
				for _, l := range lexemes(expr) {
					if _, ok := base[l.text]; (ok || l.text == "x") && l.typ == "Word" {
						names = append(names, l.text)
					}
				}
				if out := k.setTokens(expr); out.kind != "ok" {
					continue // not a sentence for this calculator: nothing to evaluate
				}
				for hi, hist := range histories {
					vals := map[string]evxVal{"x": hist[0]}
					for n, bv := range base {
						vals[n] = bv
					}
					vars, held := used.evxVariables(names, vals)
					told := fmt.Sprintf("x = %s", hist[0])
					// one evaluation on the used calculator: the answer, compared with a fresh calculator's; the instance before and after
					step := func(what string) bool {
						fields := mFieldFingerprints(k.calc)
						got, why := k.evaluate(vars)
						if why != "" {
							return false // outside the model: this history says nothing
						}
						vInst.runs++
						if after := mFieldFingerprints(k.calc); strings.Join(after, " ") != strings.Join(fields, " ") && vInst.bad == "" {
							vInst.bad = fmt.Sprintf("%s evaluating ‹%s› (%s; k = Integer 1, d = Double 0.5, s = String \"z\", b = Boolean true) is not the same afterwards: state reachable from its field %s differs (the operations object is part of the instance). Evaluation must not modify the compiled program, its constants or anything else the instance shares between evaluations: concurrent evaluations of one parsed instance write that state unsynchronised",
								su.label, expr, told, strings.Join(changedFields(calcT, fields, mFieldFingerprints(k.calc)), ", "))
						}
						want, whyF := fresh(expr, names, vals)
						if whyF != "" {
							return false
						}
						vRes.runs++
						if got != want && vRes.bad == "" {
							vRes.bad = fmt.Sprintf("%s evaluating ‹%s› %s answers %s; a calculator that has not evaluated anything before answers %s for the same values (k = Integer 1, d = Double 0.5, s = String \"z\", b = Boolean true): the result depends on earlier evaluations, not on the inputs only", su.label, expr, what, got, want)
						}
						return true
					}
					if !step("with " + told) {
						continue
					}
					if !step("a second time with " + told) {
						continue
					}
					// the host changes the variable in place: same Variant object, same collection
					if out := used.setInPlace(held["x"], hist[1]); out.kind != "ok" {
						continue
					}
					vals["x"] = hist[1]
					was := told
					told = fmt.Sprintf("x = %s", hist[1])
					if !step(fmt.Sprintf("after an evaluation with %s and the host then storing %s in the same Variant (in place)", was, hist[1])) {
						continue
					}
					// interleaved with another variable set (other objects, other values), then the first set again
					if hi%3 == 0 {
						otherVals := map[string]evxVal{"x": hist[0], "k": {"Integer", int64(10)}, "d": {"Double", float64(4)}, "s": {"String", lit("w")}, "b": {"Boolean", false}}
						mine, mineVals := vars, vals
						vars, _ = used.evxVariables(names, otherVals)
						vals = otherVals
						if step("under a second variable set (k = 10, d = 4, s = \"w\", b = false, " + fmt.Sprintf("x = %s", hist[0]) + ") after evaluations under the first") {
							vars, vals = mine, mineVals
							step("under its first variable set again (" + told + ") after an evaluation under another set")
						}
					}
				}
			}
		}()
	}
	// ---- evaluations of one instance inside one another ---------------------------------------------------
	// "... any number of times and interleaved with evaluations under other variable sets": the tightest interleaving
	// one goroutine can produce. The caller's function collection holds a function F (a DelegatedFunction around a
	// closure of the caller) which, for an argument n > 0, evaluates THE SAME calculator instance with a variable
	// collection of its own (x = n; k = 1 and t = 10 as everywhere) and the same functions, and returns that value; F(n) = 0 for n <= 0. The outer
	// evaluation is under way while the inner ones begin and end. Every evaluation must return, and return what the
	// evaluations give one after the other: the value of the expression with F(n) replaced by the value for x = n.
	type nestCase struct {
		expr string
		val  func(x int64, f func(int64) int64) int64
	}
	nestCases := []nestCase{
		{"F ( x - k ) + x", func(x int64, f func(int64) int64) int64 { return f(x-1) + x }},
		{"x + F ( x - k )", func(x int64, f func(int64) int64) int64 { return x + f(x-1) }},
		{"F ( x - k ) * ( k + k ) + F ( x - k - k )", func(x int64, f func(int64) int64) int64 { return f(x-1)*2 + f(x-2) }},
		{"x * t - F ( x - k - k ) * F ( x - k )", func(x int64, f func(int64) int64) int64 { return x*10 - f(x-2)*f(x-1) }},
	}
	for _, su := range setups {
		su := su
		name := su.manager
		if name == "" {
			name = "default"
		}
		v := &opsVerdict{key: "calculator.ExpressionCalculator#real-operations#" + name + "#evaluations-inside-one-another", pos: c.Pos(c.MustFunc(pkgCalc, "ExpressionCalculator", "EvaluateUsingVariablesAndFunctions").Pos())}
		all = append(all, v)
		wg.Add(1)
		go func() {
			defer wg.Done()
			defer func() {
				if r := recover(); r != nil {
					a, ok := r.(mAbort)
					if !ok {
						panic(r)
					}
					v.undec = a.why
				}
			}()
			h := c.newVxHarness("TypeUnsafeVariantOperations")
			if h.fault != "" {
				v.undec = h.fault
				return
			}
			m := h.m
			calcT := resultType(c.MustFunc(pkgCalc, "", "NewExpressionCalculator"))
			fcctor := c.MustFunc(pkgFunctions, "", "NewFunctionCollection")
			newFn := c.MustFunc(pkgFunctions, "", "NewDelegatedFunction")
			for _, nc := range nestCases {
				k, why := h.newEvxCalc(su.manager)
				if k == nil {
					v.undec = why
					return
				}
				if out := k.setTokens(nc.expr); out.kind != "ok" {
					v.undec = fmt.Sprintf("SetOriginalTokens ‹%s›: %s", nc.expr, out.why)
					continue
				}
				fcol, out := m.Call(fcctor)
				if out.kind != "ok" {
					v.undec = "NewFunctionCollection: " + out.why
					return
				}
				funcs := mIface{t: resultType(fcctor), v: fcol}
				var trace []string
				evalWith := func(x int64) (mv, mOutcome) {
					vars, _ := h.evxVariables([]string{"x", "k", "t"}, map[string]evxVal{"x": {"Integer", x}, "k": {"Integer", int64(1)}, "t": {"Integer", int64(10)}})
					return callM(c, m, calcT, "EvaluateUsingVariablesAndFunctions", k.calc, vars, funcs)
				}
				m.symFunc = func(m *mach, f *mSym, args []mv) (mv, bool) {
					if f.name != "evaluates-the-same-calculator" || len(args) < 1 {
						return nil, false
					}
					ps, ok := args[0].(mSlice)
					if !ok || len(ps.arr) != 1 || h.typeOf(ps.arr[0]) != "Integer" {
						m.abort("F called with %s", mRender(args[0]))
					}
					var n int64
					if _, err := fmt.Sscan(h.payloadOf(ps.arr[0]), &n); err != nil {
						m.abort("F called with %s", mRender(args[0]))
					}
					if n <= 0 {
						return mTuple{h.variant("Integer", int64(0)), mNil}, true
					}
					trace = append(trace, fmt.Sprintf("F(%d) begins an evaluation of the same calculator with x = %d", n, n))
					r, out := evalWith(n)
					if out.kind != "ok" {
						// the inner evaluation did not return: neither does the outer one
						m.abort("%s", out.why)
					}
					trace = append(trace, fmt.Sprintf("the evaluation with x = %d returns", n))
					return r, true
				}
				item, out := m.Call(newFn, "F", &mSym{name: "evaluates-the-same-calculator", nonNil: true})
				if out.kind == "ok" {
					_, out = callM(c, m, resultType(fcctor), "Add", fcol, mIface{t: resultType(newFn), v: item})
				}
				if out.kind != "ok" {
					v.undec = "NewDelegatedFunction / Add: " + out.why
					m.symFunc = nil
					return
				}
				var want func(x int64) int64
				want = func(x int64) int64 {
					return nc.val(x, func(n int64) int64 {
						if n <= 0 {
							return 0
						}
						return want(n)
					})
				}
				for x := int64(0); x <= 4; x++ {
					m.steps = 0
					trace = trace[:0]
					r, out := evalWith(x)
					where := fmt.Sprintf("%s, expression ‹%s›, a function collection whose F(n) evaluates the same calculator with its own variable collection (x = n, k = 1, t = 10; F(n) = 0 for n <= 0), evaluated with x = %d, k = 1, t = 10", su.label, nc.expr, x)
					if x == 2 {
						noteSample("EVAL.realops/evaluations-inside-one-another", where)
					}
					if out.kind != "ok" && strings.HasPrefix(out.why, deadlockPrefix) {
						if v.bad == "" {
							v.bad = fmt.Sprintf("%s: the evaluation never returns (%s; %s). Evaluations of one parsed instance may be interleaved with evaluations under other variable sets: each returns its sequential result (here Integer %d)", where, strings.Join(trace, ", "), out.why, want(x))
						}
						continue
					}
					got, why := h.renderResult(r, out)
					if why != "" {
						v.undec = where + ": " + why
						continue
					}
					v.runs++
					if w := fmt.Sprintf("Integer %d", want(x)); got != w && v.bad == "" {
						v.bad = fmt.Sprintf("%s answers %s; the evaluations one after the other give %s", where, got, w)
					}
				}
				m.symFunc = nil
			}
		}()
	}
	// ---- a collection that took part in evaluations and is then edited by its owner ----------------------
	// "Evaluating ... does not modify ... the variable values": an evaluation leaves nothing behind in the
	// variable collection. One collection (p = 2, q = 3, r = 5, s = 7, in that order) is used in an evaluation,
	// then its owner edits it through the exported API (one edit, or two with an evaluation in between), and
	// every expression of a small family is evaluated with it. A twin collection goes through the same
	// construction, the same expressions set and the same edits on another machine without ever being evaluated before: every answer
	// (value or error code) must be the twin's. Caller-supplied collections (EvaluateUsingVariables) and the
	// calculator's default collection (Evaluate).
	{
		type edit struct {
			show string
			do   func(h *vxHarness, col mIface) mOutcome
		}
		newVar := c.MustFunc("calculator/variables", "", "NewVariable")
		call := func(name string, args ...mv) func(h *vxHarness, col mIface) mOutcome {
			return func(h *vxHarness, col mIface) mOutcome {
				_, out := callM(c, h.m, col.t, name, col.v, args...)
				return out
			}
		}
		add := func(name string, n int64) func(h *vxHarness, col mIface) mOutcome {
			return func(h *vxHarness, col mIface) mOutcome {
				vr, out := h.m.Call(newVar, name, h.variant("Integer", n))
				if out.kind != "ok" {
					return out
				}
				_, out = callM(c, h.m, col.t, "Add", col.v, mIface{t: resultType(newVar), v: vr})
				return out
			}
		}
		seq := func(fs ...func(h *vxHarness, col mIface) mOutcome) func(h *vxHarness, col mIface) mOutcome {
			return func(h *vxHarness, col mIface) mOutcome {
				for _, f := range fs {
					if out := f(h, col); out.kind != "ok" {
						return out
					}
				}
				return mOutcome{kind: "ok"}
			}
		}
		names := []string{"p", "q", "r", "s"}
		start := map[string]evxVal{"p": {"Integer", int64(2)}, "q": {"Integer", int64(3)}, "r": {"Integer", int64(5)}, "s": {"Integer", int64(7)}}
		var edits []edit
		for i, n := range names {
			edits = append(edits, edit{fmt.Sprintf("RemoveByName(%q)", n), call("RemoveByName", n)})
			edits = append(edits, edit{fmt.Sprintf("RemoveByName(%q)", strings.ToUpper(n)), call("RemoveByName", strings.ToUpper(n))})
			// (an index past the end is the caller's error, not an edit: nothing is removed then)
			i := i
			edits = append(edits, edit{fmt.Sprintf("Remove(%d)", i), func(h *vxHarness, col mIface) mOutcome {
				l, out := callM(c, h.m, col.t, "Length", col.v)
				if n, ok := l.(int64); out.kind != "ok" || !ok || int64(i) >= n {
					return out
				}
				_, out = callM(c, h.m, col.t, "Remove", col.v, int64(i))
				return out
			}})
			edits = append(edits, edit{fmt.Sprintf("Add(%s = 11)", n), add(n, 11)})
			edits = append(edits, edit{fmt.Sprintf("RemoveByName(%q), Add(%s = 13)", n, n), seq(call("RemoveByName", n), add(n, 13))})
		}
		edits = append(edits,
			edit{"Add(t = 11)", add("t", 11)},
			edit{"Locate(\"t\")", call("Locate", "t")},
			edit{"Locate(\"Q\")", call("Locate", "Q")},
			edit{"Clear()", call("Clear")},
			edit{"Clear(), Add(r = 17), Add(p = 19)", seq(call("Clear"), add("r", 17), add("p", 19))},
			edit{"ClearValues()", call("ClearValues")})
		exprs := []string{"p + q * 10", "q * 10 + r", "r * 10 + s", "s * 10 + p", "t + P * 10", "p + q + r + s"}
		firsts := []string{"p + q * 10", "s"}
		for _, mode := range []string{"caller-supplied", "default"} {
			mode := mode
			v := &opsVerdict{key: "variables.VariableCollection#edited-after-an-evaluation#" + mode, pos: c.Pos(c.MustFunc("calculator/variables", "VariableCollection", "FindByName").Pos())}
			all = append(all, v)
			wg.Add(1)
			go func() {
				defer wg.Done()
				defer func() {
					if r := recover(); r != nil {
						a, ok := r.(mAbort)
						if !ok {
							panic(r)
						}
						v.undec = a.why
					}
				}()
				used, ref := c.newVxHarness("TypeUnsafeVariantOperations"), c.newVxHarness("TypeUnsafeVariantOperations")
				if used.fault != "" || ref.fault != "" {
					v.undec = used.fault + ref.fault
					return
				}
				calcT := resultType(c.MustFunc(pkgCalc, "", "NewExpressionCalculator"))
				// a calculator and the collection (p, q, r, s) on a harness
				build := func(h *vxHarness) (*evxCalc, mIface, string) {
					k, why := h.newEvxCalc("")
					if k == nil {
						return nil, mIface{}, why
					}
					if mode == "caller-supplied" {
						vars, _ := h.evxVariables(names, start)
						return k, vars.(mIface), ""
					}
					dv, out := callM(c, h.m, calcT, "DefaultVariables", k.calc)
					col, ok := dv.(mIface)
					if out.kind != "ok" || !ok {
						return nil, mIface{}, "DefaultVariables: " + out.why
					}
					for _, n := range names {
						if out := add(n, start[n].payload.(int64))(h, col); out.kind != "ok" {
							return nil, mIface{}, "Add: " + out.why
						}
					}
					return k, col, ""
				}
				eval := func(k *evxCalc, col mIface, expr string) (string, string) {
					if out := k.setTokens(expr); out.kind != "ok" {
						return "", "SetOriginalTokens: " + out.why
					}
					if mode == "caller-supplied" {
						return k.evaluate(col)
					}
					k.h.m.steps = 0
					r, out := callM(c, k.h.m, calcT, "Evaluate", k.calc)
					return k.h.renderResult(r, out)
				}
				evalName := map[string]string{"caller-supplied": "EvaluateUsingVariables with the collection", "default": "Evaluate() with the default collection"}[mode]
				// history: first, edit e1, [evaluation, edit e2,] then every expression
				run := func(first string, es []edit) {
					ku, cu, why := build(used)
					kr, cr, whyR := build(ref)
					if why != "" || whyR != "" {
						v.undec = why + whyR
						return
					}
					hist := "a collection p = 2, q = 3, r = 5, s = 7: " + evalName + " for ‹" + first + "›"
					// the twin's calculator is given the same expressions (with automatic variables on, setting an
					// expression adds entries to the default collection) but does not evaluate them
					if _, why := eval(ku, cu, first); why != "" || kr.setTokens(first).kind != "ok" {
						return // outside the model: the history says nothing
					}
					for i, e := range es {
						if i > 0 {
							if _, why := eval(ku, cu, "q + r"); why != "" || kr.setTokens("q + r").kind != "ok" {
								return
							}
							hist += ", an evaluation of ‹q + r›"
						}
						ou, or := e.do(used, cu), e.do(ref, cr)
						hist += ", " + e.show
						if ou.kind == "panic" || or.kind == "panic" {
							if ou.kind != or.kind && v.bad == "" {
								v.bad = fmt.Sprintf("%s: the call ends with %s %s on the collection that was evaluated and with %s %s on an equal collection that was never evaluated", hist, ou.kind, ou.why, or.kind, or.why)
							}
							return
						}
						if ou.kind != "ok" || or.kind != "ok" {
							return
						}
					}
					for _, expr := range exprs {
						got, why := eval(ku, cu, expr)
						want, whyR := eval(kr, cr, expr)
						if why != "" || whyR != "" {
							continue
						}
						v.runs++
						if got != want && v.bad == "" {
							v.bad = fmt.Sprintf("%s; then ‹%s› answers %s. An equal collection that went through the same edits without the evaluation%s before answers %s: an evaluation must leave nothing behind in the variable collection (evaluating with equal inputs returns an equal result)", hist, expr, got, map[bool]string{true: "s", false: ""}[len(es) > 1], want)
						}
					}
				}
				for i, e1 := range edits {
					run(firsts[i%len(firsts)], []edit{e1})
				}
				// two edits with an evaluation in between (removals and additions: positions shift twice)
				for i, e1 := range edits {
					for j, e2 := range edits {
						if c.Tier != "thorough" && (i+2*j)%7 != 0 {
							continue
						}
						run(firsts[(i+j)%len(firsts)], []edit{e1, e2})
					}
				}
			}()
		}
	}
	// ---- the managers called directly ------------------------------------------------------------------
	conc := map[string]interface{}{"Null": nil, "Integer": int64(6), "Long": int64(3), "Boolean": true, "Float": float64(1.5), "Double": float64(2.5),
		"String": lit("7"), "DateTime": "t0", "TimeSpan": int64(1500), "Object": "o", "Array": "a"}
	later := map[string]evxVal{"Integer": {"String", lit("9")}, "Long": {"Integer", int64(8)}, "Boolean": {"Boolean", false}, "Float": {"Double", float64(4.5)}, "Double": {"Double", float64(-1)},
		"String": {"String", lit("8")}, "TimeSpan": {"Long", int64(5)}, "Null": {"Integer", int64(1)}}
	types11 := append([]string{"Null"}, valueTypes...)
	for _, manager := range managers {
		manager := manager
		v := &opsVerdict{key: "variants." + manager + "#manager-unchanged-and-answers-by-present-values", pos: c.Pos(c.MustFunc(pkgVariants, "", "New"+manager).Pos())}
		all = append(all, v)
		wg.Add(1)
		go func() {
			defer wg.Done()
			defer func() {
				if r := recover(); r != nil {
					a, ok := r.(mAbort)
					if !ok {
						panic(r)
					}
					v.undec = a.why
				}
			}()
			used, ref := c.newVxHarness(manager), c.newVxHarness(manager)
			if used.fault != "" || ref.fault != "" {
				v.undec = used.fault + ref.fault
				return
			}
			var ops []string
			for op := range opsOracle() {
				ops = append(ops, op)
			}
			sort.Strings(ops)
			ops = append([]string{"Convert"}, ops...)
			for _, op := range ops {
				fu, fr := c.lookupMethod(used.mgrT, op), c.lookupMethod(ref.mgrT, op)
				if fu == nil || fr == nil {
					continue
				}
				unary := op != "Convert" && fu.Signature.Params().Len() == 1
				for _, t1 := range types11 {
					for _, t2 := range types11 {
						if unary && t2 != "Null" {
							continue
						}
						// the call on a harness: Convert takes the target type, the operators a second operand
						call := func(h *vxHarness, f mv, a mv, bv evxVal) (string, string) {
							h.m.steps = 0
							fn := c.lookupMethod(h.mgrT, op)
							switch {
							case op == "Convert":
								return h.renderResult(h.m.Call(fn, h.mgr, a, h.vtByNm[t2]))
							case unary:
								return h.renderResult(h.m.Call(fn, h.mgr, a))
							}
							return h.renderResult(h.m.Call(fn, h.mgr, a, h.variant(bv.typ, bv.payload)))
						}
						second := evxVal{t2, conc[t2]}
						where := func(a evxVal) string {
							switch {
							case op == "Convert":
								return fmt.Sprintf("%s.Convert(%s, %s)", manager, a, t2)
							case unary:
								return fmt.Sprintf("%s.%s(%s)", manager, op, a)
							}
							return fmt.Sprintf("%s.%s(%s, %s)", manager, op, a, second)
						}
						first := evxVal{t1, conc[t1]}
						a := used.variant(t1, conc[t1])
						before := mFingerprint(used.mgr)
						got, why := call(used, nil, a, second)
						if why != "" {
							continue
						}
						v.runs++
						if after := mFingerprint(used.mgr); after != before && v.bad == "" {
							v.bad = fmt.Sprintf("%s leaves the manager object changed (state reachable from it differs after the call): the operations object is shared by every evaluation of a calculator, and concurrent evaluations write it unsynchronised", where(first))
						}
						if want, whyR := call(ref, nil, ref.variant(t1, conc[t1]), second); whyR == "" && got != want && v.bad == "" {
							v.bad = fmt.Sprintf("%s answers %s on a manager that was used before and %s on a new one", where(first), got, want)
						}
						// the same operand object holds another value now
						lv, ok := later[t1]
						if !ok {
							continue
						}
						if out := used.setInPlace(a, lv); out.kind != "ok" {
							continue
						}
						got, why = call(used, nil, a, second)
						want, whyR := call(ref, nil, ref.variant(lv.typ, lv.payload), second)
						if why != "" || whyR != "" {
							continue
						}
						v.runs++
						if got != want && v.bad == "" {
							v.bad = fmt.Sprintf("%s, called on an operand that held %s during an earlier call of the same kind and was then set to %s in place, answers %s; a new manager answers %s: the answer depends on earlier calls, not on the operands only", where(lv), first, lv, got, want)
						}
					}
				}
			}
		}()
	}
	wg.Wait()
	sort.SliceStable(all, func(i, j int) bool { return all[i].key < all[j].key })
	evxMemo = all
	return all
}

func init() {
	register(&Rule{ID: "EVAL.realops", Floor: 8,
		Doc: "calculators with the real operations managers (default, type-unsafe, type-safe) evaluate mixed-type expressions whose operands need conversions twice, again after the host stored another value in a variable's Variant in place, and interleaved with another variable set - also inside one another: a function of the caller that evaluates the same calculator instance with its own variable collection (recursive definitions over x = 0..4), where every evaluation must return and give the sequential result -: every answer equals that of a calculator which has not evaluated anything, and a fingerprint of everything reachable from the calculator instance (its operations object included) is the same after every evaluation; Convert and every operator of both managers called directly leave the manager object unchanged and answer by the present value of their operands; a variable collection (caller-supplied or default) that took part in an evaluation and is then edited by its owner (RemoveByName / Remove / Add / Locate / Clear / ClearValues, one edit or two with an evaluation in between) answers every expression as an equal collection that was never evaluated",
		Run: func(c *Ctx) []*Obligation {
			o := newObl("EVAL.realops")
			for _, v := range c.evxRun() {
				switch {
				case v.bad != "":
					o.bad(v.key, v.pos, v.bad)
				case v.undec != "":
					o.undecided(v.key, v.pos, v.undec)
				case v.runs == 0:
					o.undecided(v.key, v.pos, "no run of the family stayed inside the model")
				default:
					o.ok(v.key, v.pos, fmt.Sprintf("%d evaluations / calls: answers equal a fresh instance's, the instance is unchanged", v.runs))
				}
			}
			return o.list
		}})
}
