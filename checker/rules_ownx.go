package main

import (
	"fmt"
	"go/types"
	"math"
	"os"
	"sort"
	"sync"
)

// ---------------------------------------------------------------------------------------------
// OWN.model (C20): variants evaluated abstractly through their exported API against the value model
// of the statement: host values of every supported Go type give the matching type and come back
// unchanged through the accessor; lists are copied in and grown with nulls; clones equal their
// original and are independent of it; equality is symmetric and never fails.
// ---------------------------------------------------------------------------------------------

var ownMemo map[string]*simpleVerdict
var ownMu sync.Mutex

func (c *Ctx) ownRun() map[string]*simpleVerdict {
	ownMu.Lock()
	defer ownMu.Unlock()
	if ownMemo != nil {
		return ownMemo
	}
	res := map[string]*simpleVerdict{}
	note := func(k, bad, undec string) {
		v := res[k]
		if v == nil {
			v = &simpleVerdict{}
			res[k] = v
		}
		v.runs++
		if bad != "" && v.bad == "" {
			v.bad = bad
		}
		if undec != "" && v.undec == "" {
			v.undec = undec
		}
	}
	ownMemo = res
	h := c.newVxHarness("TypeUnsafeVariantOperations")
	m := h.m
	vt := types.NewPointer(c.SSA[pkgVariants].Type("Variant").Type())
	call := func(recv mv, name string, args ...mv) (mv, mOutcome) { return callM(c, m, vt, name, recv, args...) }
	newVariant := c.MustFunc(pkgVariants, "", "NewVariant")
	durT := c.MustFunc(pkgVariants, "", "VariantFromTimeSpan").Params[0].Type()
	timeT := c.MustFunc(pkgVariants, "", "VariantFromDateTime").Params[0].Type()
	tokT := types.NewPointer(c.SSA["tokenizers"].Type("Token").Type())
	// ---- (a) host values -------------------------------------------------------------------------
	type hostCase struct {
		name   string
		val    mv
		tag    string
		access string
		want   string
	}
	basic := func(k types.BasicKind, v mv) mv { return mIface{t: types.Typ[k], v: v} }
	tsym := &mSym{name: "t0", typ: timeT, nonNil: true}
	osym := &mSym{name: "obj", nonNil: true}
	cases := []hostCase{
		{"int 7", basic(types.Int, int64(7)), "Integer", "AsInteger", "7"},
		{"int -1", basic(types.Int, int64(-1)), "Integer", "AsInteger", "-1"},
		{"int32 5", basic(types.Int32, int64(5)), "Integer", "AsInteger", "5"},
		{"uint 9", basic(types.Uint, int64(9)), "Long", "AsLong", "9"},
		{"uint32 4000000000", basic(types.Uint32, int64(4000000000)), "Long", "AsLong", "4000000000"},
		{"int64 1<<40", basic(types.Int64, int64(1)<<40), "Long", "AsLong", fmt.Sprint(int64(1) << 40)},
		{"float32 1.5", basic(types.Float32, float64(1.5)), "Float", "AsFloat", "1.5"},
		{"float64 2.25", basic(types.Float64, float64(2.25)), "Double", "AsDouble", "2.25"},
		{"bool true", basic(types.Bool, true), "Boolean", "AsBoolean", "true"},
		{"bool false", basic(types.Bool, false), "Boolean", "AsBoolean", "false"},
		{"string \"aж\"", basic(types.String, "aж"), "String", "AsString", `"aж"`},
		{"string \"\"", basic(types.String, ""), "String", "AsString", `""`},
		{"time.Time t0", mIface{t: timeT, v: tsym}, "DateTime", "AsDateTime", "t0"},
		{"time.Duration 1500", mIface{t: durT, v: int64(1500)}, "TimeSpan", "AsTimeSpan", "1500"},
		{"nil", mNil, "Null", "AsObject", "nil"},
		{"another object", mIface{t: tokT, v: osym}, "Object", "AsObject", "obj"},
		// lists are host values too: a declared but unfilled (nil) list and an empty one are lists of no elements
		{"nil []*Variant", mIface{t: types.NewSlice(vt), v: mSlice{nil}}, "Array", "AsArray", "[]"},
		{"empty []*Variant", mIface{t: types.NewSlice(vt), v: mSlice{[]mv{}}}, "Array", "AsArray", "[]"},
	}
	// boundary values of every host number type: the matching type is decided by the Go type of the value, never
	// by its magnitude, and the value comes back as it was given (the first value beyond another type's range included)
	var bounds []hostCase
	bound := func(goType string, k types.BasicKind, tag, access string, vals ...mv) {
		for _, v := range vals {
			bounds = append(bounds, hostCase{goType + " " + mRender(v), basic(k, v), tag, access, mRender(v)})
		}
	}
	bound("int", types.Int, "Integer", "AsInteger", int64(0), int64(math.MaxInt32), int64(math.MaxInt32)+1, int64(math.MinInt32), int64(math.MinInt32)-1,
		int64(1)<<53+1, int64(math.MaxInt64), int64(math.MinInt64))
	bound("int32", types.Int32, "Integer", "AsInteger", int64(math.MaxInt32), int64(math.MinInt32))
	bound("uint", types.Uint, "Long", "AsLong", int64(0), int64(math.MaxUint32), int64(math.MaxUint32)+1, int64(math.MaxInt64))
	bound("uint32", types.Uint32, "Long", "AsLong", int64(0), int64(math.MaxInt32)+1, int64(math.MaxUint32))
	bound("int64", types.Int64, "Long", "AsLong", int64(0), int64(-1), int64(math.MaxInt32), int64(math.MinInt32), int64(math.MaxInt64), int64(math.MinInt64))
	bound("float32", types.Float32, "Float", "AsFloat", float64(0), float64(math.MaxFloat32), float64(-math.MaxFloat32), float64(math.SmallestNonzeroFloat32), float64(16777216))
	bound("float64", types.Float64, "Double", "AsDouble", float64(0), math.MaxFloat64, -math.MaxFloat64, math.SmallestNonzeroFloat64, float64(int64(1)<<53), float64(3))
	for _, d := range []int64{0, -1, math.MaxInt64, math.MinInt64} {
		bounds = append(bounds, hostCase{fmt.Sprintf("time.Duration %d", d), mIface{t: durT, v: d}, "TimeSpan", "AsTimeSpan", fmt.Sprint(d)})
	}
	single := append(append([]hostCase{}, cases...), bounds...)
	fromObject := c.MustFunc(pkgVariants, "", "VariantFromObject")
	for ci, hc := range append(append([]hostCase{}, single...), single...) {
		m.steps = 0
		ctor := newVariant
		if ci >= len(single) {
			ctor = fromObject
		}
		v, out := m.Call(ctor, hc.val)
		where := ctor.Name() + "(" + hc.name + ")"
		noteSample("OWN.model/host-values", where)
		if out.kind == "panic" {
			note("host-values", where+" panics: "+out.why, "")
			continue
		}
		if out.kind != "ok" {
			note("host-values", "", where+": "+out.why)
			continue
		}
		tag := h.typeOf(v)
		got, o2 := call(v, hc.access)
		switch {
		case tag != hc.tag:
			note("host-values", fmt.Sprintf("%s has type %s; the matching type is %s", where, tag, hc.tag), "")
		case o2.kind == "panic":
			note("host-values", fmt.Sprintf("%s.%s() panics: %s", where, hc.access, o2.why), "")
		case o2.kind != "ok":
			note("host-values", "", where+"."+hc.access+": "+o2.why)
		case mRender(got) != hc.want:
			note("host-values", fmt.Sprintf("%s.%s() returns %s; the value given was %s", where, hc.access, mRender(got), hc.want), "")
		default:
			note("host-values", "", "")
		}
	}
	// two-step histories: a variant that already holds one host value is set to another; it then reports the
	// second value's type and payload only (nothing of the first survives, nil included)
	for i1, h1 := range cases {
		seconds := cases
		if i1 == 0 || h1.tag == "Null" || h1.tag == "String" && i1%2 == 0 {
			seconds = single // boundary values stored in a variant that held an int, nothing, a string
		}
		for _, h2 := range seconds {
			m.steps = 0
			v, out := m.Call(newVariant, h1.val)
			if out.kind != "ok" {
				continue
			}
			where := "NewVariant(" + h1.name + ") then SetAsObject(" + h2.name + ")"
			if _, out := call(v, "SetAsObject", h2.val); out.kind != "ok" {
				if out.kind == "panic" {
					note("host-values", where+" panics: "+out.why, "")
				} else {
					note("host-values", "", where+": "+out.why)
				}
				continue
			}
			tag := h.typeOf(v)
			got, o2 := call(v, h2.access)
			obj, o3 := call(v, "AsObject")
			switch {
			case tag != h2.tag:
				note("host-values", fmt.Sprintf("%s has type %s; the matching type is %s", where, tag, h2.tag), "")
			case o2.kind == "panic":
				note("host-values", fmt.Sprintf("%s: %s() panics: %s", where, h2.access, o2.why), "")
			case o2.kind != "ok" || o3.kind != "ok":
				note("host-values", "", where+": "+o2.why+o3.why)
			case mRender(got) != h2.want:
				note("host-values", fmt.Sprintf("%s: %s() returns %s; the value given last was %s", where, h2.access, mRender(got), h2.want), "")
			case mRender(obj) != h2.want:
				note("host-values", fmt.Sprintf("%s: AsObject() returns %s; the value given last was %s", where, mRender(obj), h2.want), "")
			default:
				note("host-values", "", "")
			}
		}
	}
	// ---- (b) lists --------------------------------------------------------------------------------
	mkInt := func(n int64) mv { return h.variant("Integer", n) }
	elems := func(v mv) string {
		r, out := call(v, "AsArray")
		if out.kind != "ok" {
			return out.kind + ": " + out.why
		}
		sl, ok := r.(mSlice)
		if !ok {
			return mRender(r)
		}
		s := "["
		for i, e := range sl.arr {
			if i > 0 {
				s += " "
			}
			if p, ok := e.(*mv); ok && p == nil {
				s += "nil"
				continue
			}
			if _, isNil := e.(mNilT); isNil {
				s += "nil"
				continue
			}
			s += h.typeOf(e) + ":" + h.payloadOf(e)
		}
		return s + "]"
	}
	// a list of no elements - declared but unfilled (nil), empty, or empty with spare capacity - is a list like any
	// other, through every entry point: the variant is an array of length 0, equals the array variant of the same
	// list, grows its own copy, and the caller's later appends to its list stay invisible
	for _, kind := range []string{"an empty list with spare capacity", "a nil list (declared, never filled)", "an empty list"} {
		for _, via := range []string{"VariantFromArray", "NewVariant", "VariantFromObject", "SetAsArray", "SetAsObject"} {
			m.steps = 0
			var backing []mv
			switch kind {
			case "an empty list with spare capacity":
				backing = make([]mv, 0, 4)
			case "an empty list":
				backing = []mv{}
			}
			list := mSlice{backing}
			listIface := mIface{t: types.NewSlice(vt), v: list}
			var v mv
			var out mOutcome
			switch via {
			case "VariantFromArray":
				v, out = m.Call(c.MustFunc(pkgVariants, "", "VariantFromArray"), list)
			case "NewVariant":
				v, out = m.Call(newVariant, listIface)
			case "VariantFromObject":
				v, out = m.Call(fromObject, listIface)
			case "SetAsArray":
				v, _ = m.Call(c.MustFunc(pkgVariants, "", "EmptyVariant"))
				_, out = call(v, "SetAsArray", list)
			case "SetAsObject":
				v, _ = m.Call(c.MustFunc(pkgVariants, "", "EmptyVariant"))
				_, out = call(v, "SetAsObject", listIface)
			}
			where := "a variant given " + kind + " through " + via
			if out.kind == "panic" {
				note("lists", where+" panics: "+out.why, "")
				continue
			}
			if out.kind != "ok" {
				note("lists", "", where+": "+out.why)
				continue
			}
			if tag := h.typeOf(v); tag != "Array" {
				note("lists", fmt.Sprintf("%s has type %s; a list of elements - also one without elements - gives an Array", where, tag), "")
				continue
			}
			if l, o := call(v, "Length"); o.kind == "panic" || (o.kind == "ok" && mRender(l) != "0") {
				note("lists", fmt.Sprintf("%s reports length %s%s; the list has no elements", where, mRender(l), o.why), "")
				continue
			}
			if ref, o := m.Call(c.MustFunc(pkgVariants, "", "VariantFromArray"), list); o.kind == "ok" {
				e1, o1 := call(v, "Equals", ref)
				e2, o2 := call(ref, "Equals", v)
				if o1.kind == "panic" || o2.kind == "panic" {
					note("lists", fmt.Sprintf("%s compared with VariantFromArray of the same list panics: %s%s", where, o1.why, o2.why), "")
					continue
				}
				if b1, ok1 := e1.(bool); ok1 && o1.kind == "ok" {
					if b2, ok2 := e2.(bool); ok2 && o2.kind == "ok" && !(b1 && b2) {
						note("lists", fmt.Sprintf("%s equals VariantFromArray of the same list: %v / %v; both hold the same (empty) list", where, b1, b2), "")
						continue
					}
				}
			}
			if _, o := call(v, "SetByIndex", int64(0), mkInt(7)); o.kind != "ok" {
				if o.kind == "panic" {
					note("lists", where+": SetByIndex(0, 7) panics: "+o.why+"; an indexed write past the end grows the array", "")
				} else {
					note("lists", "", where+": SetByIndex: "+o.why)
				}
				continue
			}
			// the caller appends to its own list (into the spare capacity it still owns)
			if cap(backing) > 0 {
				ext := backing[:1]
				ext[0] = mkInt(9)
			}
			if got := elems(v); got != "[Integer:7]" {
				note("lists", fmt.Sprintf("%s, then grown with SetByIndex(0, 7), holds %s after the caller appended 9 to its own list; it holds its own copy: [7]", where, got), "")
				continue
			}
			note("lists", "", "")
		}
	}
	for _, via := range []string{"VariantFromArray", "NewVariant", "SetAsArray", "SetAsObject", "Assign-from-variant", "NewVariant-from-variant"} {
		m.steps = 0
		a, b, x := mkInt(1), mkInt(2), mkInt(99)
		list := mSlice{[]mv{a, b}}
		var v mv
		var out mOutcome
		listIface := mIface{t: types.NewSlice(vt), v: list}
		switch via {
		case "VariantFromArray":
			v, out = m.Call(c.MustFunc(pkgVariants, "", "VariantFromArray"), list)
		case "NewVariant":
			v, out = m.Call(newVariant, listIface)
		case "SetAsArray":
			v, _ = m.Call(c.MustFunc(pkgVariants, "", "EmptyVariant"))
			_, out = call(v, "SetAsArray", list)
		case "SetAsObject":
			v, _ = m.Call(c.MustFunc(pkgVariants, "", "EmptyVariant"))
			_, out = call(v, "SetAsObject", listIface)
		default:
			src, _ := m.Call(c.MustFunc(pkgVariants, "", "VariantFromArray"), list)
			if via == "Assign-from-variant" {
				v, _ = m.Call(c.MustFunc(pkgVariants, "", "EmptyVariant"))
				_, out = call(v, "Assign", src)
			} else {
				v, out = m.Call(newVariant, mIface{t: vt, v: src})
			}
			// from now on the "caller's list" is the source variant's: writing into it must not show
			if _, o := call(src, "SetByIndex", int64(0), x); o.kind != "ok" {
				out = o
			}
			list = mSlice{[]mv{b, b}} // already changed through the source variant
		}
		where := "a variant given the list [1 2] through " + via
		if out.kind == "panic" {
			note("lists", where+" panics: "+out.why, "")
			continue
		}
		if out.kind != "ok" {
			note("lists", "", where+": "+out.why)
			continue
		}
		// the caller changes its list afterwards
		if len(list.arr) > 0 {
			list.arr[0] = x
		}
		if got := elems(v); got != "[Integer:1 Integer:2]" {
			note("lists", fmt.Sprintf("%s holds %s after the caller overwrote its own list: the variant shares the caller's list", where, got), "")
			continue
		}
		// an indexed write past the end grows the list with nulls
		if _, o := call(v, "SetByIndex", int64(4), x); o.kind == "panic" {
			note("lists", where+": SetByIndex(4, …) panics: "+o.why, "")
			continue
		} else if o.kind != "ok" {
			note("lists", "", where+": SetByIndex: "+o.why)
			continue
		}
		if got := elems(v); got != "[Integer:1 Integer:2 Null:nil Null:nil Integer:99]" {
			note("lists", fmt.Sprintf("%s holds %s after SetByIndex(4, 99); an indexed write past the end grows the array with nulls: [1 2 null null 99]", where, got), "")
			continue
		}
		// the padding consists of distinct null variants: changing one is invisible in the other
		if e2, o := call(v, "GetByIndex", int64(2)); o.kind == "ok" {
			call(e2, "SetAsInteger", int64(7))
			if got := elems(v); got != "[Integer:1 Integer:2 Integer:7 Null:nil Integer:99]" {
				note("lists", fmt.Sprintf("%s: after growing to [1 2 null null 99], setting element 2 to 7 gives %s: the padded slots are one shared variant", where, got), "")
				continue
			}
		}
		l, _ := call(v, "Length")
		if mRender(l) != "5" {
			note("lists", fmt.Sprintf("%s reports length %s after growing to 5 elements", where, mRender(l)), "")
			continue
		}
		note("lists", "", "")
	}
	// ---- (c) clones --------------------------------------------------------------------------------
	pool := func() map[string]mv {
		arr := func(ns ...int64) mv {
			var es []mv
			for _, n := range ns {
				es = append(es, mkInt(n))
			}
			v, _ := m.Call(c.MustFunc(pkgVariants, "", "VariantFromArray"), mSlice{es})
			return v
		}
		nested, _ := m.Call(c.MustFunc(pkgVariants, "", "VariantFromArray"), mSlice{[]mv{arr(1, 2), mkInt(3)}})
		// lists with empty (nil) slots in every position, alone, nested, and facing variants on the other side
		// (n < 0 stands for an empty slot)
		arrN := func(ns ...int64) mv {
			var es []mv
			for _, n := range ns {
				if n < 0 {
					es = append(es, mNil)
				} else {
					es = append(es, mkInt(n))
				}
			}
			v, _ := m.Call(c.MustFunc(pkgVariants, "", "VariantFromArray"), mSlice{es})
			return v
		}
		list := func(es ...mv) mv {
			v, _ := m.Call(c.MustFunc(pkgVariants, "", "VariantFromArray"), mSlice{es})
			return v
		}
		nan, _ := m.Call(c.MustFunc(pkgVariants, "", "VariantFromDouble"), math.NaN())
		mapObj, _ := m.Call(newVariant, mIface{t: types.NewMap(types.Typ[types.String], types.Typ[types.Int]), v: &mMap{k: map[string]mv{}, v: map[string]mv{}}})
		sliceObj, _ := m.Call(newVariant, mIface{t: types.NewSlice(types.Typ[types.Int]), v: mSlice{[]mv{int64(1)}}})
		boxT := types.NewStruct([]*types.Var{types.NewField(0, nil, "A", types.NewInterfaceType(nil, nil), false)}, nil)
		boxObj, _ := m.Call(newVariant, mIface{t: boxT, v: mStruct{mIface{t: types.NewSlice(types.Typ[types.Int]), v: mSlice{[]mv{int64(1)}}}}})
		return map[string]mv{
			"Object struct holding a slice": boxObj,
			"Integer 1":                     mkInt(1), "Integer 2": mkInt(2), "Long 1": h.variant("Long", int64(1)), "String a": h.variant("String", lit("a")), "String ''": h.variant("String", lit("")),
			"Null": h.variant("Null", nil), "Boolean true": h.variant("Boolean", true), "Double 1.5": h.variant("Double", float64(1.5)), "Double NaN": nan,
			"Array [1 2]": arr(1, 2), "Array [1 3]": arr(1, 3), "Array []": arr(), "Array [[1 2] 3]": nested, "Object map": mapObj, "Object slice": sliceObj,
			"TimeSpan 5":  h.variant("TimeSpan", int64(5)),
			"Array [nil]": arrN(-1), "Array [nil nil]": arrN(-1, -1), "Array [1 nil]": arrN(1, -1), "Array [nil 2]": arrN(-1, 2), "Array [nil 3]": arrN(-1, 3),
			"Array [1 2 nil]": arrN(1, 2, -1), "Array [nil 1 2]": arrN(-1, 1, 2), "Array [1 nil 2]": arrN(1, -1, 2), "Array [1]": arr(1), "Array [1 2 3]": arr(1, 2, 3),
			"Array [[1 nil] 3]": list(arrN(1, -1), mkInt(3)), "Array [[nil 2] 3]": list(arrN(-1, 2), mkInt(3)),
			"Array [[1 2] nil]": list(arr(1, 2), mNil), "Array [[] nil]": list(arr(), mNil), "Array [[]]": list(arr()), "Array [[nil]]": list(arrN(-1)), "Array [[1 2]]": list(arr(1, 2)),
		}
	}
	p1 := pool()
	var names []string
	for n := range p1 {
		names = append(names, n)
	}
	sort.Strings(names)
	boolOf := func(v mv, out mOutcome) (string, string) {
		if out.kind == "panic" {
			return "panic", out.why
		}
		if out.kind != "ok" {
			return "opaque", out.why
		}
		if b, ok := v.(bool); ok {
			return fmt.Sprint(b), ""
		}
		return "sym", mRender(v)
	}
	for _, n := range names {
		m.steps = 0
		orig := p1[n]
		cl, out := call(orig, "Clone")
		if out.kind != "ok" {
			if out.kind == "panic" {
				note("clones", "Clone of "+n+" panics: "+out.why, "")
			} else {
				note("clones", "", "Clone of "+n+": "+out.why)
			}
			continue
		}
		if eq, known := m.equal(cl, orig); known && eq {
			note("clones", "Clone of "+n+" returns the variant itself", "")
			continue
		}
		e1, w1 := boolOf(call(cl, "Equals", orig))
		e2, w2 := boolOf(call(orig, "Equals", cl))
		want := "true"
		if n == "Double NaN" {
			want = "false"
		}
		switch {
		case e1 == "panic" || e2 == "panic":
			note("clones", fmt.Sprintf("comparing %s with its clone panics: %s%s", n, w1, w2), "")
		case e1 == "opaque" || e2 == "opaque":
			note("clones", "", "Equals on "+n+": "+w1+w2)
		case e1 == "sym" || e2 == "sym":
			note("clones", "", "") // decided by a host comparison outside the model
		case e1 != want || e2 != want:
			note("clones", fmt.Sprintf("a clone of %s equals its original: %s / %s; expected %s", n, e1, e2, want), "")
		default:
			// mutating the clone leaves the original alone
			before := h.typeOf(orig) + ":" + h.payloadOf(orig)
			if h.typeOf(cl) == "Array" {
				before = elems(orig)
				call(cl, "SetByIndex", int64(0), mkInt(77))
				if after := elems(orig); after != before {
					note("clones", fmt.Sprintf("writing element 0 of a clone of %s changes the original from %s to %s", n, before, after), "")
					continue
				}
			} else {
				call(cl, "SetAsInteger", int64(77))
				if after := h.typeOf(orig) + ":" + h.payloadOf(orig); after != before {
					note("clones", fmt.Sprintf("mutating a clone of %s changes the original from %s to %s", n, before, after), "")
					continue
				}
			}
			// assigning a variant to itself changes nothing
			{
				state := func() string {
					if h.typeOf(orig) == "Array" {
						return "Array:" + elems(orig)
					}
					return h.typeOf(orig) + ":" + h.payloadOf(orig)
				}
				b4 := state()
				if _, out := call(orig, "Assign", orig); out.kind == "panic" {
					note("clones", fmt.Sprintf("assigning %s to itself panics: %s", n, out.why), "")
					continue
				} else if after := state(); out.kind == "ok" && after != b4 {
					note("clones", fmt.Sprintf("assigning %s to itself changes it from %s to %s", n, b4, after), "")
					continue
				}
			}
			// a second clone is not affected by what happened to the first
			cl2, _ := call(orig, "Clone")
			if e, _ := boolOf(call(cl2, "Equals", orig)); e != want && e != "sym" {
				note("clones", fmt.Sprintf("after a first clone of %s was mutated, a second clone equals the original: %s", n, e), "")
				continue
			}
			if eq, known := m.equal(cl2, cl); known && eq {
				note("clones", fmt.Sprintf("two clones of %s are the same variant", n), "")
				continue
			}
			note("clones", "", "")
		}
	}
	// ---- (c2) histories on copies: mutating a copy never changes the original -------------------------
	// every way of obtaining a second holder of the same value (Clone, Assign, NewVariant / SetAsObject of the variant,
	// a second variant built from / set to the same list) x every exported mutator applied to the copy (also two in a
	// row): the original - and the list the caller handed over - reads exactly as before, nested lists included
	var deep func(v mv, depth int) string
	deep = func(v mv, depth int) string {
		if _, isNil := v.(mNilT); isNil {
			return "nil"
		}
		if p, ok := v.(*mv); ok && p == nil {
			return "nil"
		}
		tag := h.typeOf(v)
		if tag != "Array" || depth > 4 {
			return tag + ":" + h.payloadOf(v)
		}
		r, out := call(v, "AsArray")
		sl, ok := r.(mSlice)
		if out.kind != "ok" || !ok {
			return "Array:?" + out.why
		}
		s := "["
		for i, e := range sl.arr {
			if i > 0 {
				s += " "
			}
			s += deep(e, depth+1)
		}
		return s + "]"
	}
	deepList := func(l mSlice) string {
		s := "["
		for i, e := range l.arr {
			if i > 0 {
				s += " "
			}
			s += deep(e, 1)
		}
		return s + "]"
	}
	type mutator struct {
		name      string
		arrayOnly bool
		needElem  bool
		run       func(cp mv) mOutcome
	}
	one := func(name string, args ...mv) func(cp mv) mOutcome {
		return func(cp mv) mOutcome { _, o := call(cp, name, args...); return o }
	}
	fresh := func(ns ...int64) mv {
		var es []mv
		for _, n := range ns {
			es = append(es, mkInt(n))
		}
		v, _ := m.Call(c.MustFunc(pkgVariants, "", "VariantFromArray"), mSlice{es})
		return v
	}
	mutators := []mutator{
		{"Clear()", false, false, one("Clear")},
		{"SetAsInteger(77)", false, false, one("SetAsInteger", int64(77))},
		{"SetAsString(\"z\")", false, false, one("SetAsString", "z")},
		{"SetAsObject(nil)", false, false, one("SetAsObject", mNil)},
		{"SetAsArray([9])", false, false, func(cp mv) mOutcome { _, o := call(cp, "SetAsArray", mSlice{[]mv{mkInt(9)}}); return o }},
		{"Assign(Integer 5)", false, false, func(cp mv) mOutcome { _, o := call(cp, "Assign", mkInt(5)); return o }},
		{"Assign([8 9])", false, false, func(cp mv) mOutcome { _, o := call(cp, "Assign", fresh(8, 9)); return o }},
		{"Assign(nil)", false, false, one("Assign", mNil)},
		{"SetLength(6)", true, false, one("SetLength", int64(6))},
		{"SetByIndex(0, 77)", true, false, func(cp mv) mOutcome { _, o := call(cp, "SetByIndex", int64(0), mkInt(77)); return o }},
		{"SetByIndex(5, 77)", true, false, func(cp mv) mOutcome { _, o := call(cp, "SetByIndex", int64(5), mkInt(77)); return o }},
		{"SetByIndex(0, 77) then Clear()", true, false, func(cp mv) mOutcome {
			if _, o := call(cp, "SetByIndex", int64(0), mkInt(77)); o.kind != "ok" {
				return o
			}
			_, o := call(cp, "Clear")
			return o
		}},
		{"SetLength(6) then Clear()", true, false, func(cp mv) mOutcome {
			if _, o := call(cp, "SetLength", int64(6)); o.kind != "ok" {
				return o
			}
			_, o := call(cp, "Clear")
			return o
		}},
		{"Clear() then SetAsArray([9])", false, false, func(cp mv) mOutcome {
			if _, o := call(cp, "Clear"); o.kind != "ok" {
				return o
			}
			_, o := call(cp, "SetAsArray", mSlice{[]mv{mkInt(9)}})
			return o
		}},
	}
	if os.Getenv("OWN_ELEMENTS") != "" {
		// writing INTO an element handed out by the copy (GetByIndex(0).SetAsInteger / .Clear): not part of the rule -
		// the unchanged tree shares element variants between a list and its copies (see the round-9 report)
		mutators = append(mutators, mutator{"GetByIndex(0).SetAsInteger(77)", true, true, func(cp mv) mOutcome {
			e, o := call(cp, "GetByIndex", int64(0))
			if o.kind != "ok" {
				return mOutcome{kind: "ok"}
			}
			if _, isNil := e.(mNilT); isNil {
				return mOutcome{kind: "ok"}
			}
			_, o = call(e, "SetAsInteger", int64(77))
			return o
		}})
	}
	routes := []string{"Clone()", "EmptyVariant().Assign(it)", "NewVariant(it)", "VariantFromObject(it)", "EmptyVariant().SetAsObject(it)",
		"VariantFromArray(the same list)", "EmptyVariant().SetAsArray(the same list)", "NewVariant(the same list)", "a clone of its clone"}
	for ri, route := range routes {
		for mi, mu := range mutators {
			m.steps = 0
			pl := pool()
			for _, n := range names {
				if c.Tier != "thorough" && (ri+mi)%2 == 1 && mu.name != "Clear()" && len(n) > 12 {
					continue // the quick tier runs every mutator on every route, the long lists on half of the cells
				}
				orig := pl[n]
				isArr := h.typeOf(orig) == "Array"
				if mu.arrayOnly && !isArr {
					continue
				}
				var list mSlice
				sameList := false
				if route[len(route)-5:] == "list)" {
					if !isArr {
						continue
					}
					sameList = true
					// the list both variants are given: the one the original hands out is the only one it has been given
					r, o := call(orig, "AsArray")
					l, ok := r.(mSlice)
					if o.kind != "ok" || !ok {
						continue
					}
					list = mSlice{append([]mv{}, l.arr...)}
					if orig2, o := m.Call(c.MustFunc(pkgVariants, "", "VariantFromArray"), list); o.kind == "ok" {
						orig = orig2
					}
				}
				var cp mv
				var out mOutcome
				switch route {
				case "Clone()":
					cp, out = call(orig, "Clone")
				case "a clone of its clone":
					if cp, out = call(orig, "Clone"); out.kind == "ok" {
						cp, out = call(cp, "Clone")
					}
				case "EmptyVariant().Assign(it)":
					cp, _ = m.Call(c.MustFunc(pkgVariants, "", "EmptyVariant"))
					_, out = call(cp, "Assign", orig)
				case "NewVariant(it)":
					cp, out = m.Call(newVariant, mIface{t: vt, v: orig})
				case "VariantFromObject(it)":
					cp, out = m.Call(fromObject, mIface{t: vt, v: orig})
				case "EmptyVariant().SetAsObject(it)":
					cp, _ = m.Call(c.MustFunc(pkgVariants, "", "EmptyVariant"))
					_, out = call(cp, "SetAsObject", mIface{t: vt, v: orig})
				case "VariantFromArray(the same list)":
					cp, out = m.Call(c.MustFunc(pkgVariants, "", "VariantFromArray"), list)
				case "EmptyVariant().SetAsArray(the same list)":
					cp, _ = m.Call(c.MustFunc(pkgVariants, "", "EmptyVariant"))
					_, out = call(cp, "SetAsArray", list)
				case "NewVariant(the same list)":
					cp, out = m.Call(newVariant, mIface{t: types.NewSlice(vt), v: list})
				}
				where := fmt.Sprintf("%s, a copy of it made by %s, then %s on the copy", n, route, mu.name)
				noteSample("OWN.model/copies", where)
				if out.kind != "ok" {
					if out.kind == "panic" {
						note("copies", where+": making the copy panics: "+out.why, "")
					} else {
						note("copies", "", where+": "+out.why)
					}
					continue
				}
				before := deep(orig, 0)
				beforeList := ""
				if sameList {
					beforeList = deepList(list)
				}
				if o := mu.run(cp); o.kind != "ok" {
					if o.kind == "panic" {
						note("copies", where+" panics: "+o.why, "")
					} else {
						note("copies", "", where+": "+o.why)
					}
					continue
				}
				if after := deep(orig, 0); after != before {
					note("copies", fmt.Sprintf("%s: the original changes from %s to %s; mutating a copy never changes the original", where, before, after), "")
					continue
				}
				if sameList {
					if after := deepList(list); after != beforeList {
						note("copies", fmt.Sprintf("%s: the caller's list changes from %s to %s; a variant keeps its own copy of the list it is given", where, beforeList, after), "")
						continue
					}
				}
				note("copies", "", "")
			}
		}
	}
	// ---- (d) equality is symmetric and never fails ----------------------------------------------------
	p1, p2 := pool(), pool()
	for _, a := range names {
		for _, b := range names {
			m.steps = 0
			e1, w1 := boolOf(call(p1[a], "Equals", p2[b]))
			e2, w2 := boolOf(call(p2[b], "Equals", p1[a]))
			switch {
			case e1 == "panic" || e2 == "panic":
				dir := fmt.Sprintf("(%s).Equals(%s)", a, b)
				if e1 != "panic" {
					dir = fmt.Sprintf("(%s).Equals(%s)", b, a)
				}
				why := w1
				if w1 != "" && w2 != "" && w1 != w2 {
					why = w1 + " / the other way round: " + w2
				} else if w1 == "" {
					why = w2
				}
				note("equality", fmt.Sprintf("%s panics: %s; equality never fails (lists, also with empty slots, included)", dir, why), "")
			case e1 == "opaque" || e2 == "opaque":
				note("equality", "", fmt.Sprintf("Equals between %s and %s: %s%s", a, b, w1, w2))
			case e1 == "sym" || e2 == "sym":
				note("equality", "", "")
			case e1 != e2:
				note("equality", fmt.Sprintf("%s equals %s: %s, but %s equals %s: %s - equality is not symmetric", a, b, e1, b, a, e2), "")
			case (a == b && a != "Double NaN") != (e1 == "true"):
				note("equality", fmt.Sprintf("%s equals %s: %s", a, b, e1), "")
			default:
				note("equality", "", "")
			}
		}
		// a nil argument is not equal, never a failure
		e, w := boolOf(call(p1[a], "Equals", mNil))
		if e == "panic" {
			note("equality", fmt.Sprintf("%s.Equals(nil) panics: %s", a, w), "")
		} else if e == "true" {
			note("equality", fmt.Sprintf("%s equals nil", a), "")
		}
	}
	return res
}

func init() {
	register(&Rule{ID: "OWN.model", Floor: 4,
		Doc: "variants evaluated abstractly through NewVariant / VariantFrom* / SetAs* / Assign / Clone / Equals / SetByIndex against the value model: 18 host values of every supported Go type (a nil and an empty list of variants included) give the matching type and come back through the accessor, through NewVariant and VariantFromObject, also when set on a variant that already holds any of the others; assigning a variant to itself changes nothing; lists given through six entry points are copied in and grow with nulls; a list without elements (nil, empty, empty with spare capacity) through five entry points is an array of length 0 that equals VariantFromArray of the same list and grows on its own; clones of 35 kinds of variants equal their original (NaN excepted) and are independent; histories on copies: nine routes to a second holder of a value (Clone, Assign, NewVariant / VariantFromObject / SetAsObject of the variant, a second variant built from or set to the same list, a clone of a clone) x fourteen mutators of the copy (Clear, SetAs*, Assign, SetLength, SetByIndex inside and past the end, two in a row) leave the original and the caller's list as they were, nested lists included; equality over all ordered pairs is symmetric, true exactly on equal values and never panics (lists with empty slots in every position on either side, nested lists, lists of different lengths, maps, slices, nil included)",
		Run: func(c *Ctx) []*Obligation {
			o := newObl("OWN.model")
			res := c.ownRun()
			pos := c.Pos(c.MustFunc(pkgVariants, "", "NewVariant").Pos())
			for _, k := range []string{"host-values", "lists", "clones", "copies", "equality"} {
				v := res[k]
				if v == nil {
					v = &simpleVerdict{}
				}
				o.list = append(o.list, emitSimple(c, "OWN.model", "variants.Variant#"+k, pos, v, "agree with the value model")...)
			}
			return o.list
		}})
}
