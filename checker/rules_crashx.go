package main

import (
	"fmt"
	"math"
	"os"
	"sort"
	"strings"
	"sync"

	"golang.org/x/tools/go/ssa"
)

// ---------------------------------------------------------------------------------------------
// CRASH.bounded (C03): everything that escapes from an exported entry point during the abstract
// runs of all families (token strings through the parser and the calculator, strings through the
// four tokenizers, templates, CSV tables, scanner scripts, symbol tables, character maps, quote
// codecs, every operator / conversion / function cell, variants; and every operator and default function through the calculator with its real operations on boundary values of every variant type) is recorded by the machine itself:
// a panic that reaches the caller, or a (result, error) pair that is (nil, nil) or (value, error).
// One obligation per entry point that was exercised.
// ---------------------------------------------------------------------------------------------

func init() {
	register(&Rule{ID: "CRASH.bounded", Floor: 40,
		Doc: "all abstract-run families are executed and every exported entry point they call is an obligation: no panic escapes from it and a (result, error) pair is never (nil, nil) nor (value, error) - over all token strings, character strings, templates, tables, scripts, symbol sets, registrations, operator / conversion / function cells of the families; every operator and default function through the calculator with the real operations (default and type-safe) on boundary values of every variant type, where an evaluation that uses up the whole step budget is a termination violation",
		Run: func(c *Ctx) []*Obligation {
			o := newObl("CRASH.bounded")
			// run every family (memoised); CRASHONLY=1 (debug aid) runs the calculator family of this file alone
			if os.Getenv("CRASHONLY") == "" {
				c.gxRun()
				c.geRun()
				for _, k := range tkKinds {
					c.tkRun(k, "base")
					c.tkRun(k, "options")
				}
				c.curxRun()
				c.mapxRun()
				c.mapdRun()
				c.symxRun()
				c.codecRun()
				c.lexRun()
				c.csvxRun()
				c.musxRun()
				c.namexRun()
				c.reuseRun()
				c.opsxRun()
				c.convxRun()
				c.ownRun()
				c.funcxRun()
				c.evxRun()
			}
			c.crashFamily()
			if os.Getenv("CRASHDEBUG") != "" {
				fmt.Fprintln(os.Stderr, "crash family outcomes:", crashFamKinds, "most steps of a returning evaluation:", crashFamMaxSteps)
				for _, o := range crashFamOpaque {
					fmt.Fprintln(os.Stderr, "  opaque:", o)
				}
			}
			crashMu.Lock()
			defer crashMu.Unlock()
			var keys []string
			for k := range crashLog {
				keys = append(keys, k)
			}
			sort.Strings(keys)
			for _, k := range keys {
				e := crashLog[k]
				pos := "-"
				// constructors and accessors are entry points too; keep the report readable
				if e.first != "" {
					o.bad(k+"#returns-normally", pos, e.first)
				} else {
					o.ok(k+"#returns-normally", pos, fmt.Sprintf("%d abstract calls return normally with a result or an error", e.calls))
				}
			}
			return o.list
		}})
}

// coverageSummary: module functions entered by some abstract run / not entered by any.
func (c *Ctx) coverageSummary() (entered, total int, missing []string) {
	for _, fn := range c.AllLibFuncs() {
		if fn.Blocks == nil {
			continue
		}
		total++
		if _, ok := covered.Load(fn); ok {
			entered++
		} else {
			missing = append(missing, c.FuncKey(fn))
		}
	}
	sort.Strings(missing)
	return
}

var _ = strings.Join

// crashFamily: the calculator with its real operations (the default type-unsafe manager, and the type-safe one
// for the numeric types) and its default functions on every operator and every default function over boundary
// values of every variant type; outcomes are not compared with anything - the machine records what escapes
// (panic, (nil,nil), (value,error)) - except for termination: an evaluation of a three-token expression that
// uses up the machine's whole step budget does not "terminate and return normally" (C03).
var crashFamMemo *simpleVerdict
var crashFamKinds = map[string]int{}
var crashFamOpaque []string
var crashFamMaxSteps int
var crashFamMu sync.Mutex

// crashVal: one boundary value; mk builds it on the harness's machine. core values (one or two ordinary
// representatives per type) are paired with every value in the quick tier, every value with every value in the
// thorough tier. old marks the values the default functions are called with in all three argument shapes.
type crashVal struct {
	name, text string
	typ        string
	core, old  bool
	mk         func(h *vxHarness) mv
}

func crashBoundaryValues(c *Ctx) []crashVal {
	of := func(typ string, payload interface{}) func(h *vxHarness) mv {
		return func(h *vxHarness) mv { return h.variant(typ, payload) }
	}
	arr := func(mks ...func(h *vxHarness) mv) func(h *vxHarness) mv {
		return func(h *vxHarness) mv {
			var es []mv
			for _, mk := range mks {
				es = append(es, mk(h))
			}
			r, _ := h.m.Call(c.MustFunc(pkgVariants, "", "VariantFromArray"), mSlice{es})
			return r
		}
	}
	f32 := func(x float32) float64 { return float64(x) }
	return []crashVal{
		{"i0", "Integer 0", "Integer", false, true, of("Integer", int64(0))}, {"i1", "Integer 1", "Integer", true, false, of("Integer", int64(1))},
		{"im", "Integer -1", "Integer", false, true, of("Integer", int64(-1))}, {"i2", "Integer 2", "Integer", false, false, of("Integer", int64(2))},
		{"imax", "Integer 2147483647", "Integer", false, false, of("Integer", int64(math.MaxInt32))}, {"imin", "Integer -2147483648", "Integer", false, false, of("Integer", int64(math.MinInt32))},
		{"ibig", "Integer 2^62", "Integer", false, true, of("Integer", int64(1)<<62)},
		{"l7", "Long 7", "Long", true, true, of("Long", int64(7))}, {"lmax", "Long 9223372036854775807", "Long", false, false, of("Long", int64(math.MaxInt64))},
		{"lmin", "Long -9223372036854775808", "Long", false, false, of("Long", int64(math.MinInt64))}, {"lp", "Long 2^40", "Long", false, false, of("Long", int64(1)<<40)},
		{"f", "Float 1.5", "Float", true, true, of("Float", float64(1.5))}, {"fz", "Float -0", "Float", false, false, of("Float", math.Copysign(0, -1))},
		{"fhuge", "Float 3.4e38", "Float", false, false, of("Float", f32(math.MaxFloat32))}, {"ftiny", "Float 1e-45", "Float", false, false, of("Float", f32(math.SmallestNonzeroFloat32))},
		{"fnan", "Float NaN", "Float", false, false, of("Float", math.NaN())}, {"finf", "Float +Inf", "Float", false, false, of("Float", math.Inf(1))},
		{"d0", "Double 0", "Double", true, true, of("Double", float64(0))}, {"dz", "Double -0", "Double", false, false, of("Double", math.Copysign(0, -1))},
		{"dhalf", "Double 0.5", "Double", false, false, of("Double", float64(0.5))},
		{"dhuge", "Double 1.8e308", "Double", false, false, of("Double", math.MaxFloat64)}, {"dtiny", "Double 5e-324", "Double", false, false, of("Double", math.SmallestNonzeroFloat64)},
		{"dnan", "Double NaN", "Double", false, false, of("Double", math.NaN())}, {"dinf", "Double +Inf", "Double", false, false, of("Double", math.Inf(1))},
		{"dninf", "Double -Inf", "Double", false, false, of("Double", math.Inf(-1))},
		{"s", "String \"aж\"", "String", true, true, of("String", lit("aж"))}, {"e", "String \"\"", "String", false, true, of("String", lit(""))},
		{"snum", "String \"12\"", "String", false, false, of("String", lit("12"))}, {"slong", "String \"99999999999999999999\"", "String", false, false, of("String", lit("99999999999999999999"))},
		{"t", "Boolean true", "Boolean", true, true, of("Boolean", true)}, {"bf", "Boolean false", "Boolean", false, false, of("Boolean", false)},
		{"n", "Null", "Null", true, true, of("Null", nil)},
		{"ts", "TimeSpan 1500ns", "TimeSpan", true, true, of("TimeSpan", int64(1500))}, {"ts0", "TimeSpan 0", "TimeSpan", false, false, of("TimeSpan", int64(0))},
		{"tsmax", "TimeSpan 2^63-1 ns", "TimeSpan", false, false, of("TimeSpan", int64(math.MaxInt64))}, {"tsmin", "TimeSpan -2^63 ns", "TimeSpan", false, false, of("TimeSpan", int64(math.MinInt64))},
		{"dt", "DateTime t0", "DateTime", true, true, of("DateTime", "t0")},
		{"arr", "Array [1 2]", "Array", true, true, arr(of("Integer", int64(1)), of("Integer", int64(2)))}, {"emp", "Array []", "Array", false, true, arr()},
		{"amix", "Array [Null \"a\" [1]]", "Array", false, false, arr(of("Null", nil), of("String", lit("a")), arr(of("Integer", int64(1))))},
		{"obj", "Object o", "Object", false, true, of("Object", "o")},
		// text made of characters that are special in patterns and formats
		{"meta", "String \"f(x[*+?{2,1}\\\"", "String", false, true, of("String", lit("f(x[*+?{2,1}\\"))}, {"pct", "String \"%_%s%d\"", "String", false, true, of("String", lit("%_%s%d"))},
	}
}

// crashNote records a witness against an entry point (the shortest one is kept).
func crashNote(m *mach, fn *ssa.Function, witness string) {
	e := crashEntryOf(m, fn)
	crashMu.Lock()
	if e.first == "" || len(witness) < len(e.first) {
		e.first = witness
	}
	crashMu.Unlock()
}

func (c *Ctx) crashFamily() *simpleVerdict {
	if crashFamMemo != nil {
		return crashFamMemo
	}
	v := &simpleVerdict{}
	crashFamMemo = v
	h := c.newVxHarness("TypeUnsafeVariantOperations")
	if h.fault != "" {
		v.undec = h.fault
		return v
	}
	m := h.m
	cctor := c.MustFunc(pkgCalc, "", "NewExpressionCalculator")
	ct := resultType(cctor)
	vc := c.MustFunc("calculator/variables", "", "NewVariableCollection")
	newVar := c.MustFunc("calculator/variables", "", "NewVariable")
	vals := crashBoundaryValues(c)
	byName := map[string]*crashVal{}
	for i := range vals {
		byName[vals[i].name] = &vals[i]
	}
	thorough := c.Tier == "thorough"
	numeric := map[string]bool{"Integer": true, "Long": true, "Float": true, "Double": true}
	type job struct {
		expr string
		safe bool // evaluated with the type-safe operations
	}
	var jobs []job
	binary := func(a, b string, safe bool) {
		for _, op := range gxBinaryLexemes {
			jobs = append(jobs, job{a + " " + op + " " + b, safe})
			if op == "LIKE" {
				jobs = append(jobs, job{a + " NOT LIKE " + b, safe})
			}
		}
		jobs = append(jobs, job{a + " [ " + b + " ]", safe}, job{a + " NOT IN " + b, safe})
	}
	for _, a := range vals {
		for _, b := range vals {
			if thorough || a.core || b.core || (a.old && b.old) {
				binary(a.name, b.name, false)
			}
			// the type-safe manager refuses most mixed pairs at once: the numeric types among themselves, and equal types
			if (numeric[a.typ] && numeric[b.typ] || a.typ == b.typ) && (thorough || a.core || b.core) {
				binary(a.name, b.name, true)
			}
		}
		for _, e := range []string{"- " + a.name, "NOT " + a.name, a.name + " IS NULL", a.name + " [ 5 ]", a.name + " [ - 1 ]", "1 / " + a.name, "1 << " + a.name} {
			jobs = append(jobs, job{e, false}, job{e, true})
		}
	}
	var fnames []string
	for n := range funcArityOracle {
		fnames = append(fnames, n)
	}
	sort.Strings(fnames)
	for _, f := range fnames {
		jobs = append(jobs, job{f + " ( )", false})
		for _, a := range vals {
			jobs = append(jobs, job{f + " ( " + a.name + " )", false})
			if a.old || thorough {
				jobs = append(jobs, job{f + " ( " + a.name + " , s )", false}, job{f + " ( i0 , " + a.name + " , arr )", false})
			}
		}
	}
	nw := 4
	var wg sync.WaitGroup
	for w := 0; w < nw; w++ {
		wg.Add(1)
		go func(w int) {
			defer wg.Done()
			h := c.newVxHarness("TypeUnsafeVariantOperations")
			if h.fault != "" {
				return
			}
			m := h.m
			calcs := map[bool]mv{}
			for _, safe := range []bool{false, true} {
				calc, out := m.Call(cctor)
				if out.kind != "ok" {
					crashFamMu.Lock()
					v.undec = "NewExpressionCalculator: " + out.why
					crashFamMu.Unlock()
					return
				}
				if safe {
					ops, out := m.Call(c.MustFunc(pkgVariants, "", "NewTypeSafeVariantOperations"))
					if out.kind != "ok" {
						continue
					}
					callM(c, m, ct, "SetVariantOperations", calc, mIface{t: resultType(c.MustFunc(pkgVariants, "", "NewTypeSafeVariantOperations")), v: ops})
				}
				calcs[safe] = calc
			}
			newTok := c.MustFunc("tokenizers", "", "NewToken")
			ttype := map[string]int64{}
			for _, n := range []string{"Word", "Keyword", "Symbol", "Integer", "Float"} {
				ttype[n], _ = c.constByName("tokenizers", n)
			}
			evalFn := c.lookupMethod(ct, "EvaluateUsingVariables")
			for i := w; i < len(jobs); i += nw {
				e, calc := jobs[i].expr, calcs[jobs[i].safe]
				if calc == nil {
					continue
				}
				m.steps = 0
				vars, _ := m.Call(vc)
				ls := lexemes(e)
				var bound []string
				seen := map[string]bool{}
				for _, l := range ls {
					if a := byName[l.text]; a != nil && l.typ == "Word" && !seen[a.name] {
						seen[a.name] = true
						bound = append(bound, a.name+" = "+a.text)
						vr, _ := m.Call(newVar, a.name, a.mk(h))
						callM(c, m, resultType(vc), "Add", vars, mIface{t: resultType(newVar), v: vr})
					}
				}
				var toks []mv
				for i, l := range ls {
					t, _ := m.Call(newTok, ttype[l.typ], l.text, int64(1), int64(i+1))
					toks = append(toks, t)
				}
				if _, out := callM(c, m, ct, "SetOriginalTokens", calc, mSlice{toks}); out.kind == "opaque" {
					crashFamMu.Lock()
					v.runs++
					crashFamKinds["set:opaque"]++
					crashFamMu.Unlock()
					continue
				}
				m.steps = 0
				_, eo := m.Call(evalFn, calc, mIface{t: resultType(vc), v: vars})
				crashFamMu.Lock()
				v.runs++
				crashFamKinds[eo.kind]++
				if eo.kind == "ok" && m.steps > crashFamMaxSteps {
					crashFamMaxSteps = m.steps
				}
				if eo.kind == "opaque" && len(crashFamOpaque) < 40 {
					crashFamOpaque = append(crashFamOpaque, e+": "+eo.why)
				}
				crashFamMu.Unlock()
				if eo.kind == "opaque" && strings.Contains(eo.why, "exceeds its step budget") {
					// not a construct outside the model: every operand is a constant of the family, and the run just does not end
					mgr := "default (type-unsafe)"
					if jobs[i].safe {
						mgr = "type-safe"
					}
					crashNote(m, evalFn, fmt.Sprintf("EvaluateUsingVariables on ‹%s› with %s and the %s operations does not return: %s after %d abstract steps (the evaluations of this family that return take about a thousand) - setting and evaluating an expression must terminate and return a result or an error for boundary values of every supported type", e, strings.Join(bound, ", "), mgr, eo.why, m.maxSteps))
				}
				if i%97 == 0 {
					noteSample("CRASH.bounded/evaluate-with-real-operations", e)
				}
			}
		}(w)
	}
	wg.Wait()
	// the text entry point of the calculator (automatic variables on and off): setting and evaluating texts
	// with empty, unterminated and unusual lexemes; then the same after the variables were cleared
	texts := []string{`""`, `"" + 1`, `Abs("")`, `''`, `'`, `"`, `"a`, `'a' + "b"`, `x`, `NOT x`, `x AND y`, `x [ 0 ]`, `Array(x, y)[0]`, `x + y * 2`, `-x`, `x IS NULL`,
		`f(`, `)`, `1 +`, `a b`, `.`, `-`, `1e`, `/*`, `a /* c`, "\u00a0", "\uffff", "😀", "a\x00b", `1.5.5`, `0x`, `a[`, `a[]`, `Min()`, `If(1)`, `Date()`, `TimeSpan(1,2,3,4,5)`, `Choose(0)`, `Choose(9, 1)`}
	for _, auto := range []bool{true, false} {
		for _, e := range texts {
			m.steps = 0
			v.runs++
			c2, out := m.Call(cctor)
			if out.kind != "ok" {
				continue
			}
			callM(c, m, ct, "SetAutoVariables", c2, auto)
			if _, so := callM(c, m, ct, "SetExpression", c2, e); so.kind == "opaque" {
				crashFamKinds[so.kind]++
				continue // the calculator is half-updated: what it does next says nothing about the library
			}
			_, eo := callM(c, m, ct, "Evaluate", c2)
			crashFamKinds[eo.kind]++
			// clearing the values of the variables leaves them evaluable (as nulls)
			if dv, out := callM(c, m, ct, "DefaultVariables", c2); out.kind == "ok" {
				if dvi, ok := dv.(mIface); ok {
					callM(c, m, dvi.t, "ClearValues", dvi.v)
					_, eo := callM(c, m, ct, "Evaluate", c2)
					crashFamKinds[eo.kind]++
					callM(c, m, dvi.t, "Clear", dvi.v)
					_, eo = callM(c, m, ct, "Evaluate", c2)
					crashFamKinds[eo.kind]++
				}
			}
			callM(c, m, ct, "Clear", c2)
			_, eo = callM(c, m, ct, "Evaluate", c2)
			crashFamKinds[eo.kind]++
		}
	}
	return v
}
