package main

import (
	"fmt"
	"os"
	"sort"
	"strings"
)

// ---------------------------------------------------------------------------------------------
// CRASH.bounded (C03): everything that escapes from an exported entry point during the abstract
// runs of all families (token strings through the parser and the calculator, strings through the
// four tokenizers, templates, CSV tables, scanner scripts, symbol tables, character maps, quote
// codecs, every operator / conversion / function cell, variants; and every operator and default function through the calculator with its real operations on boundary values of every variant type) is recorded by the machine itself:
// a panic that reaches the caller, or a (result, error) pair that is (nil, nil) or (value, error).
// One obligation per entry point that was exercised.
// ---------------------------------------------------------------------------------------------

func init() {
	register(&Rule{ID: "CRASH.bounded", Floor: 40,
		Doc: "all abstract-run families are executed and every exported entry point they call is an obligation: no panic escapes from it and a (result, error) pair is never (nil, nil) nor (value, error) - over all token strings, character strings, templates, tables, scripts, symbol sets, registrations, operator / conversion / function cells of the families",
		Run: func(c *Ctx) []*Obligation {
			o := newObl("CRASH.bounded")
			// run every family (memoised)
			c.gxRun()
			c.geRun()
			for _, k := range tkKinds {
				c.tkRun(k, "base")
				c.tkRun(k, "options")
			}
			c.curxRun()
			c.mapxRun()
			c.mapdRun()
			c.symxRun()
			c.codecRun()
			c.lexRun()
			c.csvxRun()
			c.musxRun()
			c.namexRun()
			c.reuseRun()
			c.opsxRun()
			c.convxRun()
			c.ownRun()
			c.funcxRun()
			c.crashFamily()
			if os.Getenv("CRASHDEBUG") != "" {
				fmt.Fprintln(os.Stderr, "crash family outcomes:", crashFamKinds)
				for _, o := range crashFamOpaque {
					fmt.Fprintln(os.Stderr, "  opaque:", o)
				}
			}
			crashMu.Lock()
			defer crashMu.Unlock()
			var keys []string
			for k := range crashLog {
				keys = append(keys, k)
			}
			sort.Strings(keys)
			for _, k := range keys {
				e := crashLog[k]
				pos := "-"
				// constructors and accessors are entry points too; keep the report readable
				if e.first != "" {
					o.bad(k+"#returns-normally", pos, e.first)
				} else {
					o.ok(k+"#returns-normally", pos, fmt.Sprintf("%d abstract calls return normally with a result or an error", e.calls))
				}
			}
			return o.list
		}})
}

// coverageSummary: module functions entered by some abstract run / not entered by any.
func (c *Ctx) coverageSummary() (entered, total int, missing []string) {
	for _, fn := range c.AllLibFuncs() {
		if fn.Blocks == nil {
			continue
		}
		total++
		if _, ok := covered.Load(fn); ok {
			entered++
		} else {
			missing = append(missing, c.FuncKey(fn))
		}
	}
	sort.Strings(missing)
	return
}

var _ = strings.Join

// crashFamily: the calculator with its default (real) operations and functions on every operator and
// every default function over boundary values of every variant type; outcomes are not compared with
// anything - the machine records what escapes (panic, (nil,nil), (value,error)).
var crashFamMemo *simpleVerdict
var crashFamKinds = map[string]int{}
var crashFamOpaque []string

func (c *Ctx) crashFamily() *simpleVerdict {
	if crashFamMemo != nil {
		return crashFamMemo
	}
	v := &simpleVerdict{}
	crashFamMemo = v
	h := c.newVxHarness("TypeUnsafeVariantOperations")
	if h.fault != "" {
		v.undec = h.fault
		return v
	}
	m := h.m
	cctor := c.MustFunc(pkgCalc, "", "NewExpressionCalculator")
	ct := resultType(cctor)
	vc := c.MustFunc("calculator/variables", "", "NewVariableCollection")
	newVar := c.MustFunc("calculator/variables", "", "NewVariable")
	type val struct {
		name string
		mk   func() mv
	}
	arr := func(ns ...int64) func() mv {
		return func() mv {
			var es []mv
			for _, n := range ns {
				es = append(es, h.variant("Integer", n))
			}
			r, _ := m.Call(c.MustFunc(pkgVariants, "", "VariantFromArray"), mSlice{es})
			return r
		}
	}
	vals := []val{
		{"i0", func() mv { return h.variant("Integer", int64(0)) }}, {"im", func() mv { return h.variant("Integer", int64(-1)) }},
		{"ibig", func() mv { return h.variant("Integer", int64(1)<<62) }}, {"l7", func() mv { return h.variant("Long", int64(7)) }},
		{"f", func() mv { return h.variant("Float", float64(1.5)) }}, {"d0", func() mv { return h.variant("Double", float64(0)) }},
		{"s", func() mv { return h.variant("String", lit("aж")) }}, {"e", func() mv { return h.variant("String", lit("")) }},
		{"t", func() mv { return h.variant("Boolean", true) }}, {"n", func() mv { return h.variant("Null", nil) }},
		{"ts", func() mv { return h.variant("TimeSpan", int64(1500)) }}, {"dt", func() mv { return h.variant("DateTime", "t0") }},
		{"arr", arr(1, 2)}, {"emp", arr()}, {"obj", func() mv { return h.variant("Object", "o") }},
		// text made of characters that are special in patterns and formats
		{"meta", func() mv { return h.variant("String", lit("f(x[*+?{2,1}\\")) }}, {"pct", func() mv { return h.variant("String", lit("%_%s%d")) }},
	}
	var exprs []string
	for _, a := range vals {
		for _, b := range vals {
			for _, op := range gxBinaryLexemes {
				exprs = append(exprs, a.name+" "+op+" "+b.name)
				if op == "LIKE" {
					exprs = append(exprs, a.name+" NOT LIKE "+b.name)
				}
			}
			exprs = append(exprs, a.name+" [ "+b.name+" ]", a.name+" NOT IN "+b.name)
		}
		exprs = append(exprs, "- "+a.name, "NOT "+a.name, a.name+" IS NULL", a.name+" [ 5 ]", a.name+" [ - 1 ]", "1 / "+a.name, "1 << "+a.name)
	}
	var fnames []string
	for n := range funcArityOracle {
		fnames = append(fnames, n)
	}
	sort.Strings(fnames)
	for _, f := range fnames {
		exprs = append(exprs, f+" ( )")
		for _, a := range vals {
			exprs = append(exprs, f+" ( "+a.name+" )", f+" ( "+a.name+" , s )", f+" ( i0 , "+a.name+" , arr )")
		}
	}
	calc, out := m.Call(cctor)
	if out.kind != "ok" {
		v.undec = "NewExpressionCalculator: " + out.why
		return v
	}
	newTok := c.MustFunc("tokenizers", "", "NewToken")
	ttype := map[string]int64{}
	for _, n := range []string{"Word", "Keyword", "Symbol", "Integer"} {
		ttype[n], _ = c.constByName("tokenizers", n)
	}
	for _, e := range exprs {
		m.steps = 0
		v.runs++
		vars, _ := m.Call(vc)
		for _, a := range vals {
			vr, _ := m.Call(newVar, a.name, a.mk())
			callM(c, m, resultType(vc), "Add", vars, mIface{t: resultType(newVar), v: vr})
		}
		var toks []mv
		for i, l := range lexemes(e) {
			t, _ := m.Call(newTok, ttype[l.typ], l.text, int64(1), int64(i+1))
			toks = append(toks, t)
		}
		if _, out := callM(c, m, ct, "SetOriginalTokens", calc, mSlice{toks}); out.kind == "opaque" {
			continue
		}
		_, eo := callM(c, m, ct, "EvaluateUsingVariables", calc, mIface{t: resultType(vc), v: vars})
		crashFamKinds[eo.kind]++
		if eo.kind == "opaque" && len(crashFamOpaque) < 12 {
			crashFamOpaque = append(crashFamOpaque, e+": "+eo.why)
		}
		if v.runs%97 == 0 {
			noteSample("CRASH.bounded/evaluate-with-default-operations", e)
		}
	}
	// the text entry point of the calculator (automatic variables on and off): setting and evaluating texts
	// with empty, unterminated and unusual lexemes; then the same after the variables were cleared
	texts := []string{`""`, `"" + 1`, `Abs("")`, `''`, `'`, `"`, `"a`, `'a' + "b"`, `x`, `NOT x`, `x AND y`, `x [ 0 ]`, `Array(x, y)[0]`, `x + y * 2`, `-x`, `x IS NULL`,
		`f(`, `)`, `1 +`, `a b`, `.`, `-`, `1e`, `/*`, `a /* c`, "\u00a0", "\uffff", "😀", "a\x00b", `1.5.5`, `0x`, `a[`, `a[]`, `Min()`, `If(1)`, `Date()`, `TimeSpan(1,2,3,4,5)`, `Choose(0)`, `Choose(9, 1)`}
	for _, auto := range []bool{true, false} {
		for _, e := range texts {
			m.steps = 0
			v.runs++
			c2, out := m.Call(cctor)
			if out.kind != "ok" {
				continue
			}
			callM(c, m, ct, "SetAutoVariables", c2, auto)
			callM(c, m, ct, "SetExpression", c2, e)
			_, eo := callM(c, m, ct, "Evaluate", c2)
			crashFamKinds[eo.kind]++
			// clearing the values of the variables leaves them evaluable (as nulls)
			if dv, out := callM(c, m, ct, "DefaultVariables", c2); out.kind == "ok" {
				if dvi, ok := dv.(mIface); ok {
					callM(c, m, dvi.t, "ClearValues", dvi.v)
					_, eo := callM(c, m, ct, "Evaluate", c2)
					crashFamKinds[eo.kind]++
					callM(c, m, dvi.t, "Clear", dvi.v)
					_, eo = callM(c, m, ct, "Evaluate", c2)
					crashFamKinds[eo.kind]++
				}
			}
			callM(c, m, ct, "Clear", c2)
			_, eo = callM(c, m, ct, "Evaluate", c2)
			crashFamKinds[eo.kind]++
		}
	}
	return v
}
