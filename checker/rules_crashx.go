package main

import (
	"fmt"
	"sort"
	"strings"
)

// ---------------------------------------------------------------------------------------------
// CRASH.bounded (C03): everything that escapes from an exported entry point during the abstract
// runs of all families (token strings through the parser and the calculator, strings through the
// four tokenizers, templates, CSV tables, scanner scripts, symbol tables, character maps, quote
// codecs, every operator / conversion / function cell, variants) is recorded by the machine itself:
// a panic that reaches the caller, or a (result, error) pair that is (nil, nil) or (value, error).
// One obligation per entry point that was exercised.
// ---------------------------------------------------------------------------------------------

func init() {
	register(&Rule{ID: "CRASH.bounded", Floor: 40,
		Doc: "all abstract-run families are executed and every exported entry point they call is an obligation: no panic escapes from it and a (result, error) pair is never (nil, nil) nor (value, error) - over all token strings, character strings, templates, tables, scripts, symbol sets, registrations, operator / conversion / function cells of the families",
		Run: func(c *Ctx) []*Obligation {
			o := newObl("CRASH.bounded")
			// run every family (memoised)
			c.gxRun()
			c.geRun()
			for _, k := range tkKinds {
				c.tkRun(k, "base")
				c.tkRun(k, "options")
			}
			c.curxRun()
			c.mapxRun()
			c.mapdRun()
			c.symxRun()
			c.codecRun()
			c.lexRun()
			c.csvxRun()
			c.musxRun()
			c.namexRun()
			c.reuseRun()
			c.opsxRun()
			c.convxRun()
			c.ownRun()
			c.funcxRun()
			crashMu.Lock()
			defer crashMu.Unlock()
			var keys []string
			for k := range crashLog {
				keys = append(keys, k)
			}
			sort.Strings(keys)
			for _, k := range keys {
				e := crashLog[k]
				pos := "-"
				// constructors and accessors are entry points too; keep the report readable
				if e.first != "" {
					o.bad(k+"#returns-normally", pos, e.first)
				} else {
					o.ok(k+"#returns-normally", pos, fmt.Sprintf("%d abstract calls return normally with a result or an error", e.calls))
				}
			}
			return o.list
		}})
}

// coverageSummary: module functions entered by some abstract run / not entered by any.
func (c *Ctx) coverageSummary() (entered, total int, missing []string) {
	for _, fn := range c.AllLibFuncs() {
		if fn.Blocks == nil {
			continue
		}
		total++
		if _, ok := covered.Load(fn); ok {
			entered++
		} else {
			missing = append(missing, c.FuncKey(fn))
		}
	}
	sort.Strings(missing)
	return
}

var _ = strings.Join
