package main

import (
	"fmt"
	"go/types"
	"sort"
	"strings"
	"sync"
)

// ---------------------------------------------------------------------------------------------
// REUSE.mustache (C05): a template parser or template instance that was given a malformed template
// before gives what a fresh instance gives. The malformed family is generated from the statement's
// classes of malformed templates (C10): tags that are never closed, cut off after the opening braces,
// after each operator ('!', '#', '^', '/', '#if', '#unless', '/if', '/unless'), after the name and after
// half a closer, with double and triple braces, alone and after text; brace counts that do not match;
// unclosed, unopened and mismatched sections. Each of them is followed, on the same instance, by each
// of a few well-formed templates whose first tag is a variable, an escaped variable, a section in several
// spellings, an inverted section or a comment. Compiled tokens (type, value, position, nesting), variable
// names and the rendering must equal those of a freshly constructed instance.
// ---------------------------------------------------------------------------------------------

func musReuseMalformed(thorough bool) []string {
	seen := map[string]bool{}
	var out []string
	add := func(s string) {
		if !seen[s] {
			seen[s] = true
			out = append(out, s)
		}
	}
	ops := []string{"", "!", "#", "^", "/", "#if ", "#unless ", "/if", "/unless", "# ", "^ ", "! c "}
	prefixes := []string{""}
	if thorough {
		prefixes = append(prefixes, "Dear ")
	}
	for _, prefix := range prefixes {
		for _, open := range []string{"{{", "{{{"} {
			cl, other := "}}", "}}}"
			if open == "{{{" {
				cl, other = "}}}", "}}"
			}
			for _, op := range ops {
				// the template ends inside the tag: after the operator, after the name, after blanks, after half a closer
				add(prefix + open + op)
				add(prefix + open + op + "x")
				add(prefix + open + op + "x ")
				add(prefix + open + op + "x}")
				// the brace counts do not match
				add(prefix + open + op + "x" + other)
				add(prefix + open + op + "x" + other + " tail")
				// a section tag that closes properly but whose section does not, an end without a beginning
				if strings.HasPrefix(op, "#") || strings.HasPrefix(op, "^") || strings.HasPrefix(op, "/") {
					add(prefix + open + op + "x" + cl)
					add(prefix + open + op + "x" + cl + "body")
				}
			}
		}
	}
	for _, s := range musMalformed {
		add(s)
	}
	return out
}

var musReuseWellFormed = []string{
	"Hello, {{a}}!", "{{{a}}}", "{{#a}}in{{/a}}out", "{{^b}}n{{/b}}", "{{!c}}t{{a}}", "plain", "{{#if a}}{{b}}x{{/if}}", "{{#unless b}}{{{a}}}{{/unless}}", "{{ a }}{{^a}}z{{/a}}",
}

var reuseMusMemo map[string]*simpleVerdict
var reuseMusMu sync.Mutex

func (c *Ctx) reuseMusRun() map[string]*simpleVerdict {
	reuseMusMu.Lock()
	defer reuseMusMu.Unlock()
	if reuseMusMemo != nil {
		return reuseMusMemo
	}
	res := map[string]*simpleVerdict{"parser": {}, "template": {}}
	var mu sync.Mutex
	note := func(k, bad, undec string) {
		mu.Lock()
		defer mu.Unlock()
		v := res[k]
		v.runs++
		if bad != "" && (v.bad == "" || len(bad) < len(v.bad)) {
			v.bad = bad
		}
		if undec != "" && v.undec == "" {
			v.undec = undec
		}
	}
	thorough := c.Tier == "thorough"
	malformed := musReuseMalformed(thorough)
	wellFormed := musReuseWellFormed
	pctor := c.MustFunc("mustache/parsers", "", "NewMustacheParser")
	pt := resultType(pctor)
	tctor := c.MustFunc("mustache", "", "NewMustacheTemplate")
	tt := resultType(tctor)
	var tokT types.Type
	if f := c.lookupMethod(pt, "ResultTokens"); f != nil {
		if sl, ok := f.Signature.Results().At(0).Type().Underlying().(*types.Slice); ok {
			tokT = sl.Elem()
		}
	}
	if tokT == nil {
		note("parser", "", "MustacheParser.ResultTokens not found")
		note("template", "", "MustacheParser.ResultTokens not found")
		reuseMusMemo = res
		return res
	}
	// the compiled tokens read back through the accessors of the token objects
	var showTokens func(m *mach, v mv) string
	showTokens = func(m *mach, v mv) string {
		sl, ok := v.(mSlice)
		if !ok {
			return mRender(v)
		}
		var ps []string
		for _, tk := range sl.arr {
			typ, o1 := callM(c, m, tokT, "Type", tk)
			val, o2 := callM(c, m, tokT, "Value", tk)
			line, _ := callM(c, m, tokT, "Line", tk)
			col, _ := callM(c, m, tokT, "Column", tk)
			sub, o3 := callM(c, m, tokT, "Tokens", tk)
			if o1.kind != "ok" || o2.kind != "ok" || o3.kind != "ok" {
				return "opaque: token accessors: " + o1.why + o2.why + o3.why
			}
			p := fmt.Sprintf("%s:%s@%s:%s", mRender(typ), mRender(val), mRender(line), mRender(col))
			if ssl, ok := sub.(mSlice); ok && len(ssl.arr) > 0 {
				p += showTokens(m, sub)
			}
			ps = append(ps, p)
		}
		return "[" + strings.Join(ps, " ") + "]"
	}
	vars := map[string]string{"a": "A/\"", "b": ""}
	mkMap := func() *mMap {
		mm := &mMap{k: map[string]mv{}, v: map[string]mv{}}
		var keys []string
		for k := range vars {
			keys = append(keys, k)
		}
		sort.Strings(keys)
		for _, k := range keys {
			ks, _ := mapKey(k)
			mm.keys = append(mm.keys, ks)
			mm.k[ks], mm.v[ks] = k, vars[k]
		}
		return mm
	}
	parse := func(m *mach, p mv, s string) string {
		m.steps = 0
		r, out := callM(c, m, pt, "ParseString", p, s)
		if out.kind != "ok" {
			return out.kind + ": " + out.why
		}
		if _, isNil := r.(mNilT); !isNil {
			return "error " + errorCode(r)
		}
		rt, o1 := callM(c, m, pt, "ResultTokens", p)
		vn, o2 := callM(c, m, pt, "VariableNames", p)
		if o1.kind != "ok" || o2.kind != "ok" {
			return "opaque: " + o1.why + o2.why
		}
		names, _ := stringsOfSlice(vn)
		return "compiled tokens " + showTokens(m, rt) + ", variable names " + fmt.Sprint(names)
	}
	render := func(m *mach, tm mv, s string) string {
		m.steps = 0
		e, out := callM(c, m, tt, "SetTemplate", tm, s)
		if out.kind != "ok" {
			return out.kind + ": " + out.why
		}
		if _, isNil := e.(mNilT); !isNil {
			return "error " + errorCode(e)
		}
		rt, o1 := callM(c, m, tt, "ResultTokens", tm)
		if o1.kind != "ok" {
			return "opaque: " + o1.why
		}
		r, out := callM(c, m, tt, "EvaluateWithVariables", tm, mkMap())
		tp, ok := r.(mTuple)
		if out.kind != "ok" || !ok {
			return out.kind + ": " + out.why
		}
		if _, isNil := tp[1].(mNilT); !isNil {
			return "compiled tokens " + showTokens(m, rt) + ", rendering fails with " + errorCode(tp[1])
		}
		return fmt.Sprintf("rendering %q with a=%q, b=%q, compiled tokens %s", catRender(tp[0]), vars["a"], vars["b"], showTokens(m, rt))
	}
	type kind struct {
		name, what string
		run        func(m *mach, inst mv, s string) string
	}
	kinds := []kind{{"parser", "MustacheParser", parse}, {"template", "MustacheTemplate", render}}
	const nw = 3
	var wg sync.WaitGroup
	for _, k := range kinds {
		for w := 0; w < nw; w++ {
			wg.Add(1)
			go func(k kind, w int) {
				defer wg.Done()
				ctor := pctor
				if k.name == "template" {
					ctor = tctor
				}
				m := newMach(c)
				m.maxSteps = 2000000
				fresh := map[string]string{}
				for _, s := range wellFormed {
					inst, out := m.Call(ctor)
					if out.kind != "ok" {
						note(k.name, "", ctor.Name()+": "+out.why)
						return
					}
					fresh[s] = k.run(m, inst, s)
				}
				shared, _ := m.Call(ctor)
				for i := w; i < len(malformed); i += nw {
					bad := malformed[i]
					if i%29 == 0 {
						noteSample("REUSE.mustache/malformed-first", fmt.Sprintf("%q", bad))
					}
					for j, s := range wellFormed {
						// quick tier: the plain variable and two of the others in rotation
						if !thorough && j != 0 && j != 1+i%8 && j != 1+(i+3)%8 {
							continue
						}
						first := k.run(m, shared, bad)
						got := k.run(m, shared, s)
						switch {
						case strings.HasPrefix(got, "opaque") || strings.HasPrefix(first, "opaque"):
							note(k.name, "", fmt.Sprintf("%q then %q: %s", bad, s, got))
						case strings.HasPrefix(got, "panic"):
							note(k.name, fmt.Sprintf("one %s given the template %q (%s) and then %q: %s", k.what, bad, first, s, got), "")
						case got != fresh[s]:
							note(k.name, fmt.Sprintf("one %s given the template %q (%s) and then %q gives %s; a freshly constructed %s gives %s", k.what, bad, first, s, got, k.what, fresh[s]), "")
						default:
							note(k.name, "", "")
						}
					}
				}
			}(k, w)
		}
	}
	wg.Wait()
	reuseMusMemo = res
	return res
}

func init() {
	register(&Rule{ID: "REUSE.mustache", Floor: 2,
		Doc: "one MustacheParser and one MustacheTemplate instance on the abstract machine are given every member of a generated family of malformed templates (tags cut off after the opening braces, after each operator, after the name and after half a closer, with double and triple braces; brace counts that do not match; unclosed, unopened and mismatched sections) and then well-formed templates (the plain variable and two of eight others in rotation; all nine and a second copy of the family after leading text in the thorough tier; first tag a variable, an escaped variable, a section or inverted section in several spellings, a comment; plain text): compiled tokens with their positions and nesting, variable names and the rendering equal those of a freshly constructed instance",
		Run: func(c *Ctx) []*Obligation {
			o := newObl("REUSE.mustache")
			res := c.reuseMusRun()
			o.list = append(o.list, emitSimple(c, "REUSE.mustache", "parsers.MustacheParser#reuse-after-malformed", c.Pos(c.MustFunc("mustache/parsers", "", "NewMustacheParser").Pos()), res["parser"], "results after a malformed template equal a fresh instance's")...)
			o.list = append(o.list, emitSimple(c, "REUSE.mustache", "mustache.MustacheTemplate#reuse-after-malformed", c.Pos(c.MustFunc("mustache", "", "NewMustacheTemplate").Pos()), res["template"], "results after a malformed template equal a fresh instance's")...)
			return o.list
		}})
}
