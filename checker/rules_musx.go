package main

import (
	"fmt"
	"sort"
	"strings"
	"sync"
)

// ---------------------------------------------------------------------------------------------
// MUS.reference (C10): templates generated from syntax trees (text, variables, escaped variables,
// comments, sections and inverted sections in each spelling, nested) are rendered by the machine
// through NewMustacheTemplate / SetTemplate / EvaluateWithVariables and compared with the rendering
// of the tree as the statement defines it, over variable maps with present / empty / absent values
// and differing key case; a list of malformed templates must be rejected.
// ---------------------------------------------------------------------------------------------

type musNode struct {
	kind     string // text, var, esc, comment, section
	text     string // text / name / comment
	inverted bool
	spelling int
	body     []musNode
}

func musPrint(ns []musNode) string {
	var sb strings.Builder
	for _, n := range ns {
		switch n.kind {
		case "text":
			sb.WriteString(n.text)
		case "var":
			if n.spelling%2 == 0 {
				sb.WriteString("{{" + n.text + "}}")
			} else {
				sb.WriteString("{{ " + n.text + " }}")
			}
		case "esc":
			sb.WriteString("{{{" + n.text + "}}}")
		case "comment":
			sb.WriteString("{{!" + n.text + "}}")
		case "section":
			o, cl := "{{", "}}"
			if n.spelling >= 4 {
				o, cl = "{{{", "}}}"
			}
			var open, close string
			switch {
			case !n.inverted && n.spelling%4 == 0:
				open, close = "#"+n.text, "/"+n.text
			case !n.inverted && n.spelling%4 == 1:
				open, close = "#if "+n.text, "/if"
			case !n.inverted && n.spelling%4 == 2:
				open, close = "# "+n.text+" ", "/ "+n.text
			case !n.inverted:
				open, close = "#if "+n.text, "/"+n.text
			case n.spelling%4 == 0:
				open, close = "^"+n.text, "/"+n.text
			case n.spelling%4 == 1:
				open, close = "#unless "+n.text, "/unless"
			case n.spelling%4 == 2:
				open, close = "^ "+n.text, "/"+n.text
			default:
				open, close = "#unless "+n.text, "/"+n.text
			}
			sb.WriteString(o + open + cl + musPrint(n.body) + o + close + cl)
		}
	}
	return sb.String()
}

func musLookup(vars map[string]string, name string) (string, bool) {
	// names are matched case-insensitively
	var keys []string
	for k := range vars {
		keys = append(keys, k)
	}
	sort.Strings(keys)
	for _, k := range keys {
		if strings.EqualFold(k, name) {
			return vars[k], true
		}
	}
	return "", false
}

func musEscape(s string) string {
	r := strings.NewReplacer("\\", "\\\\", "\"", "\\\"", "/", "\\/", "\b", "\\b", "\f", "\\f", "\n", "\\n", "\r", "\\r", "\t", "\\t")
	return r.Replace(s)
}

func musRender(ns []musNode, vars map[string]string) string {
	var sb strings.Builder
	for _, n := range ns {
		switch n.kind {
		case "text":
			sb.WriteString(n.text)
		case "var":
			if v, ok := musLookup(vars, n.text); ok {
				sb.WriteString(v)
			}
		case "esc":
			if v, ok := musLookup(vars, n.text); ok {
				sb.WriteString(musEscape(v))
			}
		case "section":
			v, ok := musLookup(vars, n.text)
			defined := ok && v != ""
			if defined != n.inverted {
				sb.WriteString(musRender(n.body, vars))
			}
		}
	}
	return sb.String()
}

func musTrees() [][]musNode {
	texts := []string{"t", " x y\n", "x{y", "x}y", "\"q\" 'r'", "ü #/^!", "a{b}c"}
	leaves := []musNode{}
	for _, t := range texts {
		leaves = append(leaves, musNode{kind: "text", text: t})
	}
	leaves = append(leaves,
		musNode{kind: "var", text: "a"}, musNode{kind: "var", text: "B", spelling: 1}, musNode{kind: "esc", text: "a"}, musNode{kind: "esc", text: "b"},
		musNode{kind: "var", text: "if"}, musNode{kind: "var", text: "unless"},
		musNode{kind: "var", text: "UserName"}, musNode{kind: "esc", text: "Ab"},
		musNode{kind: "comment", text: " c "}, musNode{kind: "comment", text: "a b # /"}, musNode{kind: "var", text: "x_1"}, musNode{kind: "var", text: "if1"})
	small := []musNode{{kind: "text", text: "t"}, {kind: "var", text: "a"}, {kind: "esc", text: "b"}, {kind: "text", text: " {x} "}}
	var trees [][]musNode
	for _, l := range leaves {
		trees = append(trees, []musNode{l})
		for _, m := range small {
			trees = append(trees, []musNode{l, m}, []musNode{m, l})
		}
	}
	sp := 0
	for _, name := range []string{"a", "b", "A", "if", "unless"} {
		for _, inv := range []bool{false, true} {
			for spelling := 0; spelling < 8; spelling++ {
				for _, b1 := range small {
					sec := musNode{kind: "section", text: name, inverted: inv, spelling: spelling, body: []musNode{b1}}
					trees = append(trees, []musNode{sec}, []musNode{{kind: "text", text: "<"}, sec, {kind: "text", text: ">"}})
					sp++
					// nested sections of every polarity
					for _, inv2 := range []bool{false, true} {
						inner := musNode{kind: "section", text: "b", inverted: inv2, spelling: (spelling + sp) % 8, body: []musNode{b1, {kind: "var", text: "a"}}}
						outer := musNode{kind: "section", text: name, inverted: inv, spelling: spelling, body: []musNode{{kind: "text", text: "["}, inner, {kind: "text", text: "]"}}}
						trees = append(trees, []musNode{outer}, []musNode{outer, inner})
					}
				}
				// empty body, adjacent sections
				e := musNode{kind: "section", text: name, inverted: inv, spelling: spelling}
				trees = append(trees, []musNode{e}, []musNode{e, e})
			}
		}
	}
	return trees
}

// musLiteralTrees: literal text around, between and without tags, exhaustively over {x, '{', '}', space} up to
// length 3 (4 in the thorough tier). Text is rendered verbatim; a single brace is text, two opening braces open
// a tag. Members whose segmentation the statement does not fix are left out: text containing "{{", text ending
// in '{' right before a tag ("{" + "{{a}}" reads as a triple-brace opener) and text starting with '}' right
// after one ("{{a}}" + "}" reads as a triple-brace closer).
func musLiteralTrees(maxLen int) [][]musNode {
	var texts []string
	var gen func(prefix string)
	gen = func(prefix string) {
		if prefix != "" && !strings.Contains(prefix, "{{") {
			texts = append(texts, prefix)
		}
		if len(prefix) == maxLen {
			return
		}
		for _, ch := range []string{"x", "{", "}", " "} {
			gen(prefix + ch)
		}
	}
	gen("")
	var trees [][]musNode
	for _, t := range texts {
		txt := musNode{kind: "text", text: t}
		before, after := !strings.HasSuffix(t, "{"), !strings.HasPrefix(t, "}")
		trees = append(trees, []musNode{txt})
		if before {
			trees = append(trees, []musNode{txt, {kind: "var", text: "a"}})
		}
		if after {
			trees = append(trees, []musNode{{kind: "var", text: "a"}, txt}, []musNode{{kind: "comment", text: "c"}, txt})
		}
		if before && after {
			trees = append(trees,
				[]musNode{{kind: "section", text: "a", body: []musNode{txt}}},
				[]musNode{{kind: "section", text: "b", inverted: true, spelling: 5, body: []musNode{txt}}},
				[]musNode{txt, {kind: "esc", text: "a"}, txt})
		}
	}
	return trees
}

// musPunctuationTrees: ordinary punctuation characters - the backslash, '$', the characters that are operators inside a
// tag ('#', '/', '^', '!'), a quote, '&', '.' - as the last character of the text before a tag, as the first character
// after one, doubled and next to a letter, for each kind of tag: a variable, an escaped variable, a comment, the opening
// and the closing tag of a section and of an inverted section (double and triple braces, several spellings). Outside a
// tag none of them has a meaning: the text is rendered verbatim and the tags next to it are still tags.
func musPunctuationTrees() [][]musNode {
	var trees [][]musNode
	for _, ch := range []string{"\\", "$", "#", "/", "^", "!", "\"", "&", "."} {
		for ti, t := range []string{ch, "x" + ch, ch + "x", ch + ch} {
			txt := musNode{kind: "text", text: t}
			trees = append(trees,
				[]musNode{txt, {kind: "var", text: "a"}},
				[]musNode{{kind: "var", text: "a", spelling: 1}, txt},
				[]musNode{txt, {kind: "esc", text: "a"}, txt},
				[]musNode{txt, {kind: "comment", text: " c "}, txt, {kind: "var", text: "b"}},
				[]musNode{txt, {kind: "section", text: "a", spelling: ti, body: []musNode{txt}}, txt},
				[]musNode{txt, {kind: "section", text: "b", inverted: true, spelling: ti + 4, body: []musNode{txt}}, txt},
				[]musNode{{kind: "section", text: "a", spelling: ti + 4, body: []musNode{txt, {kind: "var", text: "a"}, txt, {kind: "section", text: "b", inverted: true, spelling: ti, body: []musNode{txt}}}}})
		}
	}
	return trees
}

// musReservedWords: words that other template dialects give a meaning to. In this dialect a name is a name: `if` and
// `unless` are section words only right after '#' / '/'; everywhere else, and all the others everywhere, they are
// ordinary variable and section names.
var musReservedWords = []string{"else", "this", "end", "each", "with", "if", "unless", "not", "true", "false", "null", "in"}

// musReservedTrees: every reserved word in lower, upper and capitalised spelling as a plain variable (both spacings),
// an escaped variable, a section name and an inverted-section name - at top level, inside the body of a section and
// inside the body of an inverted section (between text, so that a body cut in two would show).
func musReservedTrees() [][]musNode {
	var trees [][]musNode
	k := 0
	for _, w := range musReservedWords {
		for _, name := range []string{w, strings.ToUpper(w), strings.ToUpper(w[:1]) + w[1:]} {
			uses := []musNode{
				{kind: "var", text: name}, {kind: "var", text: name, spelling: 1}, {kind: "esc", text: name},
			}
			if !strings.EqualFold(w, "if") && !strings.EqualFold(w, "unless") || name == w {
				// (whether `#IF x` spells a section word is not fixed by the statement: upper-case if / unless stay variables)
				uses = append(uses,
					musNode{kind: "section", text: name, spelling: k % 8, body: []musNode{{kind: "text", text: "in"}}},
					musNode{kind: "section", text: name, inverted: true, spelling: (k + 3) % 8, body: []musNode{{kind: "text", text: "out"}, {kind: "var", text: name}}})
			}
			for _, u := range uses {
				k++
				l, r := musNode{kind: "text", text: "<"}, musNode{kind: "text", text: ">"}
				trees = append(trees,
					[]musNode{l, u, r},
					[]musNode{{kind: "section", text: "a", spelling: k % 8, body: []musNode{l, u, r}}},
					[]musNode{{kind: "section", text: "b", inverted: true, spelling: (k + 1) % 8, body: []musNode{l, u, r}}},
					[]musNode{{kind: "section", text: "a", spelling: (k + 2) % 8, body: []musNode{{kind: "section", text: "b", inverted: true, spelling: k % 4, body: []musNode{{kind: "var", text: "a"}, u, {kind: "text", text: "|"}}}, u}}})
			}
		}
	}
	return trees
}

// musReservedSets: variable maps for the reserved-word family: the words absent, present (keys in lower and in upper
// case, each word with a value of its own), present and empty.
func musReservedSets() []map[string]string {
	lower, upper, empty := map[string]string{"a": "v"}, map[string]string{"a": "v", "b": "w"}, map[string]string{"a": "v"}
	for _, w := range musReservedWords {
		lower[w] = "(" + w + ")"
		upper[strings.ToUpper(w)] = "[" + w + "/\"]"
		empty[w] = ""
	}
	return []map[string]string{{}, {"a": "v"}, lower, upper, empty, {"b": "w", "else": "E"}}
}

func varSets7() map[string]string { return map[string]string{"a": "<&\"/\\\n\t>", "if": "\\/"} }

func musHasEscaped(ns []musNode) bool {
	for _, n := range ns {
		if n.kind == "esc" || musHasEscaped(n.body) {
			return true
		}
	}
	return false
}

// musDefaultMembers: templates naming one variable in lower, upper and mixed case (as a variable, an escaped
// variable, a section and an inverted section, alone, twice in two spellings, next to another variable) x default
// variables whose key spells the name in each of the three ways, with a value, an empty value and a value that
// needs escaping, next to an unrelated key x the order of SetDefaultVariables and SetTemplate.
type musDefaultMember struct {
	tree     []musNode
	defaults map[string]string
	order    string
}

func musDefaultMembers() []musDefaultMember {
	var out []musDefaultMember
	spell := []string{"name", "NAME", "Name"}
	for si, n := range spell {
		n2 := spell[(si+1)%3]
		trees := [][]musNode{
			{{kind: "text", text: "<"}, {kind: "var", text: n}, {kind: "text", text: ">"}},
			{{kind: "esc", text: n}},
			{{kind: "section", text: n, spelling: si, body: []musNode{{kind: "text", text: "in"}}}, {kind: "section", text: n, inverted: true, spelling: si + 1, body: []musNode{{kind: "text", text: "out"}}}},
			{{kind: "var", text: n}, {kind: "text", text: " "}, {kind: "var", text: n2}, {kind: "section", text: n2, body: []musNode{{kind: "esc", text: n}}}},
			{{kind: "var", text: "other"}, {kind: "section", text: "q", inverted: true, body: []musNode{{kind: "var", text: n}}}},
		}
		for _, key := range []string{"name", "NAME", "nAmE"} {
			for _, defaults := range []map[string]string{{key: "v"}, {key: ""}, {key: "a/\"b", "other": "o"}, {"k": "1", key: "v", "z": ""}} {
				for _, order := range []string{"before", "after", "before2"} {
					for _, tr := range trees {
						out = append(out, musDefaultMember{tr, defaults, order})
					}
				}
			}
		}
	}
	return out
}

var musMalformed = []string{
	"{{", "{{a", "{{a}", "{{{a}}", "{{a}}}", "{{#a}}", "{{#a}}x", "{{/a}}", "x{{/a}}", "{{#a}}{{/b}}", "{{#a}}{{#b}}{{/a}}{{/b}}", "{{^a}}", "{{#if a}}x", "{{#unless a}}",
	"{{#a}}x{{/a}", "{{{#a}}}x{{/a}}}", "{{#a}}}x{{/a}}", "{{!c", "{{#a}}{{#b}}x{{/b}}", "{{}}", "{{#}}", "{{/}}", "{{a b}}", "{{#a b}}x{{/a}}", "{{a}}{{", "{{{", "{{#a}}{{/a}}{{/a}}", "x{{/if}}", "{{#a}}b{{/a}}{{/if}}", "{{/unless}}", "text{{/if}}", "Hello{{! note }}}, {{name}}!", "{{{! c }} x {{{a}}}", "{{! c }}}",
	"{{^if a}}x{{/if}}", "{{^unless a}}x{{/unless}}", "{{^if a}}x{{/a}}", "{{/if a}}", "{{#a}}x{{/a b}}",
}

var musxMemo map[string]*simpleVerdict
var musxMu sync.Mutex

func (c *Ctx) musxRun() map[string]*simpleVerdict {
	musxMu.Lock()
	defer musxMu.Unlock()
	if musxMemo != nil {
		return musxMemo
	}
	trees := musTrees()
	// the literal-text family is rendered with the first two variable maps only
	nFull := len(trees)
	if c.Tier == "thorough" {
		trees = append(trees, musLiteralTrees(4)...)
	} else {
		trees = append(trees, musLiteralTrees(3)...)
	}
	trees = append(trees, musPunctuationTrees()...)
	// names that other dialects reserve, with variable maps of their own
	nReserved := len(trees)
	trees = append(trees, musReservedTrees()...)
	reservedSets := musReservedSets()
	// values in which several characters need escaping, the backslash among them: whatever order the escapes are
	// applied in internally, the escaped value is the JSON-style one - every rendering of a template with an escaped
	// variable is repeated under the other iteration orders of maps (Go fixes none) and must not differ
	escSets := []map[string]string{{"a": "\\\"/", "b": "\t\\\n", "Ab": "\r\"\\n", "else": "/\\"}, varSets7(), {"B": "x\r\b\f\\", "a": "ж\"", "AB": "\\"}}
	if c.Tier != "thorough" {
		escSets = escSets[:2]
	}
	varSets := []map[string]string{
		{}, {"a": "v"}, {"a": ""}, {"b": "w"}, {"a": "v", "b": "w"}, {"a": "v", "b": ""}, {"A": "Up"}, {"a": "<&\"/\\\n\t>"}, {"B": "x\r\b\f", "a": "ж"}, {"a": "{{b}}", "b": "1"}, {"x_1": "X", "if1": "I"}, {"if": "yes", "unless": ""}, {"unless": "u", "a": "v"}, {"USERNAME": "U1", "aB": "v2"}, {"Username": "U2", "AB": "v3"}, {"username": "U3", "ab": "v4"},
		{"a": " ", "b": "\n"}, {"a": "\t\r\n", "B": "\u00a0"}, {"a": "\u2003", "b": " x "},
	}
	res := map[string]*simpleVerdict{"render": {}, "reject": {}, "unchanged": {}, "repeat": {}, "defaults": {}}
	var mu sync.Mutex
	ctor := c.MustFunc("mustache", "", "NewMustacheTemplate")
	tt := ctor.Signature.Results().At(0).Type()
	nw := 12
	var wg sync.WaitGroup
	for w := 0; w < nw; w++ {
		wg.Add(1)
		go func(w int) {
			defer wg.Done()
			vr, vj, vu, vp, vd := &simpleVerdict{}, &simpleVerdict{}, &simpleVerdict{}, &simpleVerdict{}, &simpleVerdict{}
			defer func() {
				mu.Lock()
				for k, v := range map[string]*simpleVerdict{"render": vr, "reject": vj, "unchanged": vu, "repeat": vp, "defaults": vd} {
					t := res[k]
					t.runs += v.runs
					if v.bad != "" && (t.bad == "" || len(v.bad) < len(t.bad)) {
						t.bad = v.bad
					}
					if v.undec != "" && t.undec == "" {
						t.undec = v.undec
					}
				}
				mu.Unlock()
			}()
			m := newMach(c)
			m.maxSteps = 2000000
			tmpl, out := m.Call(ctor)
			if out.kind != "ok" {
				vr.undec = "NewMustacheTemplate: " + out.why
				return
			}
			set := c.lookupMethod(tt, "SetTemplate")
			eval := c.lookupMethod(tt, "EvaluateWithVariables")
			setDef := c.lookupMethod(tt, "SetDefaultVariables")
			getDef := c.lookupMethod(tt, "DefaultVariables")
			tmplD, _ := m.Call(ctor)
			mkMap := func(vars map[string]string) *mMap {
				mm := &mMap{k: map[string]mv{}, v: map[string]mv{}}
				var keys []string
				for k := range vars {
					keys = append(keys, k)
				}
				sort.Strings(keys)
				for _, k := range keys {
					ks, _ := mapKey(k)
					mm.keys = append(mm.keys, ks)
					mm.k[ks] = k
					mm.v[ks] = vars[k]
				}
				return mm
			}
			for i := w; i < len(trees); i += nw {
				src := musPrint(trees[i])
				m.steps = 0
				e, out := m.Call(set, tmpl, src)
				show := fmt.Sprintf("template %q", src)
				if i%173 == 0 {
					noteSample("MUS.reference/templates", show)
				}
				if out.kind == "panic" {
					vr.bad = show + ": SetTemplate panics: " + out.why
					continue
				}
				if out.kind != "ok" {
					vr.undec = show + ": SetTemplate: " + out.why
					continue
				}
				if _, isNil := e.(mNilT); !isNil {
					if vr.bad == "" {
						vr.bad = fmt.Sprintf("%s is well-formed but rejected with %s", show, errorCode(e))
					}
					continue
				}
				instBefore := mFieldFingerprints(tmpl)
				firstResults := map[int]string{}
				sets := varSets
				if i >= nFull {
					sets = varSets[:2]
				}
				if i >= nReserved {
					sets = reservedSets
				}
				for vi, vars := range sets {
					m.steps = 0
					vr.runs++
					given := mkMap(vars)
					r, out := m.Call(eval, tmpl, given)
					if out.kind == "ok" {
						firstResults[vi] = mRender(r)
					}
					vu.runs++
					if len(given.keys) != len(vars) && vu.bad == "" {
						vu.bad = fmt.Sprintf("%s with %q: rendering adds entries to the caller's variable map (%d keys afterwards)", show, vars, len(given.keys))
					}
					for _, ks := range given.keys {
						kk, _ := given.k[ks].(string)
						if vv, _ := given.v[ks].(string); vv != vars[kk] && vu.bad == "" {
							vu.bad = fmt.Sprintf("%s with %q: rendering changes the caller's variable %q to %q", show, vars, kk, vv)
						}
					}
					if out.kind == "panic" {
						vr.bad = fmt.Sprintf("%s with %q: rendering panics: %s", show, vars, out.why)
						continue
					}
					tp, ok := r.(mTuple)
					if out.kind != "ok" || !ok {
						vr.undec = fmt.Sprintf("%s with %q: %s", show, vars, out.why)
						continue
					}
					if _, isNil := tp[1].(mNilT); !isNil {
						if vr.bad == "" {
							vr.bad = fmt.Sprintf("%s with %q: rendering fails with %s", show, vars, errorCode(tp[1]))
						}
						continue
					}
					got, ok := tp[0].(string)
					if !ok {
						vr.undec = fmt.Sprintf("%s with %q renders %s", show, vars, catRender(tp[0]))
						continue
					}
					if want := musRender(trees[i], vars); got != want && vr.bad == "" {
						vr.bad = fmt.Sprintf("%s with variables %q renders %q; the reference semantics give %q", show, vars, got, want)
					}
				}
				// rendering is repeatable and leaves the compiled template alone: the same variables again, after
				// all the other sets, give the same text, and nothing reachable from the instance has changed
				for _, vi := range []int{1, 4, 0} {
					first, ok := firstResults[vi]
					if !ok || vi >= len(sets) {
						continue
					}
					m.steps = 0
					vp.runs++
					r, out := m.Call(eval, tmpl, mkMap(sets[vi]))
					if out.kind == "ok" && mRender(r) != first && vp.bad == "" {
						vp.bad = fmt.Sprintf("%s with variables %q renders %s the first time and %s after renderings with other variable sets", show, sets[vi], first, mRender(r))
					}
				}
				// ... and whatever order maps are iterated in: Go fixes none, so the machine's order (insertion) is one of
				// many a host run may take; templates with escaped variables are rendered again with every `range` over a
				// map reversed and rotated by one - equal inputs, equal result, the reference one
				if musHasEscaped(trees[i]) {
					for _, vars := range escSets {
						var texts [3]string
						for ord := 0; ord < 3; ord++ {
							m.steps = 0
							m.mapOrder = ord
							r, out := m.Call(eval, tmpl, mkMap(vars))
							m.mapOrder = 0
							texts[ord] = "?"
							if tp, ok := r.(mTuple); ok && out.kind == "ok" && len(tp) == 2 {
								if _, isNil := tp[1].(mNilT); isNil {
									if got, ok := tp[0].(string); ok {
										texts[ord] = got
									}
								}
							} else if out.kind == "panic" && vp.bad == "" {
								vp.bad = fmt.Sprintf("%s with variables %q: rendering panics when maps are iterated in another order: %s", show, vars, out.why)
							}
						}
						vp.runs++
						for ord := 1; ord < 3; ord++ {
							if texts[0] != "?" && texts[ord] != "?" && texts[ord] != texts[0] && vp.bad == "" {
								vp.bad = fmt.Sprintf("%s with variables %q renders %q when every map is iterated in insertion order and %q when iterated %s; Go fixes no iteration order for maps, so evaluating again with equal inputs does not return an equal result (the JSON-style escaped rendering is %q)", show, vars, texts[0], texts[ord], map[int]string{1: "in the reverse order", 2: "from its second entry on, the first one last"}[ord], musRender(trees[i], vars))
							}
						}
					}
				}
				// an instance with default variables: a variable map given to the rendering is used alone - also an
				// empty one - and never mixed with, or written into, the defaults
				if i%5 == 0 {
					if _, out := m.Call(setDef, tmplD, mkMap(map[string]string{"a": "D", "b": "E", "if": "F"})); out.kind == "ok" {
						if e, out := m.Call(set, tmplD, src); out.kind == "ok" {
							if _, isNil := e.(mNilT); isNil {
								for _, vars := range []map[string]string{{}, {"b": "w"}, {"A": ""}} {
									m.steps = 0
									vr.runs++
									r, out := m.Call(eval, tmplD, mkMap(vars))
									tp, ok := r.(mTuple)
									if out.kind == "panic" && vr.bad == "" {
										vr.bad = fmt.Sprintf("%s with default variables set and %q given: rendering panics: %s", show, vars, out.why)
									}
									if out.kind != "ok" || !ok {
										continue
									}
									if got, ok := tp[0].(string); ok {
										if want := musRender(trees[i], vars); got != want && vr.bad == "" {
											vr.bad = fmt.Sprintf("%s on an instance whose default variables are a=D, b=E, if=F, rendered with the variables %q, gives %q; with exactly the given variables it is %q", show, vars, got, want)
										}
									}
								}
								// and the defaults themselves are still what was set
								if dv, out := m.Call(getDef, tmplD); out.kind == "ok" {
									if dm, ok := dv.(*mMap); ok && dm != nil {
										for _, kv := range [][2]string{{"a", "D"}, {"b", "E"}, {"if", "F"}} {
											ks, _ := mapKey(kv[0])
											if got, _ := dm.v[ks].(string); got != kv[1] && vu.bad == "" {
												vu.bad = fmt.Sprintf("%s: after renderings with other variable maps the default variable %q holds %q instead of %q", show, kv[0], got, kv[1])
											}
										}
									}
								}
							}
						}
					}
				}
				if ch := changedFields(tt, instBefore, mFieldFingerprints(tmpl)); len(ch) > 0 && vp.bad == "" {
					vp.bad = fmt.Sprintf("%s: rendering writes the template instance (state reachable from its field %s differs afterwards): the compiled template is modified, concurrent renderings race on it", show, strings.Join(ch, ", "))
				}
			}
			// default variables: a template rendered with Evaluate() uses the instance's default variables, names matched
			// case-insensitively whatever the spelling of the key, whether the defaults were assigned before or after
			// the template (or before, with another template set in between) - and whatever order the map is iterated
			// in: Go fixes none, so every rendering is run under the map's order and under the reverse
			for di, dm := range musDefaultMembers() {
				if di%nw != w {
					continue
				}
				src := musPrint(dm.tree)
				m.steps = 0
				ti, out := m.Call(ctor)
				if out.kind != "ok" {
					vd.undec = "NewMustacheTemplate: " + out.why
					break
				}
				given := mkMap(dm.defaults)
				var e mv
				switch dm.order {
				case "before":
					_, out = m.Call(setDef, ti, given)
					if out.kind == "ok" {
						e, out = m.Call(set, ti, src)
					}
				case "after":
					e, out = m.Call(set, ti, src)
					if out.kind == "ok" {
						_, out = m.Call(setDef, ti, given)
					}
				default: // before, and another template first
					_, out = m.Call(setDef, ti, given)
					if out.kind == "ok" {
						_, out = m.Call(set, ti, "{{other}} {{#z}}.{{/z}}")
					}
					if out.kind == "ok" {
						e, out = m.Call(set, ti, src)
					}
				}
				show := fmt.Sprintf("template %q on an instance whose default variables %q were assigned %s", src, dm.defaults, map[string]string{"before": "before SetTemplate", "after": "after SetTemplate", "before2": "before SetTemplate(\"{{other}} {{#z}}.{{/z}}\") and SetTemplate of this one"}[dm.order])
				if di%97 == 0 {
					noteSample("MUS.reference/default-variables", show)
				}
				if out.kind == "panic" {
					vd.bad = show + ": panics: " + out.why
					continue
				}
				if out.kind != "ok" {
					vd.undec = show + ": " + out.why
					continue
				}
				if _, isNil := e.(mNilT); !isNil {
					if vd.bad == "" {
						vd.bad = fmt.Sprintf("%s is well-formed but rejected with %s", show, errorCode(e))
					}
					continue
				}
				want := musRender(dm.tree, dm.defaults)
				evalDef := c.lookupMethod(tt, "Evaluate")
				for pass := 0; pass < 2; pass++ {
					orderText := ""
					if pass == 1 {
						// the other iteration order of the instance's default-variables map
						dv, out := m.Call(getDef, ti)
						cur, ok := dv.(*mMap)
						if out.kind != "ok" || !ok || cur == nil || len(cur.keys) < 2 {
							break
						}
						var names []string
						for l, r := 0, len(cur.keys)-1; l < r; l, r = l+1, r-1 {
							cur.keys[l], cur.keys[r] = cur.keys[r], cur.keys[l]
						}
						for _, ks := range cur.keys {
							names = append(names, mRender(cur.k[ks]))
						}
						orderText = " (the map of default variables iterated in the order " + strings.Join(names, ", ") + ")"
					}
					m.steps = 0
					vd.runs++
					r, out := m.Call(evalDef, ti)
					if out.kind == "panic" {
						vd.bad = fmt.Sprintf("%s: Evaluate() panics: %s", show, out.why)
						break
					}
					tp, ok := r.(mTuple)
					if out.kind != "ok" || !ok {
						vd.undec = fmt.Sprintf("%s: Evaluate(): %s", show, out.why)
						break
					}
					if _, isNil := tp[1].(mNilT); !isNil {
						if vd.bad == "" {
							vd.bad = fmt.Sprintf("%s: Evaluate() fails with %s", show, errorCode(tp[1]))
						}
						break
					}
					got, ok := tp[0].(string)
					if !ok {
						vd.undec = fmt.Sprintf("%s: Evaluate() renders %s", show, catRender(tp[0]))
						break
					}
					if got != want && vd.bad == "" {
						vd.bad = fmt.Sprintf("%s, rendered with Evaluate()%s, gives %q; with names matched case-insensitively against the default variables it is %q", show, orderText, got, want)
					}
				}
			}
			// the malformed family: the listed templates and the generated ones (tags that are never closed, cut off after
			// the opening braces, after each operator - the comment's '!' included -, after the name, after blanks and after
			// half a closer, with double and triple braces; brace counts that do not match; sections that are not closed,
			// ends without a beginning), shared with REUSE.mustache
			malformed := musReuseMalformed(c.Tier == "thorough")
			// ... and each of the generated ones once more after text and a complete tag
			for _, s := range musReuseMalformed(false) {
				malformed = append(malformed, "Hello, {{a}}"+s)
			}
			for i := w; i < len(malformed); i += nw {
				src := malformed[i]
				if i%41 == 0 {
					noteSample("MUS.reference/malformed", fmt.Sprintf("%q", src))
				}
				m.steps = 0
				vj.runs++
				e, out := m.Call(set, tmpl, src)
				if out.kind == "panic" {
					vj.bad = fmt.Sprintf("malformed template %q: SetTemplate panics: %s", src, out.why)
					continue
				}
				if out.kind != "ok" {
					vj.undec = fmt.Sprintf("template %q: %s", src, out.why)
					continue
				}
				if _, isNil := e.(mNilT); isNil && vj.bad == "" {
					vj.bad = fmt.Sprintf("malformed template %q is accepted", src)
				}
				// the same text submitted again to the same instance is still malformed
				m.steps = 0
				if e2, out2 := m.Call(set, tmpl, src); out2.kind == "ok" {
					if _, isNil := e2.(mNilT); isNil && vj.bad == "" {
						vj.bad = fmt.Sprintf("malformed template %q is rejected the first time and accepted when submitted again to the same instance", src)
					}
				} else if out2.kind == "panic" && vj.bad == "" {
					vj.bad = fmt.Sprintf("malformed template %q submitted twice: SetTemplate panics: %s", src, out2.why)
				}
			}
		}(w)
	}
	wg.Wait()
	musxMemo = res
	return res
}

func init() {
	register(&Rule{ID: "MUS.reference", Floor: 3,
		Doc: "the template engine evaluated abstractly (NewMustacheTemplate, SetTemplate, EvaluateWithVariables) on templates printed from generated syntax trees (text with braces/quotes, variables, escaped variables, comments, sections and inverted sections in 8 spellings each, nested, empty, adjacent) × 19 variable maps (present, empty, white-space-only, absent, other key case, values needing escapes): the rendering equals the statement's semantics, is the same when repeated after other variable sets and leaves the instance unchanged; literal text exhaustively over {x, '{', '}', space} up to length 3 (4 in the thorough tier) alone, before and after a tag, between tags and as a section body is rendered verbatim (single braces at the start, in the middle and at the very end), and so is text whose last character before a tag or first character after one is a backslash, '$', '#', '/', '^', '!', a quote, '&' or '.' (variable, escaped variable, comment, opening and closing tags of sections and inverted sections), the tags staying tags; instances with default variables assigned before or after the template (keys in lower, upper and mixed case against the template's spelling), rendered with Evaluate() under both iteration orders of the map, follow the same semantics; 39 listed malformed templates and a generated family (tags never closed: cut off after the opening braces, after each operator including the comment's '!', after the name, after blanks, after half a closer, double and triple braces; mismatched brace counts; unclosed and unopened sections; each alone and after text and a complete tag) are rejected, also when submitted twice; twelve words that other dialects reserve (else, this, end, each, with, if, unless, not, true, false, null, in) in three letter cases are ordinary names as variables, escaped variables and section names at top level and inside sections and inverted sections; every template with an escaped variable is rendered again with every range over a map reversed and rotated by one (Go fixes no order) on values in which several characters need escaping, and must give the same text",
		Run: func(c *Ctx) []*Obligation {
			o := newObl("MUS.reference")
			res := c.musxRun()
			pos := c.Pos(c.MustFunc("mustache", "", "NewMustacheTemplate").Pos())
			o.list = append(o.list, emitSimple(c, "MUS.reference", "mustache.MustacheTemplate#renders-reference-semantics", pos, res["render"], "renderings equal the reference semantics")...)
			o.list = append(o.list, emitSimple(c, "MUS.reference", "mustache.MustacheTemplate#renders-default-variables", pos, res["defaults"], "renderings with the instance's default variables equal the reference semantics under either iteration order of the map")...)
			o.list = append(o.list, emitSimple(c, "MUS.reference", "mustache.MustacheTemplate#rejects-malformed", pos, res["reject"], "malformed templates are rejected")...)
			o.list = append(o.list, emitSimple(c, "MUS.reference", "mustache.MustacheTemplate#leaves-variables-unchanged", pos, res["unchanged"], "renderings leave the caller's variable map unchanged")...)
			o.list = append(o.list, emitSimple(c, "MUS.reference", "mustache.MustacheTemplate#renders-repeatably", pos, res["repeat"], "repeated renderings agree and leave the template instance unchanged")...)
			return o.list
		}})
}
