package main

import (
	"fmt"
	"go/token"
	"go/types"
	"sort"
	"strings"

	"golang.org/x/tools/go/ssa"
)

// ---------------------------------------------------------------------------------------------
// OPS — operator cells of AbstractVariantOperations (C06)
// ---------------------------------------------------------------------------------------------

var variantAccessor = map[string]string{
	"Integer": "AsInteger", "Long": "AsLong", "Float": "AsFloat", "Double": "AsDouble", "String": "AsString",
	"Boolean": "AsBoolean", "TimeSpan": "AsTimeSpan", "DateTime": "AsDateTime", "Object": "AsObject", "Array": "AsArray",
}

type opCell struct {
	setter string
	expr   string
	pos    token.Pos
	call   *ssa.Call
}

type opsMethod struct {
	fn        *ssa.Function
	res       ssa.Value
	ex        *exprCtx
	converts  []*ssa.Call
	convStr   []string
	cells     map[string][]opCell // by VariantType name of the first operand
	caseBody  map[string]*ssa.BasicBlock
	mainBlock *ssa.BasicBlock
	typeNames map[int64]string
}

func (c *Ctx) variantTypeNames() map[int64]string { return c.constNames(pkgVariants, "VariantType") }

func (c *Ctx) extractOpsMethod(fn *ssa.Function) *opsMethod {
	m := &opsMethod{fn: fn, cells: map[string][]opCell{}, caseBody: map[string]*ssa.BasicBlock{}, typeNames: c.variantTypeNames()}
	m.ex = c.newExpr(fn)
	for _, ci := range allCalls(fn) {
		call, ok := ci.(*ssa.Call)
		if !ok {
			continue
		}
		if _, ok := c.callTo(call, pkgVariants, "", "EmptyVariant"); ok && m.res == nil {
			m.res = call
			m.ex.names[call] = "res"
		}
		if call.Call.IsInvoke() && call.Call.Method.Name() == "Convert" {
			m.converts = append(m.converts, call)
		}
	}
	// name converted operands: Convert($k, …) → c<k>
	for _, cv := range m.converts {
		m.convStr = append(m.convStr, m.ex.str(cv))
		if p, ok := cv.Call.Args[0].(*ssa.Parameter); ok {
			for i, fp := range fn.Params {
				if fp == p {
					for _, r := range *cv.Referrers() {
						if ex, ok := r.(*ssa.Extract); ok && ex.Index == 0 {
							m.ex.names[ex] = fmt.Sprintf("c%d", i)
						}
					}
				}
			}
		}
	}
	if len(fn.Params) < 2 {
		return m
	}
	first := fn.Params[1]
	// which types of the first operand can reach each block (forward dataflow over the CFG: the
	// spelling of the dispatch - switch, if-chain, early returns, negated tests - does not matter)
	sets := c.typeSets(fn, first, pkgVariants, "Variant", m.typeNames)
	full := uint64(0)
	for k := range m.typeNames {
		full |= 1 << uint(k)
	}
	for _, b := range fn.Blocks {
		if ifi, ok := b.Instrs[len(b.Instrs)-1].(*ssa.If); ok {
			recv, k, _, ok := c.typeTestConst(ifi.Cond, pkgVariants, "Variant")
			if ok && k != 0 && recv == ssa.Value(first) {
				if m.mainBlock == nil || b.Dominates(m.mainBlock) {
					m.mainBlock = b
				}
			}
		}
	}
	addCell := func(b *ssa.BasicBlock, cell opCell) {
		set := sets[b] &^ 1 &^ (1 << 63) // Null (constant 0) is handled by the null policy
		if set == full&^1 || set == 0 {
			return // not specific to any first-operand type
		}
		for k, tn := range m.typeNames {
			if k != 0 && set&(1<<uint(k)) != 0 {
				m.cells[tn] = append(m.cells[tn], cell)
			}
		}
	}
	returned := map[ssa.Value]bool{}
	for _, ret := range returnsOf(fn) {
		if len(ret.Results) > 0 {
			for _, l := range phiLeaves(ret.Results[0]) {
				returned[l] = true
			}
		}
	}
	for _, b := range fn.Blocks {
		// narrowest block per type, for messages
		set := sets[b] &^ 1 &^ (1 << 63)
		if set != 0 && set != full&^1 {
			for k, tn := range m.typeNames {
				if k != 0 && set&(1<<uint(k)) != 0 && m.caseBody[tn] == nil {
					m.caseBody[tn] = b
				}
			}
		}
		for _, in := range b.Instrs {
			call, ok := in.(*ssa.Call)
			if !ok {
				continue
			}
			f := calleeObj(call.Common())
			if f == nil {
				continue
			}
			switch {
			case strings.HasPrefix(f.Name(), "SetAs") && recvNamed(f) == "Variant":
				// result.SetAs<T>(e) on a result variable of this method
				rv, isCall := callRecv(call.Common()).(*ssa.Call)
				if !isCall {
					continue
				}
				if _, isEmpty := c.callTo(rv, pkgVariants, "", "EmptyVariant"); !isEmpty || !returned[rv] {
					continue
				}
				args := callArgs(call.Common())
				addCell(b, opCell{setter: strings.TrimPrefix(f.Name(), "SetAs"), expr: m.ex.str(args[0]), pos: call.Pos(), call: call})
			case strings.HasPrefix(f.Name(), "VariantFrom") && c.relPkg(f.Pkg()) == pkgVariants && returned[call] && len(call.Call.Args) == 1:
				// return VariantFrom<T>(e), nil
				addCell(b, opCell{setter: strings.TrimPrefix(f.Name(), "VariantFrom"), expr: m.ex.str(call.Call.Args[0]), pos: call.Pos(), call: call})
			}
		}
	}
	if len(m.converts) > 0 && (m.mainBlock == nil || m.converts[0].Block().Dominates(m.mainBlock)) {
		m.mainBlock = m.converts[0].Block()
	}
	return m
}

type cellSpec struct {
	setter string
	expr   string
}

func binCell(T, op string) cellSpec {
	a := variantAccessor[T]
	return cellSpec{T, fmt.Sprintf("(%s($1) %s %s(c2))", a, op, a)}
}
func cmpCell(T, op string) cellSpec {
	a := variantAccessor[T]
	return cellSpec{"Boolean", fmt.Sprintf("(%s($1) %s %s(c2))", a, op, a)}
}

const dt1, dt2 = "AsDateTime($1)", "AsDateTime(c2)"

// opsOracle: the required cell matrix, written from the property statement ("exactly what the host
// arithmetic of that type gives", second operand converted to the first operand's type) and
// confirmed by reading against the reference tree.
func opsOracle() map[string]map[string]cellSpec {
	o := map[string]map[string]cellSpec{}
	arith := func(m, op string, ts ...string) {
		o[m] = map[string]cellSpec{}
		for _, t := range ts {
			o[m][t] = binCell(t, op)
		}
	}
	arith("Add", "+", "Integer", "Long", "Float", "Double", "TimeSpan", "String")
	arith("Sub", "-", "Integer", "Long", "Float", "Double", "TimeSpan")
	o["Sub"]["DateTime"] = cellSpec{"TimeSpan", "time.Time.Sub(" + dt1 + ", " + dt2 + ")"}
	arith("Mul", "*", "Integer", "Long", "Float", "Double")
	arith("Div", "/", "Integer", "Long", "Float", "Double")
	arith("Mod", "%", "Integer", "Long")
	arith("And", "&", "Integer", "Long")
	o["And"]["Boolean"] = cellSpec{"Boolean", "B[AsBoolean($1);AsBoolean(c2)]:0001"}
	arith("Or", "|", "Integer", "Long")
	o["Or"]["Boolean"] = cellSpec{"Boolean", "B[AsBoolean($1);AsBoolean(c2)]:0111"}
	arith("Xor", "^", "Integer", "Long")
	o["Xor"]["Boolean"] = cellSpec{"Boolean", "B[AsBoolean($1);AsBoolean(c2)]:0110"}
	o["Lsh"] = map[string]cellSpec{"Integer": {"Integer", "(AsInteger($1) << AsInteger(c2))"}, "Long": {"Long", "(AsLong($1) << AsInteger(c2))"}}
	o["Rsh"] = map[string]cellSpec{"Integer": {"Integer", "(AsInteger($1) >> AsInteger(c2))"}, "Long": {"Long", "(AsLong($1) >> AsInteger(c2))"}}
	pow := cellSpec{"Double", "math.Pow(AsDouble(c1), AsDouble(c2))"}
	o["Pow"] = map[string]cellSpec{"Integer": pow, "Long": pow, "Float": pow, "Double": pow}
	cmp := func(m, op string, ts ...string) {
		o[m] = map[string]cellSpec{}
		for _, t := range ts {
			o[m][t] = cmpCell(t, op)
		}
	}
	ordered := []string{"Integer", "Long", "Float", "Double", "String", "TimeSpan"}
	cmp("Equal", "==", ordered...)
	o["Equal"]["Boolean"] = cellSpec{"Boolean", "B[AsBoolean($1);AsBoolean(c2)]:1001"}
	o["Equal"]["DateTime"] = cellSpec{"Boolean", "time.Time.Equal(" + dt1 + ", " + dt2 + ")"}
	o["Equal"]["Object"] = cmpCell("Object", "==")
	cmp("NotEqual", "!=", ordered...)
	o["NotEqual"]["Boolean"] = cellSpec{"Boolean", "B[AsBoolean($1);AsBoolean(c2)]:0110"}
	o["NotEqual"]["DateTime"] = cellSpec{"Boolean", "!time.Time.Equal(" + dt1 + ", " + dt2 + ")"}
	o["NotEqual"]["Object"] = cmpCell("Object", "!=")
	cmp("More", ">", ordered...)
	o["More"]["DateTime"] = cellSpec{"Boolean", "time.Time.After(" + dt1 + ", " + dt2 + ")"}
	cmp("Less", "<", ordered...)
	o["Less"]["DateTime"] = cellSpec{"Boolean", "time.Time.Before(" + dt1 + ", " + dt2 + ")"}
	cmp("MoreEqual", ">=", ordered...)
	o["MoreEqual"]["DateTime"] = cellSpec{"Boolean", "B[time.Time.After(" + dt1 + ", " + dt2 + ");time.Time.Equal(" + dt1 + ", " + dt2 + ")]:0111"}
	cmp("LessEqual", "<=", ordered...)
	o["LessEqual"]["DateTime"] = cellSpec{"Boolean", "B[time.Time.Before(" + dt1 + ", " + dt2 + ");time.Time.Equal(" + dt1 + ", " + dt2 + ")]:0111"}
	o["Not"] = map[string]cellSpec{"Integer": {"Integer", "^AsInteger($1)"}, "Long": {"Long", "^AsLong($1)"}, "Boolean": {"Boolean", "!AsBoolean($1)"}}
	o["Negative"] = map[string]cellSpec{"Integer": {"Integer", "-AsInteger($1)"}, "Long": {"Long", "-AsLong($1)"}, "Float": {"Float", "-AsFloat($1)"}, "Double": {"Double", "-AsDouble($1)"}}
	return o
}

// expected conversion call(s) per method
var opsConvertOracle = map[string][]string{
	"Lsh": {"Convert($2, Integer)"}, "Rsh": {"Convert($2, Integer)"}, "GetElement": {"Convert($2, Integer)"},
	"Pow": {"Convert($1, Double)", "Convert($2, Double)"},
	"Not": {}, "Negative": {}, "In": {},
}

// null policy oracle: outcome per (first is Null, second is Null), "main" = continues to the operation
var opsNullOracle = map[string]string{
	"Equal":    "00:main 01:Bool(false) 10:Bool(false) 11:Bool(true)",
	"NotEqual": "00:main 01:Bool(true) 10:Bool(true) 11:Bool(false)",
	"Not":      "0:main 1:Bool(true)",
	"Negative": "0:main 1:Null",
}

const binaryNullPolicy = "00:main 01:Null 10:Null 11:Null"

var opsMethodsMemo map[string]*opsMethod

func (c *Ctx) opsMethods() map[string]*opsMethod {
	if opsMethodsMemo != nil {
		return opsMethodsMemo
	}
	out := map[string]*opsMethod{}
	// enumerate through the interface so that a new operation is analysed automatically
	p := c.Lib[pkgVariants]
	iface := p.Types.Scope().Lookup("IVariantOperations").Type().Underlying().(*types.Interface)
	for i := 0; i < iface.NumMethods(); i++ {
		name := iface.Method(i).Name()
		if name == "Convert" {
			continue
		}
		fn := c.Func(pkgVariants, "AbstractVariantOperations", name)
		if fn == nil {
			panic(anchorError("AbstractVariantOperations." + name + " not found"))
		}
		out[name] = c.extractOpsMethod(fn)
	}
	opsMethodsMemo = out
	return out
}

func init() {
	register(&Rule{ID: "OPS.cell", Floor: 89,
		Doc: "every operator cell (method × first-operand type) stores exactly host-operator(As<T>(value1), As<T>(converted value2)) through the setter of the right result type; operands in written order; boolean cells compared as truth tables",
		Run: ruleOpsCell})
	register(&Rule{ID: "OPS.null", Floor: 21,
		Doc: "Null policy extracted as a decision table over (value1 is Null, value2 is Null): Null propagates through every operator except Equal/NotEqual (true/false tables) and Not (Null ⇒ true)",
		Run: ruleOpsNull})
	register(&Rule{ID: "OPS.convert", Floor: 21,
		Doc: "the second operand is converted to the first operand's type (Pow: both to Double; shifts and indexing: second to Integer) before the cell runs, and a conversion error is returned at once",
		Run: ruleOpsConvert})
	register(&Rule{ID: "OPS.override", Floor: 2,
		Doc: "both operation managers inherit the operator methods unchanged (neither overrides an operator), so one analysis covers both",
		Run: ruleOpsOverride})
	register(&Rule{ID: "OPS.in", Floor: 3,
		Doc: "In iterates the array operand and tests each element with Equal(searched value, element) — conversion towards the searched value's type — returning true only on a Boolean true; GetElement converts the index to Integer",
		Run: ruleOpsIn})
	register(&Rule{ID: "PANIC.div", Floor: 4,
		Doc: "every integer division/remainder with a non-constant divisor is dominated by a test that the divisor is non-zero (otherwise the Go runtime panics)",
		Run: rulePanicDiv})
	register(&Rule{ID: "PANIC.shift", Floor: 4,
		Doc: "every shift by a signed non-constant count is dominated by a test that the count is non-negative (a negative count panics) and below the operand width (out of range must be an error, not a wrong value)",
		Run: rulePanicShift})
}

func ruleOpsCell(c *Ctx) []*Obligation {
	o := newObl("OPS.cell")
	ms := c.opsMethods()
	oracle := opsOracle()
	var names []string
	for n := range oracle {
		names = append(names, n)
	}
	sort.Strings(names)
	for _, name := range names {
		m := ms[name]
		if m == nil {
			o.bad("variants.(*AbstractVariantOperations)."+name+"#missing", "-", "operator method "+name+" is not part of IVariantOperations any more")
			continue
		}
		var ts []string
		for t := range oracle[name] {
			ts = append(ts, t)
		}
		sort.Strings(ts)
		for _, t := range ts {
			spec := oracle[name][t]
			key := fmt.Sprintf("variants.(*AbstractVariantOperations).%s#cell#%s", name, t)
			cells := m.cells[t]
			if len(cells) == 0 {
				if m.caseBody[t] == nil {
					o.bad(key, c.Pos(m.fn.Pos()), fmt.Sprintf("required cell missing: %s has no case for first-operand type %s (the operation becomes OP_NOT_SUPPORTED for it)", name, t))
				} else {
					o.bad(key, c.Pos(m.caseBody[t].Instrs[0].Pos()), fmt.Sprintf("case %s of %s stores no result", t, name))
				}
				continue
			}
			var bad []string
			for _, cell := range cells {
				if cell.setter != spec.setter {
					bad = append(bad, fmt.Sprintf("result stored with SetAs%s, expected SetAs%s", cell.setter, spec.setter))
				}
				if cell.expr != spec.expr && !(cellAlt[name+"/"+t] != "" && cell.expr == cellAlt[name+"/"+t] && c.totalEquality()) {
					bad = append(bad, fmt.Sprintf("cell computes %s, expected %s", cell.expr, spec.expr))
				}
			}
			if len(bad) > 0 {
				o.bad(key, c.Pos(cells[0].pos), strings.Join(bad, "; "))
			} else {
				o.ok(key, c.Pos(cells[0].pos), fmt.Sprintf("SetAs%s(%s)", spec.setter, spec.expr))
			}
		}
		// extra cells must at least keep the typing discipline: accessor type = case type on both operands
		for t, cells := range m.cells {
			if _, req := oracle[name][t]; req {
				continue
			}
			key := fmt.Sprintf("variants.(*AbstractVariantOperations).%s#cell#%s", name, t)
			for _, cell := range cells {
				acc := variantAccessor[t]
				if acc == "" || !strings.Contains(cell.expr, acc+"($1)") {
					o.bad(key, c.Pos(cell.pos), fmt.Sprintf("additional cell %s/%s does not read the first operand through %s: %s", name, t, acc, cell.expr))
				} else {
					o.ok(key, c.Pos(cell.pos), "additional cell (not required by the statement) keeps accessor/type agreement: "+cell.expr)
				}
			}
		}
	}
	return o.list
}

// nullPolicy simulates the method's control flow over the two facts "value1 is Null", "value2 is Null"
// until a return or the main block is reached. Any other branch condition on the way is opaque.
func (c *Ctx) nullPolicy(m *opsMethod) (string, string) {
	nparams := len(m.fn.Params) - 1
	var rows []string
	for row := 0; row < 1<<nparams; row++ {
		isNull := func(i int) bool { return row&(1<<(nparams-i)) != 0 } // i = 1..nparams
		cur := m.fn.Blocks[0]
		var path []*ssa.BasicBlock
		outcome := ""
		for steps := 0; steps < 50 && outcome == ""; steps++ {
			path = append(path, cur)
			if cur == m.mainBlock && !(m.mainBlock == m.fn.Blocks[0]) {
				outcome = "main"
				break
			}
			switch t := cur.Instrs[len(cur.Instrs)-1].(type) {
			case *ssa.Return:
				outcome = c.describeReturn(m, t, path)
			case *ssa.Jump:
				cur = cur.Succs[0]
			case *ssa.If:
				g := guard{Cond: t.Cond, Truth: true}
				v, pos := g.atom()
				recv, k, op, ok := c.typeTestConst(v, pkgVariants, "Variant")
				idx := 0
				for i, p := range m.fn.Params {
					if ssa.Value(p) == recv {
						idx = i
					}
				}
				if !ok || k != 0 || idx == 0 {
					outcome = "main" // first branch that is not a Null test: the operation proper starts here
					break
				}
				val := isNull(idx)
				if op == token.NEQ {
					val = !val
				}
				if !pos {
					val = !val
				}
				if val {
					cur = cur.Succs[0]
				} else {
					cur = cur.Succs[1]
				}
			default:
				return "", "unexpected terminator"
			}
		}
		if outcome == "" {
			return "", "simulation did not terminate"
		}
		bits := fmt.Sprintf("%0*b", nparams, row)
		rows = append(rows, bits+":"+outcome)
	}
	return strings.Join(rows, " "), ""
}

func (c *Ctx) describeReturn(m *opsMethod, ret *ssa.Return, path []*ssa.BasicBlock) string {
	if len(ret.Results) != 2 {
		return "ret?"
	}
	if !isNilConst(ret.Results[1]) {
		return "error"
	}
	if call, ok := ret.Results[0].(*ssa.Call); ok && ret.Results[0] != m.res {
		if f := calleeObj(call.Common()); f != nil && c.relPkg(f.Pkg()) == pkgVariants {
			switch {
			case f.Name() == "EmptyVariant":
				return "Null"
			case strings.HasPrefix(f.Name(), "VariantFrom") && len(call.Call.Args) == 1:
				st := strings.TrimPrefix(f.Name(), "VariantFrom") + "(" + m.ex.str(call.Call.Args[0]) + ")"
				return strings.Replace(st, "Boolean(", "Bool(", 1)
			}
		}
	}
	if ret.Results[0] != m.res {
		return "value:" + m.ex.str(ret.Results[0])
	}
	state := "Null"
	for _, b := range path {
		for _, in := range b.Instrs {
			call, ok := in.(*ssa.Call)
			if !ok {
				continue
			}
			f := calleeObj(call.Common())
			if f == nil || recvNamed(f) != "Variant" || callRecv(call.Common()) != m.res || !strings.HasPrefix(f.Name(), "SetAs") {
				continue
			}
			state = strings.TrimPrefix(f.Name(), "SetAs") + "(" + m.ex.str(callArgs(call.Common())[0]) + ")"
			state = strings.Replace(state, "Boolean(", "Bool(", 1)
		}
	}
	return state
}

func ruleOpsNull(c *Ctx) []*Obligation {
	o := newObl("OPS.null")
	ms := c.opsMethods()
	var names []string
	for n := range ms {
		names = append(names, n)
	}
	sort.Strings(names)
	for _, name := range names {
		m := ms[name]
		key := fmt.Sprintf("variants.(*AbstractVariantOperations).%s#null-policy", name)
		want, ok := opsNullOracle[name]
		if !ok {
			want = binaryNullPolicy
		}
		got, why := c.nullPolicy(m)
		switch {
		case why != "":
			o.bad(key, c.Pos(m.fn.Pos()), "Null policy cannot be read off the method prefix: "+why)
		case got != want:
			o.bad(key, c.Pos(m.fn.Pos()), fmt.Sprintf("Null policy is [%s], the statement requires [%s] (rows: value1-is-Null value2-is-Null → outcome)", got, want))
		default:
			o.ok(key, c.Pos(m.fn.Pos()), got)
		}
	}
	return o.list
}

func ruleOpsConvert(c *Ctx) []*Obligation {
	o := newObl("OPS.convert")
	ms := c.opsMethods()
	tn := c.variantTypeNames()
	var names []string
	for n := range ms {
		names = append(names, n)
	}
	sort.Strings(names)
	for _, name := range names {
		m := ms[name]
		key := fmt.Sprintf("variants.(*AbstractVariantOperations).%s#convert", name)
		want, ok := opsConvertOracle[name]
		if !ok {
			want = []string{"Convert($2, Type($1))"}
		}
		var got []string
		for _, cv := range m.converts {
			s := "Convert(" + m.ex.str(cv.Call.Args[0]) + ", "
			if k, ok := constInt(cv.Call.Args[1]); ok {
				s += tn[k]
			} else {
				s += m.ex.str(cv.Call.Args[1])
			}
			got = append(got, s+")")
		}
		if fmt.Sprint(got) != fmt.Sprint(want) {
			o.bad(key, c.Pos(m.fn.Pos()), fmt.Sprintf("operand conversions are %v, the statement requires %v", got, want))
			continue
		}
		bad := ""
		for _, cv := range m.converts {
			var errVal ssa.Value
			for _, r := range *cv.Referrers() {
				if ex, ok := r.(*ssa.Extract); ok && ex.Index == 1 {
					errVal = ex
				}
			}
			if errVal == nil {
				bad = "the conversion error is discarded"
				break
			}
			if ok, why := errTestedAndReturned(cv, errVal); !ok {
				bad = "conversion error: " + why
			}
			// every cell must be dominated by the conversion (no cell reads the raw operand)
			for t, cells := range m.cells {
				for _, cell := range cells {
					if !cv.Block().Dominates(cell.call.Block()) {
						bad = fmt.Sprintf("cell %s is not dominated by the operand conversion", t)
					}
				}
			}
		}
		if bad != "" {
			o.bad(key, c.Pos(m.fn.Pos()), bad)
		} else {
			o.ok(key, c.Pos(m.fn.Pos()), fmt.Sprintf("%v, error tested and returned, dominates every cell", got))
		}
	}
	return o.list
}

func ruleOpsOverride(c *Ctx) []*Obligation {
	o := newObl("OPS.override")
	p := c.Lib[pkgVariants]
	iface := p.Types.Scope().Lookup("IVariantOperations").Type().Underlying().(*types.Interface)
	for _, mgr := range []string{"TypeUnsafeVariantOperations", "TypeSafeVariantOperations"} {
		obj := p.Types.Scope().Lookup(mgr)
		if obj == nil {
			panic(anchorError(mgr + " not found"))
		}
		key := "variants." + mgr + "#inherits-operators"
		ms := c.Prog.MethodSets.MethodSet(types.NewPointer(obj.Type()))
		var overridden []string
		for i := 0; i < iface.NumMethods(); i++ {
			name := iface.Method(i).Name()
			if name == "Convert" {
				continue
			}
			sel := ms.Lookup(p.Types, name)
			if sel == nil {
				overridden = append(overridden, name+"(missing)")
				continue
			}
			if recvNamed(sel.Obj().(*types.Func)) != "AbstractVariantOperations" {
				overridden = append(overridden, name)
			}
		}
		if len(overridden) > 0 {
			o.bad(key, c.Pos(obj.Pos()), mgr+" overrides operator method(s) "+strings.Join(overridden, ", ")+" — they escape the cell analysis of AbstractVariantOperations")
		} else {
			o.ok(key, c.Pos(obj.Pos()), fmt.Sprintf("all %d operators resolve to AbstractVariantOperations", iface.NumMethods()-1))
		}
	}
	return o.list
}

func ruleOpsIn(c *Ctx) []*Obligation {
	o := newObl("OPS.in")
	fn := c.MustFunc(pkgVariants, "AbstractVariantOperations", "In")
	ex := c.newExpr(fn)
	key := c.FuncKey(fn)
	// element test inside the range loop over AsArray(container)
	var arr *ssa.Call
	for _, ci := range allCalls(fn) {
		if _, ok := c.callTo(ci, pkgVariants, "Variant", "AsArray"); ok {
			arr = ci.(*ssa.Call)
		}
	}
	if arr == nil {
		o.bad(key+"#iterates-array", c.Pos(fn.Pos()), "In no longer iterates AsArray() of its container operand")
		return o.list
	}
	container := callRecv(arr.Common())
	var searched ssa.Value
	for _, p := range fn.Params[1:] {
		if ssa.Value(p) != container {
			searched = p
		}
	}
	o.ok(key+"#iterates-array", c.Pos(arr.Pos()), "iterates AsArray("+ex.str(container)+")")
	found := false
	for _, ci := range allCalls(fn) {
		cc, ok := c.callTo(ci, pkgVariants, "AbstractVariantOperations", "Equal")
		if !ok {
			continue
		}
		args := callArgs(cc)
		// element = load from the array
		elemIsSecond := backwardSliceHas(args[1], func(v ssa.Value) bool { return v == ssa.Value(arr) })
		elemIsFirst := backwardSliceHas(args[0], func(v ssa.Value) bool { return v == ssa.Value(arr) })
		if !elemIsFirst && !elemIsSecond {
			continue // the non-array fallback Equal(value1, value2)
		}
		found = true
		k := key + "#element-equality"
		if args[0] == searched && elemIsSecond {
			// result use: Type()==Boolean && AsBoolean()
			o.ok(k, c.Pos(ci.Pos()), "Equal(searched value, element): the element is converted to the searched value's type")
		} else {
			o.bad(k, c.Pos(ci.Pos()), "membership must test Equal(searched value, element); found Equal("+ex.str(args[0])+", "+ex.str(args[1])+") — the conversion direction decides which values are considered equal")
		}
		// true only on Boolean true: AsBoolean of the result guarded by Type()==Boolean
		res := ci.(*ssa.Call)
		okGuard := false
		for _, r := range *res.Referrers() {
			ext, isE := r.(*ssa.Extract)
			if !isE || ext.Index != 0 {
				continue
			}
			for _, r2 := range *ext.Referrers() {
				if ab, isC := r2.(*ssa.Call); isC {
					if _, isB := c.callTo(ab, pkgVariants, "Variant", "AsBoolean"); isB {
						for _, g := range guardsAt(ab.Block()) {
							v, truth := g.atom()
							if recv, kk, op, isT := c.typeTestConst(v, pkgVariants, "Variant"); isT && recv == ssa.Value(ext) && c.variantTypeNames()[kk] == "Boolean" && (op == token.EQL) == truth {
								okGuard = true
							}
						}
					}
				}
			}
		}
		o.check(okGuard, key+"#boolean-guard", c.Pos(ci.Pos()), "AsBoolean() of the comparison is read only under Type()==Boolean", "the comparison result is read with AsBoolean() without checking that it is a Boolean (a Null result would panic)")
	}
	if !found {
		o.bad(key+"#element-equality", c.Pos(fn.Pos()), "no per-element Equal test found")
	}
	return o.list
}

// ---- PANIC.div / PANIC.shift (module-wide) ----------------------------------------------------------------

func isIntegerType(t types.Type) bool {
	if tp, isParam := t.(*types.TypeParam); isParam {
		// the body of a generic function: an integer division if some type of the constraint's type set is one
		return typeSetHas(tp, func(u types.Type) bool { return isIntegerType(u) })
	}
	b, ok := t.Underlying().(*types.Basic)
	return ok && b.Info()&types.IsInteger != 0
}

// typeSetHas: some term of the type parameter's constraint (unions and embedded constraint interfaces followed)
// satisfies pred.
func typeSetHas(tp *types.TypeParam, pred func(types.Type) bool) bool {
	seen := map[*types.Interface]bool{}
	var walk func(t types.Type) bool
	walk = func(t types.Type) bool {
		switch u := t.(type) {
		case *types.Union:
			for i := 0; i < u.Len(); i++ {
				if walk(u.Term(i).Type()) {
					return true
				}
			}
			return false
		case *types.TypeParam:
			return walk(u.Constraint())
		}
		if it, ok := t.Underlying().(*types.Interface); ok {
			if seen[it] {
				return false
			}
			seen[it] = true
			for i := 0; i < it.NumEmbeddeds(); i++ {
				if walk(it.EmbeddedType(i)) {
					return true
				}
			}
			return false
		}
		return pred(t)
	}
	return walk(tp.Constraint())
}

func isSignedInt(t types.Type) bool {
	b, ok := t.Underlying().(*types.Basic)
	return ok && b.Info()&types.IsInteger != 0 && b.Info()&types.IsUnsigned == 0
}

// guardFacts collects numeric facts about v that hold at block b: returns (nonZero, nonNegative, upperBounded).
func (c *Ctx) numericGuards(v ssa.Value, at ssa.Instruction) (nonZero, nonNeg, bounded bool) {
	for _, g := range guardsAt(at.Block()) {
		cond, truth := g.atom()
		bo, ok := cond.(*ssa.BinOp)
		if !ok {
			continue
		}
		x, y, op := g.operand(bo.X), g.operand(bo.Y), bo.Op
		if _, isC := x.(*ssa.Const); isC {
			x, y = y, x
			if m, ok := mirrored[op]; ok {
				op = m
			}
		}
		if !c.sameValue(x, v) {
			continue
		}
		k, isK := constInt(y)
		if !truth {
			switch op {
			case token.EQL:
				op = token.NEQ
			case token.NEQ:
				op = token.EQL
			case token.LSS:
				op = token.GEQ
			case token.GEQ:
				op = token.LSS
			case token.GTR:
				op = token.LEQ
			case token.LEQ:
				op = token.GTR
			}
		}
		if isK {
			switch {
			case op == token.NEQ && k == 0:
				nonZero = true
			case op == token.GTR && k >= 0:
				nonZero, nonNeg = true, true
			case op == token.GEQ && k >= 1:
				nonZero, nonNeg = true, true
			case op == token.GEQ && k == 0:
				nonNeg = true
			case op == token.GTR && k == -1:
				nonNeg = true
			case op == token.LSS && k < 0:
				nonZero = true
			}
			if (op == token.LSS || op == token.LEQ) && k >= 0 && k <= 64 {
				bounded = true
			}
		} else if op == token.LSS || op == token.LEQ {
			// bounded by a non-constant expression (e.g. strconv.IntSize, bits.UintSize, len(..))
			bounded = true
		}
	}
	return
}

func rulePanicDiv(c *Ctx) []*Obligation {
	o := newObl("PANIC.div")
	for _, fn := range c.AllLibFuncs() {
		n := 0
		ex := c.newExpr(fn)
		for _, b := range fn.Blocks {
			for _, in := range b.Instrs {
				bo, ok := in.(*ssa.BinOp)
				if !ok || (bo.Op != token.QUO && bo.Op != token.REM) || !isIntegerType(bo.Type()) {
					continue
				}
				n++
				key := fmt.Sprintf("%s#intdiv#%s#%d", c.FuncKey(fn), shortType(bo.Type()), n)
				if k, ok := constInt(bo.Y); ok {
					if k != 0 {
						o.triv(key, c.Pos(bo.Pos()), "constant non-zero divisor")
					} else {
						o.bad(key, c.Pos(bo.Pos()), "division by constant zero")
					}
					continue
				}
				nz, _, _ := c.numericGuards(bo.Y, bo)
				if nz {
					o.ok(key, c.Pos(bo.Pos()), "dominated by a test that "+ex.str(bo.Y)+" != 0")
				} else {
					o.bad(key, c.Pos(bo.Pos()), "integer "+bo.Op.String()+" by "+ex.str(bo.Y)+" with no dominating non-zero test: a zero divisor panics instead of yielding an error")
				}
			}
		}
	}
	return o.list
}

func rulePanicShift(c *Ctx) []*Obligation {
	o := newObl("PANIC.shift")
	for _, fn := range c.AllLibFuncs() {
		n := 0
		ex := c.newExpr(fn)
		for _, b := range fn.Blocks {
			for _, in := range b.Instrs {
				bo, ok := in.(*ssa.BinOp)
				if !ok || (bo.Op != token.SHL && bo.Op != token.SHR) {
					continue
				}
				if _, isC := bo.Y.(*ssa.Const); isC {
					continue
				}
				n++
				key := fmt.Sprintf("%s#shift#%s#%d", c.FuncKey(fn), shortType(bo.Type()), n)
				cnt := stripConv(bo.Y)
				if !isSignedInt(cnt.Type()) {
					o.ok(key, c.Pos(bo.Pos()), "unsigned shift count cannot panic")
					continue
				}
				_, nn, bd := c.numericGuards(cnt, bo)
				// exact range: 0 <= count <= width-1 of the shifted operand, by the difference-bound prover
				// (a count equal to the width is already out of range)
				width := int64(64)
				if bt, ok := bo.X.Type().Underlying().(*types.Basic); ok {
					switch bt.Kind() {
					case types.Int8, types.Uint8:
						width = 8
					case types.Int16, types.Uint16:
						width = 16
					case types.Int32, types.Uint32:
						width = 32
					}
				}
				bp := &boundsProver{c: c, fn: fn, ex: ex}
				lo := bp.newDBM(bo).leq(dterm{}, 0, vterm(cnt), 0)
				hi := bp.newDBM(bo).leq(vterm(cnt), 0, dterm{}, width-1)
				if lo && !hi && bd {
					// a bound exists but it admits the width itself (count <= width instead of count < width)
					if bp.newDBM(bo).leq(vterm(cnt), 0, dterm{}, width) {
						o.bad(key, c.Pos(bo.Pos()), "shift count "+ex.str(cnt)+" is only bounded by <= "+fmt.Sprint(width)+", the operand's width itself: a shift by exactly the width yields a wrong value instead of an error")
						continue
					}
				}
				if lo && hi {
					o.ok(key, c.Pos(bo.Pos()), fmt.Sprintf("0 <= %s <= %d proved from the dominating tests", ex.str(cnt), width-1))
					continue
				}
				switch {
				case nn && bd:
					o.ok(key, c.Pos(bo.Pos()), "dominated by 0 <= "+ex.str(cnt)+" < width")
				case nn:
					o.bad(key, c.Pos(bo.Pos()), "shift count "+ex.str(cnt)+" is checked non-negative but not against the operand width: an out-of-range shift yields a wrong value instead of an error")
				default:
					o.bad(key, c.Pos(bo.Pos()), "shift by signed "+ex.str(cnt)+" with no dominating non-negative test: a negative count panics")
				}
			}
		}
	}
	return o.list
}

// accepted alternative spellings of a cell: Object equality through the module's total equality helper
var cellAlt = map[string]string{
	"Equal/Object":    "equalPayloads(AsObject($1), AsObject(c2))",
	"NotEqual/Object": "!equalPayloads(AsObject($1), AsObject(c2))",
}

// totalEquality: variants.equalPayloads(a, b) is == made total: its only comparison is a == b of its
// two parameters, under a deferred handler that recovers into the named result (PANIC.recover shape).
func (c *Ctx) totalEquality() bool {
	fn := c.Func(pkgVariants, "", "equalPayloads")
	if fn == nil || len(fn.Params) != 2 || !c.recoveredIntoNamedResult(fn) {
		return false
	}
	n := 0
	// a parameter, or a load of the cell a captured parameter was spilled into (stored once)
	origin := func(v ssa.Value) ssa.Value {
		if ld, ok := v.(*ssa.UnOp); ok && ld.Op == token.MUL {
			if al, ok := ld.X.(*ssa.Alloc); ok {
				var src ssa.Value
				stores := 0
				for _, r := range *al.Referrers() {
					if st, ok := r.(*ssa.Store); ok && st.Addr == ssa.Value(al) {
						stores++
						src = st.Val
					}
				}
				if stores == 1 {
					return src
				}
			}
		}
		return v
	}
	for _, b := range fn.Blocks {
		for _, in := range b.Instrs {
			if bo, ok := in.(*ssa.BinOp); ok {
				x, y := origin(bo.X), origin(bo.Y)
				if bo.Op == token.EQL && ((x == ssa.Value(fn.Params[0]) && y == ssa.Value(fn.Params[1])) || (x == ssa.Value(fn.Params[1]) && y == ssa.Value(fn.Params[0]))) {
					n++
				} else {
					return false
				}
			}
		}
	}
	return n == 1
}

// typeSets: for every block of fn, the set of type constants (bit k = constant k) that recv.Type() can
// still have on entry, by forward dataflow: an edge out of `if recv.Type() == K` keeps only K on the
// true side and removes K on the false side (mirrored for !=); joins are unions.
func (c *Ctx) typeSets(fn *ssa.Function, recv ssa.Value, typePkg, typeRecv string, names map[int64]string) map[*ssa.BasicBlock]uint64 {
	full := uint64(0)
	for k := range names {
		if k >= 0 && k < 63 {
			full |= 1 << uint(k)
		}
	}
	full |= 1 << 63 // any other value
	sets := map[*ssa.BasicBlock]uint64{}
	if len(fn.Blocks) == 0 {
		return sets
	}
	sets[fn.Blocks[0]] = full
	edge := func(p, s *ssa.BasicBlock, in uint64) uint64 {
		ifi, ok := p.Instrs[len(p.Instrs)-1].(*ssa.If)
		if !ok || p.Succs[0] == p.Succs[1] {
			return in
		}
		r, k, op, ok := c.typeTestConst(ifi.Cond, typePkg, typeRecv)
		if !ok || !(r == recv || c.sameValue(r, recv)) || k < 0 || k >= 63 {
			return in
		}
		isTrueEdge := p.Succs[0] == s
		eq := (op == token.EQL) == isTrueEdge
		if eq {
			return in & (1 << uint(k))
		}
		return in &^ (1 << uint(k))
	}
	for changed := true; changed; {
		changed = false
		for _, b := range fn.Blocks {
			if b == fn.Blocks[0] {
				continue
			}
			var u uint64
			for _, p := range b.Preds {
				if in, ok := sets[p]; ok {
					u |= edge(p, b, in)
				}
			}
			if u != sets[b] {
				sets[b] = u
				changed = true
			}
		}
	}
	return sets
}
