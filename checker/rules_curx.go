package main

import (
	"fmt"
	"go/types"
	"strings"
	"sync"
)

// ---------------------------------------------------------------------------------------------
// CUR.cursor — the string scanner evaluated abstractly through its exported API against the cursor
// model of the statement (C11): contents over {ordinary character, LF, CR} up to a bounded length
// (and over {ordinary, LF, CR, format character} with a format character first, last or in between),
// every number of leading reads, then every sequence of operations up to a bounded depth; after
// every step the returned character and all five observers (Line, Column, Peek, PeekLine,
// PeekColumn) must equal the model's, and observers must not move the cursor.
// ---------------------------------------------------------------------------------------------

type curRef struct {
	rs         []rune
	pos        int
	lines, col []int64
}

func newCurRef(s string) *curRef {
	r := &curRef{rs: []rune(s)}
	r.lines, r.col = refPositions(s)
	return r
}

func (r *curRef) at(i int) int64 {
	if i < 0 || i >= len(r.rs) {
		return -1
	}
	return int64(r.rs[i])
}

func (r *curRef) lineCol(pos int) (int64, int64) {
	if pos <= 0 {
		return 1, 0
	}
	return r.lines[pos-1], r.col[pos-1]
}

// apply: the model's result of an operation ("" for none) and the observers afterwards.
func (r *curRef) apply(op string) string {
	res := ""
	switch {
	case op == "Read":
		if r.pos <= len(r.rs) {
			res = fmt.Sprint(r.at(r.pos))
			r.pos++
		} else {
			res = "-1"
		}
	case op == "Unread":
		if r.pos > 0 {
			r.pos--
		}
	case strings.HasPrefix(op, "UnreadMany"):
		var k int
		fmt.Sscanf(op, "UnreadMany(%d)", &k)
		for ; k > 0 && r.pos > 0; k-- {
			r.pos--
		}
	case op == "Reset":
		r.pos = 0
	}
	return res
}

func (r *curRef) observe() string {
	l, c := r.lineCol(r.pos)
	np := r.pos
	if np <= len(r.rs) {
		np++
	}
	pl, pc := r.lineCol(np)
	return fmt.Sprintf("Line=%d Column=%d Peek=%d PeekLine=%d PeekColumn=%d", l, c, r.at(r.pos), pl, pc)
}

type curHarness struct {
	c     *Ctx
	m     *mach
	scT   types.Type
	fault string
}

func (c *Ctx) newCurHarness() *curHarness {
	h := &curHarness{c: c, m: newMach(c)}
	h.scT = c.MustFunc("io", "", "NewStringScanner").Signature.Results().At(0).Type()
	return h
}

func (h *curHarness) call(sc mv, name string, args ...mv) (mv, mOutcome) {
	f := h.c.lookupMethod(h.scT, name)
	if f == nil {
		return nil, mOutcome{kind: "opaque", why: "method " + name + " not found"}
	}
	return h.m.Call(f, append([]mv{sc}, args...)...)
}

func (h *curHarness) op(sc mv, op string) (string, mOutcome) {
	if strings.HasPrefix(op, "UnreadMany") {
		var k int
		fmt.Sscanf(op, "UnreadMany(%d)", &k)
		_, out := h.call(sc, "UnreadMany", int64(k))
		return "", out
	}
	r, out := h.call(sc, op)
	if op == "Read" && out.kind == "ok" {
		return mRender(r), out
	}
	return "", out
}

func (h *curHarness) observe(sc mv) (string, mOutcome) {
	var ps []string
	// twice: observers must not move the cursor or change what the others report
	for rep := 0; rep < 2; rep++ {
		ps = ps[:0]
		for _, o := range []string{"Line", "Column", "Peek", "PeekLine", "PeekColumn"} {
			r, out := h.call(sc, o)
			if out.kind != "ok" {
				return "", out
			}
			ps = append(ps, o+"="+mRender(r))
		}
	}
	return strings.Join(ps, " "), mOutcome{kind: "ok"}
}

type curVerdict struct {
	bad, undec string
	runs       int
	// weak: a departure from the model which the scanner's own forward scan shares; reported when no script shows a
	// report that depends on the history (the stronger witness)
	weak string
}

var curxMemo *curVerdict
var curxMu sync.Mutex

func (c *Ctx) curxRun() *curVerdict {
	curxMu.Lock()
	defer curxMu.Unlock()
	if curxMemo != nil {
		return curxMemo
	}
	maxLen := 4
	depth := 2
	if c.Tier == "thorough" {
		maxLen, depth = 5, 3
	}
	var contents []string
	var rec func(p string, n int)
	rec = func(p string, n int) {
		contents = append(contents, p)
		if n == 0 {
			return
		}
		for _, a := range []string{"a", "\n", "\r"} {
			rec(p+a, n-1)
		}
	}
	rec("", maxLen)
	contents = append(contents, "ж😀\n", "ab\r\ncd\n\ref", "\r\n\r\n", "\n\r\n\r", "é")
	// format characters (the byte order mark U+FEFF, the zero-width space U+200B, the soft hyphen U+00AD) are characters
	// like any other to a cursor: not line breaks, so one column each, wherever they stand - first, last, before and after
	// a line break. Contents over {ordinary, LF, CR, format character} with at least one format character.
	fmtLen := 3
	if c.Tier == "thorough" {
		fmtLen = 4
	}
	for fi, f := range []string{"\uFEFF", "\u200B", "\u00AD"} {
		var recf func(p string, n int)
		recf = func(p string, n int) {
			if strings.Contains(p, f) {
				contents = append(contents, p)
			}
			if n == 0 {
				return
			}
			for _, a := range []string{"a", "\n", "\r", f} {
				recf(p+a, n-1)
			}
		}
		if fi == 0 {
			recf("", fmtLen)
		} else {
			recf("", 2)
		}
		contents = append(contents, f+"ab\r\n"+f+"c\n", "a"+f+"\n\r"+f)
	}
	ops := []string{"Read", "Unread", "UnreadMany(2)", "UnreadMany(0)", "UnreadMany(-1)", "UnreadMany(7)", "Reset"}
	var seqs [][]string
	var recs func(p []string, n int)
	recs = func(p []string, n int) {
		if len(p) > 0 {
			seqs = append(seqs, append([]string{}, p...))
		}
		if n == 0 {
			return
		}
		for _, o := range ops {
			recs(append(p, o), n-1)
		}
	}
	recs(nil, depth)
	nw := 12
	parts := make([]*curVerdict, nw)
	var wg sync.WaitGroup
	for w := 0; w < nw; w++ {
		wg.Add(1)
		go func(w int) {
			defer wg.Done()
			v := &curVerdict{}
			parts[w] = v
			h := c.newCurHarness()
			ctor := c.MustFunc("io", "", "NewStringScanner")
			for ci := w; ci < len(contents); ci += nw {
				s := contents[ci]
				n := len([]rune(s))
				for k := 0; k <= n+2; k++ {
					for _, seq := range seqs {
						if v.bad != "" {
							return
						}
						h.m.steps = 0
						sc, out := h.m.Call(ctor, s)
						if out.kind != "ok" {
							v.undec = "NewStringScanner: " + out.why
							return
						}
						ref := newCurRef(s)
						var hist []string
						full := make([]string, 0, k+len(seq))
						for i := 0; i < k; i++ {
							full = append(full, "Read")
						}
						full = append(full, seq...)
						v.runs++
						if (ci+k)%7 == 0 {
							noteSample("CUR.cursor/scripts", fmt.Sprintf("content %q: %s", s, strings.Join(full, ",")))
						}
						// the fresh scanner
						if got, out := h.observe(sc); out.kind == "ok" && got != ref.observe() {
							if v.weak == "" {
								v.weak = fmt.Sprintf("a new scanner over %q reports [%s]; the cursor model gives [%s] (every character that is not a line break is one column)", s, got, ref.observe())
							}
							// the script is still run: what it reports later may moreover depend on the history
						}
						for _, op := range full {
							hist = append(hist, op)
							want := ref.apply(op)
							got, out := h.op(sc, op)
							where := fmt.Sprintf("content %q after %s", s, strings.Join(hist, ","))
							if out.kind == "panic" {
								v.bad = where + ": panics: " + out.why
								break
							}
							if out.kind != "ok" {
								v.undec = where + ": " + out.why
								break
							}
							if op == "Read" && got != want {
								v.bad = fmt.Sprintf("%s: Read returns %s, the cursor model gives %s", where, got, want)
								break
							}
							obs, out := h.observe(sc)
							if out.kind == "panic" {
								v.bad = where + ": an observer panics: " + out.why
								break
							}
							if out.kind != "ok" {
								v.undec = where + ": " + out.why
								break
							}
							if obs != ref.observe() {
								msg := fmt.Sprintf("%s the scanner reports [%s]; a cursor at that position reports [%s] (position-only line/column, every character that is not a line break is one column; peeks are those after the next read)", where, obs, ref.observe())
								same := false
								// what this scanner's own fresh forward scan to the same position reports
								if fr, out := h.m.Call(ctor, s); out.kind == "ok" {
									okf := true
									for i := 0; i < ref.pos && okf; i++ {
										_, out := h.op(fr, "Read")
										okf = out.kind == "ok"
									}
									if fobs, out := h.observe(fr); okf && out.kind == "ok" {
										if fobs != obs {
											msg += fmt.Sprintf("; a new scanner over the same content after %d reads reports [%s]", ref.pos, fobs)
										} else {
											msg += "; a new scanner read forward to that position reports the same"
											same = true
										}
									}
								}
								if !same {
									v.bad = msg
									break
								}
								if v.weak == "" {
									v.weak = msg
								}
							}
						}
					}
				}
			}
		}(w)
	}
	wg.Wait()
	total := &curVerdict{}
	for _, p := range parts {
		if p.bad == "" {
			p.bad = p.weak
		}
	}
	for _, strong := range []bool{true, false} {
		if !strong && total.bad != "" {
			break
		}
		for _, p := range parts {
			if (p.bad != p.weak) == strong && p.bad != "" && (total.bad == "" || p.bad < total.bad) {
				total.bad = p.bad
			}
		}
	}
	for _, p := range parts {
		total.runs += p.runs
		if p.undec != "" && total.undec == "" {
			total.undec = p.undec
		}
	}
	curxMemo = total
	return total
}

func init() {
	register(&Rule{ID: "CUR.cursor", Floor: 1,
		Doc: "the string scanner evaluated abstractly through NewStringScanner/Read/Unread/UnreadMany/Peek/PeekLine/PeekColumn/Line/Column/Reset against the cursor model of the statement, over contents of {ordinary, LF, CR} up to a bounded length and contents of {ordinary, LF, CR, format character (U+FEFF, U+200B, U+00AD: one column each, at position 0 and elsewhere)}, every number of leading reads and every operation sequence up to a bounded depth",
		Run: func(c *Ctx) []*Obligation {
			o := newObl("CUR.cursor")
			v := c.curxRun()
			pos := c.Pos(c.MustFunc("io", "", "NewStringScanner").Pos())
			key := "io.StringScanner#cursor-model"
			switch {
			case v.bad != "":
				o.bad(key, pos, v.bad)
			case v.undec != "":
				o.undecided(key, pos, v.undec)
			default:
				o.ok(key, pos, fmt.Sprintf("%d operation sequences agree with the cursor model after every step", v.runs))
			}
			return o.list
		}})
}
