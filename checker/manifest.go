package main

import (
	"fmt"
	"os"
	"path/filepath"
	"sort"
	"strings"
)

// manifest generation: MANIFEST.json is derived from the property table so the two never drift.
func init() {
	extraCmds["manifest"] = func(args []string) int {
		verif := defaultVerifDir()
		if len(args) > 0 {
			verif = args[0]
		}
		var checks []any
		var na []any
		engines := map[string]map[string]bool{}
		for _, p := range properties {
			if len(p.Rules) == 0 {
				na = append(na, map[string]any{"property_id": p.ID, "reason": p.NAReason})
				continue
			}
			for _, r := range p.Rules {
				r, _, _ = ruleRef(r)
				fam := r
				if i := strings.IndexByte(r, '.'); i > 0 {
					fam = r[:i]
				}
				if engines[fam] == nil {
					engines[fam] = map[string]bool{}
				}
				engines[fam][p.ID] = true
			}
			checks = append(checks, map[string]any{
				"property_id":         p.ID,
				"quick_cmd":           "bin/verifchk check " + p.ID + " --tier quick",
				"thorough_cmd":        "bin/verifchk check " + p.ID + " --tier thorough",
				"evidence_file":       "evidence/" + p.ID + ".json",
				"replay_cmd_template": "bin/verifchk explain {path}",
				"engine":              "verifchk",
				"level_claimed": map[string]any{
					"category":   "other",
					"text":       p.LevelText,
					"design_ref": "DESIGN.md §4 " + p.ID,
				},
				"level_note": p.LevelNote,
				"technique":  p.Technique,
			})
		}
		var engs []any
		var fams []string
		for f := range engines {
			fams = append(fams, f)
		}
		sort.Strings(fams)
		for _, f := range fams {
			var ps []string
			for p := range engines[f] {
				ps = append(ps, p)
			}
			sort.Strings(ps)
			engs = append(engs, map[string]any{"name": f, "path": "checker/", "serves_properties": ps,
				"kind_free_text": "static analysis rule family over go/types + go/ssa (dataflow / guard / effect analyses, or abstract interpretation of the SSA by the checker's own machine over finite input partitions; see DESIGN.md §0 and §3)"})
		}
		if na == nil {
			na = []any{}
		}
		m := map[string]any{
			"version":   1,
			"setup_cmd": "cd checker && GOFLAGS=-mod=mod GOPROXY=off GOSUMDB=off GOTOOLCHAIN=local GOWORK=off go build -o ../bin/verifchk .",
			"hooks": map[string]any{
				"guard":            "verif",
				"enable":           "no hooks: the checks only read the source (go/packages + go/ssa); nothing in /repo is instrumented",
				"baseline_off_cmd": "d=$(mktemp -d) && cp /repo/go.mod /repo/go.sum $d/ && cd /repo && GOFLAGS=-mod=mod GOPROXY=off GOSUMDB=off GOWORK=off go test -modfile=$d/go.mod -vet=off -count=1 ./... ; rc=$? ; rm -rf $d ; exit $rc",
				"source_commits":   []string{},
				"add_only":         true,
			},
			"engines":        engs,
			"checks":         checks,
			"not_applicable": na,
			"notes": "All checks are static analyses of /repo's current working tree (loaded and type-checked with go/packages on every run, lowered to go/ssa); no repository code is compiled to a binary or executed. " +
				"Two kinds of rule: (1) all-path dataflow / guard / effect analyses on the SSA; (2) abstract interpretation: the checker's own abstract machine (checker/mach.go) evaluates the SSA of a component through its exported entry points over a finite partition of inputs, everything outside the partition being an opaque symbol, and the outcome is compared with an oracle written from the property statement. " +
				"Exit 0 = every obligation discharged (known findings printed as KNOWN-FINDING), exit 1 = VIOLATION, exit 2 = the checker could not decide (load/type error, unresolved anchor, a construct the machine cannot follow, vacuity floor) - never a VIOLATION line. " +
				"Every claim is level 'other': exhaustive for the stated finite families (or an all-path necessary condition), nothing beyond them.",
		}
		if err := writeJSON(filepath.Join(verif, "MANIFEST.json"), m); err != nil {
			fmt.Fprintln(os.Stderr, err)
			return 2
		}
		return 0
	}
}
