package main

import (
	"fmt"
	"go/token"
	"strings"

	"golang.org/x/tools/go/ssa"
)

// ---------------------------------------------------------------------------------------------
// NAME — variable discovery and case-insensitive resolution (C18)
// ---------------------------------------------------------------------------------------------

func init() {
	register(&Rule{ID: "NAME.fold", Floor: 4,
		Doc: "every comparison of a probe name with a stored name (variable and function collections, mustache variable lookup and discovery) folds both sides with the same function (ToUpper/ToLower); searches run forward and return the first hit",
		Run: ruleNameFold})
	register(&Rule{ID: "NAME.list", Floor: 6,
		Doc: "collections behave as ordered lists: removal is the splice append(a[:i], a[i+1:]...), remove-by-name and find-by-name act exactly when the search index is >= 0, Add appends, Clear empties",
		Run: ruleNameList})
	register(&Rule{ID: "NAME.discover", Floor: 5,
		Doc: "variable discovery: a name is recorded only for a token that is still a Variable after the function reclassification, only when not recorded yet, with the token's own text; automatic creation adds a variable only when the case-insensitive lookup finds none; a missing variable/function is reported with an error naming it; mustache discovery skips value and comment tokens and empty names",
		Run: ruleNameDiscover})
}

func isFoldCall(v ssa.Value) (string, ssa.Value, bool) {
	call, ok := v.(*ssa.Call)
	if !ok {
		return "", nil, false
	}
	f := calleeObj(call.Common())
	if f == nil || f.Pkg() == nil || f.Pkg().Path() != "strings" || (f.Name() != "ToUpper" && f.Name() != "ToLower") {
		return "", nil, false
	}
	return f.Name(), call.Call.Args[0], true
}

func ruleNameFold(c *Ctx) []*Obligation {
	o := newObl("NAME.fold")
	type site struct{ pkg, recv, name string }
	for _, s := range []site{
		{"calculator/variables", "VariableCollection", "FindIndexByName"},
		{pkgFunctions, "FunctionCollection", "FindIndexByName"},
		{"mustache", "MustacheTemplate", "GetVariable"},
		{"mustache/parsers", "MustacheParser", "lookupVariables"},
	} {
		fn := c.MustFunc(s.pkg, s.recv, s.name)
		key := c.FuncKey(fn) + "#same-fold-both-sides"
		n, bad := 0, ""
		for _, b := range fn.Blocks {
			for _, in := range b.Instrs {
				bo, ok := in.(*ssa.BinOp)
				if !ok || (bo.Op != token.EQL && bo.Op != token.NEQ) {
					continue
				}
				if bt, ok := bo.X.Type().Underlying().(interface{ Info() int }); ok {
					_ = bt
				}
				if bo.X.Type().String() != "string" {
					continue
				}
				if s2, isS := constString(bo.Y); isS && s2 == "" {
					continue // emptiness test
				}
				if s2, isS := constString(bo.X); isS && s2 == "" {
					continue
				}
				n++
				fl, _, okl := isFoldCall(bo.X)
				fr, _, okr := isFoldCall(bo.Y)
				if !okl || !okr || fl != fr {
					ex := c.newExpr(fn)
					bad = fmt.Sprintf("names are compared as %s %s %s: the two sides are not folded by the same function, so lookup is not case-insensitive", ex.str(bo.X), bo.Op, ex.str(bo.Y))
				}
			}
		}
		if n == 0 {
			bad = "no name comparison found"
		}
		o.check(bad == "", key, c.Pos(fn.Pos()), fmt.Sprintf("%d comparison(s), both sides folded alike", n), bad)
		// forward search, first hit (collections)
		if s.name == "FindIndexByName" {
			k2 := c.FuncKey(fn) + "#forward-first-hit"
			good := false
			for _, b := range fn.Blocks {
				for _, in := range b.Instrs {
					if phi, ok := in.(*ssa.Phi); ok && phi.Comment == "rangeindex" {
						// a return of the range index inside the loop
						for _, ret := range returnsOf(fn) {
							if bo, ok := ret.Results[0].(*ssa.BinOp); ok && bo.X == ssa.Value(phi) {
								good = true
							}
						}
					}
				}
			}
			neg := false
			for _, ret := range returnsOf(fn) {
				if k, isK := constInt(ret.Results[0]); isK && k == -1 {
					neg = true
				}
			}
			o.check(good && neg, k2, c.Pos(fn.Pos()), "ascending range loop returning the index of the first match, -1 otherwise", "the search does not return the first match in insertion order (or -1 when absent): 'first one added wins' is lost")
		}
	}
	return o.list
}

func ruleNameList(c *Ctx) []*Obligation {
	o := newObl("NAME.list")
	for _, spec := range []struct{ pkg, typ, field string }{{"calculator/variables", "VariableCollection", "variables"}, {pkgFunctions, "FunctionCollection", "functions"}} {
		find := c.MustFunc(spec.pkg, spec.typ, "FindIndexByName")
		for _, name := range []string{"Remove", "RemoveByName"} {
			fn := c.MustFunc(spec.pkg, spec.typ, name)
			ex := c.newExpr(fn)
			key := c.FuncKey(fn) + "#splice"
			good, why := false, "no store to the list"
			for _, b := range fn.Blocks {
				for _, in := range b.Instrs {
					st, ok := in.(*ssa.Store)
					if !ok {
						continue
					}
					fa, ok := st.Addr.(*ssa.FieldAddr)
					if !ok || fieldName(fa.X.Type(), fa.Field) != spec.field {
						continue
					}
					s := ex.str(st.Val)
					idx := "$1"
					if name == "RemoveByName" {
						idx = "FindIndexByName($0, $1)"
					}
					plus1 := "(" + idx + " + 1)"
					if idx > "1" {
						plus1 = "(1 + " + idx + ")"
					}
					want := fmt.Sprintf("append($0.%s[:%s], $0.%s[%s:])", spec.field, idx, spec.field, plus1)
					if s == want {
						good = true
						if name == "RemoveByName" {
							// guard index >= 0
							okG := false
							for _, g := range guardsAt(b) {
								cond, truth := g.atom()
								if bo, ok := cond.(*ssa.BinOp); ok {
									if call, ok := bo.X.(*ssa.Call); ok && call.Call.StaticCallee() == find {
										k, isK := constInt(bo.Y)
										op := bo.Op
										if !truth {
											op = negateOp(op)
										}
										if isK && ((op == token.GEQ && k == 0) || (op == token.GTR && k == -1) || (op == token.NEQ && k == -1)) {
											okG = true
										}
									}
								}
							}
							if !okG {
								good, why = false, "the splice is not guarded by exactly index >= 0: removing the first entry by name is a no-op, or an absent name indexes at -1"
							}
						}
					} else {
						why = "the list is rebuilt as " + s + ", expected " + want
					}
				}
			}
			if !good && name == "RemoveByName" {
				// accepted alternative: delegate to Remove(index) under exactly index >= 0
				rm := c.MustFunc(spec.pkg, spec.typ, "Remove")
				for _, ci := range allCalls(fn) {
					if ci.Common().StaticCallee() != rm {
						continue
					}
					arg := callArgs(ci.Common())[0]
					if call, ok := arg.(*ssa.Call); !ok || call.Call.StaticCallee() != find {
						why = "Remove is called with something other than the search index"
						continue
					}
					for _, g := range guardsAt(ci.Block()) {
						cond, truth := g.atom()
						if bo, ok := cond.(*ssa.BinOp); ok && bo.X == arg {
							k, isK := constInt(bo.Y)
							op := bo.Op
							if !truth {
								op = negateOp(op)
							}
							if isK && ((op == token.GEQ && k == 0) || (op == token.GTR && k == -1) || (op == token.NEQ && k == -1)) {
								good = true
							} else {
								why = "the delegation to Remove is not guarded by exactly index >= 0: removing the first entry by name is a no-op, or an absent name indexes at -1"
							}
						}
					}
				}
			}
			o.check(good, key, c.Pos(fn.Pos()), "removes exactly the entry at the index, keeping the order of the rest", name+": "+why)
		}
		// FindByName
		fb := c.MustFunc(spec.pkg, spec.typ, "FindByName")
		key := c.FuncKey(fb) + "#index-guard"
		// evaluated abstractly for a search index of -1, 0 and 3: nil for -1, otherwise the entry at that index
		good, undec := true, ""
		for _, idx := range []int64{-1, 0, 3} {
			ai := &absInterp{c: c, fn: fb, env: map[ssa.Value]aiVal{}}
			ai.call = func(ai *absInterp, call *ssa.Call) (aiVal, bool) {
				if call.Call.StaticCallee() == find {
					return aiInt(idx), true
				}
				if bi, ok := call.Call.Value.(*ssa.Builtin); ok && bi.Name() == "len" {
					return aiInt(10), true
				}
				return aiVal{}, false
			}
			ai.load = func(ai *absInterp, addr ssa.Value) (aiVal, bool) {
				switch a := addr.(type) {
				case *ssa.FieldAddr:
					if fieldName(a.X.Type(), a.Field) == spec.field {
						return aiSym("list"), true
					}
				case *ssa.IndexAddr:
					if v, i := ai.get(a.X), ai.get(a.Index); v.kind == "sym" && v.s == "list" && i.kind == "int" {
						return aiSym(fmt.Sprintf("entry@%d", i.n)), true
					}
				}
				return aiVal{}, false
			}
			ai.inline = func(g *ssa.Function) bool { return g != find }
			out := ai.run(fb.Blocks[0], nil, 0)
			switch {
			case out.kind != "return" || len(out.ret) != 1:
				undec = "FindByName: " + out.why
			case idx < 0 && out.ret[0].kind != "nil":
				good = false
			case idx >= 0 && !(out.ret[0].kind == "sym" && out.ret[0].s == fmt.Sprintf("entry@%d", idx)):
				good = false
			}
		}
		if undec != "" {
			o.undecided(key, c.Pos(fb.Pos()), undec)
		} else {
			o.check(good, key, c.Pos(fb.Pos()), "returns the entry exactly when the search index is >= 0", "FindByName does not return the entry exactly when the search index is >= 0")
		}
		// Add appends
		add := c.MustFunc(spec.pkg, spec.typ, "Add")
		ex := c.newExpr(add)
		keyA := c.FuncKey(add) + "#appends"
		goodA := false
		for _, b := range add.Blocks {
			for _, in := range b.Instrs {
				if st, ok := in.(*ssa.Store); ok {
					if fa, ok := st.Addr.(*ssa.FieldAddr); ok && fieldName(fa.X.Type(), fa.Field) == spec.field {
						if strings.HasPrefix(ex.str(st.Val), "append($0."+spec.field+", ") {
							goodA = true
						}
					}
				}
			}
		}
		o.check(goodA, keyA, c.Pos(add.Pos()), "appends at the end", "Add does not append the new entry at the end of the list")
	}
	return o.list
}

func ruleNameDiscover(c *Ctx) []*Obligation {
	o := newObl("NAME.discover")
	pm := c.buildParserModel()
	vk, _ := c.constByName(pkgParsers, "Variable")
	// (1) expression parser: append to variableNames
	if len(pm.levels) == 7 {
		fn := pm.levels[6]
		key := c.FuncKey(fn) + "#records-variable-names"
		touches := func(f *ssa.Function) bool {
			for _, b := range f.Blocks {
				for _, in := range b.Instrs {
					if fa, ok := in.(*ssa.FieldAddr); ok && fieldName(fa.X.Type(), fa.Field) == "variableNames" {
						return true
					}
				}
			}
			return false
		}
		blockTouches := func(b *ssa.BasicBlock) bool {
			for _, in := range b.Instrs {
				if fa, ok := in.(*ssa.FieldAddr); ok && fieldName(fa.X.Type(), fa.Field) == "variableNames" {
					return true
				}
				if call, ok := in.(*ssa.Call); ok {
					if g := call.Call.StaticCallee(); g != nil && c.InModule(g) && g.Blocks != nil && g != fn && touches(g) {
						return true
					}
				}
			}
			return false
		}
		// the places where a token that is still a Variable after the function detection is handled
		var starts []*ssa.BasicBlock
		for _, b := range fn.Blocks {
			ifi, ok := b.Instrs[len(b.Instrs)-1].(*ssa.If)
			if !ok {
				continue
			}
			recv, k, op, ok := c.typeTestConst(ifi.Cond, pkgParsers, "ExpressionToken")
			if !ok || k != vk || op != token.EQL {
				continue
			}
			retyped := false
			for _, l := range phiLeaves(recv) {
				if call, ok := l.(*ssa.Call); ok {
					if _, isN := c.callTo(call, pkgParsers, "", "NewExpressionToken"); isN {
						retyped = true
					}
				}
			}
			if retyped {
				starts = append(starts, b)
			}
		}
		// is a name recorded anywhere else (without that guard)?
		unguarded := ""
		for _, b := range fn.Blocks {
			if !blockTouches(b) {
				continue
			}
			okDom := false
			for _, sb := range starts {
				if sb.Succs[0].Dominates(b) {
					okDom = true
				}
			}
			if !okDom {
				for _, in := range b.Instrs {
					if st, ok := in.(*ssa.Store); ok {
						if fa, ok := st.Addr.(*ssa.FieldAddr); ok && fieldName(fa.X.Type(), fa.Field) == "variableNames" {
							unguarded = "a name is recorded without the test Type()==Variable on the token as re-typed by the function detection: function names (or other tokens) are reported as variables"
						}
					}
					if call, ok := in.(*ssa.Call); ok {
						if g := call.Call.StaticCallee(); g != nil && c.InModule(g) && g != fn && g.Blocks != nil && touches(g) {
							for _, gb := range g.Blocks {
								for _, gin := range gb.Instrs {
									if st, ok := gin.(*ssa.Store); ok {
										if fa, ok := st.Addr.(*ssa.FieldAddr); ok && fieldName(fa.X.Type(), fa.Field) == "variableNames" {
											unguarded = "a name is recorded (through " + g.Name() + ") without the test Type()==Variable on the token as re-typed by the function detection: function names (or other tokens) are reported as variables"
										}
									}
								}
							}
						}
					}
				}
			}
		}
		bad, undec, runs := unguarded, "", 0
		if len(starts) == 0 && bad == "" {
			bad = "variable names are never recorded"
		}
		for _, sb := range starts {
			entry := sb.Succs[0]
			// blocks of the guarded region from which the name list is still touched
			relevant := map[*ssa.BasicBlock]bool{}
			for _, b := range fn.Blocks {
				if entry.Dominates(b) && blockTouches(b) {
					relevant[b] = true
				}
			}
			for changed := true; changed; {
				changed = false
				for _, b := range fn.Blocks {
					if relevant[b] || !entry.Dominates(b) {
						continue
					}
					for _, sc := range b.Succs {
						if relevant[sc] {
							relevant[b] = true
							changed = true
						}
					}
				}
			}
			if len(relevant) == 0 {
				bad = "variable names are never recorded"
				continue
			}
			for _, sc := range []struct {
				have []string
				want string
			}{{nil, "name"}, {[]string{"name"}, "name"}, {[]string{"other"}, "other,name"}} {
				runs++
				ai := &absInterp{c: c, fn: fn, env: map[ssa.Value]aiVal{}, fields: map[string]aiVal{}}
				lst := aiVal{kind: "list"}
				for _, h := range sc.have {
					lst.tup = append(lst.tup, aiSym(h))
				}
				ai.fields["variableNames"] = lst
				ai.cmp = func(a, b aiVal) (bool, bool) {
					if a.kind == "sym" && b.kind == "sym" {
						return a.s == b.s, true
					}
					return false, false
				}
				ai.inline = func(g *ssa.Function) bool { return touches(g) }
				ai.call = func(ai *absInterp, call *ssa.Call) (aiVal, bool) {
					f := calleeObj(call.Common())
					if f == nil {
						return aiVal{}, false
					}
					switch {
					case recvNamed(f) == "ExpressionToken" && f.Name() == "Value":
						return aiSym("token-value"), true
					case recvNamed(f) == "Variant" && (f.Name() == "AsString" || f.Name() == "String"):
						if v := ai.get(call.Common().Args[0]); v.kind == "sym" && v.s == "token-value" {
							return aiSym("name"), true
						}
					}
					return aiVal{}, false
				}
				ai.stop = func(from, to *ssa.BasicBlock) bool { return !relevant[to] }
				out := ai.run(entry, sb, 0)
				got := []string{}
				if l := ai.fields["variableNames"]; l.kind == "list" {
					for _, v := range l.tup {
						got = append(got, v.s)
					}
				} else {
					undec = "the recorded names are not kept as a list the model can follow"
					continue
				}
				if out.kind == "opaque" {
					undec = out.why
					continue
				}
				if strings.Join(got, ",") != sc.want && bad == "" {
					switch {
					case len(got) > len(strings.Split(sc.want, ",")):
						bad = "a name is recorded without the 'not recorded yet' test: names are reported more than once"
					case len(got) < len(strings.Split(sc.want, ",")):
						bad = "a variable's name is not recorded"
					default:
						bad = "the recorded name is not the variable token's own text"
					}
					bad += fmt.Sprintf(" (names before [%s], after [%s], expected [%s])", strings.Join(sc.have, ","), strings.Join(got, ","), sc.want)
				}
			}
		}
		switch {
		case bad != "":
			o.bad(key, c.Pos(fn.Pos()), bad)
		case undec != "":
			o.undecided(key, c.Pos(fn.Pos()), undec)
		default:
			o.ok(key, c.Pos(fn.Pos()), fmt.Sprintf("%d abstract run(s): recorded only for Variable tokens (after function detection), once, with the token's text", runs))
		}
	}
	// (2) automatic creation
	{
		fn := c.MustFunc(pkgCalc, "ExpressionCalculator", "CreateVariables")
		key := c.FuncKey(fn) + "#adds-only-missing"
		good := false
		for _, ci := range allCalls(fn) {
			if ci.Common().IsInvoke() && ci.Common().Method.Name() == "Add" {
				for _, g := range guardsAt(ci.Block()) {
					cond, truth := g.atom()
					if bo, ok := cond.(*ssa.BinOp); ok && isNilConst(bo.Y) && (bo.Op == token.EQL) == truth {
						if call, ok := bo.X.(*ssa.Call); ok && call.Call.IsInvoke() && call.Call.Method.Name() == "FindByName" {
							good = true
						}
					}
				}
			}
		}
		o.check(good, key, c.Pos(fn.Pos()), "Add only under FindByName(name) == nil (case-insensitive lookup)", "automatic creation adds a variable without the case-insensitive FindByName(name) == nil test: existing entries are duplicated or replaced")
	}
	{
		fn := c.MustFunc("mustache", "MustacheTemplate", "CreateVariables")
		key := c.FuncKey(fn) + "#adds-only-missing"
		good := false
		for _, b := range fn.Blocks {
			for _, in := range b.Instrs {
				mu, ok := in.(*ssa.MapUpdate)
				if !ok {
					continue
				}
				_ = mu
				for _, g := range guardsAt(b) {
					if backwardSliceHas(g.Cond, func(v ssa.Value) bool {
						call, ok := v.(*ssa.Call)
						if !ok {
							return false
						}
						f := calleeObj(call.Common())
						return f != nil && f.Name() == "GetVariable"
					}) {
						good = true
					}
				}
			}
		}
		o.check(good, key, c.Pos(fn.Pos()), "the map entry is added only when the case-insensitive GetVariable finds none", "the template adds a default variable without consulting the case-insensitive GetVariable: a key that differs only in letter case gets a second, empty entry")
	}
	// (3) not-found errors name the missing item
	for _, spec := range []struct{ fn, code, finder string }{{"evaluateVariable", "VAR_NOT_FOUND", "FindByName"}, {"evaluateFunction", "FUNC_NOT_FOUND", "FindByName"}} {
		fn := c.MustFunc(pkgCalc, "ExpressionCalculator", spec.fn)
		key := c.FuncKey(fn) + "#" + spec.code
		good := false
		for _, s := range c.errorCtorSites() {
			if s.fn != fn || s.code != spec.code || !s.live {
				continue
			}
			msg := callArgs(s.call.Common())[2]
			namesIt := backwardSliceHas(msg, func(v ssa.Value) bool {
				call, ok := v.(*ssa.Call)
				if !ok {
					return false
				}
				f := calleeObj(call.Common())
				return f != nil && (f.Name() == "AsString" || f.Name() == "String") && recvNamed(f) == "Variant"
			})
			guarded := false
			for _, g := range guardsAt(s.call.Block()) {
				cond, truth := g.atom()
				if bo, ok := cond.(*ssa.BinOp); ok && isNilConst(bo.Y) && (bo.Op == token.EQL) == truth {
					guarded = true
				}
			}
			good = namesIt && guarded
		}
		o.check(good, key, c.Pos(fn.Pos()), "a failed lookup returns "+spec.code+" with the name in the message", "a missing "+strings.ToLower(strings.Split(spec.code, "_")[0])+" is not reported by a returned "+spec.code+" error that names it")
	}
	// (4) mustache discovery
	{
		fn := c.MustFunc("mustache/parsers", "MustacheParser", "lookupVariables")
		key := c.FuncKey(fn) + "#skips-text-and-comments"
		kk := func(n string) int64 {
			v, ok := c.constByName("mustache/parsers", n)
			if !ok {
				panic(anchorError("constant " + n + " not found"))
			}
			return v
		}
		type tokSpec struct {
			typ   int64
			name  string // "" = empty name
			opens bool   // a section opener whose body follows, up to the next SectionEnd
		}
		// the discovery loop evaluated abstractly over short token lists: which names end up recorded
		run := func(toks []tokSpec) ([]string, string) {
			ai := &absInterp{c: c, fn: fn, env: map[ssa.Value]aiVal{}, fields: map[string]aiVal{}}
			lst := aiVal{kind: "list"}
			top := aiVal{kind: "list"} // the parsed tree: tokens nested in a section are its children
			inSection := -1
			children := map[int]aiVal{}
			tse, _ := c.constByName("mustache/parsers", "TokenSectionEnd")
			tsec0, _ := c.constByName("mustache/parsers", "TokenSection")
			for i := range toks {
				sym := aiSym(fmt.Sprintf("token%d", i))
				lst.tup = append(lst.tup, sym)
				switch {
				case toks[i].typ == tse:
					inSection = -1
				case inSection >= 0:
					ch := children[inSection]
					ch.kind = "list"
					ch.tup = append(ch.tup, sym)
					children[inSection] = ch
				default:
					top.tup = append(top.tup, sym)
					if toks[i].typ == tsec0 && toks[i].opens {
						inSection = i
					}
				}
			}
			ai.fields["initialTokens"] = lst
			ai.fields["resultTokens"] = top
			ai.fields["originalTokens"] = lst
			ai.fields["variableNames"] = aiVal{kind: "list"}
			spec := func(v aiVal) *tokSpec {
				var i int
				if v.kind == "sym" {
					if _, err := fmt.Sscanf(v.s, "token%d", &i); err == nil && i < len(toks) {
						return &toks[i]
					}
				}
				return nil
			}
			ai.cmp = func(a, b aiVal) (bool, bool) {
				if a.kind == "sym" && b.kind == "sym" {
					return a.s == b.s, true
				}
				if (a.kind == "sym" && b.kind == "str") || (a.kind == "str" && b.kind == "sym") {
					return false, true
				}
				return false, false
			}
			ai.inline = func(g *ssa.Function) bool { return recvNamedFn(g) == "MustacheParser" }
			ai.call = func(ai *absInterp, call *ssa.Call) (aiVal, bool) {
				cc := call.Common()
				f := calleeObj(cc)
				if f == nil {
					return aiVal{}, false
				}
				switch {
				case recvNamed(f) == "MustacheToken" && f.Name() == "Type":
					if ts := spec(ai.get(cc.Args[0])); ts != nil {
						return aiInt(ts.typ), true
					}
				case recvNamed(f) == "MustacheToken" && f.Name() == "Tokens":
					var i int
					if v := ai.get(cc.Args[0]); v.kind == "sym" {
						if _, err := fmt.Sscanf(v.s, "token%d", &i); err == nil {
							if ch, ok := children[i]; ok {
								return ch, true
							}
							return aiNil(), true
						}
					}
				case recvNamed(f) == "MustacheToken" && f.Name() == "Value":
					if ts := spec(ai.get(cc.Args[0])); ts != nil {
						if ts.name == "" {
							return aiStr(""), true
						}
						return aiSym(ts.name), true
					}
				case f.Pkg() != nil && f.Pkg().Path() == "strings" && (f.Name() == "ToLower" || f.Name() == "ToUpper"):
					a := ai.get(cc.Args[0])
					if a.kind == "sym" {
						return aiSym("fold(" + strings.TrimSuffix(strings.TrimPrefix(a.s, "fold("), ")") + ")"), true
					}
					return a, true
				}
				return aiVal{}, false
			}
			out := ai.run(fn.Blocks[0], nil, 0)
			if out.kind != "return" {
				return nil, out.why
			}
			var names []string
			for _, v := range ai.fields["variableNames"].tup {
				names = append(names, v.s)
			}
			if ai.fields["variableNames"].kind != "list" {
				return nil, "the recorded names are not kept as a list the model can follow"
			}
			return names, ""
		}
		tv, tc, tvar, tsec, tend := kk("TokenValue"), kk("TokenComment"), kk("TokenVariable"), kk("TokenSection"), kk("TokenSectionEnd")
		cases := []struct {
			toks []tokSpec
			want string
			what string
		}{
			{[]tokSpec{{tv, "a", false}}, "", "a text token contributes a name"},
			{[]tokSpec{{tc, "a", false}}, "", "a comment token contributes a name"},
			{[]tokSpec{{tvar, "", false}}, "", "an empty name is recorded"},
			{[]tokSpec{{tvar, "a", false}}, "a", "a variable token's own name is not recorded"},
			{[]tokSpec{{tvar, "a", false}, {tsec, "a", false}}, "a", "a name occurring twice is not recorded exactly once"},
			{[]tokSpec{{tvar, "a", false}, {tvar, "b", false}}, "a,b", "two different names are not both recorded in order of first occurrence"},
			{[]tokSpec{{tsec, "a", true}, {tvar, "b", false}, {tend, "a", false}}, "a,b", "a variable that occurs only inside a section body is not reported"},
		}
		bad, undec := "", ""
		for _, cs := range cases {
			got, why := run(cs.toks)
			if why != "" {
				undec = why
				continue
			}
			if strings.Join(got, ",") != cs.want && bad == "" {
				bad = fmt.Sprintf("%s (recorded [%s], expected [%s])", cs.what, strings.Join(got, ","), cs.want)
			}
		}
		switch {
		case bad != "":
			o.bad(key, c.Pos(fn.Pos()), "template variable discovery: "+bad)
		case undec != "":
			o.undecided(key, c.Pos(fn.Pos()), undec)
		default:
			o.ok(key, c.Pos(fn.Pos()), "7 abstract runs: names are taken only from tokens that are neither text nor comment and have a non-empty name, once each, in order")
		}
	}
	return o.list
}
