package main

import (
	"fmt"
	"go/token"
	"strings"

	"golang.org/x/tools/go/ssa"
)

// ---------------------------------------------------------------------------------------------
// NAME — variable discovery and case-insensitive resolution (C18)
// ---------------------------------------------------------------------------------------------

func init() {
	register(&Rule{ID: "NAME.fold", Floor: 4,
		Doc: "every comparison of a probe name with a stored name (variable and function collections, mustache variable lookup and discovery) folds both sides with the same function (ToUpper/ToLower); searches run forward and return the first hit",
		Run: ruleNameFold})
	register(&Rule{ID: "NAME.list", Floor: 6,
		Doc: "collections behave as ordered lists: removal is the splice append(a[:i], a[i+1:]...), remove-by-name and find-by-name act exactly when the search index is >= 0, Add appends, Clear empties",
		Run: ruleNameList})
	register(&Rule{ID: "NAME.discover", Floor: 5,
		Doc: "variable discovery: a name is recorded only for a token that is still a Variable after the function reclassification, only when not recorded yet, with the token's own text; automatic creation adds a variable only when the case-insensitive lookup finds none; a missing variable/function is reported with an error naming it; mustache discovery skips value and comment tokens and empty names",
		Run: ruleNameDiscover})
}

func isFoldCall(v ssa.Value) (string, ssa.Value, bool) {
	call, ok := v.(*ssa.Call)
	if !ok {
		return "", nil, false
	}
	f := calleeObj(call.Common())
	if f == nil || f.Pkg() == nil || f.Pkg().Path() != "strings" || (f.Name() != "ToUpper" && f.Name() != "ToLower") {
		return "", nil, false
	}
	return f.Name(), call.Call.Args[0], true
}

func ruleNameFold(c *Ctx) []*Obligation {
	o := newObl("NAME.fold")
	type site struct{ pkg, recv, name string }
	for _, s := range []site{
		{"calculator/variables", "VariableCollection", "FindIndexByName"},
		{pkgFunctions, "FunctionCollection", "FindIndexByName"},
		{"mustache", "MustacheTemplate", "GetVariable"},
		{"mustache/parsers", "MustacheParser", "lookupVariables"},
	} {
		fn := c.MustFunc(s.pkg, s.recv, s.name)
		key := c.FuncKey(fn) + "#same-fold-both-sides"
		n, bad := 0, ""
		for _, b := range fn.Blocks {
			for _, in := range b.Instrs {
				bo, ok := in.(*ssa.BinOp)
				if !ok || (bo.Op != token.EQL && bo.Op != token.NEQ) {
					continue
				}
				if bt, ok := bo.X.Type().Underlying().(interface{ Info() int }); ok {
					_ = bt
				}
				if bo.X.Type().String() != "string" {
					continue
				}
				if s2, isS := constString(bo.Y); isS && s2 == "" {
					continue // emptiness test
				}
				if s2, isS := constString(bo.X); isS && s2 == "" {
					continue
				}
				n++
				fl, _, okl := isFoldCall(bo.X)
				fr, _, okr := isFoldCall(bo.Y)
				if !okl || !okr || fl != fr {
					ex := c.newExpr(fn)
					bad = fmt.Sprintf("names are compared as %s %s %s: the two sides are not folded by the same function, so lookup is not case-insensitive", ex.str(bo.X), bo.Op, ex.str(bo.Y))
				}
			}
		}
		if n == 0 {
			bad = "no name comparison found"
		}
		o.check(bad == "", key, c.Pos(fn.Pos()), fmt.Sprintf("%d comparison(s), both sides folded alike", n), bad)
		// forward search, first hit (collections)
		if s.name == "FindIndexByName" {
			k2 := c.FuncKey(fn) + "#forward-first-hit"
			good := false
			for _, b := range fn.Blocks {
				for _, in := range b.Instrs {
					if phi, ok := in.(*ssa.Phi); ok && phi.Comment == "rangeindex" {
						// a return of the range index inside the loop
						for _, ret := range returnsOf(fn) {
							if bo, ok := ret.Results[0].(*ssa.BinOp); ok && bo.X == ssa.Value(phi) {
								good = true
							}
						}
					}
				}
			}
			neg := false
			for _, ret := range returnsOf(fn) {
				if k, isK := constInt(ret.Results[0]); isK && k == -1 {
					neg = true
				}
			}
			o.check(good && neg, k2, c.Pos(fn.Pos()), "ascending range loop returning the index of the first match, -1 otherwise", "the search does not return the first match in insertion order (or -1 when absent): 'first one added wins' is lost")
		}
	}
	return o.list
}

func ruleNameList(c *Ctx) []*Obligation {
	o := newObl("NAME.list")
	for _, spec := range []struct{ pkg, typ, field string }{{"calculator/variables", "VariableCollection", "variables"}, {pkgFunctions, "FunctionCollection", "functions"}} {
		find := c.MustFunc(spec.pkg, spec.typ, "FindIndexByName")
		for _, name := range []string{"Remove", "RemoveByName"} {
			fn := c.MustFunc(spec.pkg, spec.typ, name)
			ex := c.newExpr(fn)
			key := c.FuncKey(fn) + "#splice"
			good, why := false, "no store to the list"
			for _, b := range fn.Blocks {
				for _, in := range b.Instrs {
					st, ok := in.(*ssa.Store)
					if !ok {
						continue
					}
					fa, ok := st.Addr.(*ssa.FieldAddr)
					if !ok || fieldName(fa.X.Type(), fa.Field) != spec.field {
						continue
					}
					s := ex.str(st.Val)
					idx := "$1"
					if name == "RemoveByName" {
						idx = "FindIndexByName($0, $1)"
					}
					plus1 := "(" + idx + " + 1)"
					if idx > "1" {
						plus1 = "(1 + " + idx + ")"
					}
					want := fmt.Sprintf("append($0.%s[:%s], $0.%s[%s:])", spec.field, idx, spec.field, plus1)
					if s == want {
						good = true
						if name == "RemoveByName" {
							// guard index >= 0
							okG := false
							for _, g := range guardsAt(b) {
								cond, truth := g.atom()
								if bo, ok := cond.(*ssa.BinOp); ok {
									if call, ok := bo.X.(*ssa.Call); ok && call.Call.StaticCallee() == find {
										k, isK := constInt(bo.Y)
										op := bo.Op
										if !truth {
											op = negateOp(op)
										}
										if isK && ((op == token.GEQ && k == 0) || (op == token.GTR && k == -1) || (op == token.NEQ && k == -1)) {
											okG = true
										}
									}
								}
							}
							if !okG {
								good, why = false, "the splice is not guarded by exactly index >= 0: removing the first entry by name is a no-op, or an absent name indexes at -1"
							}
						}
					} else {
						why = "the list is rebuilt as " + s + ", expected " + want
					}
				}
			}
			if !good && name == "RemoveByName" {
				// accepted alternative: delegate to Remove(index) under exactly index >= 0
				rm := c.MustFunc(spec.pkg, spec.typ, "Remove")
				for _, ci := range allCalls(fn) {
					if ci.Common().StaticCallee() != rm {
						continue
					}
					arg := callArgs(ci.Common())[0]
					if call, ok := arg.(*ssa.Call); !ok || call.Call.StaticCallee() != find {
						why = "Remove is called with something other than the search index"
						continue
					}
					for _, g := range guardsAt(ci.Block()) {
						cond, truth := g.atom()
						if bo, ok := cond.(*ssa.BinOp); ok && bo.X == arg {
							k, isK := constInt(bo.Y)
							op := bo.Op
							if !truth {
								op = negateOp(op)
							}
							if isK && ((op == token.GEQ && k == 0) || (op == token.GTR && k == -1) || (op == token.NEQ && k == -1)) {
								good = true
							} else {
								why = "the delegation to Remove is not guarded by exactly index >= 0: removing the first entry by name is a no-op, or an absent name indexes at -1"
							}
						}
					}
				}
			}
			o.check(good, key, c.Pos(fn.Pos()), "removes exactly the entry at the index, keeping the order of the rest", name+": "+why)
		}
		// FindByName
		fb := c.MustFunc(spec.pkg, spec.typ, "FindByName")
		key := c.FuncKey(fb) + "#index-guard"
		good := false
		for _, b := range fb.Blocks {
			if ifi, ok := b.Instrs[len(b.Instrs)-1].(*ssa.If); ok {
				if bo, ok := ifi.Cond.(*ssa.BinOp); ok {
					if call, ok := bo.X.(*ssa.Call); ok && call.Call.StaticCallee() == find {
						k, isK := constInt(bo.Y)
						if isK && ((bo.Op == token.GEQ && k == 0) || (bo.Op == token.GTR && k == -1) || (bo.Op == token.NEQ && k == -1)) {
							good = true
						}
					}
				}
			}
		}
		o.check(good, key, c.Pos(fb.Pos()), "returns the entry exactly when the search index is >= 0", "FindByName does not return the entry exactly when the search index is >= 0")
		// Add appends
		add := c.MustFunc(spec.pkg, spec.typ, "Add")
		ex := c.newExpr(add)
		keyA := c.FuncKey(add) + "#appends"
		goodA := false
		for _, b := range add.Blocks {
			for _, in := range b.Instrs {
				if st, ok := in.(*ssa.Store); ok {
					if fa, ok := st.Addr.(*ssa.FieldAddr); ok && fieldName(fa.X.Type(), fa.Field) == spec.field {
						if strings.HasPrefix(ex.str(st.Val), "append($0."+spec.field+", ") {
							goodA = true
						}
					}
				}
			}
		}
		o.check(goodA, keyA, c.Pos(add.Pos()), "appends at the end", "Add does not append the new entry at the end of the list")
	}
	return o.list
}

func ruleNameDiscover(c *Ctx) []*Obligation {
	o := newObl("NAME.discover")
	pm := c.buildParserModel()
	vk, _ := c.constByName(pkgParsers, "Variable")
	// (1) expression parser: append to variableNames
	if len(pm.levels) == 7 {
		fn := pm.levels[6]
		key := c.FuncKey(fn) + "#records-variable-names"
		n, bad := 0, ""
		for _, b := range fn.Blocks {
			for _, in := range b.Instrs {
				st, ok := in.(*ssa.Store)
				if !ok {
					continue
				}
				fa, ok := st.Addr.(*ssa.FieldAddr)
				if !ok || fieldName(fa.X.Type(), fa.Field) != "variableNames" {
					continue
				}
				n++
				// guard: <reclassified token>.Type() == Variable
				varGuard, notFound := false, false
				var tok ssa.Value
				for _, g := range guardsAt(b) {
					cond, truth := g.atom()
					if recv, k, op, ok := c.typeTestConst(cond, pkgParsers, "ExpressionToken"); ok && k == vk && (op == token.EQL) == truth {
						// the tested token must be the value after reclassification: a phi that merges the Function re-typing
						if phi, isPhi := recv.(*ssa.Phi); isPhi {
							for _, e := range phi.Edges {
								if call, ok := e.(*ssa.Call); ok {
									if _, isN := c.callTo(call, pkgParsers, "", "NewExpressionToken"); isN {
										varGuard = true
										tok = recv
									}
								}
							}
						}
					}
					// !found
					if phi, isPhi := cond.(*ssa.Phi); isPhi && !truth && isBoolType(phi.Type()) {
						notFound = true
					}
				}
				if !varGuard {
					bad = "a name is recorded without the test Type()==Variable on the token as re-typed by the function detection: function names (or other tokens) are reported as variables"
				}
				if !notFound {
					bad = "a name is recorded without the 'not recorded yet' test: names are reported more than once"
				}
				// recorded text is the token's own text
				recorded := st.Val
				if ap, ok := st.Val.(*ssa.Call); ok && len(ap.Call.Args) == 2 {
					if sl, ok := ap.Call.Args[1].(*ssa.Slice); ok {
						if al, ok := sl.X.(*ssa.Alloc); ok {
							for _, r := range *al.Referrers() {
								if ia, ok := r.(*ssa.IndexAddr); ok {
									for _, r2 := range *ia.Referrers() {
										if s2, ok := r2.(*ssa.Store); ok {
											recorded = s2.Val
										}
									}
								}
							}
						}
					}
				}
				if tok != nil && !backwardSliceHas(recorded, func(v ssa.Value) bool {
					call, ok := v.(*ssa.Call)
					if !ok {
						return false
					}
					f := calleeObj(call.Common())
					return f != nil && f.Name() == "Value" && callRecv(call.Common()) == tok
				}) {
					bad = "the recorded name is not the variable token's own text"
				}
			}
		}
		if n == 0 {
			bad = "variable names are never recorded"
		}
		o.check(bad == "", key, c.Pos(fn.Pos()), "recorded only for Variable tokens (after function detection), once, with the token's text", bad)
	}
	// (2) automatic creation
	{
		fn := c.MustFunc(pkgCalc, "ExpressionCalculator", "CreateVariables")
		key := c.FuncKey(fn) + "#adds-only-missing"
		good := false
		for _, ci := range allCalls(fn) {
			if ci.Common().IsInvoke() && ci.Common().Method.Name() == "Add" {
				for _, g := range guardsAt(ci.Block()) {
					cond, truth := g.atom()
					if bo, ok := cond.(*ssa.BinOp); ok && isNilConst(bo.Y) && (bo.Op == token.EQL) == truth {
						if call, ok := bo.X.(*ssa.Call); ok && call.Call.IsInvoke() && call.Call.Method.Name() == "FindByName" {
							good = true
						}
					}
				}
			}
		}
		o.check(good, key, c.Pos(fn.Pos()), "Add only under FindByName(name) == nil (case-insensitive lookup)", "automatic creation adds a variable without the case-insensitive FindByName(name) == nil test: existing entries are duplicated or replaced")
	}
	{
		fn := c.MustFunc("mustache", "MustacheTemplate", "CreateVariables")
		key := c.FuncKey(fn) + "#adds-only-missing"
		good := false
		for _, b := range fn.Blocks {
			for _, in := range b.Instrs {
				mu, ok := in.(*ssa.MapUpdate)
				if !ok {
					continue
				}
				_ = mu
				for _, g := range guardsAt(b) {
					if backwardSliceHas(g.Cond, func(v ssa.Value) bool {
						call, ok := v.(*ssa.Call)
						if !ok {
							return false
						}
						f := calleeObj(call.Common())
						return f != nil && f.Name() == "GetVariable"
					}) {
						good = true
					}
				}
			}
		}
		o.check(good, key, c.Pos(fn.Pos()), "the map entry is added only when the case-insensitive GetVariable finds none", "the template adds a default variable without consulting the case-insensitive GetVariable: a key that differs only in letter case gets a second, empty entry")
	}
	// (3) not-found errors name the missing item
	for _, spec := range []struct{ fn, code, finder string }{{"evaluateVariable", "VAR_NOT_FOUND", "FindByName"}, {"evaluateFunction", "FUNC_NOT_FOUND", "FindByName"}} {
		fn := c.MustFunc(pkgCalc, "ExpressionCalculator", spec.fn)
		key := c.FuncKey(fn) + "#" + spec.code
		good := false
		for _, s := range c.errorCtorSites() {
			if s.fn != fn || s.code != spec.code || !s.live {
				continue
			}
			msg := callArgs(s.call.Common())[2]
			namesIt := backwardSliceHas(msg, func(v ssa.Value) bool {
				call, ok := v.(*ssa.Call)
				if !ok {
					return false
				}
				f := calleeObj(call.Common())
				return f != nil && (f.Name() == "AsString" || f.Name() == "String") && recvNamed(f) == "Variant"
			})
			guarded := false
			for _, g := range guardsAt(s.call.Block()) {
				cond, truth := g.atom()
				if bo, ok := cond.(*ssa.BinOp); ok && isNilConst(bo.Y) && (bo.Op == token.EQL) == truth {
					guarded = true
				}
			}
			good = namesIt && guarded
		}
		o.check(good, key, c.Pos(fn.Pos()), "a failed lookup returns "+spec.code+" with the name in the message", "a missing "+strings.ToLower(strings.Split(spec.code, "_")[0])+" is not reported by a returned "+spec.code+" error that names it")
	}
	// (4) mustache discovery
	{
		fn := c.MustFunc("mustache/parsers", "MustacheParser", "lookupVariables")
		key := c.FuncKey(fn) + "#skips-text-and-comments"
		tv, _ := c.constByName("mustache/parsers", "TokenValue")
		tc, _ := c.constByName("mustache/parsers", "TokenComment")
		var seenV, seenC, seenE bool
		for _, b := range fn.Blocks {
			for _, in := range b.Instrs {
				st, ok := in.(*ssa.Store)
				if !ok {
					continue
				}
				fa, ok := st.Addr.(*ssa.FieldAddr)
				if !ok || fieldName(fa.X.Type(), fa.Field) != "variableNames" {
					continue
				}
				if _, isAppend := st.Val.(*ssa.Call); !isAppend {
					continue
				}
				for _, g := range guardsAt(b) {
					cond, truth := g.atom()
					if _, k, op, ok := c.typeTestConst(cond, "mustache/parsers", "MustacheToken"); ok && (op == token.NEQ) == truth {
						if k == tv {
							seenV = true
						}
						if k == tc {
							seenC = true
						}
					}
					if bo, ok := cond.(*ssa.BinOp); ok {
						if s, isS := constString(bo.Y); isS && s == "" && (bo.Op == token.NEQ) == truth {
							seenE = true
						}
					}
				}
			}
		}
		o.check(seenV && seenC && seenE, key, c.Pos(fn.Pos()), "names are taken only from tokens that are neither text nor comment and have a non-empty name", "template variable discovery no longer excludes text tokens, comment tokens or empty names")
	}
	return o.list
}
