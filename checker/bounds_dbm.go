package main

import (
	"go/token"
	"go/types"

	"golang.org/x/tools/go/ssa"
)

// Difference-bound reasoning for the bounds prover: facts of the form  A <= B + k  where A and B are
// sums of at most two atoms (an SSA integer value or the term len(base)) or zero. Facts come from
//   - definitions:       v = x + c, v = x - c, v = x + y, numeric conversions, len(make([]T, n)) = n, len(_) >= 0
//   - induction:         v = phi(init, v + step): step > 0 gives v >= init, step < 0 gives v <= init
//                        (any other phi: the bound must hold for every incoming value)
//   - dominating guards: the branch conditions known on entry to the block of the use
// A query is answered by a bounded backward search. Integer overflow is not modelled (stated
// assumption of PANIC.index). This makes the discharge independent of the spelling of a loop: the
// index may count up or down, the limit may be a local copy of len, the slice may be made with the
// count it is later indexed with, a window test may be hoisted in front of the loop.

type atom struct {
	v     ssa.Value // SSA value, or
	lenOf ssa.Value // the term len(lenOf)
}

type dterm struct {
	atoms []atom // 0, 1 or 2 atoms; 0 = the constant zero
}

func vterm(v ssa.Value) dterm   { return dterm{[]atom{{v: v}}} }
func lenterm(b ssa.Value) dterm { return dterm{[]atom{{lenOf: b}}} }

type dbm struct {
	p      *boundsProver
	at     ssa.Instruction
	guards []guard
	budget int
	curSub map[ssa.Value]ssa.Value // while a helper-derived guard is read: its parameters → the call's arguments
}

func (p *boundsProver) newDBM(at ssa.Instruction) *dbm {
	return &dbm{p: p, at: at, guards: guardsAt(at.Block()), budget: 600}
}

// flatten resolves one value into atoms and a constant: constants fold, x±c unfolds, x+y splits,
// conversions are transparent, len(x) calls become len atoms, len(make(_, n)) becomes n.
func (d *dbm) flatten(v ssa.Value, depth int) ([]atom, int64) {
	if lm, ok := v.(lenMarker); ok {
		if mk, ok := lm.of.(*ssa.MakeSlice); ok {
			return d.flatten(mk.Len, depth-1)
		}
		if n, ok := d.p.c.constLenOf(lm.of); ok {
			return nil, n
		}
		return []atom{{lenOf: lm.of}}, 0
	}
	if r, ok := d.curSub[v]; ok {
		v = r
	}
	v = stripConv(v)
	if r, ok := d.curSub[v]; ok {
		v = stripConv(r)
	}
	if c, ok := constInt(v); ok {
		return nil, c
	}
	if depth > 0 {
		if bo, ok := v.(*ssa.BinOp); ok && (bo.Op == token.ADD || bo.Op == token.SUB) {
			if c, isK := constInt(bo.Y); isK {
				as, k := d.flatten(bo.X, depth-1)
				if bo.Op == token.ADD {
					return as, k + c
				}
				return as, k - c
			}
			if bo.Op == token.ADD {
				if c, isK := constInt(bo.X); isK {
					as, k := d.flatten(bo.Y, depth-1)
					return as, k + c
				}
				xa, xk := d.flatten(bo.X, depth-1)
				ya, yk := d.flatten(bo.Y, depth-1)
				if len(xa)+len(ya) <= 2 {
					return append(append([]atom{}, xa...), ya...), xk + yk
				}
			}
		}
		if call, ok := v.(*ssa.Call); ok {
			if bi, ok := call.Call.Value.(*ssa.Builtin); ok && bi.Name() == "len" {
				arg0 := call.Call.Args[0]
				if r, ok := d.curSub[arg0]; ok {
					return d.flatten(lenCallOf(r), depth-1)
				}
				if mk, ok := call.Call.Args[0].(*ssa.MakeSlice); ok {
					return d.flatten(mk.Len, depth-1)
				}
				if n, ok := d.p.c.constLenOf(call.Call.Args[0]); ok {
					return nil, n
				}
				// len(s[a:]) = len(s) - a
				if sl, ok := call.Call.Args[0].(*ssa.Slice); ok && sl.High == nil {
					if _, isStr := sl.X.Type().Underlying().(*types.Pointer); !isStr {
						if sl.Low == nil {
							return []atom{{lenOf: sl.X}}, 0
						}
						if a, isK := constInt(sl.Low); isK {
							return []atom{{lenOf: sl.X}}, -a
						}
					}
				}
				return []atom{{lenOf: call.Call.Args[0]}}, 0
			}
		}
	}
	return []atom{{v: v}}, 0
}

func (d *dbm) norm(t dterm, k int64) (dterm, int64) {
	var out []atom
	for _, a := range t.atoms {
		if a.lenOf != nil {
			if mk, ok := a.lenOf.(*ssa.MakeSlice); ok {
				as, c := d.flatten(mk.Len, 4)
				out = append(out, as...)
				k += c
				continue
			}
			if n, ok := d.p.c.constLenOf(a.lenOf); ok {
				k += n
				continue
			}
			out = append(out, a)
			continue
		}
		as, c := d.flatten(a.v, 4)
		out = append(out, as...)
		k += c
	}
	if len(out) > 2 {
		// too many summands: keep the original (opaque) atoms
		return t, k
	}
	return dterm{out}, k
}

func (d *dbm) sameAtom(a, b atom) bool {
	if a.lenOf != nil || b.lenOf != nil {
		return a.lenOf != nil && b.lenOf != nil && d.p.c.sameValue(a.lenOf, b.lenOf)
	}
	return a.v == b.v || d.p.c.sameValue(a.v, b.v)
}

func (d *dbm) same(a, b dterm) bool {
	if len(a.atoms) != len(b.atoms) {
		return false
	}
	switch len(a.atoms) {
	case 0:
		return true
	case 1:
		return d.sameAtom(a.atoms[0], b.atoms[0])
	default:
		return (d.sameAtom(a.atoms[0], b.atoms[0]) && d.sameAtom(a.atoms[1], b.atoms[1])) ||
			(d.sameAtom(a.atoms[0], b.atoms[1]) && d.sameAtom(a.atoms[1], b.atoms[0]))
	}
}

// leq proves  a + ka <= b + kb.
func (d *dbm) leq(a dterm, ka int64, b dterm, kb int64) bool {
	return d.search(a, ka, b, kb, 6, map[ssa.Value]bool{})
}

func (d *dbm) search(a dterm, ka int64, b dterm, kb int64, depth int, onPath map[ssa.Value]bool) bool {
	d.budget--
	if d.budget < 0 || depth < 0 {
		return false
	}
	a, ka = d.norm(a, ka)
	b, kb = d.norm(b, kb)
	if d.same(a, b) {
		return ka <= kb
	}
	// cancel a common atom
	if len(a.atoms) >= 1 && len(b.atoms) >= 1 {
		for i, x := range a.atoms {
			for j, y := range b.atoms {
				if d.sameAtom(x, y) {
					na := dterm{append(append([]atom{}, a.atoms[:i]...), a.atoms[i+1:]...)}
					nb := dterm{append(append([]atom{}, b.atoms[:j]...), b.atoms[j+1:]...)}
					return d.search(na, ka, nb, kb, depth, onPath)
				}
			}
		}
	}
	// 0 <= sum of len atoms
	if len(a.atoms) == 0 && ka <= kb {
		allLen := len(b.atoms) > 0
		for _, x := range b.atoms {
			if x.lenOf == nil {
				allLen = false
			}
		}
		if allLen {
			return true
		}
	}
	try := func(bs boundSet, f func(alt boundAlt) bool) bool {
		if bs.viaPhi != nil {
			if onPath[bs.viaPhi] {
				return false
			}
			onPath[bs.viaPhi] = true
			defer delete(onPath, bs.viaPhi)
		}
		for _, alt := range bs.all {
			saved := d.guards
			if len(alt.extra) > 0 {
				d.guards = append(append([]guard{}, d.guards...), alt.extra...)
			}
			ok := f(alt)
			d.guards = saved
			if !ok {
				return false
			}
		}
		return true
	}
	for _, ub := range d.upper(a) {
		if try(ub, func(alt boundAlt) bool { return d.search(alt.t, ka+alt.k, b, kb, depth-1, onPath) }) {
			return true
		}
	}
	for _, lb := range d.lower(b) {
		if try(lb, func(alt boundAlt) bool { return d.search(a, ka, alt.t, kb+alt.k, depth-1, onPath) }) {
			return true
		}
	}
	return false
}

type boundAlt struct {
	t     dterm
	k     int64
	extra []guard // additional facts valid for this alternative (conditions of the phi edge it comes from)
}

// a bound that holds when ALL alternatives are proved (one alternative for plain facts, several for a phi)
type boundSet struct {
	all    []boundAlt
	viaPhi ssa.Value
}

// phiStep: phi = phi(init, phi + step) → (init, step)
func phiStep(phi *ssa.Phi) (init ssa.Value, step int64, ok bool) {
	// exactly one edge that is not phi±k (the initial value); all others the same phi + step
	found := false
	for _, e := range phi.Edges {
		bo, isB := stripConv(e).(*ssa.BinOp)
		if isB && (bo.Op == token.ADD || bo.Op == token.SUB) && bo.X == ssa.Value(phi) {
			k, isK := constInt(bo.Y)
			if !isK {
				return nil, 0, false
			}
			if bo.Op == token.SUB {
				k = -k
			}
			if found && k != step {
				return nil, 0, false
			}
			step, found = k, true
			continue
		}
		if init != nil && init != e {
			return nil, 0, false
		}
		init = e
	}
	if !found || init == nil {
		return nil, 0, false
	}
	return init, step, true
}

// bounds returns facts about t: t <= alt + k (upper) or t >= alt + k (lower).
func (d *dbm) bounds(t dterm, upper bool) []boundSet {
	var out []boundSet
	if len(t.atoms) == 0 {
		return nil
	}
	if len(t.atoms) == 1 && t.atoms[0].v != nil {
		if phi, ok := t.atoms[0].v.(*ssa.Phi); ok {
			if init, step, ok := phiStep(phi); ok && ((upper && step <= 0) || (!upper && step >= 0)) {
				out = append(out, boundSet{all: []boundAlt{{t: vterm(init)}}})
			} else {
				bs := boundSet{viaPhi: phi}
				for i, e := range phi.Edges {
					bs.all = append(bs.all, boundAlt{vterm(e), 0, guardsOnEdge(phi.Block().Preds[i], phi.Block())})
				}
				out = append(out, bs)
			}
		}
	}
	for _, g := range d.guards {
		cond, truth := g.atom()
		bo, ok := cond.(*ssa.BinOp)
		if !ok {
			continue
		}
		op := bo.Op
		if !truth {
			op = negateOp(op)
		}
		d.curSub = g.Sub
		x, kx := d.norm(vterm(bo.X), 0)
		y, ky := d.norm(vterm(bo.Y), 0)
		d.curSub = nil
		// x + kx  op  y + ky
		if d.same(x, t) && !d.same(y, t) {
			if upper {
				switch op {
				case token.LSS: // t + kx < y + ky  →  t <= y + ky - kx - 1
					out = append(out, boundSet{all: []boundAlt{{t: y, k: ky - kx - 1}}})
				case token.LEQ, token.EQL:
					out = append(out, boundSet{all: []boundAlt{{t: y, k: ky - kx}}})
				}
			} else {
				switch op {
				case token.GTR: // t + kx > y + ky → t >= y + ky - kx + 1
					out = append(out, boundSet{all: []boundAlt{{t: y, k: ky - kx + 1}}})
				case token.GEQ, token.EQL:
					out = append(out, boundSet{all: []boundAlt{{t: y, k: ky - kx}}})
				}
			}
		}
		if d.same(y, t) && !d.same(x, t) {
			if upper {
				switch op {
				case token.GTR: // x + kx > t + ky → t <= x + kx - ky - 1
					out = append(out, boundSet{all: []boundAlt{{t: x, k: kx - ky - 1}}})
				case token.GEQ, token.EQL:
					out = append(out, boundSet{all: []boundAlt{{t: x, k: kx - ky}}})
				}
			} else {
				switch op {
				case token.LSS: // x + kx < t + ky → t >= x + kx - ky + 1
					out = append(out, boundSet{all: []boundAlt{{t: x, k: kx - ky + 1}}})
				case token.LEQ, token.EQL:
					out = append(out, boundSet{all: []boundAlt{{t: x, k: kx - ky}}})
				}
			}
		}
	}
	// len([]rune(s)) >= 1 under a dominating s != ""
	if !upper && len(t.atoms) == 1 && t.atoms[0].lenOf != nil {
		if cv, ok := t.atoms[0].lenOf.(*ssa.Convert); ok {
			for _, g := range d.guards {
				cond, truth := g.atom()
				if bo, ok := cond.(*ssa.BinOp); ok && d.p.c.sameValue(bo.X, cv.X) {
					if str, isS := constString(bo.Y); isS && str == "" && (bo.Op == token.NEQ) == truth {
						out = append(out, boundSet{all: []boundAlt{{t: dterm{}, k: 1}}})
					}
				}
			}
		}
	}
	// i = strings.Index(s, sub) with i >= 0 implies i + len(sub) <= len(s)
	if upper && len(t.atoms) == 2 {
		for i := 0; i < 2; i++ {
			iv, ln := t.atoms[i], t.atoms[1-i]
			call, ok := iv.v.(*ssa.Call)
			if !ok || ln.lenOf == nil {
				continue
			}
			f := calleeObj(call.Common())
			if f == nil || f.Pkg() == nil || f.Pkg().Path() != "strings" || f.Name() != "Index" || len(call.Call.Args) != 2 {
				continue
			}
			if !d.p.c.sameValue(call.Call.Args[1], ln.lenOf) {
				continue
			}
			// the index must be known non-negative here
			nn := false
			for _, g := range d.guards {
				cond, truth := g.atom()
				if bo, ok := cond.(*ssa.BinOp); ok && bo.X == ssa.Value(call) {
					if k, isK := constInt(bo.Y); isK {
						op := bo.Op
						if !truth {
							op = negateOp(op)
						}
						if (op == token.GEQ && k >= 0) || (op == token.GTR && k >= -1) || (op == token.NEQ && k == -1) {
							nn = true
						}
					}
				}
			}
			if nn {
				out = append(out, boundSet{all: []boundAlt{{t: lenterm(call.Call.Args[0])}}})
			}
		}
	}
	// a sum: bound one summand, keep the other
	if len(t.atoms) == 2 {
		for i := 0; i < 2; i++ {
			keep, sub := t.atoms[1-i], t.atoms[i]
			for _, bs := range d.bounds(dterm{[]atom{sub}}, upper) {
				if bs.viaPhi != nil || len(bs.all) != 1 || len(bs.all[0].t.atoms) > 1 {
					continue
				}
				nt := dterm{append([]atom{keep}, bs.all[0].t.atoms...)}
				out = append(out, boundSet{all: []boundAlt{{t: nt, k: bs.all[0].k}}})
			}
		}
	}
	return out
}

func (d *dbm) upper(t dterm) []boundSet { return d.bounds(t, true) }
func (d *dbm) lower(t dterm) []boundSet { return d.bounds(t, false) }

// dbmNonNegative: 0 <= v at `at`.
func (p *boundsProver) dbmNonNegative(v ssa.Value, at ssa.Instruction) bool {
	return p.newDBM(at).leq(dterm{}, 0, vterm(v), 0)
}

// dbmBelowLen: v < len(base) (strict) or v <= len(base).
func (p *boundsProver) dbmBelowLen(v, base ssa.Value, at ssa.Instruction, strict bool) bool {
	k := int64(0)
	if strict {
		k = -1
	}
	return p.newDBM(at).leq(vterm(v), 0, lenterm(base), k)
}

// dbmLeq: a <= b at `at`.
func (p *boundsProver) dbmLeq(a, b ssa.Value, at ssa.Instruction) bool {
	return p.newDBM(at).leq(vterm(a), 0, vterm(b), 0)
}

// constLenOf: base is a load of a package-level slice variable that is initialised with a composite
// literal and never reassigned (element writes do not change the length): its length is a constant.
func (c *Ctx) constLenOf(base ssa.Value) (int64, bool) {
	if n, ok := c.constLenField(base); ok {
		return n, true // a field that always holds make(_, n)
	}
	ld, ok := base.(*ssa.UnOp)
	if !ok || ld.Op != token.MUL {
		return 0, false
	}
	g, ok := ld.X.(*ssa.Global)
	if !ok || g.Pkg == nil || c.relPkg(g.Pkg.Pkg) == "" || !c.globalNeverStored(g) {
		return 0, false
	}
	elts, _, _ := c.packageVarLiteral(c.relPkg(g.Pkg.Pkg), g.Name())
	if elts == nil {
		return 0, false
	}
	return int64(len(elts)), true
}

// lenCallOf builds no instruction: it returns a marker understood by flatten as len(v).
type lenMarker struct {
	ssa.Value
	of ssa.Value
}

func lenCallOf(v ssa.Value) ssa.Value { return lenMarker{of: v} }
