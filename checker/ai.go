package main

import (
	"fmt"
	"go/constant"
	"go/token"
	"go/types"
	"strings"

	"golang.org/x/tools/go/ssa"
)

// A small deterministic abstract interpreter over go/ssa, shared by the rules that decide a piece of
// code by evaluating it over a finite partition of its inputs (one abstract run per cell of the
// partition). Values are constants, opaque symbols with a printable name, nil-ness, booleans and
// tuples; every call and load is given its meaning by the rule (hooks); statically bound helpers of
// the module are executed in place, so extracting or inlining a helper does not change the result.
// Any branch on a value the rule did not define makes the run "opaque" (undecided), never silent.

type aiVal struct {
	kind string // "int","bool","str","nil","sym","tuple","unknown"
	n    int64
	b    bool
	s    string // constant string, or the name of a symbol
	tup  []aiVal
}

func aiInt(n int64) aiVal     { return aiVal{kind: "int", n: n} }
func aiBool(b bool) aiVal     { return aiVal{kind: "bool", b: b} }
func aiStr(s string) aiVal    { return aiVal{kind: "str", s: s} }
func aiSym(name string) aiVal { return aiVal{kind: "sym", s: name} }
func aiNil() aiVal            { return aiVal{kind: "nil"} }
func aiUnknown() aiVal        { return aiVal{kind: "unknown"} }

type aiOutcome struct {
	kind string // "return", "stop", "opaque"
	ret  []aiVal
	why  string
	at   *ssa.BasicBlock
}

type absInterp struct {
	c   *Ctx
	fn  *ssa.Function
	env map[ssa.Value]aiVal
	// fields: values stored into struct fields during the run, by field name (loads read them back)
	fields map[string]aiVal
	// arrays: elements stored into local array literals, by allocation
	arrays map[*ssa.Alloc]map[int64]aiVal
	// nobj numbers the objects allocated during the run (struct allocations become symbols obj1, obj2, …
	// whose fields live in `fields` under "<object>.<field>")
	nobj int
	// call gives the meaning of a call (after helper inlining was declined); handled=false → unknown
	call func(ai *absInterp, call *ssa.Call) (aiVal, bool)
	// load gives the meaning of *addr
	load func(ai *absInterp, addr ssa.Value) (aiVal, bool)
	// store observes *addr = val
	store func(ai *absInterp, addr ssa.Value, val aiVal)
	// inline decides whether a statically bound module function is executed in place
	inline func(g *ssa.Function) bool
	// cmp decides ==/!= between two symbols / a symbol and a constant (ok=false → undetermined)
	cmp func(a, b aiVal) (equal bool, ok bool)
	// stop: the run ends with outcome "stop" when control is about to enter this block
	stop func(from, to *ssa.BasicBlock) bool
	// conv gives the meaning of a conversion (string ↔ []rune …); handled=false → the operand itself
	conv func(ai *absInterp, cv *ssa.Convert) (aiVal, bool)
}

// aiCat concatenates string-like values into a flat "cat" value (parts in order).
func aiCat(parts ...aiVal) aiVal {
	out := aiVal{kind: "cat"}
	for _, p := range parts {
		if p.kind == "cat" {
			out.tup = append(out.tup, p.tup...)
		} else if !(p.kind == "str" && p.s == "") {
			out.tup = append(out.tup, p)
		}
	}
	if len(out.tup) == 1 {
		return out.tup[0]
	}
	return out
}

// aiRender prints a string-like abstract value canonically.
func aiRender(v aiVal) string {
	switch v.kind {
	case "sym":
		return v.s
	case "str":
		return fmt.Sprintf("%q", v.s)
	case "nil":
		return "nil"
	case "cat":
		var ps []string
		for _, p := range v.tup {
			ps = append(ps, aiRender(p))
		}
		return strings.Join(ps, "+")
	case "list":
		var ps []string
		for _, p := range v.tup {
			ps = append(ps, aiRender(p))
		}
		return "[" + strings.Join(ps, " ") + "]"
	case "int":
		return fmt.Sprint(v.n)
	}
	return "?"
}

func (ai *absInterp) get(v ssa.Value) aiVal {
	if x, ok := ai.env[v]; ok {
		return x
	}
	switch t := v.(type) {
	case *ssa.Const:
		if t.Value == nil {
			return aiNil()
		}
		switch t.Value.Kind() {
		case constant.Int:
			n, _ := constant.Int64Val(t.Value)
			return aiInt(n)
		case constant.Bool:
			return aiBool(constant.BoolVal(t.Value))
		case constant.String:
			return aiStr(constant.StringVal(t.Value))
		}
	case *ssa.MakeInterface:
		return ai.get(t.X)
	case *ssa.ChangeInterface:
		return ai.get(t.X)
	case *ssa.ChangeType:
		return ai.get(t.X)
	case *ssa.Convert:
		if ai.conv != nil {
			if v, ok := ai.conv(ai, t); ok {
				ai.env[t] = v
				return v
			}
		}
		return ai.get(t.X)
	}
	return aiUnknown()
}

// fieldKey: the key under which a field of the object addressed by fa is kept: "<object>.<field>" when
// the object is a symbol of the run, the bare field name otherwise (the single instance under analysis).
func (ai *absInterp) fieldKeys(fa *ssa.FieldAddr) []string {
	name := fieldName(fa.X.Type(), fa.Field)
	if base := ai.get(fa.X); base.kind == "sym" {
		return []string{base.s + "." + name, name}
	}
	return []string{name}
}

func (ai *absInterp) equal(a, b aiVal) (bool, bool) {
	switch {
	case a.kind == "nil" && b.kind == "nil":
		return true, true
	case a.kind == "nil" || b.kind == "nil":
		o := a
		if a.kind == "nil" {
			o = b
		}
		if o.kind == "sym" || o.kind == "str" || o.kind == "int" || o.kind == "tuple" || o.kind == "list" {
			return false, true // a defined non-nil object
		}
		return false, false
	case a.kind == "int" && b.kind == "int":
		return a.n == b.n, true
	case a.kind == "bool" && b.kind == "bool":
		return a.b == b.b, true
	case a.kind == "str" && b.kind == "str":
		return a.s == b.s, true
	}
	if ai.cmp != nil {
		if eq, ok := ai.cmp(a, b); ok {
			return eq, true
		}
	}
	if a.kind == "sym" && b.kind == "sym" {
		return a.s == b.s, true // two symbols of the run are the same object / text iff they have the same name
	}
	return false, false
}

// run executes from block `start` (entered from `pred`) at instruction index idx.
func (ai *absInterp) run(start, pred *ssa.BasicBlock, idx int) aiOutcome {
	type frame struct {
		call     *ssa.Call
		blk      *ssa.BasicBlock
		idx      int
		pred     *ssa.BasicBlock
		fn       *ssa.Function
		savedEnv map[ssa.Value]aiVal // recursion: the caller's values of the same function
	}
	var frames []frame
	cur := start
	for steps := 0; steps < 2000; steps++ {
		var next *ssa.BasicBlock
		jumped := false
		for ii := idx; ii < len(cur.Instrs) && !jumped; ii++ {
			switch t := cur.Instrs[ii].(type) {
			case *ssa.Phi:
				for i, p := range cur.Preds {
					if p == pred {
						ai.env[t] = ai.get(t.Edges[i])
					}
				}
			case *ssa.UnOp:
				switch t.Op {
				case token.NOT:
					x := ai.get(t.X)
					if x.kind == "bool" {
						ai.env[t] = aiBool(!x.b)
					} else {
						ai.env[t] = aiUnknown()
					}
				case token.MUL:
					if fa, ok := t.X.(*ssa.FieldAddr); ok && ai.fields != nil {
						found := false
						for _, k := range ai.fieldKeys(fa) {
							if v, has := ai.fields[k]; has {
								ai.env[t] = v
								found = true
								break
							}
						}
						if found {
							continue
						}
					}
					if ia, ok := t.X.(*ssa.IndexAddr); ok {
						if l, i := ai.get(ia.X), ai.get(ia.Index); l.kind == "list" && i.kind == "int" {
							if i.n >= 0 && int(i.n) < len(l.tup) {
								ai.env[t] = l.tup[i.n]
							} else {
								return aiOutcome{kind: "panic", why: fmt.Sprintf("index %d out of range [0,%d)", i.n, len(l.tup)), at: cur}
							}
							continue
						}
					}
					if ai.load != nil {
						if v, ok := ai.load(ai, t.X); ok {
							ai.env[t] = v
							continue
						}
					}
					ai.env[t] = aiUnknown()
				case token.SUB:
					x := ai.get(t.X)
					if x.kind == "int" {
						ai.env[t] = aiInt(-x.n)
					} else {
						ai.env[t] = aiUnknown()
					}
				default:
					ai.env[t] = aiUnknown()
				}
			case *ssa.BinOp:
				l, r := ai.get(t.X), ai.get(t.Y)
				switch {
				case t.Op == token.EQL || t.Op == token.NEQ:
					if eq, ok := ai.equal(l, r); ok {
						ai.env[t] = aiBool(eq == (t.Op == token.EQL))
					} else {
						ai.env[t] = aiUnknown()
					}
				case l.kind == "int" && r.kind == "int":
					switch t.Op {
					case token.ADD:
						ai.env[t] = aiInt(l.n + r.n)
					case token.SUB:
						ai.env[t] = aiInt(l.n - r.n)
					case token.LSS:
						ai.env[t] = aiBool(l.n < r.n)
					case token.LEQ:
						ai.env[t] = aiBool(l.n <= r.n)
					case token.GTR:
						ai.env[t] = aiBool(l.n > r.n)
					case token.GEQ:
						ai.env[t] = aiBool(l.n >= r.n)
					default:
						ai.env[t] = aiUnknown()
					}
				case t.Op == token.ADD && (l.kind == "str" || l.kind == "sym" || l.kind == "cat") && (r.kind == "str" || r.kind == "sym" || r.kind == "cat"):
					ai.env[t] = aiCat(l, r)
				default:
					if ai.cmp != nil && (t.Op == token.LSS || t.Op == token.GEQ || t.Op == token.GTR || t.Op == token.LEQ) {
						// ordered comparisons of symbols are left to the rule through cmp on a synthetic pair
						if eq, ok := ai.cmp(aiVal{kind: "sym", s: "cmp:" + t.Op.String(), tup: []aiVal{l, r}}, aiVal{}); ok {
							ai.env[t] = aiBool(eq)
							break
						}
					}
					ai.env[t] = aiUnknown()
				}
			case *ssa.Extract:
				x := ai.get(t.Tuple)
				if x.kind == "tuple" && t.Index < len(x.tup) {
					ai.env[t] = x.tup[t.Index]
				} else {
					ai.env[t] = aiUnknown()
				}
			case *ssa.Store:
				val := ai.get(t.Val)
				if fa, ok := t.Addr.(*ssa.FieldAddr); ok && ai.fields != nil {
					ai.fields[ai.fieldKeys(fa)[0]] = val
				}
				if ia, ok := t.Addr.(*ssa.IndexAddr); ok {
					if al, ok := ia.X.(*ssa.Alloc); ok {
						if i := ai.get(ia.Index); i.kind == "int" {
							if ai.arrays == nil {
								ai.arrays = map[*ssa.Alloc]map[int64]aiVal{}
							}
							if ai.arrays[al] == nil {
								ai.arrays[al] = map[int64]aiVal{}
							}
							ai.arrays[al][i.n] = val
						}
					}
				}
				if ai.store != nil {
					ai.store(ai, t.Addr, val)
				}
			case *ssa.Alloc:
				if _, isArr := arrayLen(t.Type()); !isArr {
					if pt, ok := t.Type().Underlying().(*types.Pointer); ok {
						if _, isStruct := pt.Elem().Underlying().(*types.Struct); isStruct {
							ai.nobj++
							ai.env[t] = aiSym(fmt.Sprintf("obj%d", ai.nobj))
						}
					}
				}
			case *ssa.MakeSlice:
				if n := ai.get(t.Len); n.kind == "int" && n.n >= 0 && n.n <= 8 {
					lst := aiVal{kind: "list"}
					for i := int64(0); i < n.n; i++ {
						lst.tup = append(lst.tup, aiNil())
					}
					ai.env[t] = lst
				} else {
					ai.env[t] = aiUnknown()
				}
			case *ssa.Slice:
				// a slice literal (slice of a local array whose elements were stored before) or a sub-slice of a list
				if al, ok := t.X.(*ssa.Alloc); ok {
					if n, isArr := arrayLen(al.Type()); isArr && t.Low == nil && t.High == nil {
						lst := aiVal{kind: "list"}
						for i := int64(0); i < n; i++ {
							if v, has := ai.arrays[al][i]; has {
								lst.tup = append(lst.tup, v)
							} else {
								lst.tup = append(lst.tup, aiUnknown())
							}
						}
						ai.env[t] = lst
						continue
					}
				}
				if base := ai.get(t.X); base.kind == "list" {
					lo, hi := int64(0), int64(len(base.tup))
					okB := true
					if t.Low != nil {
						if v := ai.get(t.Low); v.kind == "int" {
							lo = v.n
						} else {
							okB = false
						}
					}
					if t.High != nil {
						if v := ai.get(t.High); v.kind == "int" {
							hi = v.n
						} else {
							okB = false
						}
					}
					if okB && lo >= 0 && lo <= hi && hi <= int64(len(base.tup)) {
						ai.env[t] = aiVal{kind: "list", tup: append([]aiVal{}, base.tup[lo:hi]...)}
						continue
					}
					if okB {
						return aiOutcome{kind: "panic", why: fmt.Sprintf("slice bounds [%d:%d] out of range for length %d", lo, hi, len(base.tup)), at: cur}
					}
				}
				ai.env[t] = aiUnknown()
			case *ssa.Call:
				cc := t.Common()
				if bi, ok := cc.Value.(*ssa.Builtin); ok {
					switch bi.Name() {
					case "len":
						if l := ai.get(cc.Args[0]); l.kind == "list" {
							ai.env[t] = aiInt(int64(len(l.tup)))
							continue
						}
					case "append":
						if len(cc.Args) == 2 {
							a, b := ai.get(cc.Args[0]), ai.get(cc.Args[1])
							if a.kind == "nil" {
								a = aiVal{kind: "list"}
							}
							if a.kind == "list" && b.kind == "list" {
								ai.env[t] = aiVal{kind: "list", tup: append(append([]aiVal{}, a.tup...), b.tup...)}
								continue
							}
						}
					}
				}
				if g := cc.StaticCallee(); g != nil && ai.c.InModule(g) && g.Blocks != nil && len(frames) < 6 && ai.inline != nil && ai.inline(g) {
					var args []aiVal
					for k := range g.Params {
						if k < len(cc.Args) {
							args = append(args, ai.get(cc.Args[k]))
						}
					}
					fr := frame{call: t, blk: cur, idx: ii + 1, pred: pred, fn: g}
					recursive := g == cur.Parent()
					for _, f := range frames {
						if f.fn == g {
							recursive = true
						}
					}
					if recursive {
						fr.savedEnv = map[ssa.Value]aiVal{}
						for k, v := range ai.env {
							fr.savedEnv[k] = v
						}
					}
					for k, prm := range g.Params {
						if k < len(args) {
							ai.env[prm] = args[k]
						}
					}
					frames = append(frames, fr)
					cur, pred, idx = g.Blocks[0], nil, 0
					jumped = true
					continue
				}
				if ai.call != nil {
					if v, ok := ai.call(ai, t); ok {
						ai.env[t] = v
						continue
					}
				}
				ai.env[t] = aiUnknown()
			case *ssa.If:
				cv := ai.get(t.Cond)
				if cv.kind != "bool" {
					ex := ai.c.newExpr(cur.Parent())
					return aiOutcome{kind: "opaque", why: "a branch on " + ex.str(t.Cond) + " is outside the finite model", at: cur}
				}
				if cv.b {
					next = cur.Succs[0]
				} else {
					next = cur.Succs[1]
				}
			case *ssa.Jump:
				next = cur.Succs[0]
			case *ssa.Return:
				var rs []aiVal
				for _, r := range t.Results {
					rs = append(rs, ai.get(r))
				}
				if n := len(frames); n > 0 {
					fr := frames[n-1]
					frames = frames[:n-1]
					if fr.savedEnv != nil {
						ai.env = fr.savedEnv
					}
					switch len(rs) {
					case 0:
						ai.env[fr.call] = aiUnknown()
					case 1:
						ai.env[fr.call] = rs[0]
					default:
						ai.env[fr.call] = aiVal{kind: "tuple", tup: rs}
					}
					cur, pred, idx = fr.blk, fr.pred, fr.idx
					jumped = true
					continue
				}
				return aiOutcome{kind: "return", ret: rs, at: cur}
			case *ssa.Panic:
				return aiOutcome{kind: "opaque", why: "panic reached", at: cur}
			}
		}
		if jumped {
			continue
		}
		if next == nil {
			return aiOutcome{kind: "opaque", why: "control flow left the model", at: cur}
		}
		if len(frames) == 0 && ai.stop != nil && ai.stop(cur, next) {
			return aiOutcome{kind: "stop", at: next}
		}
		pred, cur, idx = cur, next, 0
	}
	return aiOutcome{kind: "opaque", why: "abstract run did not terminate"}
}

// loopOf returns the header and the body entry of the (first) range/for loop of fn whose header
// carries a phi with the given comment ("rangeindex" for range loops); nil if not found.
func loopWithPhi(fn *ssa.Function, comment string) (header, body *ssa.BasicBlock) {
	for _, b := range fn.Blocks {
		for _, in := range b.Instrs {
			if phi, ok := in.(*ssa.Phi); ok && phi.Comment == comment {
				if _, isIf := b.Instrs[len(b.Instrs)-1].(*ssa.If); isIf {
					return b, b.Succs[0]
				}
			}
		}
	}
	return nil, nil
}

func hasSuffixAny(s string, suf ...string) bool {
	for _, x := range suf {
		if strings.HasSuffix(s, x) {
			return true
		}
	}
	return false
}
