package main

import (
	"fmt"
	"go/constant"
	"go/token"
	"go/types"
	"sort"
	"strings"

	"golang.org/x/tools/go/ssa"
)

// ---------------------------------------------------------------------------------------------
// scanexec — path-sensitive abstract interpretation of tokenizer states over an abstract scanner.
//
// The abstract scanner is a stack of *symbolic* characters consumed since the state was entered
// (Read pushes, Unread pops, Peek names the next character); a strings.Builder is the list of
// symbolic characters / constants written to it. Branch conditions on characters (IsEof, IsDigit,
// IsEol, == 'c', Lookup(x) != nil, x == y) are assumed on each side and contradictions pruned.
// Nothing is executed: characters are symbols, loops are unrolled at most twice.
// ---------------------------------------------------------------------------------------------

type charFacts struct {
	eof    int   // 0 unknown, 1 yes, 2 no
	eq     *rune // known equal to this constant
	digit  int   // 0 unknown, 1 yes, 2 no
	eol    int   // 0 unknown, 1 yes, 2 no
	ascii  bool
	neq    []rune
	sameAs []int
	neqCh  []int
}

type sitem struct {
	kind string // "char", "const", "blob"
	ch   int
	r    rune
	blob int
}

type sval struct {
	kind  string // "char","int","bool","str","token","pos","builderlen","nil","unknown"
	ch    int
	n     int64
	b     bool
	known bool
	items []sitem
	tok   *stoken
	pos   *spos
	bld   ssa.Value
	alias ssa.Value // kind "alias": stands for this value of the calling function
	tuple []sval    // kind "tuple": the results of an inlined helper with several results
}

type stoken struct {
	items    []sitem
	typ      sval
	line     sval
	col      sval
	opaque   bool // produced by a delegate
	blob     int
	mayBeNil bool
}

type spos struct {
	fn       string // Line, Column, PeekLine, PeekColumn
	reads    int
	depth    int
	afterOps int // scanner movements (reads+unreads) before the call
}

type sstate struct {
	facts    map[int]*charFacts
	consumed []sitem // stack of chars / blobs consumed since entry
	builders map[ssa.Value][]sitem
	env      map[ssa.Value]sval
	peek     int // id of the peeked character, 0 if none
	nextID   int
	nextBlob int
	reads    int
	moves    int
	below    bool // an Unread happened with nothing consumed (moved before the entry position)
	trace    []string
	visits   map[*ssa.BasicBlock]int
	frames   []*sframe // inlined helper calls in progress on this path
}

// sframe: where to continue in the caller when an inlined helper returns.
type sframe struct {
	call        *ssa.Call
	retBlock    *ssa.BasicBlock
	retIdx      int
	retPred     *ssa.BasicBlock
	savedVisits map[*ssa.BasicBlock]int
}

func (s *sstate) clone() *sstate {
	n := &sstate{facts: map[int]*charFacts{}, builders: map[ssa.Value][]sitem{}, env: map[ssa.Value]sval{}, peek: s.peek,
		nextID: s.nextID, nextBlob: s.nextBlob, reads: s.reads, moves: s.moves, below: s.below, visits: map[*ssa.BasicBlock]int{}}
	for k, v := range s.facts {
		c := *v
		c.neq = append([]rune{}, v.neq...)
		c.sameAs = append([]int{}, v.sameAs...)
		c.neqCh = append([]int{}, v.neqCh...)
		if v.eq != nil {
			r := *v.eq
			c.eq = &r
		}
		n.facts[k] = &c
	}
	n.consumed = append([]sitem{}, s.consumed...)
	for k, v := range s.builders {
		n.builders[k] = append([]sitem{}, v...)
	}
	for k, v := range s.env {
		n.env[k] = v
	}
	n.trace = append([]string{}, s.trace...)
	for k, v := range s.visits {
		n.visits[k] = v
	}
	n.frames = append([]*sframe{}, s.frames...)
	return n
}

func (s *sstate) newChar() int {
	s.nextID++
	s.facts[s.nextID] = &charFacts{}
	return s.nextID
}

// assume applies a fact; returns false if contradictory.
func (s *sstate) assumeEOF(ch int, yes bool) bool {
	f := s.facts[ch]
	if yes {
		if f.eof == 2 {
			return false
		}
		f.eof = 1
		if f.digit == 1 || f.eq != nil {
			return false
		}
		f.digit = 2
	} else {
		if f.eof == 1 {
			return false
		}
		f.eof = 2
	}
	return true
}

func (s *sstate) assumeEq(ch int, r rune, yes bool) bool {
	f := s.facts[ch]
	if yes {
		if f.eof == 1 {
			return false
		}
		if f.eq != nil && *f.eq != r {
			return false
		}
		for _, n := range f.neq {
			if n == r {
				return false
			}
		}
		isDigit := r >= '0' && r <= '9'
		if (f.digit == 1 && !isDigit) || (f.digit == 2 && isDigit) {
			return false
		}
		rr := r
		f.eq = &rr
		f.eof = 2
		f.ascii = r < 0x80
		if isDigit {
			f.digit = 1
		} else {
			f.digit = 2
		}
		if r == -1 {
			return false
		}
	} else {
		if f.eq != nil && *f.eq == r {
			return false
		}
		f.neq = append(f.neq, r)
	}
	return true
}

func (s *sstate) assumeDigit(ch int, yes bool) bool {
	f := s.facts[ch]
	if yes {
		if f.digit == 2 || f.eof == 1 {
			return false
		}
		f.digit, f.eof, f.ascii = 1, 2, true
	} else {
		if f.digit == 1 {
			return false
		}
		f.digit = 2
	}
	return true
}

// scanOutcome is one checked terminal of one path.
type scanOutcome struct {
	site   string // stable descriptor: "return#k" / "delegate#k"
	pos    token.Pos
	ok     bool
	msg    string
	posOK  bool
	posMsg string
	isTok  bool
	// how the token ended (quote readers)
	endsAtEOF       bool // the last character read was the end-of-input marker
	lastSameAsFirst bool // the last consumed character is known equal to the first one
	peekedDifferent bool // a character was peeked after it and is known to differ from the first one (or to be EOF)
	nConsumed       int
}

type scanExec struct {
	c        *Ctx
	fn       *ssa.Function
	scanner  ssa.Value
	outcomes []scanOutcome
	paths    int
	siteIdx  map[ssa.Instruction]int
	aborted  string
	depth    int

	helperMode bool
}

const scanMaxPaths = 6000

func (c *Ctx) runScanExec(fn *ssa.Function) *scanExec {
	x := &scanExec{c: c, fn: fn, siteIdx: map[ssa.Instruction]int{}}
	for _, p := range fn.Params {
		if strings.HasSuffix(p.Type().String(), "io.IScanner") {
			x.scanner = p
		}
	}
	// stable ordinals for terminal sites (block order)
	n := 0
	for _, b := range fn.Blocks {
		for _, in := range b.Instrs {
			switch in.(type) {
			case *ssa.Return:
				n++
				x.siteIdx[in] = n
			}
			if ci, ok := in.(ssa.CallInstruction); ok && x.isDelegation(ci.Common()) && x.inlineable(ci.Common()) == nil {
				n++
				x.siteIdx[in] = n
			}
		}
	}
	// delegation sites inside helpers that will be inlined (block order, up to three levels)
	var indexHelpers func(f *ssa.Function, depth int, seen map[*ssa.Function]bool)
	indexHelpers = func(f *ssa.Function, depth int, seen map[*ssa.Function]bool) {
		for _, b := range f.Blocks {
			for _, in := range b.Instrs {
				ci, ok := in.(ssa.CallInstruction)
				if !ok {
					continue
				}
				if g := x.inlineable(ci.Common()); g != nil && depth > 0 && !seen[g] {
					seen[g] = true
					for _, gb := range g.Blocks {
						for _, gin := range gb.Instrs {
							if gci, ok := gin.(ssa.CallInstruction); ok && x.isDelegation(gci.Common()) && x.inlineable(gci.Common()) == nil {
								if _, has := x.siteIdx[gin]; !has {
									n++
									x.siteIdx[gin] = n
								}
							}
						}
					}
					indexHelpers(g, depth-1, seen)
				}
			}
		}
	}
	indexHelpers(fn, 3, map[*ssa.Function]bool{})
	st := &sstate{facts: map[int]*charFacts{}, builders: map[ssa.Value][]sitem{}, env: map[ssa.Value]sval{}, visits: map[*ssa.BasicBlock]int{}}
	x.walk(fn.Blocks[0], nil, st)
	return x
}

func (x *scanExec) isScannerValue(v ssa.Value) bool {
	if v == x.scanner {
		return true
	}
	return strings.HasSuffix(v.Type().String(), "io.IScanner")
}

// isDelegation: a call that hands the scanner to another token producer (returns *Token).
func (x *scanExec) isDelegation(cc *ssa.CallCommon) bool {
	res := cc.Signature().Results()
	if res.Len() != 1 || !strings.HasSuffix(res.At(0).Type().String(), "tokenizers.Token") {
		return false
	}
	for _, a := range cc.Args {
		if x.isScannerValue(a) {
			return true
		}
	}
	return false
}

func (x *scanExec) walk(b *ssa.BasicBlock, pred *ssa.BasicBlock, st *sstate) {
	if x.aborted != "" {
		return
	}
	if x.paths > scanMaxPaths {
		x.aborted = "path budget exhausted"
		return
	}
	st.visits[b]++
	if st.visits[b] > 3 {
		return // loop unrolled enough on this path
	}
	x.walkFrom(b, 0, pred, st)
}

// walkFrom continues the abstract execution of block b at instruction index idx.
func (x *scanExec) walkFrom(b *ssa.BasicBlock, idx int, pred *ssa.BasicBlock, st *sstate) {
	for i := idx; i < len(b.Instrs); i++ {
		in := b.Instrs[i]
		switch t := in.(type) {
		case *ssa.Phi:
			for j, p := range b.Preds {
				if p == pred {
					st.env[t] = x.eval(t.Edges[j], st)
				}
			}
		case *ssa.If:
			x.branch(b, t, st)
			return
		case *ssa.Jump:
			x.walk(b.Succs[0], b, st)
			return
		case *ssa.Return:
			if n := len(st.frames); n > 0 {
				// return from an inlined helper: bind the result and continue in the caller
				fr := st.frames[n-1]
				st.frames = st.frames[:n-1]
				switch len(t.Results) {
				case 0:
					delete(st.env, fr.call)
				case 1:
					rv := x.eval(t.Results[0], st)
					if rv.kind == "bool" && !rv.known && rv.alias == nil {
						rv.alias = t.Results[0]
					}
					st.env[fr.call] = rv
				default:
					tv := sval{kind: "tuple"}
					for _, r := range t.Results {
						rv := x.eval(r, st)
						if rv.kind == "bool" && !rv.known && rv.alias == nil {
							rv.alias = r
						}
						tv.tuple = append(tv.tuple, rv)
					}
					st.env[fr.call] = tv
				}
				for k, v := range fr.savedVisits {
					st.visits[k] = v
				}
				x.walkFrom(fr.retBlock, fr.retIdx, fr.retPred, st)
				return
			}
			x.paths++
			x.checkReturn(t, st)
			return
		case *ssa.Panic:
			x.paths++
			return
		default:
			if call, ok := in.(*ssa.Call); ok {
				if g := x.inlineableAt(call.Common(), st); g != nil && len(st.frames) < 3 {
					fr := &sframe{call: call, retBlock: b, retIdx: i + 1, retPred: pred, savedVisits: map[*ssa.BasicBlock]int{}}
					for _, gb := range g.Blocks {
						fr.savedVisits[gb] = st.visits[gb]
						st.visits[gb] = 0
					}
					for k, prm := range g.Params {
						if k < len(call.Call.Args) {
							av := x.eval(call.Call.Args[k], st)
							if av.kind == "" || av.kind == "unknown" {
								av = sval{kind: "alias", alias: x.resolve(call.Call.Args[k], st)}
							}
							st.env[prm] = av
						}
					}
					st.frames = append(st.frames, fr)
					st.trace = append(st.trace, "call:"+g.Name())
					x.walk(g.Blocks[0], nil, st)
					return
				}
			}
			if !x.step(in, st) {
				return
			}
		}
	}
}

// inlineable: a statically bound module function with a body that is handed the scanner and is not
// itself a tokenizer state's NextToken (that is a delegation to another state, judged as such).
func (x *scanExec) inlineable(cc *ssa.CallCommon) *ssa.Function {
	g := cc.StaticCallee()
	if g == nil || !x.c.InModule(g) || g.Blocks == nil || g == x.fn || g.Name() == "NextToken" {
		return nil
	}
	for _, a := range cc.Args {
		if x.isScannerValue(a) {
			return g
		}
	}
	return nil
}

// inlineableAt: inlineable, or a small statically bound module predicate/helper applied to a character
// of the scanner (c.isWordChar(symbol)): its body decides facts about that character.
func (x *scanExec) inlineableAt(cc *ssa.CallCommon, st *sstate) *ssa.Function {
	if g := x.inlineable(cc); g != nil {
		return g
	}
	g := cc.StaticCallee()
	if g == nil || !x.c.InModule(g) || g.Blocks == nil || g == x.fn || g.Name() == "NextToken" || len(g.Blocks) > 30 {
		return nil
	}
	if recvNamedFn(g) == "_TCharValidator" || recvNamedFn(g) == "CharReferenceMap" {
		return nil // modelled directly
	}
	for _, fr := range st.frames {
		if fr.call.Call.StaticCallee() == g {
			return nil
		}
	}
	for _, a := range cc.Args {
		if x.eval(a, st).kind == "char" {
			return g
		}
	}
	return nil
}

// resolve follows parameter aliases (a *strings.Builder handed to a helper) to the caller's value.
func (x *scanExec) resolve(v ssa.Value, st *sstate) ssa.Value {
	for i := 0; i < 4; i++ {
		sv, ok := st.env[v]
		if !ok || sv.kind != "alias" || sv.alias == nil {
			return v
		}
		v = sv.alias
	}
	return v
}

func (x *scanExec) branch(b *ssa.BasicBlock, ifi *ssa.If, st *sstate) {
	v := x.eval(ifi.Cond, st)
	if v.kind == "bool" && v.known {
		if v.b {
			x.walk(b.Succs[0], b, st)
		} else {
			x.walk(b.Succs[1], b, st)
		}
		return
	}
	for _, side := range []bool{true, false} {
		ns := st.clone()
		if !x.assume(ifi.Cond, side, ns) {
			continue
		}
		if side {
			x.walk(b.Succs[0], b, ns)
		} else {
			x.walk(b.Succs[1], b, ns)
		}
	}
}

// assume records the facts implied by cond == side; false if infeasible.
func (x *scanExec) assume(cond ssa.Value, side bool, st *sstate) bool {
	// the undetermined boolean result of an inlined helper stands for the expression it returned
	if sv, ok := st.env[cond]; ok && sv.kind == "bool" && !sv.known && sv.alias != nil && sv.alias != cond {
		return x.assume(sv.alias, side, st)
	}
	switch t := cond.(type) {
	case *ssa.UnOp:
		if t.Op == token.NOT {
			return x.assume(t.X, !side, st)
		}
	case *ssa.Call:
		f := calleeObj(t.Common())
		if f != nil && recvNamed(f) == "_TCharValidator" {
			a := x.eval(callArgs(t.Common())[0], st)
			if a.kind == "char" {
				switch f.Name() {
				case "IsEof":
					return st.assumeEOF(a.ch, side)
				case "IsDigit":
					return st.assumeDigit(a.ch, side)
				case "IsEol":
					f := st.facts[a.ch]
					if side {
						if f.eol == 2 || f.digit == 1 {
							return false
						}
						if f.eq != nil && *f.eq != 10 && *f.eq != 13 {
							return false
						}
						f.eol = 1
						f.ascii = true
						return st.assumeEOF(a.ch, false)
					}
					if f.eol == 1 {
						return false
					}
					if f.eq != nil && (*f.eq == 10 || *f.eq == 13) {
						return false
					}
					f.eol = 2
					return true
				}
			}
		}
	case *ssa.BinOp:
		if t.Op == token.EQL || t.Op == token.NEQ {
			eq := (t.Op == token.EQL) == side
			l, r := x.eval(t.X, st), x.eval(t.Y, st)
			if l.kind == "int" && r.kind == "char" {
				l, r = r, l
			}
			switch {
			case l.kind == "char" && r.kind == "int" && r.known:
				if r.n == -1 {
					return st.assumeEOF(l.ch, eq)
				}
				return st.assumeEq(l.ch, rune(r.n), eq)
			case l.kind == "char" && r.kind == "char":
				if eq {
					// equal characters share EOF-ness; a non-EOF partner makes both non-EOF
					fl, fr := st.facts[l.ch], st.facts[r.ch]
					if (fl.eof == 1 && fr.eof == 2) || (fl.eof == 2 && fr.eof == 1) {
						return false
					}
					if fl.eof != 0 {
						fr.eof = fl.eof
					} else if fr.eof != 0 {
						fl.eof = fr.eof
					}
					if fr.eq != nil && !st.assumeEq(l.ch, *fr.eq, true) {
						return false
					}
					if fl.eq != nil && !st.assumeEq(r.ch, *fl.eq, true) {
						return false
					}
					for _, n := range fl.neqCh {
						if n == r.ch {
							return false
						}
					}
					fl.sameAs = append(fl.sameAs, r.ch)
					fr.sameAs = append(fr.sameAs, l.ch)
				} else {
					fl, fr := st.facts[l.ch], st.facts[r.ch]
					for _, n := range fl.sameAs {
						if n == r.ch {
							return false
						}
					}
					fl.neqCh = append(fl.neqCh, r.ch)
					fr.neqCh = append(fr.neqCh, l.ch)
				}
				return true
			case isNilConst(t.Y) || isNilConst(t.X):
				// Lookup(x) != nil  ⇒ x is not EOF (the map answers nil for negative symbols: MAP.callers)
				other := t.X
				if isNilConst(t.X) {
					other = t.Y
				}
				if call, ok := other.(*ssa.Call); ok {
					if _, isL := x.c.callTo(call, "tokenizers/utilities", "CharReferenceMap", "Lookup"); isL {
						a := x.eval(callArgs(call.Common())[0], st)
						if a.kind == "char" && !eq { // != nil
							return st.assumeEOF(a.ch, false)
						}
					}
				}
				return true
			}
		}
	}
	return true
}

func (x *scanExec) eval(v ssa.Value, st *sstate) sval {
	if sv, ok := st.env[v]; ok {
		return sv
	}
	switch t := v.(type) {
	case *ssa.Const:
		if t.Value == nil {
			return sval{kind: "nil"}
		}
		switch t.Value.Kind() {
		case constant.Bool:
			return sval{kind: "bool", b: constant.BoolVal(t.Value), known: true}
		case constant.Int:
			n, _ := constant.Int64Val(t.Value)
			return sval{kind: "int", n: n, known: true}
		case constant.String:
			var items []sitem
			for _, r := range constant.StringVal(t.Value) {
				items = append(items, sitem{kind: "const", r: r})
			}
			return sval{kind: "str", items: items, known: true}
		}
	case *ssa.Extract:
		if tv, ok := st.env[t.Tuple]; ok && tv.kind == "tuple" && t.Index < len(tv.tuple) {
			return tv.tuple[t.Index]
		}
	case *ssa.UnOp:
		if t.Op == token.NOT {
			a := x.eval(t.X, st)
			if a.kind == "bool" && a.known {
				return sval{kind: "bool", b: !a.b, known: true}
			}
			return sval{kind: "bool"}
		}
	case *ssa.BinOp:
		l, r := x.eval(t.X, st), x.eval(t.Y, st)
		if t.Op == token.ADD && (l.kind == "str" || r.kind == "str") {
			if l.kind == "str" && r.kind == "str" {
				return sval{kind: "str", items: append(append([]sitem{}, l.items...), r.items...), known: l.known && r.known}
			}
			return sval{kind: "unknown"}
		}
		if (t.Op == token.ADD || t.Op == token.SUB) && l.kind == "builderlen" && r.kind == "int" && r.known {
			if t.Op == token.SUB {
				return sval{kind: "builderlen", bld: l.bld, n: l.n - r.n}
			}
			return sval{kind: "builderlen", bld: l.bld, n: l.n + r.n}
		}
		if t.Op == token.ADD && r.kind == "builderlen" && l.kind == "int" && l.known {
			return sval{kind: "builderlen", bld: r.bld, n: r.n + l.n}
		}
		if (t.Op == token.ADD || t.Op == token.SUB) && l.kind == "int" && l.known && r.kind == "int" && r.known {
			if t.Op == token.SUB {
				return sval{kind: "int", n: l.n - r.n, known: true}
			}
			return sval{kind: "int", n: l.n + r.n, known: true}
		}
		if (t.Op == token.EQL || t.Op == token.NEQ) && l.kind == "char" && r.kind == "int" && r.known {
			f := st.facts[l.ch]
			if r.n == -1 {
				if f.eof != 0 {
					return sval{kind: "bool", b: (f.eof == 1) == (t.Op == token.EQL), known: true}
				}
				return sval{kind: "bool"}
			}
			if f.eq != nil {
				return sval{kind: "bool", b: (*f.eq == rune(r.n)) == (t.Op == token.EQL), known: true}
			}
			if f.eof == 1 {
				return sval{kind: "bool", b: t.Op == token.NEQ, known: true}
			}
			for _, n := range f.neq {
				if n == rune(r.n) {
					return sval{kind: "bool", b: t.Op == token.NEQ, known: true}
				}
			}
			return sval{kind: "bool"}
		}
		if (t.Op == token.EQL || t.Op == token.NEQ) && l.kind == "char" && r.kind == "char" && l.ch == r.ch {
			return sval{kind: "bool", b: t.Op == token.EQL, known: true}
		}
		if isBoolType(t.Type()) {
			return sval{kind: "bool"}
		}
	case *ssa.Call:
		if f := calleeObj(t.Common()); f != nil && recvNamed(f) == "_TCharValidator" {
			a := x.eval(callArgs(t.Common())[0], st)
			if a.kind == "char" {
				fc := st.facts[a.ch]
				tri := 0
				switch f.Name() {
				case "IsEof":
					tri = fc.eof
				case "IsDigit":
					tri = fc.digit
				case "IsEol":
					tri = fc.eol
					if fc.eof == 1 {
						tri = 2
					}
				}
				if tri != 0 {
					return sval{kind: "bool", b: tri == 1, known: true}
				}
			}
			return sval{kind: "bool"}
		}
	case *ssa.Convert:
		a := x.eval(t.X, st)
		if a.kind == "char" {
			if b, ok := t.Type().Underlying().(*types.Basic); ok && b.Info()&types.IsString != 0 {
				return sval{kind: "str", items: []sitem{{kind: "char", ch: a.ch}}, known: true}
			}
			return a
		}
		if a.kind == "int" {
			if b, ok := t.Type().Underlying().(*types.Basic); ok && b.Info()&types.IsString != 0 && a.known {
				return sval{kind: "str", items: []sitem{{kind: "const", r: rune(a.n)}}, known: true}
			}
			return a
		}
		return a
	case *ssa.ChangeType:
		return x.eval(t.X, st)
	case *ssa.MakeInterface:
		return x.eval(t.X, st)
	}
	return sval{kind: "unknown"}
}

// step interprets one non-terminator instruction; false stops the path.
func (x *scanExec) step(in ssa.Instruction, st *sstate) bool {
	call, ok := in.(*ssa.Call)
	if !ok {
		return true
	}
	cc := call.Common()
	// scanner operations
	if cc.IsInvoke() && x.isScannerValue(cc.Value) {
		switch cc.Method.Name() {
		case "Read":
			st.reads++
			st.moves++
			var id int
			if st.peek != 0 {
				id = st.peek
				st.peek = 0
			} else {
				id = st.newChar()
			}
			if st.reads == 1 && len(st.consumed) == 0 && x.depth == 0 {
				// a state is entered on a character the main loop peeked and found not to be EOF
				if st.facts[id].eof == 0 {
					st.facts[id].eof = 2
				}
			}
			// reading again at the end of input does not move
			if n := len(st.consumed); n > 0 && st.consumed[n-1].kind == "char" && st.facts[st.consumed[n-1].ch].eof == 1 {
				st.facts[id].eof = 1
			} else {
				st.consumed = append(st.consumed, sitem{kind: "char", ch: id})
			}
			st.env[call] = sval{kind: "char", ch: id}
			st.trace = append(st.trace, fmt.Sprintf("Read→c%d", id))
		case "Peek":
			if st.peek == 0 {
				st.peek = st.newChar()
				if st.reads == 0 && len(st.consumed) == 0 && x.depth == 0 {
					st.facts[st.peek].eof = 2
				}
			}
			st.env[call] = sval{kind: "char", ch: st.peek}
			st.trace = append(st.trace, fmt.Sprintf("Peek→c%d", st.peek))
		case "Unread":
			st.moves++
			st.peek = 0
			if len(st.consumed) == 0 {
				st.below = true
			} else {
				st.consumed = st.consumed[:len(st.consumed)-1]
			}
			st.trace = append(st.trace, "Unread")
		case "UnreadMany":
			st.moves++
			st.peek = 0
			a := x.eval(cc.Args[0], st)
			n := int64(-1)
			if a.kind == "int" && a.known {
				n = a.n
			} else if a.kind == "builderlen" {
				// Len() counts bytes: equals the number of characters only if all are ASCII
				n = a.n // constant added to the length
				for _, it := range st.builders[a.bld] {
					if it.kind == "const" && it.r < 0x80 {
						n++
					} else if it.kind == "char" && st.facts[it.ch].ascii {
						n++
					} else {
						x.record(call, false, "UnreadMany(builder.Len()) uses a byte count, but the builder may hold a non-ASCII character: the push-back count is wrong", st)
						return false
					}
				}
			}
			if n < 0 {
				x.record(call, false, "UnreadMany with a count the analysis cannot evaluate", st)
				return false
			}
			for i := int64(0); i < n; i++ {
				if len(st.consumed) == 0 {
					st.below = true
					break
				}
				st.consumed = st.consumed[:len(st.consumed)-1]
			}
			st.trace = append(st.trace, fmt.Sprintf("UnreadMany(%d)", n))
		case "Line", "Column", "PeekLine", "PeekColumn":
			st.env[call] = sval{kind: "pos", pos: &spos{fn: cc.Method.Name(), reads: st.reads, depth: len(st.consumed), afterOps: st.moves}}
		}
		return true
	}
	f := calleeObj(cc)
	// strings.Builder
	if f != nil && f.Pkg() != nil && f.Pkg().Path() == "strings" && recvNamed(f) == "Builder" {
		b := x.resolve(cc.Args[0], st)
		switch f.Name() {
		case "WriteRune":
			a := x.eval(cc.Args[1], st)
			switch {
			case a.kind == "char":
				st.builders[b] = append(st.builders[b], sitem{kind: "char", ch: a.ch})
			case a.kind == "int" && a.known:
				st.builders[b] = append(st.builders[b], sitem{kind: "const", r: rune(a.n)})
			default:
				st.builders[b] = append(st.builders[b], sitem{kind: "const", r: -2})
			}
		case "WriteString":
			a := x.eval(cc.Args[1], st)
			if a.kind == "str" {
				st.builders[b] = append(st.builders[b], a.items...)
			} else {
				st.builders[b] = append(st.builders[b], sitem{kind: "const", r: -2})
			}
		case "String":
			st.env[call] = sval{kind: "str", items: append([]sitem{}, st.builders[b]...), known: true}
		case "Len":
			st.env[call] = sval{kind: "builderlen", bld: b}
		}
		return true
	}
	// token construction and accessors
	if _, ok := x.c.callTo(call, "tokenizers", "", "NewToken"); ok {
		tk := &stoken{typ: x.eval(cc.Args[0], st), line: x.eval(cc.Args[2], st), col: x.eval(cc.Args[3], st)}
		v := x.eval(cc.Args[1], st)
		if v.kind == "str" {
			tk.items = v.items
		} else {
			tk.items = []sitem{{kind: "const", r: -2}}
		}
		st.env[call] = sval{kind: "token", tok: tk}
		return true
	}
	if f != nil && recvNamed(f) == "Token" && x.c.relPkg(f.Pkg()) == "tokenizers" {
		recv := x.eval(cc.Args[0], st)
		if recv.kind == "token" {
			switch f.Name() {
			case "Value":
				st.env[call] = sval{kind: "str", items: append([]sitem{}, recv.tok.items...), known: true}
			case "Type":
				st.env[call] = recv.tok.typ
			case "Line":
				st.env[call] = recv.tok.line
			case "Column":
				st.env[call] = recv.tok.col
			}
		}
		return true
	}
	// delegation: another token producer takes over the scanner
	if x.isDelegation(cc) {
		okBal := len(st.consumed) == 0 && !st.below
		msg := "delegates with the scanner at the entry position"
		if !okBal {
			msg = "delegates to another state while " + x.describeConsumed(st) + " is still consumed: the delegate starts at the wrong position (a character is lost, duplicated or replaced by the end-of-input marker)"
		}
		if st.below {
			msg = "pushes back more characters than it read before delegating"
		}
		x.recordSite(call, "delegate", okBal, msg, st, true, "", false)
		st.nextBlob++
		st.consumed = append(st.consumed, sitem{kind: "blob", blob: st.nextBlob})
		st.peek = 0
		st.env[call] = sval{kind: "token", tok: &stoken{items: []sitem{{kind: "blob", blob: st.nextBlob}}, typ: sval{kind: "unknown"}, opaque: true, blob: st.nextBlob,
			line: sval{kind: "pos", pos: &spos{fn: "delegate"}}, col: sval{kind: "pos", pos: &spos{fn: "delegate"}}}}
		st.trace = append(st.trace, "delegate")
		st.moves++ // the delegate moved the scanner
		return true
	}
	return true
}

// inline executes a helper symbolically on every path and continues the caller for each outcome.
// To keep the path structure simple the helper is summarised: all its paths must agree on being
// "returns exactly what it consumed"; the result is a blob.
func (x *scanExec) inline(call *ssa.Call, g *ssa.Function, st *sstate) bool {
	sub := &scanExec{c: x.c, fn: g, siteIdx: map[ssa.Instruction]int{}, depth: x.depth + 1}
	for i, p := range g.Params {
		if strings.HasSuffix(p.Type().String(), "io.IScanner") {
			sub.scanner = p
		}
		_ = i
	}
	n := 0
	for _, b := range g.Blocks {
		for _, in := range b.Instrs {
			if _, ok := in.(*ssa.Return); ok {
				n++
				sub.siteIdx[in] = n
			}
		}
	}
	hst := &sstate{facts: map[int]*charFacts{}, builders: map[ssa.Value][]sitem{}, env: map[ssa.Value]sval{}, visits: map[*ssa.BasicBlock]int{}}
	hst.nextID = 1000 * (x.depth + 1)
	sub.helperMode = true
	sub.walk(g.Blocks[0], nil, hst)
	good := sub.aborted == "" && len(sub.outcomes) > 0
	why := ""
	for _, o := range sub.outcomes {
		if !o.ok {
			good = false
			why = o.msg
		}
	}
	if !good {
		x.recordSite(call, "helper", false, "helper "+g.Name()+" does not return exactly the characters it consumed: "+why, st, true, "", false)
		return false
	}
	st.nextBlob++
	st.consumed = append(st.consumed, sitem{kind: "blob", blob: st.nextBlob})
	st.peek = 0
	st.env[call] = sval{kind: "str", items: []sitem{{kind: "blob", blob: st.nextBlob}}, known: true}
	st.trace = append(st.trace, "helper:"+g.Name())
	st.moves++
	return true
}

func (x *scanExec) describeConsumed(st *sstate) string {
	var parts []string
	for _, it := range st.consumed {
		switch it.kind {
		case "char":
			f := st.facts[it.ch]
			d := fmt.Sprintf("c%d", it.ch)
			if f.eq != nil {
				d += fmt.Sprintf("=%q", *f.eq)
			}
			if f.eof == 1 {
				d += "(end-of-input slot)"
			}
			parts = append(parts, d)
		case "blob":
			parts = append(parts, "delegate-output")
		}
	}
	if len(parts) == 0 {
		return "nothing"
	}
	return "[" + strings.Join(parts, " ") + "]"
}

func (x *scanExec) record(in ssa.Instruction, ok bool, msg string, st *sstate) {
	x.recordSite(in, "op", ok, msg, st, true, "", false)
}

func (x *scanExec) recordSite(in ssa.Instruction, kind string, ok bool, msg string, st *sstate, posOK bool, posMsg string, isTok bool) {
	idx := x.siteIdx[in]
	site := fmt.Sprintf("%s#%d", kind, idx)
	if !ok {
		msg += " [path: " + strings.Join(st.trace, " ") + "]"
	}
	x.outcomes = append(x.outcomes, scanOutcome{site: site, pos: in.Pos(), ok: ok, msg: msg, posOK: posOK, posMsg: posMsg, isTok: isTok})
}

// checkReturn verifies the balance of a returned token (or string, for helpers).
func (x *scanExec) checkReturn(ret *ssa.Return, st *sstate) {
	if len(ret.Results) != 1 {
		return
	}
	v := x.eval(ret.Results[0], st)
	var items []sitem
	var tk *stoken
	switch v.kind {
	case "token":
		tk = v.tok
		items = tk.items
	case "str":
		items = v.items
	case "nil":
		// returning no token: nothing may be consumed
		ok := len(st.consumed) == 0
		x.recordSite(ret, "return", ok, "returns nil with "+x.describeConsumed(st)+" consumed", st, true, "", false)
		return
	default:
		x.recordSite(ret, "return", false, "the returned value is not a token/string the analysis can follow", st, true, "", false)
		return
	}
	ok, msg := x.balanced(items, st)
	posOK, posMsg := true, ""
	if tk != nil && !tk.opaque {
		posOK, posMsg = x.positionOK(tk, st)
	}
	x.recordSite(ret, "return", ok, msg, st, posOK, posMsg, tk != nil && !tk.opaque)
	// closing information
	o := &x.outcomes[len(x.outcomes)-1]
	o.nConsumed = len(st.consumed)
	if n := len(st.consumed); n > 0 && st.consumed[0].kind == "char" {
		first := st.consumed[0].ch
		last := st.consumed[n-1]
		if last.kind == "char" {
			if st.facts[last.ch].eof == 1 {
				o.endsAtEOF = true
			}
			if n > 1 {
				for _, sa := range st.facts[last.ch].sameAs {
					if sa == first {
						o.lastSameAsFirst = true
					}
				}
			}
		}
		if st.peek != 0 {
			pf := st.facts[st.peek]
			if pf.eof == 1 {
				o.peekedDifferent = true
			}
			for _, nc := range pf.neqCh {
				if nc == first {
					o.peekedDifferent = true
				}
			}
		}
	}
}

// balanced: the value items equal the consumed stack, except for one trailing end-of-input slot.
func (x *scanExec) balanced(items []sitem, st *sstate) (bool, string) {
	if st.below {
		return false, "more characters were pushed back than were read"
	}
	cons := st.consumed
	// drop one trailing EOF slot
	if n := len(cons); n > 0 && cons[n-1].kind == "char" && st.facts[cons[n-1].ch].eof == 1 {
		cons = cons[:n-1]
	}
	// an unread-pending peek does not matter
	i := 0
	for _, it := range items {
		if i >= len(cons) {
			return false, fmt.Sprintf("the token value contains %s that is not among the characters consumed %s: a character is invented", x.describeItem(it, st), x.describeConsumed(st))
		}
		c := cons[i]
		switch it.kind {
		case "char":
			if c.kind != "char" || c.ch != it.ch {
				return false, fmt.Sprintf("token character %s does not line up with consumed %s", x.describeItem(it, st), x.describeConsumed(st))
			}
			if st.facts[it.ch].eof != 2 {
				return false, fmt.Sprintf("character c%d is written to the token value without being known not to be the end-of-input marker (U+FFFD would be invented)", it.ch)
			}
		case "const":
			if it.r == -2 {
				return false, "the token value contains text the analysis cannot relate to the characters read"
			}
			if c.kind != "char" || st.facts[c.ch].eq == nil || *st.facts[c.ch].eq != it.r {
				return false, fmt.Sprintf("the constant %q in the token value is not known to equal the character consumed at that position", it.r)
			}
		case "blob":
			if c.kind != "blob" || c.blob != it.blob {
				return false, "a delegate's output is not placed where it was consumed"
			}
		}
		i++
	}
	if i < len(cons) {
		rest := &sstate{facts: st.facts, consumed: cons[i:]}
		return false, fmt.Sprintf("%s consumed but missing from the token value and not pushed back: a character is dropped", x.describeConsumed(rest))
	}
	return true, fmt.Sprintf("value = the %d consumed item(s)", len(cons))
}

func (x *scanExec) describeItem(it sitem, st *sstate) string {
	switch it.kind {
	case "char":
		return fmt.Sprintf("c%d", it.ch)
	case "const":
		return fmt.Sprintf("%q", it.r)
	}
	return "delegate-output"
}

// positionOK: line/column of a token this state builds were taken by Line()/Column() right after the first
// character was read, or by PeekLine()/PeekColumn() before anything was read.
func (x *scanExec) positionOK(tk *stoken, st *sstate) (bool, string) {
	check := func(v sval, want1, want2 string) (bool, string) {
		if v.kind != "pos" {
			return false, "the position argument is not a scanner position"
		}
		p := v.pos
		switch p.fn {
		case want1:
			if p.reads == 1 && p.depth == 1 && p.afterOps == 1 {
				return true, ""
			}
			return false, fmt.Sprintf("%s() was called after %d read(s) with %d character(s) consumed (%d scanner movements): it must be called right after the first character", p.fn, p.reads, p.depth, p.afterOps)
		case want2:
			if p.afterOps == 0 {
				return true, ""
			}
			return false, fmt.Sprintf("%s() was called after the scanner had already moved (%d movements)", p.fn, p.afterOps)
		case "delegate":
			return true, ""
		}
		return false, "position taken by " + p.fn + "()"
	}
	if ok, why := check(tk.line, "Line", "PeekLine"); !ok {
		return false, "line: " + why
	}
	if ok, why := check(tk.col, "Column", "PeekColumn"); !ok {
		return false, "column: " + why
	}
	return true, ""
}

// aggregate outcomes per site.
func (x *scanExec) bySite() (sites []string, agg map[string]*scanOutcome, counts map[string]int) {
	agg = map[string]*scanOutcome{}
	counts = map[string]int{}
	for i := range x.outcomes {
		o := x.outcomes[i]
		counts[o.site]++
		cur, ok := agg[o.site]
		if !ok {
			c := o
			agg[o.site] = &c
			sites = append(sites, o.site)
			continue
		}
		if cur.ok && !o.ok {
			cur.ok, cur.msg = false, o.msg
		}
		if cur.posOK && !o.posOK {
			cur.posOK, cur.posMsg = false, o.posMsg
		}
	}
	sort.Strings(sites)
	return
}
