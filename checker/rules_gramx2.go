package main

import (
	"fmt"
	"go/types"
	"regexp"
	"sort"
	"strings"
	"sync"

	"golang.org/x/tools/go/ssa"
)

// ---------------------------------------------------------------------------------------------
// GRAM.eval — the stack evaluator evaluated abstractly through the calculator's exported API.
//
// NewExpressionCalculator / SetVariantOperations / SetOriginalTokens / EvaluateUsingVariablesAndFunctions
// run on the abstract machine with an opaque IVariantOperations, an opaque variable collection and an
// opaque function collection: every operation the evaluator applies, with the identity of its operands
// in order, is observed, and compared with the evaluation of the expression's syntax tree as the
// statement fixes it (each node applies its variant operation to its operands in written order; calls
// receive exactly their written arguments in order). Operand values cover strings, both booleans,
// null and an integer, so an evaluator that skips the operation for some operand kind is seen.
// ---------------------------------------------------------------------------------------------

type geHarness struct {
	c       *Ctx
	m       *mach
	calc    mv
	fault   string
	gx      *gxHarness // shares the machine: token construction and accessors
	names   map[*mv]string
	vals    map[string]mv
	trace   []string
	nres    int
	set     int    // which of two variable / function sets the next evaluation is given (1 or 2)
	writes  string // a mutating call the evaluator made on the caller's collections
	failAt  int    // 1-based index of the operation that fails (0 = none)
	nops    int
	inTrue  bool
	fns     map[string]*ssa.Function
	vtNames map[int64]string
}

func (c *Ctx) newGeHarness() *geHarness {
	h := &geHarness{c: c, names: map[*mv]string{}, vals: map[string]mv{}, fns: map[string]*ssa.Function{}, inTrue: true, set: 1}
	h.gx = c.newGxHarness()
	h.m = h.gx.m
	if h.gx.fault != "" {
		h.fault = h.gx.fault
		return h
	}
	for _, n := range []string{"VariantFromString", "VariantFromBoolean", "VariantFromInteger", "EmptyVariant"} {
		h.fns[n] = c.MustFunc(pkgVariants, "", n)
	}
	h.vtNames = c.constNames(pkgVariants, "VariantType")
	ctor := c.MustFunc(pkgCalc, "", "NewExpressionCalculator")
	calc, out := h.m.Call(ctor)
	if out.kind != "ok" {
		h.fault = "NewExpressionCalculator: " + out.why
		return h
	}
	h.calc = calc
	setOps := c.MustFunc(pkgCalc, "ExpressionCalculator", "SetVariantOperations")
	ops := &mSym{name: "ops", nonNil: true}
	if _, out := h.m.Call(setOps, calc, ops); out.kind != "ok" {
		h.fault = "SetVariantOperations: " + out.why
		return h
	}
	h.m.symCall = h.symCall
	return h
}

func (h *geHarness) mk(ctor string, args ...mv) mv {
	v, out := h.m.Call(h.fns[ctor], args...)
	if out.kind != "ok" {
		panic(mAbort{"constructing a variant: " + out.why})
	}
	return v
}

func (h *geHarness) operand(name string) mv {
	key := name
	prefix := "val:"
	if h.set == 2 {
		key = "2:" + name
		prefix = "val2:"
	}
	if v, ok := h.vals[key]; ok {
		return v
	}
	var v mv
	switch name {
	case "t":
		v = h.mk("VariantFromBoolean", true)
	case "f":
		v = h.mk("VariantFromBoolean", false)
	case "n":
		v = h.mk("EmptyVariant")
	case "z":
		v = h.mk("VariantFromInteger", int64(0))
	default:
		v = h.mk("VariantFromString", prefix+name)
	}
	h.vals[key] = v
	if p, ok := v.(*mv); ok {
		h.names[p] = prefix + name
	}
	return v
}

func (h *geHarness) nameOf(v mv) string {
	switch p := v.(type) {
	case *mv:
		if p == nil {
			return "nil"
		}
		if n, ok := h.names[p]; ok {
			return n
		}
		// a variant made by the evaluator itself: its type and payload
		vt := h.c.MustFunc(pkgVariants, "Variant", "Type")
		ao := h.c.MustFunc(pkgVariants, "Variant", "AsObject")
		t, o1 := h.m.Call(vt, v)
		pl, o2 := h.m.Call(ao, v)
		if o1.kind == "ok" && o2.kind == "ok" {
			tn := mRender(t)
			if k, ok := t.(int64); ok && h.vtNames[k] != "" {
				tn = h.vtNames[k]
			}
			return fmt.Sprintf("new(%s,%s)", tn, mRender(pl))
		}
		return "new(?)"
	case mNilT:
		return "nil"
	}
	return mRender(v)
}

func (h *geHarness) symCall(m *mach, recv *mSym, method *types.Func, args []mv) (mv, bool) {
	switch {
	case (recv.name == "vars" || recv.name == "vars2") && method.Name() == "FindByName":
		n, _ := args[0].(string)
		return &mSym{name: "var:" + n, nonNil: true}, true
	case strings.HasPrefix(recv.name, "var:") && method.Name() == "Value":
		return h.operand(strings.TrimPrefix(recv.name, "var:")), true
	case recv.name == "funcs2" && method.Name() == "FindByName":
		n, _ := args[0].(string)
		return &mSym{name: "fn:" + n + "@2", nonNil: true}, true
	case recv.name == "funcs" && method.Name() == "FindByName":
		n, _ := args[0].(string)
		return &mSym{name: "fn:" + n, nonNil: true}, true
	case strings.HasPrefix(recv.name, "fn:") && method.Name() == "Calculate":
		var as []string
		if sl, ok := args[0].(mSlice); ok {
			for _, a := range sl.arr {
				as = append(as, h.nameOf(a))
			}
		}
		opsName := h.nameOf(args[1])
		return h.result("call "+strings.TrimPrefix(recv.name, "fn:")+"("+strings.Join(as, ",")+") with "+opsName, false), true
	case recv.name == "vars" || recv.name == "funcs" || recv.name == "vars2" || recv.name == "funcs2":
		// anything but a lookup changes the caller's collection (Locate creates, Add / Remove / Clear …)
		switch method.Name() {
		case "FindIndexByName", "Length", "Get", "GetAll":
			return nil, false
		}
		if h.writes == "" {
			h.writes = "the evaluator calls " + method.Name() + " on the caller's " + map[string]string{"vars": "variable", "funcs": "function", "vars2": "variable", "funcs2": "function"}[recv.name] + " collection"
		}
		if strings.HasPrefix(recv.name, "vars") {
			n, _ := args[0].(string)
			return &mSym{name: "var:" + n, nonNil: true}, true
		}
		return nil, false
	case recv.name == "ops":
		var as []string
		for _, a := range args {
			as = append(as, h.nameOf(a))
		}
		return h.result(method.Name()+"("+strings.Join(as, ",")+")", method.Name() == "In"), true
	}
	return nil, false
}

func (h *geHarness) result(what string, isIn bool) mv {
	h.nops++
	if h.failAt == h.nops {
		h.trace = append(h.trace, what+" -> error")
		return mTuple{mNil, mIface{t: types.Universe.Lookup("error").Type(), v: &mSym{name: "injected-error", nonNil: true}}}
	}
	h.nres++
	name := fmt.Sprintf("r%d", h.nres)
	var v mv
	if isIn {
		v = h.mk("VariantFromBoolean", h.inTrue)
	} else {
		v = h.mk("VariantFromString", name)
	}
	if p, ok := v.(*mv); ok {
		h.names[p] = name
	}
	h.trace = append(h.trace, what+" -> "+name)
	return mTuple{v, mNil}
}

type geResult struct {
	kind   string // "ok", "error", "panic", "opaque"
	trace  []string
	result string
	why    string
}

// evaluate parses ls and evaluates it (failAt: the operation that fails, 0 = none).
func (h *geHarness) evaluate(ls []lexeme, failAt int, reparse bool) geResult {
	if h.fault != "" {
		return geResult{kind: "opaque", why: h.fault}
	}
	h.m.steps = 0
	h.trace, h.nres, h.nops, h.failAt = nil, 0, 0, failAt
	h.writes = ""
	if reparse {
		var arr []mv
		for i, l := range ls {
			t, out := h.m.Call(h.gx.newToken, h.gx.tokTypes[l.typ], l.text, int64(1), int64(i+1))
			if out.kind != "ok" {
				return geResult{kind: "opaque", why: "NewToken: " + out.why}
			}
			arr = append(arr, t)
		}
		set := h.c.MustFunc(pkgCalc, "ExpressionCalculator", "SetOriginalTokens")
		if _, out := h.m.Call(set, h.calc, mSlice{arr}); out.kind != "ok" {
			return geResult{kind: out.kind, why: "SetOriginalTokens: " + out.why}
		}
		// constants of the program, by position
		rt := h.c.MustFunc(pkgCalc, "ExpressionCalculator", "ResultTokens")
		rv, out := h.m.Call(rt, h.calc)
		if out.kind != "ok" {
			return geResult{kind: "opaque", why: "ResultTokens: " + out.why}
		}
		if sl, ok := rv.(mSlice); ok {
			tokT := rt.Signature.Results().At(0).Type().Underlying().(*types.Slice).Elem()
			for _, t := range sl.arr {
				ty, _ := h.gx.method(t, tokT, "Type")
				col, _ := h.gx.method(t, tokT, "Column")
				val, _ := h.gx.method(t, tokT, "Value")
				if tn, ok := ty.(int64); ok && h.gx.etNames[tn] == "Constant" {
					if p, ok := val.(*mv); ok && p != nil {
						if _, has := h.names[p]; !has {
							h.names[p] = fmt.Sprintf("const@%s", mRender(col))
						}
					}
				}
			}
		}
	}
	ev := h.c.MustFunc(pkgCalc, "ExpressionCalculator", "EvaluateUsingVariablesAndFunctions")
	var known []string
	for n := range h.vals {
		known = append(known, n)
	}
	sort.Strings(known)
	before := h.snapshot(known)
	instBefore := mFieldFingerprints(h.calc)
	varsName, funcsName := "vars", "funcs"
	if h.set == 2 {
		varsName, funcsName = "vars2", "funcs2"
	}
	r, out := h.m.Call(ev, h.calc, &mSym{name: varsName, nonNil: true}, &mSym{name: funcsName, nonNil: true})
	if h.writes != "" {
		return geResult{kind: "mutated", trace: h.trace, why: h.writes}
	}
	if after := h.snapshot(known); after != before && out.kind == "ok" {
		return geResult{kind: "mutated", trace: h.trace, why: fmt.Sprintf("before [%s] after [%s]", before, after)}
	}
	if out.kind == "ok" {
		if ch := changedFields(ev.Signature.Recv().Type(), instBefore, mFieldFingerprints(h.calc)); len(ch) > 0 {
			return geResult{kind: "mutated", trace: h.trace, why: fmt.Sprintf("the evaluation writes the calculator instance (state reachable from its field %s differs afterwards): concurrent evaluations of one parsed instance race on it", strings.Join(ch, ", "))}
		}
	}
	switch out.kind {
	case "panic":
		return geResult{kind: "panic", why: out.why, trace: h.trace}
	case "opaque":
		return geResult{kind: "opaque", why: out.why, trace: h.trace}
	}
	tp, ok := r.(mTuple)
	if !ok || len(tp) != 2 {
		return geResult{kind: "opaque", why: "unexpected result shape"}
	}
	if _, isNil := tp[1].(mNilT); !isNil {
		code := errorCode(tp[1])
		if code == "" {
			code = mRender(tp[1])
		}
		return geResult{kind: "error", trace: h.trace, result: "error " + code}
	}
	return geResult{kind: "ok", trace: h.trace, result: h.nameOf(tp[0])}
}

// geOracle: the evaluation of the syntax tree (given as its post-order) per the statement.
func geOracle(ls []lexeme, rpn []string, spec map[string]evalSpec, inTrue bool) (trace []string, result string) {
	var stack []string
	nres := 0
	pop := func() string {
		if len(stack) == 0 {
			return "?"
		}
		x := stack[len(stack)-1]
		stack = stack[:len(stack)-1]
		return x
	}
	text := func(col int) string {
		if col >= 1 && col <= len(ls) {
			return ls[col-1].text
		}
		return "?"
	}
	for _, t := range rpn {
		var name string
		var col, cnt int
		if i := strings.Index(t, "#"); i >= 0 {
			fmt.Sscanf(t[i:], "#%d@%d", &cnt, &col)
			stack = append(stack, fmt.Sprintf("#%d", cnt))
			continue
		}
		i := strings.Index(t, "@")
		name = t[:i]
		fmt.Sscanf(t[i:], "@%d", &col)
		switch name {
		case "Variable":
			stack = append(stack, "val:"+text(col))
		case "Constant":
			stack = append(stack, fmt.Sprintf("const@%d", col))
		case "Function":
			var n int
			fmt.Sscanf(pop(), "#%d", &n)
			args := make([]string, n)
			for k := n - 1; k >= 0; k-- {
				args[k] = pop()
			}
			nres++
			trace = append(trace, fmt.Sprintf("call %s(%s) with ops -> r%d", text(col), strings.Join(args, ","), nres))
			stack = append(stack, fmt.Sprintf("r%d", nres))
		case "IsNull", "IsNotNull":
			x := pop()
			stack = append(stack, fmt.Sprintf("new(Boolean,%v)", (x == "val:n") == (name == "IsNull")))
		default:
			sp, ok := spec[name]
			if !ok {
				trace = append(trace, "no operation for "+name)
				continue
			}
			popped := []string{}
			for k := 0; k < sp.pops; k++ {
				popped = append(popped, pop())
			}
			var args []string
			for _, a := range sp.args {
				args = append(args, popped[a-1])
			}
			nres++
			trace = append(trace, fmt.Sprintf("%s(%s) -> r%d", sp.method, strings.Join(args, ","), nres))
			if sp.negate {
				stack = append(stack, fmt.Sprintf("new(Boolean,%v)", !inTrue))
			} else {
				stack = append(stack, fmt.Sprintf("r%d", nres))
			}
		}
	}
	if len(stack) == 1 {
		result = stack[0]
	}
	return
}

var reCallName = regexp.MustCompile(`call ([A-Za-z0-9_]+)\(`)

type geVerdict struct {
	name       string
	bad, undec string
	runs       int
	key        string
}

var geMemo []*geVerdict
var geMu sync.Mutex

func (c *Ctx) geRun() []*geVerdict {
	geMu.Lock()
	defer geMu.Unlock()
	if geMemo != nil {
		return geMemo
	}
	cp := c.inContainerParamByEvaluation()
	spec := evalOracle(cp)
	// LIKE: some operation must be applied to (a, b); which one the library does not define (it has none)
	spec["Like"] = evalSpec{"Like", 2, []int{2, 1}, false}
	spec["NotLike"] = evalSpec{"Like", 2, []int{2, 1}, true}
	var items []struct{ fam, expr string }
	// every binary operator over every pair of operand kinds; prefix and postfix operators over every kind
	kinds := []string{"a", "t", "f", "n", "z", "1"}
	for _, op := range gxBinaryLexemes {
		if op == "LIKE" {
			continue // LIKE is decided on its own (family like-operators)
		}
		for _, x := range kinds {
			for _, y := range kinds {
				items = append(items, struct{ fam, expr string }{"operand-kinds", x + " " + op + " " + y})
			}
		}
	}
	for _, x := range kinds {
		for _, e := range []string{"NOT " + x, "- " + x, x + " IS NULL", x + " IS NOT NULL", x + " NOT IN b", "a NOT IN " + x, x + " [ b ]", "a [ " + x + " ]", "g ( " + x + " )", "g ( a , " + x + " )"} {
			items = append(items, struct{ fam, expr string }{"operand-kinds", e})
		}
	}
	items = append(items, struct{ fam, expr string }{"operator-LIKE", "a LIKE b"}, struct{ fam, expr string }{"operator-NOT-LIKE", "a NOT LIKE b"})
	// the sentences of the parser families
	for _, f := range gxFamilies(false) {
		switch f.name {
		case "operator-pairs", "equal-level-chains", "prefix-postfix-call-index-against-binary", "calls-index-grouping", "nested-calls", "spacing-comments-case", "long-flat-and-deep-sentences":
			// (the last one: white-space and comment tokens anywhere, keywords in any letter case - the value is that of the bare token string)
			for _, it := range f.items {
				if strings.Contains(strings.ToUpper(it), "LIKE") {
					continue
				}
				items = append(items, struct{ fam, expr string }{f.name, it})
			}
		}
	}
	verdicts := map[string]*geVerdict{}
	var order []string
	get := func(n string) *geVerdict {
		if v, ok := verdicts[n]; ok {
			return v
		}
		v := &geVerdict{name: n}
		verdicts[n] = v
		order = append(order, n)
		return v
	}
	nw := 12
	type res struct{ fam, bad, undec string }
	results := make([]res, len(items))
	var wg sync.WaitGroup
	for w := 0; w < nw; w++ {
		wg.Add(1)
		go func(w int) {
			defer wg.Done()
			h := c.newGeHarness()
			for i := w; i < len(items); i += nw {
				it := items[i]
				r := res{fam: it.fam}
				ls := lexemes(it.expr)
				acc, rpn := gxReference(ls)
				if !acc {
					results[i] = r
					continue
				}
				show := gxShowItem(it.expr)
				noteSample("GRAM.eval/"+it.fam, show)
				for _, inTrue := range []bool{true, false} {
					if !strings.Contains(it.expr, " IN ") && !inTrue {
						continue
					}
					h.inTrue = inTrue
					wantTrace, wantRes := geOracle(ls, rpn, spec, inTrue)
					got := h.evaluate(ls, 0, true)
					switch {
					case got.kind == "opaque":
						r.undec = show + ": " + got.why
					case got.kind == "mutated":
						r.bad = fmt.Sprintf("evaluating %s changes the compiled program or the value of a variable: %s", show, got.why)
					case got.kind == "panic":
						r.bad = fmt.Sprintf("evaluating %s panics: %s", show, got.why)
					case got.kind == "error":
						r.bad = fmt.Sprintf("evaluating %s fails with %s after [%s]; its syntax tree evaluates as [%s]", show, got.result, gxShowSeq(got.trace, "; "), gxShowSeq(wantTrace, "; "))
					case strings.Join(got.trace, "; ") != strings.Join(wantTrace, "; "):
						r.bad = fmt.Sprintf("evaluating %s applies [%s]; its syntax tree, operands in written order, evaluates as [%s]", show, gxShowSeq(got.trace, "; "), gxShowSeq(wantTrace, "; "))
					case got.result != wantRes:
						r.bad = fmt.Sprintf("evaluating %s returns %s; the value of its syntax tree is %s", show, got.result, wantRes)
					}
					if r.bad != "" || r.undec != "" {
						break
					}
					// evaluating again gives the same operations and result (the program and the stack are not shared state)
					again := h.evaluate(ls, 0, false)
					if again.kind == "ok" && (strings.Join(again.trace, "; ") != strings.Join(wantTrace, "; ") || again.result != wantRes) || again.kind == "error" || again.kind == "panic" {
						r.bad = fmt.Sprintf("evaluating %s a second time gives [%s] → %s %s, the first time [%s] → %s", show, gxShowSeq(again.trace, "; "), again.kind, again.result, gxShowSeq(wantTrace, "; "), wantRes)
					}
					// interleaved with an evaluation under another variable set and another function table:
					// that evaluation uses only the other set, and the first set's results are unaffected
					if r.bad == "" {
						h.set = 2
						other := h.evaluate(ls, 0, false)
						h.set = 1
						wantOther := strings.ReplaceAll(strings.Join(wantTrace, "; "), "val:", "val2:")
						wantOther = reCallName.ReplaceAllString(wantOther, "call $1@2(")
						gotOther := strings.Join(other.trace, "; ")
						if other.kind == "ok" && gotOther != wantOther {
							r.bad = fmt.Sprintf("evaluating %s with a second variable set and function table applies [%s]; with only that set's variables and functions it is [%s]: something resolved in an earlier evaluation is reused", show, gotOther, wantOther)
						}
						back := h.evaluate(ls, 0, false)
						if back.kind == "ok" && r.bad == "" && (strings.Join(back.trace, "; ") != strings.Join(wantTrace, "; ") || back.result != wantRes) {
							r.bad = fmt.Sprintf("after an evaluation of %s under another variable set, evaluating with the first set gives [%s] → %s instead of [%s] → %s", show, gxShowSeq(back.trace, "; "), back.result, gxShowSeq(wantTrace, "; "), wantRes)
						}
					}
					// a failing operation ends the evaluation with its error, and the next evaluation is unaffected
					// (not for the long sentences: one failing run per operation of a 130-operand chain adds nothing)
					if len(wantTrace) > 0 && r.bad == "" && i%3 == 0 && it.fam != "long-flat-and-deep-sentences" {
						for k := 1; k <= len(wantTrace) && r.bad == ""; k++ {
							failed := h.evaluate(ls, k, false)
							if failed.kind == "ok" {
								r.bad = fmt.Sprintf("evaluating %s succeeds with %s although its operation %d (%s) failed", show, failed.result, k, wantTrace[k-1])
								break
							}
							if failed.kind == "panic" {
								r.bad = fmt.Sprintf("evaluating %s panics (%s) when its operation %d fails", show, failed.why, k)
								break
							}
							after := h.evaluate(ls, 0, false)
							if after.kind != "ok" || strings.Join(after.trace, "; ") != strings.Join(wantTrace, "; ") || after.result != wantRes {
								r.bad = fmt.Sprintf("after an evaluation of %s that failed at operation %d, the next evaluation gives [%s] → %s %s instead of [%s] → %s: state survives between evaluations", show, k, gxShowSeq(after.trace, "; "), after.kind, after.result, gxShowSeq(wantTrace, "; "), wantRes)
							}
						}
					}
				}
				r.bad = gxClip(r.bad)
				results[i] = r
			}
		}(w)
	}
	wg.Wait()
	for _, r := range results {
		if r.fam == "" {
			continue
		}
		v := get(r.fam)
		v.runs++
		if r.bad != "" && v.bad == "" {
			v.bad = r.bad
		}
		if r.undec != "" && v.undec == "" {
			v.undec = r.undec
		}
	}
	if cp < 0 {
		for _, v := range verdicts {
			if v.undec == "" {
				v.undec = "the container parameter of the In operation could not be determined"
			}
		}
	}
	for _, n := range order {
		geMemo = append(geMemo, verdicts[n])
	}
	return geMemo
}

func init() {
	register(&Rule{ID: "GRAM.eval", Floor: 6,
		Doc: "the stack evaluator run abstractly through NewExpressionCalculator/SetVariantOperations/SetOriginalTokens/EvaluateUsingVariablesAndFunctions with opaque operations, variables and functions: for every sentence of the parser families (white-space and comment tokens anywhere and keywords in any letter case included) and every operator over every pair of operand kinds (string, true, false, null, integer, literal) the operations applied, their operands in order, the arguments of calls and the result equal the evaluation of the syntax tree; a second evaluation and an evaluation after a failed one give the same",
		Run: ruleGramEval})
}

func ruleGramEval(c *Ctx) []*Obligation {
	o := newObl("GRAM.eval")
	pos := c.Pos(c.MustFunc(pkgCalc, "ExpressionCalculator", "EvaluateUsingVariablesAndFunctions").Pos())
	for _, v := range c.geRun() {
		key := "calculator.ExpressionCalculator#evaluates-tree#" + v.name
		switch {
		case v.bad != "":
			o.bad(key, pos, v.bad)
		case v.undec != "":
			o.undecided(key, pos, v.undec)
		default:
			o.ok(key, pos, fmt.Sprintf("%d expressions: operations, operand order, call arguments and result equal the syntax tree's; repeatable", v.runs))
		}
	}
	return o.list
}

// inContainerParamByEvaluation: which parameter of In is the list - found by evaluating
// In([1 2], 2) and In(2, [1 2]) with the type-unsafe operations (-1 if neither answers true).
func (c *Ctx) inContainerParamByEvaluation() int {
	h := c.newVxHarness("TypeUnsafeVariantOperations")
	if h.fault != "" {
		return -1
	}
	f := c.lookupMethod(h.mgrT, "In")
	if f == nil {
		return -1
	}
	mk := func() (mv, mv) {
		e1, e2 := h.variant("Integer", int64(1)), h.variant("Integer", int64(2))
		arr, _ := h.m.Call(c.MustFunc(pkgVariants, "", "VariantFromArray"), mSlice{[]mv{e1, e2}})
		return arr, h.variant("Integer", int64(2))
	}
	isTrue := func(r mv, out mOutcome) bool {
		tp, ok := r.(mTuple)
		if out.kind != "ok" || !ok || len(tp) != 2 {
			return false
		}
		if _, isNil := tp[0].(mNilT); isNil {
			return false
		}
		return h.typeOf(tp[0]) == "Boolean" && h.payloadOf(tp[0]) == "true"
	}
	arr, item := mk()
	if isTrue(h.m.Call(f, h.mgr, arr, item)) {
		return 0
	}
	arr, item = mk()
	if isTrue(h.m.Call(f, h.mgr, item, arr)) {
		return 1
	}
	return -1
}

// snapshot renders the compiled program (type, position and payload of every result token) and the
// values of the variables handed out so far: an evaluation must leave both unchanged.
func (h *geHarness) snapshot(names []string) string {
	var sb strings.Builder
	rt := h.c.MustFunc(pkgCalc, "ExpressionCalculator", "ResultTokens")
	rv, out := h.m.Call(rt, h.calc)
	if out.kind == "ok" {
		if sl, ok := rv.(mSlice); ok {
			tokT := rt.Signature.Results().At(0).Type().Underlying().(*types.Slice).Elem()
			for _, t := range sl.arr {
				ty, _ := h.gx.method(t, tokT, "Type")
				col, _ := h.gx.method(t, tokT, "Column")
				val, _ := h.gx.method(t, tokT, "Value")
				sb.WriteString(mRender(ty) + "@" + mRender(col) + "=" + h.valueText(val) + " ")
			}
		}
	}
	for _, n := range names {
		sb.WriteString(n + "=" + h.valueText(h.vals[n]) + " ")
	}
	return sb.String()
}

func (h *geHarness) valueText(v mv) string {
	p, ok := v.(*mv)
	if !ok || p == nil {
		return "nil"
	}
	vt := h.c.MustFunc(pkgVariants, "Variant", "Type")
	ao := h.c.MustFunc(pkgVariants, "Variant", "AsObject")
	t, o1 := h.m.Call(vt, v)
	pl, o2 := h.m.Call(ao, v)
	if o1.kind != "ok" || o2.kind != "ok" {
		return "?"
	}
	return mRender(t) + ":" + mRender(pl)
}
